import Pkgcore.Model.C06
/-!
# C08 model — `repository/prototype.py` `tree.itermatch` and its candidate pruning, `multiplex`, `filtered`
(as written after the `fix:` commits)

A repository is the three lazily filled mappings of `prototype.tree`: `categories`, `packages[cat]`,
`versions[(cat, pkg)]` — here an association list.  A query restriction is a C06 tree `R` whose leaf ids are described
by a table `tbl : Nat → Leaf`:

* `cat negate vr` / `pkg negate vr` = `PackageRestriction("category" / "package", vr, negate=negate)` (and the
  `CategoryDep` / `PackageDep` subclasses) with `vr` a value restriction on the name: a case-sensitive `StrExactMatch`
  (`exact s negate`) or anything else (`other id`, an arbitrary predicate on strings — globs, regexes, containment,
  value-level boolean trees, case-insensitive exact matches);
* `other id` = any other leaf (version, slot, USE, AlwaysBool, Conditional, …): an arbitrary predicate on packages.

`pmatches` is `restrict.match(pkg)` = C06's `mtch` under the valuation the package induces.  `identify` mirrors
`_identify_candidates`, `fast` `_fast_identify_candidates`, `fromRestrictions` `_candidates_from_restrictions`,
`catFilter` / `packageFilter` the two generators, `genCandidates` `_internal_gen_candidates`, `itermatch` the public
entry (including the atom short cut).  The `sorter` argument is a record of the functions it induces on lists of names,
of `(cat, pkg)` pairs and of packages, plus the `sorter is iter` test.  Python sets of restrictions are lists here (only
emptiness and "does any member match" are observed); the sets of exact names are de-duplicated lists (their length is
observed).
-/
namespace Pkgcore.C08
open Pkgcore.C06 (R Clause dnf mtch)

abbrev Str := List Char
abbrev CP := Str × Str

/-- a package instance as the repository creates it: `package_class(cat, pkg, ver)`, or the unversioned
`raw_pkg_cls(cat, pkg)` (`ver = none`) -/
structure Pkg where
  cat : Str
  name : Str
  ver : Option Str
  deriving DecidableEq, Repr, Inhabited

/-- value restriction applied to a category or package name -/
inductive VR where
  | exact (s : Str) (negate : Bool)     -- case-sensitive StrExactMatch
  | containAny (xs : List Str)          -- ContainmentMatch(frozenset(xs)) on a str: "is any member a substring"
  | other (id : Nat)
  deriving DecidableEq, Repr, Inhabited

inductive Leaf where
  | cat (negate : Bool) (vr : VR)
  | pkg (negate : Bool) (vr : VR)
  | other (id : Nat)
  deriving DecidableEq, Repr, Inhabited

structure Env where
  vmatch : Nat → Str → Bool             -- match of the opaque value restrictions (their own negate included)
  pmatch : Nat → Pkg → Bool             -- match of the opaque leaves

def isInfix (a b : Str) : Bool := (List.range (b.length + 1)).any fun i => (b.drop i).take a.length == a

def vrMatch (env : Env) : VR → Str → Bool
  | .exact s n, x => (s == x) != n
  | .containAny xs, x => xs.any fun f => isInfix f x
  | .other i, x => env.vmatch i x

/-- `PackageRestriction.match`: `self.restriction.match(attr) != self.negate` -/
def leafMatch (env : Env) (tbl : Nat → Leaf) (i : Nat) (pk : Pkg) : Bool :=
  match tbl i with
  | .cat n vr => vrMatch env vr pk.cat != n
  | .pkg n vr => vrMatch env vr pk.name != n
  | .other j => env.pmatch j pk

def val (env : Env) (tbl : Nat → Leaf) (pk : Pkg) : Nat → Bool := fun i => leafMatch env tbl i pk

/-- `restrict.match(pkg)` -/
def pmatches (env : Env) (tbl : Nat → Leaf) (r : R) (pk : Pkg) : Bool := mtch (val env tbl pk) r

/-! ## the repository mappings -/
structure Repo where
  cats : List (Str × List (Str × List Str))
  deriving Repr, Inhabited

def Repo.categories (r : Repo) : List Str := r.cats.map (·.1)
/-- `self.packages.get(c, ())` -/
def Repo.packages (r : Repo) (c : Str) : List Str :=
  match r.cats.lookup c with
  | some ps => ps.map (·.1)
  | none => []
/-- `self.versions.get(cp, ())` -/
def Repo.versions (r : Repo) (cp : CP) : List Str :=
  match r.cats.lookup cp.1 with
  | some ps => (ps.lookup cp.2).getD []
  | none => []
/-- iterating `self.versions`: `for cat, pkgs in packages.items(): for pkg in pkgs: yield (cat, pkg)` -/
def Repo.versionKeys (r : Repo) : List CP := r.categories.flatMap fun c => (r.packages c).map fun p => (c, p)

structure Sorter where
  isIter : Bool
  strs : List Str → List Str
  cps : List CP → List CP
  pkgs : List Pkg → List Pkg

/-! ## candidate pruning -/

/-- building a Python `set` of names: first occurrences removed, no duplicates left -/
def dedup : List Str → List Str
  | [] => []
  | x :: xs => if (dedup xs).contains x then dedup xs else x :: dedup xs

def exactOf : VR → Option Str
  | .exact s false => some s
  | _ => none

/-- `_cat_filter` -/
def catFilter (env : Env) (repo : Repo) (rs : List VR) (negate : Bool) : List Str :=
  repo.categories.filter fun x => rs.any fun r => vrMatch env r x == !negate

/-- `_package_filter` -/
def packageFilter (env : Env) (repo : Repo) (cats : List Str) (rs : List VR) (negate : Bool) : List CP :=
  cats.flatMap fun c => ((repo.packages c).filter fun p => rs.any fun r => vrMatch env r p == !negate).map fun p => (c, p)

def product (repo : Repo) (S : Sorter) (cats : List Str) : List CP :=
  cats.flatMap fun c => (S.strs (repo.packages c)).map fun p => (c, p)

/-- the middle of `_candidates_from_restrictions`: the categories to walk (`cats_iter`) and `cat_restrict` as it is
afterwards (the containment of the exact names may have been added to it) -/
def catsStage (env : Env) (repo : Repo) (S : Sorter) (catExact : List Str) (catRest : List VR) (negate : Bool) :
    List Str × List VR :=
  if !catExact.isEmpty then
    if catRest.isEmpty && catExact.length == 1 then (catExact, catRest)                     -- cats_iter = [c]
    else (S.strs (catFilter env repo (catRest ++ [.containAny catExact]) false), catRest ++ [.containAny catExact])
  else if !catRest.isEmpty then (catFilter env repo catRest negate, catRest)
  else (S.strs repo.categories, catRest)

/-- the end of `_candidates_from_restrictions` -/
def pkgStage (env : Env) (repo : Repo) (S : Sorter) (catExact : List Str) (catsIter : List Str) (catRest' : List VR)
    (pkgExact : List Str) (pkgRest : List VR) (negate : Bool) : List CP :=
  if !pkgExact.isEmpty && pkgRest.isEmpty then
    catsIter.flatMap fun c => (if S.isIter then pkgExact else S.strs pkgExact).map fun p => (c, p)
  else
    let pkgRest' := if !pkgExact.isEmpty then pkgRest ++ [.containAny pkgExact] else pkgRest
    if !pkgRest'.isEmpty then packageFilter env repo catsIter pkgRest' negate
    else if catRest'.isEmpty then
      if S.isIter && catExact.isEmpty then repo.versionKeys else product repo S catsIter
    else product repo S catsIter

/-- `_candidates_from_restrictions(cat_restrict, pkg_restrict, negate, sorter)` -/
def fromRestrictions (env : Env) (repo : Repo) (S : Sorter) (catR pkgR : List VR) (negate : Bool) : List CP :=
  -- the exact, un-negated, case-sensitive StrExactMatch members are moved into the sets of exact names …
  let catRest := catR.filter fun r => (exactOf r).isNone
  let pkgRest := pkgR.filter fun r => (exactOf r).isNone
  -- … which are dropped again when the restriction is negated
  let catExact := if negate then [] else dedup (catR.filterMap exactOf)
  let pkgExact := if negate then [] else dedup (pkgR.filterMap exactOf)
  match catExact, catRest, pkgExact, pkgRest with
  | [c], [], [p], [] => if (repo.packages c).contains p then [(c, p)] else []      -- `if cp in self.versions`
  | _, _, _, _ =>
    let cr := catsStage env repo S catExact catRest negate
    pkgStage env repo S catExact cr.1 cr.2 pkgExact pkgRest negate

mutual
/-- `collect_package_restrictions(restrict, …)`: flattens through every iterable that is not a package-type leaf —
all boolean nodes and atoms, whatever their negate — but not through `Negate` (not iterable) -/
def collectAll : R → List Nat
  | .leaf i => [i]
  | .neg _ => []
  | .and _ cs => collectAllL cs
  | .or _ cs => collectAllL cs
  | .justOne _ cs => collectAllL cs
  | .atMostOne _ cs => collectAllL cs
  | .atom cs => collectAllL cs
def collectAllL : List R → List Nat
  | [] => []
  | c :: cs => collectAll c ++ collectAllL cs
end

/-- `_fast_identify_candidates(restrict, sorter)`; `getattr(restrict, "negate", False)` is the wrapper's negate for a
category / package leaf (for other leaves nothing is harvested and the result does not depend on it) -/
def fast (env : Env) (tbl : Nat → Leaf) (repo : Repo) (S : Sorter) (r : R) : List CP :=
  let ids := collectAll r
  let catR := ids.filterMap fun i => match tbl i with | .cat _ vr => some vr | _ => none
  let pkgR := ids.filterMap fun i => match tbl i with | .pkg _ vr => some vr | _ => none
  let negate := match r with
    | .leaf i => (match tbl i with | .cat n _ => n | .pkg n _ => n | .other _ => false)
    | _ => false
  fromRestrictions env repo S catR pkgR negate

/-- `required(solution, attr)`: the un-negated category (package) restrictions that are direct members of a solution -/
def required (tbl : Nat → Leaf) (wantCat : Bool) (cl : Clause) : List VR :=
  cl.filterMap fun m => match m with
    | .leaf i => (match tbl i, wantCat with
      | .cat false vr, true => some vr
      | .pkg false vr, false => some vr
      | _, _ => none)
    | _ => none

/-- the whole search space: `self.versions` when `sorter is iter`, else the sorted double loop -/
def allCps (repo : Repo) (S : Sorter) : List CP :=
  if S.isIter then repo.versionKeys else product repo S (S.strs repo.categories)

/-- `isinstance(restrict, boolean.base) and not isinstance(restrict, atom)` -/
def isBoolNode : R → Bool
  | .and _ _ => true
  | .or _ _ => true
  | .justOne _ _ => true
  | .atMostOne _ _ => true
  | _ => false

/-- `_identify_candidates(restrict, sorter)` -/
def identify (env : Env) (tbl : Nat → Leaf) (repo : Repo) (S : Sorter) (r : R) : List CP :=
  if !isBoolNode r then fast env tbl repo S r
  else
    let ds := (dnf true r).map fun cl => (required tbl true cl, required tbl false cl)
    if ds.any (fun x => x.1.isEmpty && x.2.isEmpty) then allCps repo S
    else
      match ds with
      | [] => []                    -- `dsolutions[0]` would raise; excluded by C06 `dnf_total`
      | d0 :: rest =>
        let catSpec := !d0.1.isEmpty
        let pkgSpec := !d0.2.isEmpty
        if rest.any (fun x => (!x.1.isEmpty) != catSpec) then
          if rest.any (fun x => (!x.2.isEmpty) != pkgSpec) then repo.versionKeys
          else
            let pr := ds.flatMap (·.2)
            (S.strs repo.categories).flatMap fun c =>
              ((S.strs (repo.packages c)).filter fun p => pr.any fun r => vrMatch env r p).map fun p => (c, p)
        else if rest.any (fun x => (!x.2.isEmpty) != pkgSpec) then
          let cr := ds.flatMap (·.1)
          product repo S ((S.strs repo.categories).filter fun c => cr.any fun r => vrMatch env r c)
        else fromRestrictions env repo S (ds.flatMap (·.1)) (ds.flatMap (·.2)) false

/-! ## itermatch -/

/-- `_internal_gen_candidates` (default `pkg_filter = iter`) -/
def genCandidates (repo : Repo) (S : Sorter) (versioned : Bool) (cands : List CP) : List Pkg :=
  (S.cps cands).flatMap fun cp =>
    if versioned then S.pkgs ((repo.versions cp).map fun v => ⟨cp.1, cp.2, some v⟩)
    else if (repo.versions cp).isEmpty then [] else S.pkgs [⟨cp.1, cp.2, none⟩]

/-- `(restrict.category, restrict.package)` of an atom: the names its CategoryDep / PackageDep members test for -/
def atomKey (tbl : Nat → Leaf) (cs : List R) : Option CP :=
  let c := cs.findSome? fun m => match m with
    | .leaf i => (match tbl i with | .cat false (.exact s false) => some s | _ => none)
    | _ => none
  let p := cs.findSome? fun m => match m with
    | .leaf i => (match tbl i with | .pkg false (.exact s false) => some s | _ => none)
    | _ => none
  match c, p with
  | some c, some p => some (c, p)
  | _, _ => none

def candidates (env : Env) (tbl : Nat → Leaf) (repo : Repo) (S : Sorter) (r : R) : List CP :=
  match r with
  | .atom cs => (match atomKey tbl cs with
    | some cp => [cp]                                -- `if isinstance(restrict, atom): candidates = [(cat, pkg)]`
    | none => identify env tbl repo S r)
  | _ => identify env tbl repo S r

/-- `tree.itermatch(restrict, sorter=…, versioned=…)` -/
def itermatch (env : Env) (tbl : Nat → Leaf) (repo : Repo) (S : Sorter) (versioned : Bool) (r : R) : List Pkg :=
  (genCandidates repo S versioned (candidates env tbl repo S r)).filter (pmatches env tbl r)

/-- `multiplex.tree.itermatch` with the default sorter: the trees' answers one after the other -/
def multiplexMatch (env : Env) (tbl : Nat → Leaf) (trees : List Repo) (S : Sorter) (versioned : Bool) (r : R) : List Pkg :=
  trees.flatMap fun t => itermatch env tbl t S versioned r

/-- `filtered.tree.itermatch`: `filter` / `filterfalse` of the wrapped repository's answer by the filter restriction -/
def filteredMatch (env : Env) (tbl : Nat → Leaf) (repo : Repo) (S : Sorter) (versioned : Bool) (mask : R) (sentinel : Bool)
    (r : R) : List Pkg :=
  (itermatch env tbl repo S versioned r).filter fun pk => pmatches env tbl mask pk == sentinel

end Pkgcore.C08
