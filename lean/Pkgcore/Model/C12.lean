/-!
# C12 model — `incremental_expansion`, `optimize_incrementals`, `incremental_expansion_license`,
`collapsed_restrict_to_data` (`src/pkgcore/ebuild/misc.py`), `split_negations` (snakeoil) as written
(after the `fix:` commit to `optimize_incrementals`)

* Tokens are `List Char` (the callers obtain them with `str.split()`).
* A Python `set` of tokens is a list compared up to membership (`TSet`); `add` keeps an existing element,
  `discard` removes every copy, `clear` is `[]`.  Iterating over a `set` is iterating over *some* ordering of it;
  where the code does that (`pull_data` over `self.defaults`) the ordering is an explicit parameter.
* Exceptions: `ValueError("incomplete negation …")` ↦ `Err.incomplete`; `token[0]` on an empty token
  (`IndexError`, cannot happen for `split()` output) ↦ `Err.index`.
* Generators (`optimize_incrementals`) are the list of what they yield, or the error raised while they are consumed
  (every caller consumes them completely: `frozenset(...)`).
-/
namespace Pkgcore.C12

abbrev Tok := List Char
abbrev TSet := List Tok

inductive Err | incomplete | index
  deriving DecidableEq, Repr

deriving instance DecidableEq for Except

def sAdd (s : TSet) (x : Tok) : TSet := if s.contains x then s else s ++ [x]
def sDiscard (s : TSet) (x : Tok) : TSet := s.filter (· != x)
/-- `s.update(xs)` -/
def sUpdate (s : TSet) (xs : List Tok) : TSet := xs.foldl sAdd s
/-- `s.difference_update(xs)` -/
def sDiff (s : TSet) (xs : List Tok) : TSet := s.filter (fun x => !xs.contains x)

def star : Tok := ['*']

/-- one iteration of the loop of `incremental_expansion` -/
def expandStep (finalize : Bool) (s : TSet) (token : Tok) : Except Err TSet :=
  if token.isEmpty then .error .index
  else if token.head? = some '-' then
    let i := token.tail
    if i.isEmpty then .error .incomplete
    else
      let s := if i = star then [] else sDiscard s i
      .ok (if finalize then s else sAdd s token)
  else .ok (sAdd (sDiscard s ('-' :: token)) token)

/-- `incremental_expansion(iterable, orig, finalize=finalize)` -/
def expand (finalize : Bool) : List Tok → TSet → Except Err TSet
  | [], s => .ok s
  | t :: ts, s =>
    match expandStep finalize s t with
    | .error e => .error e
    | .ok s' => expand finalize ts s'

/-- the body of `optimize_incrementals` over the reversed sequence; `fin` is the `finalized` set -/
def optLoop : List Tok → TSet → Except Err (List Tok)
  | [], _ => .ok []
  | item :: rest, fin =>
    if item.isEmpty then .error .index
    else if item.head? = some '-' then
      let i := item.tail
      if i.isEmpty then .error .incomplete
      else if i = star then
        -- seen enough; the rest only has to be well formed
        (if rest.contains ['-'] then .error .incomplete else .ok [item])
      else if fin.contains i then optLoop rest fin
      else (optLoop rest (sAdd fin i)).map (item :: ·)
    else if fin.contains item then optLoop rest fin
    else (optLoop rest (sAdd fin item)).map (item :: ·)

/-- `list(optimize_incrementals(sequence))` -/
def optimize (toks : List Tok) : Except Err (List Tok) := optLoop toks.reverse []

/-- the loop of snakeoil `split_negations(iterable)` -/
def splitLoop : List Tok → List Tok → List Tok → Except Err (List Tok × List Tok)
  | [], neg, pos => .ok (neg, pos)
  | t :: ts, neg, pos =>
    if t.isEmpty then .error .index
    else if t.head? = some '-' then
      (if t.tail.isEmpty then .error .incomplete else splitLoop ts (neg ++ [t.tail]) pos)
    else splitLoop ts neg (pos ++ [t])

/-- snakeoil `split_negations(iterable)` ↦ `(neg, pos)` -/
def splitNegations (toks : List Tok) : Except Err (List Tok × List Tok) := splitLoop toks [] []

/-! ### ACCEPT_LICENSE -/

/-- `license_groups.get(g, ())` -/
def groupGet (groups : List (Tok × List Tok)) (g : Tok) : List Tok := (groups.lookup g).getD []

/-- one iteration of the loop of `incremental_expansion_license` -/
def licStep (licenses : List Tok) (groups : List (Tok × List Tok)) (seen : TSet) (token : Tok) : Except Err TSet :=
  if token.isEmpty then .error .index
  else if token.head? = some '-' then
    let i := token.tail
    if i.isEmpty then .error .incomplete
    else if i = star then .ok []
    else if i.head? = some '@' then
      let g := i.tail
      if g.isEmpty then .error .incomplete else .ok (sDiff seen (groupGet groups g))
    else .ok (sDiscard seen i)
  else if token.head? = some '@' then
    let g := token.tail
    if g.isEmpty then .error .incomplete else .ok (sUpdate seen (groupGet groups g))
  else if token = star then .ok (sUpdate seen licenses)
  else .ok (sAdd seen token)

/-- `incremental_expansion_license(pkg, licenses, license_groups, iterable)` -/
def expandLicFrom (licenses : List Tok) (groups : List (Tok × List Tok)) : List Tok → TSet → Except Err TSet
  | [], s => .ok s
  | t :: ts, s =>
    match licStep licenses groups s t with
    | .error e => .error e
    | .ok s' => expandLicFrom licenses groups ts s'

def expandLic (licenses : List Tok) (groups : List (Tok × List Tok)) (toks : List Tok) : Except Err TSet :=
  expandLicFrom licenses groups toks []

/-! ### `collapsed_restrict_to_data` -/

/-- the restriction of one `(restrict, data)` pair, reduced to what `__init__`/`pull_data` look at;
`m` = does it match the package at hand -/
inductive RKind
  | always (negate : Bool)            -- `AlwaysBool`; `negate=True` is `AlwaysTrue`
  | atom (key : Tok) (m : Bool)       -- an atom: stored under its `key`
  | multi (m : Bool)                  -- `boolean.AndRestriction`
  | cat (m : Bool) | pkg (m : Bool) | repo (m : Bool)   -- `PackageRestriction` on category / package / repo.repo_id
  deriving Repr

structure Collapsed where
  defaults : TSet                                  -- `self.defaults`
  repo : List (Bool × List Tok)
  cat : List (Bool × List Tok)
  pkg : List (Bool × List Tok)
  multi : List (Bool × List Tok)
  atoms : List (Tok × List (Bool × List Tok))      -- `self.atoms` (insertion ordered dict of lists)
  deriving Repr

/-- `atom_d.setdefault(key, []).append(x)` -/
def atomsAppend (atoms : List (Tok × List (Bool × List Tok))) (key : Tok) (x : Bool × List Tok) :
    List (Tok × List (Bool × List Tok)) :=
  if atoms.any (·.1 == key) then atoms.map (fun e => if e.1 == key then (e.1, e.2 ++ [x]) else e)
  else atoms ++ [(key, [x])]

structure Acc where
  always : List Tok := []
  repo : List (Bool × List Tok) := []
  cat : List (Bool × List Tok) := []
  pkg : List (Bool × List Tok) := []
  multi : List (Bool × List Tok) := []
  atoms : List (Tok × List (Bool × List Tok)) := []

/-- the `for a, data in restrict_pairs` loop body of `__init__` -/
def collectStep (acc : Acc) (e : RKind × List Tok) : Acc :=
  let (a, data) := e
  if data.isEmpty then acc
  else match a with
    | .always true =>
      { acc with always := acc.always ++ data,
                 atoms := acc.atoms.map fun (k, l) => (k, l ++ [(true, (data.filter (·.head? == some '-')).eraseDups)]) }   -- a set comprehension
    | .always false => acc
    | .atom key m => { acc with atoms := atomsAppend acc.atoms key (m, data) }
    | .multi m => { acc with multi := acc.multi ++ [(m, data)] }
    | .cat m => { acc with cat := acc.cat ++ [(m, data)] }
    | .pkg m => { acc with pkg := acc.pkg ++ [(m, data)] }
    | .repo m => { acc with repo := acc.repo ++ [(m, data)] }

/-- `collapsed_restrict_to_data(*sources, finalize_defaults=finalize)` (sources concatenated) -/
def collapse (finalize : Bool) (entries : List (RKind × List Tok)) : Except Err Collapsed :=
  let acc := entries.foldl collectStep {}
  match (if acc.always.isEmpty then .ok [] else expand finalize acc.always []) with
  | .error e => .error e
  | .ok d => .ok ⟨d, acc.repo, acc.cat, acc.pkg, acc.multi, acc.atoms⟩

/-- the matching data of `pull_data`/`iter_pull_data`, in their order: repo, cat, pkg, multi levels, then the atoms of `pkg.key` -/
def matching (c : Collapsed) (key : Tok) : List Tok :=
  let pick (l : List (Bool × List Tok)) : List Tok := (l.filter (·.1)).flatMap (·.2)
  pick c.repo ++ pick c.cat ++ pick c.pkg ++ pick c.multi ++ pick ((c.atoms.lookup key).getD [])

/-- `pull_data(pkg, pre_defaults=pre)`; `order` = the order in which the `set` `self.defaults` happens to be iterated
(used only when `pre` is non-empty) -/
def pullData (c : Collapsed) (key : Tok) (pre : List Tok) (order : List Tok) : Except Err TSet :=
  let s0 : Except Err TSet :=
    if pre.isEmpty then .ok (c.defaults.filter (·.head? != some '-'))     -- `defaults_finalized`
    else expand true order (pre.foldl sAdd [])
  match s0 with
  | .error e => .error e
  | .ok s => expand true (matching c key) s        -- (`if l:` only skips an expansion of nothing)

/-- the token stream of `iter_pull_data(pkg, pre_defaults=pre)` with `self.defaults` iterated as `order` -/
def iterPullData (c : Collapsed) (key : Tok) (pre : List Tok) (order : List Tok) : List Tok :=
  pre ++ order ++ matching c key

end Pkgcore.C12
