/-!
# C11 model — `incremental_chunked`, `_build_cp_atom_payload`, `ChunkedDataDict` (`src/pkgcore/ebuild/misc.py`)
as written after the `fix:` commits

* Flag names are `List Char`; a Python `set` is a list up to membership (`TSet`).
* A restriction used as chunk key is reduced to what the code looks at: an identity `kid` (for `key.match(pkg)`:
  the match function `m : Nat → Bool` of the package at hand), `simple` (`key == AlwaysTrue or key.is_simple`),
  and for atoms the `cp` string `key.key` under which `ChunkedDataDict` files them.  `kid = 0` is `AlwaysTrue`.
* `_dict` is a finite map modelled as a function, `defaultdict(partial(list, globals))` is `getList`.
* `freeze()` (lists → tuples, dict → ImmutableDict) and `clone()` (copies) do not change the contents and are
  the identity on the model; interning and the payload form only change the representation of a chunk.
-/
namespace Pkgcore.C11

abbrev Tok := List Char
abbrev TSet := List Tok

def star : Tok := ['*']

/-- `chunked_data(key, neg, pos)` -/
structure Chunk where
  kid : Nat
  simple : Bool
  neg : List Tok
  pos : List Tok
  deriving DecidableEq, Repr

def sAdd (s : TSet) (x : Tok) : TSet := if s.contains x then s else s ++ [x]

/-- `flag.endswith("_*")` -/
def endsUS (n : Tok) : Bool := (['_', '*'] : List Char).isSuffixOf n

/-- one iteration of `incremental_chunked` -/
def applyChunk (s : TSet) (c : Chunk) : TSet :=
  let s1 : TSet := if c.neg.contains star then [] else s
  let s2 : TSet := c.neg.foldl
    (fun acc n => if endsUS n then acc.filter (fun f => !(n.dropLast).isPrefixOf f) else acc) s1
  let s3 : TSet := s2.filter fun f => !c.neg.contains f
  c.pos.foldl sAdd s3

/-- `incremental_chunked(orig, (c for c in items if c.key.match(pkg)))` -/
def render (m : Nat → Bool) (items : List Chunk) (s : TSet) : TSet :=
  (items.filter fun c => m c.kid).foldl applyChunk s

/-! ### `_build_cp_atom_payload` -/

def isWild (n : Tok) : Bool := n == star || endsUS n

structure WalkSt where
  locked : List (Tok × Bool) := []     -- the dict `locked`
  wild : List Tok := []                -- `wildcards`
  prefixes : List Tok := []
  l : List Chunk := []                 -- `l`, in the order of the appends

def isLocked (st : WalkSt) (x : Tok) : Bool :=
  st.locked.any (·.1 == x) || st.prefixes.any (·.isPrefixOf x)

def lockPos (st : WalkSt) (p : Tok) : WalkSt :=
  if isLocked st p then st else { st with locked := st.locked ++ [(p, true)] }

def lockNeg (st : WalkSt) (n : Tok) : WalkSt :=
  if isWild n then (if st.wild.contains n then st else { st with wild := st.wild ++ [n] })
  else if isLocked st n then st else { st with locked := st.locked ++ [(n, false)] }

/-- the right-to-left loop; the argument is the reversed sequence -/
def walk : List Chunk → WalkSt → WalkSt
  | [], st => st
  | c :: rest, st =>
    if c.simple then
      let st1 := c.pos.foldl lockPos st
      let st2 := c.neg.foldl lockNeg st1
      let st3 := { st2 with prefixes := st2.prefixes ++ (c.neg.filter endsUS).map List.dropLast }
      if c.neg.contains star then st3 else walk rest st3
    else
      let neg := c.neg.filter fun x => !isLocked st x
      let pos := c.pos.filter fun x => !isLocked st x
      walk rest (if neg.isEmpty && pos.isEmpty then st else { st with l := st.l ++ [{ c with neg := neg, pos := pos }] })

/-- the second loop ("only grab the deltas"); `changed` is the set of that name -/
def delta (locked : List (Tok × Bool)) : List Tok → List Chunk → List Chunk
  | _, [] => []
  | changed, c :: cs =>
    let neg := c.neg.filter fun x => changed.contains x || (locked.lookup x).getD true
    let pos := c.pos.filter fun x => changed.contains x || neg.contains x || !(locked.lookup x).getD false
    if neg.isEmpty && pos.isEmpty then delta locked changed cs
    else { c with neg := neg, pos := pos } :: delta locked (changed ++ neg ++ pos) cs

/-- `_build_cp_atom_payload(sequence, restrict)`; `rk` is the identity of `restrict` -/
def build (rk : Nat) (seq : List Chunk) : List Chunk :=
  if seq.length ≤ 1 then seq
  else if seq.any (fun c => !c.simple && c.neg.any isWild) then seq
  else
    let st := walk seq.reverse {}
    let specifics := st.l.reverse
    if st.locked.isEmpty && st.wild.isEmpty then specifics
    else
      { kid := rk, simple := true,
        neg := st.wild ++ (st.locked.filter fun e => !e.2).map (·.1),
        pos := (st.locked.filter (·.2)).map (·.1) } :: delta st.locked [] specifics

/-! ### `ChunkedDataDict` -/

/-- an entry handed to the dict: a chunk, and for atoms the `cp` key it is filed under -/
structure Entry where
  cp : Option Tok
  chunk : Chunk
  deriving Repr

/-- the dict is a finite map `cp key ↦ list`; as only look-ups and per-key updates are performed (iteration order over
`dict.items()` is immaterial: each key is updated independently) it is modelled as a function -/
structure CDD where
  globals : List Chunk := []                        -- `_global_settings`
  dict : Tok → Option (List Chunk) := fun _ => none   -- `_dict`

/-- `self._dict[key]` of the defaultdict: an absent key starts as a copy of the globals -/
def getList (d : CDD) (key : Tok) : List Chunk := (d.dict key).getD d.globals

/-- `_expand_globals(new_globals)` -/
def expandGlobals (globals new : List Chunk) : List Chunk :=
  let g := globals ++ new
  match new with
  | [] => g
  | c :: _ => if c.kid = 0 then build 0 g else g

/-- `_add_global(neg, pos, restrict)` -/
def addGlobal (d : CDD) (c : Chunk) : CDD :=
  if c.neg.isEmpty && c.pos.isEmpty then d
  else { globals := expandGlobals d.globals [c], dict := fun k => (d.dict k).map (· ++ [c]) }

/-- one step of `update_from_stream` -/
def update (d : CDD) (e : Entry) : CDD :=
  match e.cp with
  | some key => { d with dict := fun k => if k = key then some (getList d key ++ [e.chunk]) else d.dict k }
  | none => addGlobal d e.chunk

/-- `self.merge(o)`: keys of `o` get `o`'s list appended (a new key starts from our globals), the other keys get
`o`'s globals appended, then the globals are expanded -/
def merge (d o : CDD) : CDD :=
  { globals := if o.globals.isEmpty then d.globals else expandGlobals d.globals o.globals,
    dict := fun k =>
      match o.dict k with
      | some v => some (getList d k ++ v)
      | none => (d.dict k).map (· ++ o.globals) }

/-- `optimize()`; `cpKid key` is the identity of `atom.atom(key)` -/
def optimize (cpKid : Tok → Nat) (d : CDD) : CDD :=
  { globals := build 0 d.globals, dict := fun k => (d.dict k).map (build (cpKid k)) }

/-- `render_pkg(pkg, pre_defaults)` for a package with `pkg.key = key` and match function `m` -/
def renderPkg (d : CDD) (key : Tok) (m : Nat → Bool) (pre : List Tok) : TSet :=
  render m (getList d key) (pre.foldl sAdd [])

end Pkgcore.C11
