/-!
# C11 model — `incremental_chunked`, `_build_cp_atom_payload`, `ChunkedDataDict` (`src/pkgcore/ebuild/misc.py`)
as written after the `fix:` commits

* Flag names are `List Char`; a Python `set` is a list up to membership (`TSet`).
* A restriction used as chunk key is reduced to what the code looks at: an identity `kid` (for `key.match(pkg)`:
  the match function `m : Nat → Bool` of the package at hand), `simple` (`key == AlwaysTrue or key.is_simple`),
  and for atoms the `cp` string `key.key` under which `ChunkedDataDict` files them.  `kid = 0` is `AlwaysTrue`.
* `_dict` is a finite map modelled as a function, `defaultdict(partial(list, globals))` is `getList`.
* `freeze()` (lists → tuples, dict → ImmutableDict) and `clone()` (copies) do not change the contents and are
  the identity on the model; interning and the payload form only change the representation of a chunk.
-/
namespace Pkgcore.C11

abbrev Tok := List Char
abbrev TSet := List Tok

def star : Tok := ['*']

/-- `chunked_data(key, neg, pos)` -/
structure Chunk where
  kid : Nat
  simple : Bool
  neg : List Tok
  pos : List Tok
  deriving DecidableEq, Repr

def sAdd (s : TSet) (x : Tok) : TSet := if s.contains x then s else s ++ [x]

/-- `flag.endswith("_*")` -/
def endsUS (n : Tok) : Bool := (['_', '*'] : List Char).isSuffixOf n

/-- one iteration of `incremental_chunked` -/
def applyChunk (s : TSet) (c : Chunk) : TSet :=
  let s1 : TSet := if c.neg.contains star then [] else s
  let s2 : TSet := c.neg.foldl
    (fun acc n => if endsUS n then acc.filter (fun f => !(n.dropLast).isPrefixOf f) else acc) s1
  let s3 : TSet := s2.filter fun f => !c.neg.contains f
  c.pos.foldl sAdd s3

/-- `incremental_chunked(orig, (c for c in items if c.key.match(pkg)))` -/
def render (m : Nat → Bool) (items : List Chunk) (s : TSet) : TSet :=
  (items.filter fun c => m c.kid).foldl applyChunk s

/-! ### `_build_cp_atom_payload` -/

def isWild (n : Tok) : Bool := n == star || endsUS n

structure WalkSt where
  locked : List (Tok × Bool) := []     -- the dict `locked`
  wild : List Tok := []                -- `wildcards`
  prefixes : List Tok := []
  l : List Chunk := []                 -- `l`, in the order of the appends

def isLocked (st : WalkSt) (x : Tok) : Bool :=
  st.locked.any (·.1 == x) || st.prefixes.any (·.isPrefixOf x)

def lockPos (st : WalkSt) (p : Tok) : WalkSt :=
  if isLocked st p then st else { st with locked := st.locked ++ [(p, true)] }

def lockNeg (st : WalkSt) (n : Tok) : WalkSt :=
  if isWild n then (if st.wild.contains n then st else { st with wild := st.wild ++ [n] })
  else if isLocked st n then st else { st with locked := st.locked ++ [(n, false)] }

/-- the right-to-left loop; the argument is the reversed sequence -/
def walk : List Chunk → WalkSt → WalkSt
  | [], st => st
  | c :: rest, st =>
    if c.simple then
      let st1 := c.pos.foldl lockPos st
      let st2 := c.neg.foldl lockNeg st1
      let st3 := { st2 with prefixes := st2.prefixes ++ (c.neg.filter endsUS).map List.dropLast }
      if c.neg.contains star then st3 else walk rest st3
    else
      let neg := c.neg.filter fun x => !isLocked st x
      let pos := c.pos.filter fun x => !isLocked st x
      walk rest (if neg.isEmpty && pos.isEmpty then st else { st with l := st.l ++ [{ c with neg := neg, pos := pos }] })

/-- the second loop ("only grab the deltas"); `changed` is the set of that name -/
def delta (locked : List (Tok × Bool)) : List Tok → List Chunk → List Chunk
  | _, [] => []
  | changed, c :: cs =>
    let neg := c.neg.filter fun x => changed.contains x || (locked.lookup x).getD true
    let pos := c.pos.filter fun x => changed.contains x || neg.contains x || !(locked.lookup x).getD false
    if neg.isEmpty && pos.isEmpty then delta locked changed cs
    else { c with neg := neg, pos := pos } :: delta locked (changed ++ neg ++ pos) cs

/-- `_build_cp_atom_payload(sequence, restrict)`; `rk` is the identity of `restrict` -/
def build (rk : Nat) (seq : List Chunk) : List Chunk :=
  if seq.length ≤ 1 then seq
  else if seq.any (fun c => !c.simple && c.neg.any isWild) then seq
  else
    let st := walk seq.reverse {}
    let specifics := st.l.reverse
    if st.locked.isEmpty && st.wild.isEmpty then specifics
    else
      { kid := rk, simple := true,
        neg := st.wild ++ (st.locked.filter fun e => !e.2).map (·.1),
        pos := (st.locked.filter (·.2)).map (·.1) } :: delta st.locked [] specifics

/-! ### `ChunkedDataDict` -/

/-- an entry handed to the dict: a chunk, and for atoms the `cp` key it is filed under -/
structure Entry where
  cp : Option Tok
  chunk : Chunk
  deriving Repr

/-- the dict is a finite map `cp key ↦ list`; as only look-ups and per-key updates are performed (iteration order over
`dict.items()` is immaterial: each key is updated independently) it is modelled as a function -/
structure CDD where
  globals : List Chunk := []                        -- `_global_settings`
  dict : Tok → Option (List Chunk) := fun _ => none   -- `_dict`

/-- `self._dict[key]` of the defaultdict: an absent key starts as a copy of the globals -/
def getList (d : CDD) (key : Tok) : List Chunk := (d.dict key).getD d.globals

/-- `_expand_globals(new_globals)` -/
def expandGlobals (globals new : List Chunk) : List Chunk :=
  let g := globals ++ new
  match new with
  | [] => g
  | c :: _ => if c.kid = 0 then build 0 g else g

/-- `_add_global(neg, pos, restrict)` -/
def addGlobal (d : CDD) (c : Chunk) : CDD :=
  if c.neg.isEmpty && c.pos.isEmpty then d
  else { globals := expandGlobals d.globals [c], dict := fun k => (d.dict k).map (· ++ [c]) }

/-- one step of `update_from_stream` -/
def update (d : CDD) (e : Entry) : CDD :=
  match e.cp with
  | some key => { d with dict := fun k => if k = key then some (getList d key ++ [e.chunk]) else d.dict k }
  | none => addGlobal d e.chunk

/-- `self.merge(o)`: keys of `o` get `o`'s list appended (a new key starts from our globals), the other keys get
`o`'s globals appended, then the globals are expanded -/
def merge (d o : CDD) : CDD :=
  { globals := if o.globals.isEmpty then d.globals else expandGlobals d.globals o.globals,
    dict := fun k =>
      match o.dict k with
      | some v => some (getList d k ++ v)
      | none => (d.dict k).map (· ++ o.globals) }

/-- `optimize()`; `cpKid key` is the identity of `atom.atom(key)` -/
def optimize (cpKid : Tok → Nat) (d : CDD) : CDD :=
  { globals := build 0 d.globals, dict := fun k => (d.dict k).map (build (cpKid k)) }

/-- `render_pkg(pkg, pre_defaults)` for a package with `pkg.key = key` and match function `m` -/
def renderPkg (d : CDD) (key : Tok) (m : Nat → Bool) (pre : List Tok) : TSet :=
  render m (getList d key) (pre.foldl sAdd [])

/-! ### the token-line level: `package_use_splitter` (`src/pkgcore/ebuild/domain.py`) and `domain.pkg_use`

A user `package.use` line is `<query> tok …` after `str.split()`; the model works on the tokens behind the query.
`package_use_splitter.f` is a generator over an iterator with a nested loop: the outer loop is `plainLoop` (its state
`tokens[start_idx:idx]` is the list `pre`), the inner one `secLoop` (`use_expand`, `buffer`).  `ParseError` (the line is
logged and skipped) is `none`; `eapi_obj.is_valid_use_flag` is the parameter `valid`; `str.lower` is `Char.toLower`
(ASCII).  `domain.pkg_use` then stores `split_negations(stable_unique(tokens))` as one chunk. -/

def dashStar : Tok := ['-', '*']

/-- `flag.endswith(":")` -/
def isSection (t : Tok) : Bool := t.getLast? == some ':'

/-- `flag.lower()[:-1]` -/
def sectionName (t : Tok) : Tok := (t.map Char.toLower).dropLast

/-- `flag.lstrip("-")` -/
def lstripDash (t : Tok) : Tok := t.dropWhile (· == '-')

/-- a value `v` / `-v` of the section `NAME:` in long form: `name_v` / `-name_v` (for `-*` this is `-name_*`) -/
def expandTok (ue t : Tok) : Tok :=
  if t.head? = some '-' then '-' :: (ue ++ '_' :: t.tail) else ue ++ '_' :: t

/-- the inner `for flag in i` loop, entered at the first `NAME:` token; `buf` is `buffer` -/
def secLoop (valid : Tok → Bool) : List Tok → Tok → List Tok → Option (List Tok)
  | [], _, buf => some buf                                               -- `yield from buffer; return`
  | t :: ts, ue, buf =>
    if isSection t then (secLoop valid ts (sectionName t) []).map (buf ++ ·)      -- `yield from buffer; buffer.clear()`
    else if t = dashStar then (secLoop valid ts ue []).map (expandTok ue t :: ·)  -- `buffer.clear(); yield f"-{use_expand}_*"`
    else
      let f := expandTok ue t
      if valid (lstripDash f) then secLoop valid ts ue (buf ++ [f]) else none

/-- the outer `for idx, flag in enumerate(i)` loop; `pre` is `tokens[start_idx:idx]` -/
def plainLoop (valid : Tok → Bool) : List Tok → List Tok → Option (List Tok)
  | [], pre => some pre                                                  -- `yield from tokens[start_idx:]`
  | t :: ts, pre =>
    if t = dashStar then plainLoop valid ts [t]                          -- `start_idx = idx`
    else if isSection t then (secLoop valid ts (sectionName t) []).map (pre ++ ·)   -- `yield from tokens[start_idx:idx]`
    else if valid (lstripDash t) then plainLoop valid ts (pre ++ [t]) else none

/-- `tuple(f(flags))` of `package_use_splitter`: the long form of a line's tokens, `none` = `ParseError` -/
def splitUse (valid : Tok → Bool) (toks : List Tok) : Option (List Tok) := plainLoop valid toks []

/-- snakeoil `stable_unique`: first occurrences, in order (`seen` = what has been yielded) -/
def stableUniqueAux : List Tok → List Tok → List Tok
  | [], _ => []
  | t :: ts, seen => if seen.contains t then stableUniqueAux ts seen else t :: stableUniqueAux ts (t :: seen)

def stableUnique (toks : List Tok) : List Tok := stableUniqueAux toks []

/-- `chunked_data(key, *split_negations(stable_unique(tokens)))` as `domain.pkg_use` / `enabled_use` build it
(a bare `-` never gets here: `is_valid_use_flag("")` is false) -/
def lineChunk (kid : Nat) (simple : Bool) (toks : List Tok) : Chunk :=
  let u := stableUnique toks
  ⟨kid, simple, (u.filter fun t => t.head? == some '-').map List.tail, u.filter fun t => t.head? != some '-'⟩

end Pkgcore.C11
