import Pkgcore.Model.C22
/-!
# C21 model — CONFIG_PROTECT / COLLISION_IGNORE handling of `pkgcore.ebuild.triggers` as written
(after the C21 `fix:` commits)

* Input = what `collapse_envd` hands over: the token lists of `CONFIG_PROTECT`, `CONFIG_PROTECT_MASK` (env.d + the
  trigger's extra entries) and `COLLISION_IGNORE`; the engine offset (any spelling); the live file system as the list of
  its regular files with a content identity each (`simple_chksum_compare` = content equality) plus the list of its
  directories (for the `os.path.isdir` test on `COLLISION_IGNORE` entries).
* A file location is the pair `(dirname, basename)` (`os.path.dirname` / `basename` / `pjoin(dir, name)` are the
  trivial split at the last `/`); the filters see the rendered string `join(dir, base)`.  Paths carry the offset, as
  the engine's csets do.  Path arithmetic (`normpath`, `join`, `lstrip("/")`, `rstrip("/")`) is the character-level
  model of C22.
* `values.StrGlobMatch(prefix)` = `isPrefixOf`; `OrRestriction` / `AndRestriction` / `negate` = `any` / `&&` / `!`.
* `fnmatch.translate(pattern)` + `re.match` = `globMatch` on tokens `lit c | star | one` (`[`-classes are not modelled);
  `glob.escape(root)` = the root as literal tokens.
* `int(x[5:9])` is modelled for four ASCII digits.
* `merge` / `unmerge` are abstracted: every regular-file entry of the install cset is written to its location, every
  other entry replaces whatever file is there; every entry of the uninstall cset is unlinked.
-/
namespace Pkgcore.C21
open Pkgcore.C22 (Path normpath pjoin lstripSlash rstripSlash)

abbrev Content := Nat

/-! ## the CONFIG_PROTECT filter -/

/-- `normpath(pjoin(offset, path.lstrip("/"))).rstrip("/") + "/"` -/
def underOffset (offset x : Path) : Path := rstripSlash (normpath (pjoin offset (lstripSlash x))) ++ ['/']

/-- `gen_config_protect_filter(offset, extra_protects, extra_disables).match` (`protects`/`masks` already contain the
extras) -/
def protectedFilter (offset : Path) (protects masks : List Path) (loc : Path) : Bool :=
  (protects ++ [['/', 'e', 't', 'c']]).any (fun x => (underOffset offset x).isPrefixOf loc) &&
    !masks.any (fun x => (underOffset offset x).isPrefixOf loc)

/-! ## the COLLISION_IGNORE filter -/

inductive Tok
  | lit (c : Char)
  | star
  | one
  deriving DecidableEq, Repr

/-- tokens of an fnmatch pattern without bracket classes -/
def parsePat : List Char → List Tok
  | [] => []
  | c :: cs => (if c = '*' then Tok.star else if c = '?' then Tok.one else Tok.lit c) :: parsePat cs

/-- `.*` followed by the rest of the pattern `f`: try every split point -/
def starAux (f : List Char → Bool) : List Char → Bool
  | [] => f []
  | d :: ds => f (d :: ds) || starAux f ds

/-- `re.match(fnmatch.translate(pat), s)`: the whole of `s` has to be consumed -/
def globMatch : List Tok → List Char → Bool
  | [] => fun s => s.isEmpty
  | .lit c :: ts => fun s => match s with
    | [] => false
    | d :: ds => c == d && globMatch ts ds
  | .one :: ts => fun s => match s with
    | [] => false
    | _ :: ds => globMatch ts ds
  | .star :: ts => fun s => starAux (globMatch ts) s

/-- `x.endswith("/*")` -/
def endsSlashStar (x : List Char) : Bool := ['/', '*'].isSuffixOf x

/-- one `COLLISION_IGNORE` entry as the pattern that is finally compiled: absolute entries are taken under the offset
root (`glob.escape(root) + x`), an absolute entry naming a live directory ignores everything below it -/
def ignorePattern (root : Path) (isdir : Path → Bool) (x : List Char) : List Tok :=
  if x.head? = some '/' then
    let x' := if !endsSlashStar x && isdir (root ++ x) then rstripSlash x ++ ['/', '*'] else x
    root.map Tok.lit ++ parsePat x'
  else parsePat x

def defaultIgnores : List (List Char) := ["*/.keep".toList, "*/.keep_*".toList]

/-- `gen_collision_ignore_filter(offset).match` -/
def ignoreFilter (offset : Path) (ignores : List (List Char)) (isdir : Path → Bool) (loc : Path) : Bool :=
  let root := rstripSlash (normpath offset)
  (ignores ++ defaultIgnores).any (fun x => globMatch (ignorePattern root isdir x) loc)

/-! ## pending updates -/

def cfgPrefix : List Char := "._cfg".toList

/-- value of an ASCII digit -/
def digitVal (c : Char) : Option Nat :=
  if c = '0' then some 0 else if c = '1' then some 1 else if c = '2' then some 2 else if c = '3' then some 3
  else if c = '4' then some 4 else if c = '5' then some 5 else if c = '6' then some 6 else if c = '7' then some 7
  else if c = '8' then some 8 else if c = '9' then some 9 else none

/-- `count = int(x[5:9]); x[9] == "_"; fn = x[10:]` for a name starting with `._cfg` -/
def parseCfg (x : List Char) : Option (Nat × List Char) :=
  if cfgPrefix.isPrefixOf x then
    match x.drop 5 with
    | a :: b :: c :: d :: u :: fn =>
      if u = '_' then
        match digitVal a, digitVal b, digitVal c, digitVal d with
        | some a, some b, some c, some d => some (1000 * a + 100 * b + 10 * c + d, fn)
        | _, _, _, _ => none
      else none
    | _ => none
  else none

def digitChar : Nat → Char
  | 0 => '0' | 1 => '1' | 2 => '2' | 3 => '3' | 4 => '4' | 5 => '5' | 6 => '6' | 7 => '7' | 8 => '8' | _ => '9'

/-- `f"{count:04d}"`: four digits, zero padded; longer when the number needs it -/
def pad4 (n : Nat) : List Char :=
  if n < 10000 then [digitChar (n / 1000 % 10), digitChar (n / 100 % 10), digitChar (n / 10 % 10), digitChar (n % 10)]
  else (Nat.repr n).toList

/-- `f"._cfg{count:04d}_{fname}"` -/
def cfgName (count : Nat) (fname : List Char) : List Char := cfgPrefix ++ pad4 count ++ '_' :: fname

/-- a regular file of the live file system -/
structure LiveFile where
  dir : Path
  base : List Char
  content : Content
  deriving DecidableEq, Repr

abbrev Live := List LiveFile

def Live.lookup (live : Live) (dir : Path) (base : List Char) : Option Content :=
  (live.find? fun f => f.dir = dir ∧ f.base = base).map (·.content)

/-- `sorted(x for x in listdir_files(dir_loc) if x.startswith("._cfg"))`, parsed, restricted to updates of `fname`,
each with the content of the pending file (`livefs.gen_obj(pjoin(dir_loc, cfg_fname))`) -/
def pendingFor (live : Live) (dir : Path) (fname : List Char) : List (Nat × Content) :=
  let names := ((live.filter fun f => f.dir = dir ∧ cfgPrefix.isPrefixOf f.base).map (·.base)).mergeSort
    (fun a b => !decide (b < a))
  names.filterMap fun x =>
    match parseCfg x with
    | some (n, fn) => if fn = fname then (live.lookup dir x).map (fun c => (n, c)) else none
    | none => none

/-- the numbering loop: reuse the number of the first identical pending update, else one more than the largest -/
def chooseCount : Nat → List (Nat × Content) → Content → Nat
  | count, [], _ => count
  | count, (n, pc) :: rest, c => if pc = c then n else chooseCount (max count (n + 1)) rest c

/-! ## the install trigger -/

/-- an entry of the install cset -/
structure IEntry where
  dir : Path
  base : List Char
  isReg : Bool
  content : Content
  deriving DecidableEq, Repr

abbrev ICSet := List IEntry

def IEntry.path (e : IEntry) : Path := pjoin e.dir e.base
def LiveFile.path (f : LiveFile) : Path := pjoin f.dir f.base

/-- `d[e.location] = e` -/
def idictSet : ICSet → IEntry → ICSet
  | [], e => [e]
  | x :: xs, e => if x.dir = e.dir ∧ x.base = e.base then e :: xs else x :: idictSet xs e

def idictDel (c : ICSet) (dir : Path) (base : List Char) : ICSet := c.filter fun x => ¬ (x.dir = dir ∧ x.base = base)

structure Settings where
  offset : Path
  protects : List Path
  masks : List Path
  ignores : List (List Char)
  isdir : Path → Bool

/-- `not ignore_filter(loc) and protected_filter(loc)` -/
def Settings.protectedLoc (s : Settings) (loc : Path) : Bool :=
  !ignoreFilter s.offset s.ignores s.isdir loc && protectedFilter s.offset s.protects s.masks loc

/-- the entries `ConfigProtectInstall.trigger` collects: a regular live file is at the entry's location
(`existing_cset.iterfiles()`), the location passes the filters, the replacement is a regular file and differs -/
def needsProtection (s : Settings) (live : Live) (e : IEntry) : Bool :=
  match live.lookup e.dir e.base with
  | some c0 => s.protectedLoc e.path && e.isReg && c0 != e.content
  | none => false

/-- the renamed entry -/
def renamed (live : Live) (e : IEntry) : IEntry :=
  { e with base := cfgName (chooseCount 0 (pendingFor live e.dir e.base) e.content) e.base }

/-- `ConfigProtectInstall.trigger`: the new install cset and the `renames` map (new entry ↦ original) -/
def protectInstall (s : Settings) (live : Live) (install : ICSet) : ICSet × List (IEntry × IEntry) :=
  (install.filter (needsProtection s live)).foldl
    (fun (acc : ICSet × List (IEntry × IEntry)) e =>
      (idictSet (idictDel acc.1 e.dir e.base) (renamed live e), acc.2 ++ [(renamed live e, e)]))
    (install, [])

/-- `ConfigProtectInstall_restore.trigger` -/
def restore (install : ICSet) (renames : List (IEntry × IEntry)) : ICSet :=
  renames.foldl (fun c (p : IEntry × IEntry) =>
    if c.any (fun x => x.dir = p.1.dir ∧ x.base = p.1.base) then idictSet (idictDel c p.1.dir p.1.base) p.2 else c) install

/-- the `merge` trigger, abstractly -/
def mergeFs (live : Live) (install : ICSet) : Live :=
  install.foldl (fun l e =>
    let l' := l.filter fun f => ¬ (f.dir = e.dir ∧ f.base = e.base)
    if e.isReg then l' ++ [⟨e.dir, e.base, e.content⟩] else l') live

/-! ## the uninstall trigger -/

/-- an entry of the package's recorded contents -/
abbrev Recorded := List IEntry

/-- `ConfigProtectUninstall.trigger`: the files dropped from the uninstall cset.  The uninstall cset is generated from
the live file system (`old_cset` = what of the recorded contents exists); `recorded` is what the package installed. -/
def keptAtUnmerge (s : Settings) (live : Live) (recorded : Recorded) : List LiveFile :=
  live.filter fun f =>
    match recorded.find? (fun r => r.dir = f.dir ∧ r.base = f.base) with
    | some r => s.protectedLoc f.path && (!r.isReg || r.content != f.content)
    | none => false

/-- the files `unmerge` removes: everything recorded that is live, minus what the trigger dropped -/
def unmergeFs (s : Settings) (live : Live) (recorded : Recorded) : Live :=
  live.filter fun f =>
    !(recorded.any fun r => r.dir = f.dir ∧ r.base = f.base) || (keptAtUnmerge s live recorded).contains f

/-! ## several operations of one process on one root

A front end (`pmerge`) handles a list of packages in one process; between two operations anything may have happened to
the root, in particular to `/etc/env.d` (an earlier package's env.d file merged, an `env-update`, the admin's editor).
`gen_config_protect_filter` / `gen_collision_ignore_filter` are called anew by every trigger run and read env.d each
time (`collapse_envd`): the only state an operation inherits from the earlier ones is the file system.  So every
operation carries the settings env.d holds *when it runs*. -/

inductive Op
  /-- files written by somebody else (config edits, other tools) -/
  | edit (files : List LiveFile)
  /-- `ConfigProtectInstall` + `merge` of a package under the settings current at that time -/
  | install (s : Settings) (pkg : ICSet)
  /-- `ConfigProtectUninstall` + `unmerge` of a recorded package under the settings current at that time -/
  | uninstall (s : Settings) (recorded : Recorded)

/-- writing one file: whatever was at the location is replaced -/
def writeFile (l : Live) (g : LiveFile) : Live := (l.filter fun f => ¬ (f.dir = g.dir ∧ f.base = g.base)) ++ [g]

def applyOp (live : Live) : Op → Live
  | .edit files => files.foldl writeFile live
  | .install s pkg => mergeFs live (protectInstall s live pkg).1
  | .uninstall s recorded => unmergeFs s live recorded

/-- the live file system after a history of operations -/
def runOps (live : Live) (ops : List Op) : Live := ops.foldl applyOp live

/-- the live file system after each operation of a history -/
def traceOps (live : Live) : List Op → List Live
  | [] => []
  | op :: ops => applyOp live op :: traceOps (applyOp live op) ops

end Pkgcore.C21
