/-!
# C18 (shared by C19, C20) — abstract file system and the model of `pkgcore.fs.ops.merge_contents`

## The file-system library

`Fs` is an association list `Path → (inode number × Inode)`.  Paths are *literal* component lists (last
component first, `[]` = the root of the scratch tree): no symlinked-ancestor resolution, exactly as DESIGN.md
section 9/C18 states.  Hard links are dirents carrying the same inode number; every metadata/data system call
acts on *all* dirents of that inode (`updIno`), so "a write through one name is seen through the other" is
part of the model.  Directory mtimes are not modelled (POSIX bumps them on every entry creation, they are
neither "recorded" nor "unchanged" for a directory that receives entries): `utime` on a directory is a no-op
and the harness drops those calls from the recorded trace.

Primitive operations (`Op`) with the POSIX error cases the code relies on are given by `step`.  Objects are created
with the identity of the calling process, except that inside a directory carrying the set-group-ID bit they get the
directory's group (`newGid`) and sub-directories the bit as well (`newDirMode`), as on Linux; `mkdir(2)` honours only
the permission and sticky bits of its mode argument.  (chown(2) clearing set-uid/set-gid of a non-directory is not
modelled: the modelled code only chowns objects it has just created, or directories.)

## The model of the code (after the two `fix:` commits of C18)

`ensurePerms`, `mkdirFs`, `copyfile`, `doLink`, `ensureDirs` (snakeoil), `mergeContents` mirror
`src/pkgcore/fs/ops.py` statement by statement: every `os.*` call is one `St.sys`, every `try/except` is a
match on the returned errno, exceptions are `Except Exc`.  The state `St` carries the file system and the log
of system calls with their errno, which is what the harness records on the real code by interposition.
-/
namespace Pkgcore.C18

abbrev Name := String
/-- literal path: components, **last component first**; `[]` is the root of the tree -/
abbrev Path := List Name

inductive Kind where
  | dir
  | file (data : String)      -- content as a hex string (opaque; concatenation = append)
  | sym (target : String)
  | fifo
  deriving DecidableEq, Repr, Inhabited

structure Inode where
  kind : Kind
  mode : Nat
  uid : Nat
  gid : Nat
  mtime : Nat                 -- 0 for directories (not modelled) and for "never set"
  deriving DecidableEq, Repr, Inhabited

abbrev Dirent := Path × Nat × Inode

structure Fs where
  ents : List Dirent
  next : Nat                  -- inode allocation counter
  deriving Repr, Inhabited

inductive Errno where
  | ENOENT | EEXIST | ENOTDIR | EISDIR | ENOTEMPTY | EPERM | EBUSY | EINVAL | ENOSYS
  deriving DecidableEq, Repr, Inhabited

/-- identity of the calling process: owner of created inodes (group: see `newGid`), umask for `mkdir`/`open`/`mkfifo` -/
structure Env where
  umask : Nat
  uid : Nat
  gid : Nat
  deriving Repr, Inhabited

def lookup : List Dirent → Path → Option (Nat × Inode)
  | [], _ => none
  | (q, v) :: t, p => if q = p then some v else lookup t p

namespace Fs
def view (fs : Fs) (p : Path) : Option (Nat × Inode) := lookup fs.ents p
def del (fs : Fs) (p : Path) : Fs := { fs with ents := fs.ents.filter (fun d => decide (d.1 ≠ p)) }
def put (fs : Fs) (p : Path) (i : Nat) (nd : Inode) : Fs :=
  { fs with ents := (p, i, nd) :: fs.ents.filter (fun d => decide (d.1 ≠ p)) }
def alloc (fs : Fs) (p : Path) (nd : Inode) : Fs :=
  { ents := (p, fs.next, nd) :: fs.ents.filter (fun d => decide (d.1 ≠ p)), next := fs.next + 1 }
/-- apply `f` to the inode numbered `i`, i.e. to every dirent (hard link) that carries it -/
def updIno (fs : Fs) (i : Nat) (f : Inode → Inode) : Fs :=
  { fs with ents := fs.ents.map (fun d => if d.2.1 = i then (d.1, d.2.1, f d.2.2) else d) }
def hasChild (fs : Fs) (p : Path) : Bool :=
  fs.ents.any (fun d => match d.1 with | [] => false | _ :: q => decide (q = p))

/-- error of the path walk to the parent directory of `p` (`none` = the parent is a directory).  As in the
kernel, the first component that cannot be traversed decides: a non-directory on the way gives `ENOTDIR` even
when deeper components are missing as well. -/
def parentErr (fs : Fs) : Path → Option Errno
  | [] => some .EINVAL
  | _ :: q =>
    match fs.view q with
    | some (_, nd) => if nd.kind = .dir then none else some .ENOTDIR
    | none =>
      match q with
      | [] => some .ENOENT
      | _ :: _ =>
        match parentErr fs q with
        | some .ENOTDIR => some .ENOTDIR
        | _ => some .ENOENT

/-- errno of a lookup of the missing path `p` -/
def missingErr (fs : Fs) (p : Path) : Errno :=
  match fs.parentErr p with
  | some .ENOTDIR => .ENOTDIR
  | _ => .ENOENT
end Fs

def maskMode (mode umask : Nat) : Nat := mode &&& (0o7777 ^^^ (umask &&& 0o7777))

/-- group of the parent directory of `p` when that directory carries the set-group-ID bit (`S_ISGID`, `0o2000`):
what is created inside such a directory belongs to the directory's group, not to the creating process' -/
def Fs.sgidParent (fs : Fs) (p : Path) : Option Nat :=
  match fs.view p.tail with
  | some (_, nd) => if nd.kind = .dir ∧ nd.mode &&& 0o2000 ≠ 0 then some nd.gid else none
  | none => none

/-- group of an object created at `p` by a process of identity `env` (Linux/SysV set-group-ID directory semantics) -/
def newGid (env : Env) (fs : Fs) (p : Path) : Nat := (fs.sgidParent p).getD env.gid

/-- permission bits of a directory created at `p` with effective mode `mode`: a sub-directory of a set-group-ID
directory inherits the bit (`mkdir(2)` itself honours only the permission and sticky bits of its argument: `step`
passes `mode &&& 0o1777`; a recorded `02775` takes the later `chmod`) -/
def newDirMode (fs : Fs) (p : Path) (mode : Nat) : Nat :=
  if (fs.sgidParent p).isSome then mode ||| 0o2000 else mode

/-- file-system mutating system calls issued by the modelled code -/
inductive Op where
  | mkdir (p : Path) (mode : Nat)          -- mode = effective mode (umask already applied)
  | rmdir (p : Path)
  | unlink (p : Path)
  | creat (p : Path) (mode : Nat)          -- open(p, "wb+")
  | write (p : Path) (data : String)       -- one write(2) appending `data`
  | symlink (target : String) (p : Path)
  | mkfifo (p : Path) (mode : Nat)
  | link (src dst : Path)
  | rename (src dst : Path)
  | lchown (p : Path) (uid gid : Nat)
  | chmod (p : Path) (mode : Nat)
  | utime (p : Path) (t : Nat) (follow : Bool)
  deriving DecidableEq, Repr, Inhabited

def step (env : Env) (fs : Fs) : Op → Except Errno Fs
  | .mkdir p mode =>
    match (if p = [] then none else fs.parentErr p) with
    | some e => .error e
    | none =>
      if (fs.view p).isSome then .error .EEXIST
      else .ok (fs.alloc p ⟨.dir, newDirMode fs p (mode &&& 0o1777), env.uid, newGid env fs p, 0⟩)
  | .rmdir p =>
    match fs.view p with
    | none => .error (fs.missingErr p)
    | some (_, nd) =>
      if nd.kind ≠ .dir then .error .ENOTDIR
      else if p = [] then .error .EBUSY
      else if fs.hasChild p then .error .ENOTEMPTY
      else .ok (fs.del p)
  | .unlink p =>
    match fs.view p with
    | none => .error (fs.missingErr p)
    | some (_, nd) => if nd.kind = .dir then .error .EISDIR else .ok (fs.del p)
  | .creat p mode =>
    match fs.parentErr p with
    | some e => .error e
    | none =>
      match fs.view p with
      | none => .ok (fs.alloc p ⟨.file "", mode, env.uid, newGid env fs p, 0⟩)
      | some (i, nd) =>
        match nd.kind with
        | .file _ => .ok (fs.updIno i fun n => { n with kind := .file "", mtime := 0 })
        | .dir => .error .EISDIR
        | _ => .error .ENOSYS
  | .write p data =>
    match fs.view p with
    | none => .error (fs.missingErr p)
    | some (i, nd) =>
      match nd.kind with
      | .file d => .ok (fs.updIno i fun n => { n with kind := .file (d ++ data), mtime := 0 })
      | _ => .error .EINVAL
  | .symlink t p =>
    match fs.parentErr p with
    | some e => .error e
    | none =>
      if (fs.view p).isSome then .error .EEXIST
      else .ok (fs.alloc p ⟨.sym t, 0o777, env.uid, newGid env fs p, 0⟩)
  | .mkfifo p mode =>
    match fs.parentErr p with
    | some e => .error e
    | none =>
      if (fs.view p).isSome then .error .EEXIST
      else .ok (fs.alloc p ⟨.fifo, mode, env.uid, newGid env fs p, 0⟩)
  | .link src dst =>
    match fs.view src with
    | none => .error (fs.missingErr src)
    | some (i, nd) =>
      if nd.kind = .dir then .error .EPERM
      else match fs.parentErr dst with
        | some e => .error e
        | none => if (fs.view dst).isSome then .error .EEXIST else .ok (fs.put dst i nd)
  | .rename src dst =>
    match fs.view src with
    | none => .error (fs.missingErr src)
    | some (i, nd) =>
      match fs.parentErr dst with
      | some e => .error e
      | none =>
        if nd.kind = .dir then .error .ENOSYS        -- renaming directories is never done by the code
        else match fs.view dst with
          | none => .ok ((fs.del src).put dst i nd)
          | some (j, nd') =>
            if j = i then .ok fs                      -- POSIX: both names of one inode ⇒ no-op
            else if nd'.kind = .dir then .error .EISDIR
            else .ok ((fs.del src).put dst i nd)
  | .lchown p u g =>
    match fs.view p with
    | none => .error (fs.missingErr p)
    | some (i, _) => .ok (fs.updIno i fun n => { n with uid := u, gid := g })
  | .chmod p m =>
    match fs.view p with
    | none => .error (fs.missingErr p)
    | some (i, nd) =>
      match nd.kind with
      | .sym _ => .error .ENOSYS                      -- would follow the link: outside the literal model
      | _ => .ok (fs.updIno i fun n => { n with mode := m })
  | .utime p t follow =>
    match fs.view p with
    | none => .error (fs.missingErr p)
    | some (i, nd) =>
      match nd.kind with
      | .dir => .ok fs                                -- directory mtimes are not modelled
      | .sym _ => if follow then .error .ENOSYS else .ok (fs.updIno i fun n => { n with mtime := t })
      | _ => .ok (fs.updIno i fun n => { n with mtime := t })

/-- effect of a system call on the state: a failing call changes nothing -/
def applyOp (env : Env) (fs : Fs) (op : Op) : Fs :=
  match step env fs op with
  | .ok fs' => fs'
  | .error _ => fs

/-- state after a sequence of system calls (used for "every prefix = crash point") -/
def run (env : Env) (fs : Fs) (ops : List Op) : Fs := ops.foldl (applyOp env) fs

/-! ### literal symlink resolution for `os.stat` on a directory entry's location -/

/-- the kernel's walk of a relative path from directory `cur`, literally: every component is looked up in a
path that must be an existing directory (symlinks in the middle are outside the literal model ⇒ `none`);
the final component is not looked up (`lstat` is the caller's business) -/
def walk (fs : Fs) : Path → List String → Option Path
  | cur, [] => some cur
  | cur, c :: cs =>
    match fs.view cur with
    | some (_, nd) =>
      if nd.kind = .dir then
        if c = "" ∨ c = "." then walk fs cur cs
        else if c = ".." then (match cur with | [] => none | _ :: up => walk fs up cs)   -- leaving the tree
        else walk fs (c :: cur) cs
      else none
    | none => none

/-- `target.split("/")` on the code points (structural, so that concrete runs reduce in the kernel) -/
def splitSlash : List Char → List Char → List String
  | acc, [] => [String.ofList acc.reverse]
  | acc, c :: cs => if c = '/' then String.ofList acc.reverse :: splitSlash [] cs else splitSlash (c :: acc) cs

def pathOfTarget (fs : Fs) (base : Path) (target : String) : Option Path :=
  match target.toList with
  | '/' :: _ => none      -- absolute targets leave the scratch tree: not resolvable in the model
  | cs => walk fs base (splitSlash [] cs)

/-- `os.stat(p)`: follow symlinks at the final component (literally, bounded) -/
def statFollow (fs : Fs) : Nat → Path → Option (Path × Nat × Inode)
  | 0, _ => none
  | fuel + 1, p =>
    match fs.view p with
    | none => none
    | some (i, nd) =>
      match nd.kind with
      | .sym t =>
        match pathOfTarget fs p.tail t with
        | none => none
        | some q => statFollow fs fuel q
      | _ => some (p, i, nd)

/-- the errno of a failing `walk`: a missing component gives `ENOENT`, a non-directory on the way `ENOTDIR` -/
def walkErr (fs : Fs) : Path → List String → Errno
  | _, [] => .ENOENT
  | cur, c :: cs =>
    match fs.view cur with
    | some (_, nd) =>
      if nd.kind = .dir then
        if c = "" ∨ c = "." then walkErr fs cur cs
        else if c = ".." then (match cur with | [] => .ENOENT | _ :: up => walkErr fs up cs)
        else walkErr fs (c :: cur) cs
      else .ENOTDIR
    | none => .ENOENT

/-- the errno of `os.stat(p)` when `statFollow` finds nothing (`FileNotFoundError` is `ENOENT` only) -/
def statErr (fs : Fs) : Nat → Path → Errno
  | 0, _ => .ENOSYS
  | fuel + 1, p =>
    match fs.view p with
    | none => fs.missingErr p
    | some (_, nd) =>
      match nd.kind with
      | .sym t =>
        match t.toList with
        | '/' :: _ => .ENOENT
        | cs =>
          match walk fs p.tail (splitSlash [] cs) with
          | none => walkErr fs p.tail (splitSlash [] cs)
          | some q => statErr fs fuel q
      | _ => .ENOENT

/-! ## contents entries -/

inductive EKind where
  | dir
  | reg (data : String) (key : Option (Nat × Nat))     -- key = (st_dev, st_ino) of the source file
  | sym (target : String)
  | fifo
  deriving DecidableEq, Repr, Inhabited

structure Entry where
  loc : Path
  kind : EKind
  mode : Nat
  uid : Nat
  gid : Nat
  mtime : Nat
  deriving DecidableEq, Repr, Inhabited

def Entry.isDir (e : Entry) : Bool := match e.kind with | .dir => true | _ => false
def Entry.isSym (e : Entry) : Bool := match e.kind with | .sym _ => true | _ => false

/-- the inode an entry describes -/
def Entry.inode (e : Entry) : Inode :=
  match e.kind with
  | .dir => ⟨.dir, e.mode, e.uid, e.gid, 0⟩
  | .reg d _ => ⟨.file d, e.mode, e.uid, e.gid, e.mtime⟩
  | .sym t => ⟨.sym t, 0o777, e.uid, e.gid, e.mtime⟩
  | .fifo => ⟨.fifo, e.mode, e.uid, e.gid, e.mtime⟩

/-- the `'#new'` sibling used for replace-by-rename -/
def tmpOf : Path → Path
  | [] => []
  | n :: q => (n ++ "#new") :: q

inductive Exc where
  | cannotOverwrite
  | failedCopy
  | os (e : Errno)
  deriving DecidableEq, Repr, Inhabited

/-- model state: file system + log of the system calls made so far with their errno -/
structure St where
  fs : Fs
  log : List (Op × Option Errno)
  deriving Repr, Inhabited

/-- one system call -/
def St.sys (env : Env) (s : St) (op : Op) : St × Option Errno :=
  match step env s.fs op with
  | .ok fs' => (⟨fs', s.log ++ [(op, none)]⟩, none)
  | .error e => (⟨s.fs, s.log ++ [(op, some e)]⟩, some e)

/-- a sequence of system calls each of which must succeed (an `OSError` propagates) -/
def St.sysAll (env : Env) (s : St) : List Op → St × Except Exc Unit
  | [] => (s, .ok ())
  | op :: ops =>
    match s.sys env op with
    | (s', none) => St.sysAll env s' ops
    | (s', some e) => (s', .error (.os e))

/-- `ensure_perms(d1)` with `d2 is None` on location `fp`: lchown, then chmod + utime, or (symlinks, after the
fix) utime on the link itself.  `utime` on directories is not part of the model. -/
def permsOps (e : Entry) (fp : Path) : List Op :=
  match e.kind with
  | .dir => [.lchown fp e.uid e.gid, .chmod fp e.mode]
  | .sym _ => [.lchown fp e.uid e.gid, .utime fp e.mtime false]
  | _ => [.lchown fp e.uid e.gid, .chmod fp e.mode, .utime fp e.mtime true]

/-- `unlink_if_exists` -/
def unlinkIfExists (env : Env) (s : St) (p : Path) : St × Except Exc Unit :=
  match s.sys env (.unlink p) with
  | (s', none) => (s', .ok ())
  | (s', some .ENOENT) => (s', .ok ())
  | (s', some e) => (s', .error (.os e))

/-- `ops.mkdir(d)`: `os.mkdir(location, mode or 0o777)` then `ensure_perms(d)` -/
def mkdirMode (env : Env) (e : Entry) : Nat := maskMode (if e.mode = 0 then 0o777 else e.mode) env.umask

/-- snakeoil `ensure_dirs(path, mode=0o750, minimal=True)` for a missing `path` (called under `umask(0)`):
walk from the root, create what is missing; `false` as soon as a component is not a directory or a mkdir
fails.  `anc` = the ancestors of the path including itself, outermost first. -/
def ensureDirsWalk (env : Env) (s : St) : List Path → St × Bool
  | [] => (s, true)
  | a :: rest =>
    match statFollow s.fs 8 a with
    | some (_, _, nd) => if nd.kind = .dir then ensureDirsWalk env s rest else (s, false)
    | none =>
      match s.sys env (.mkdir a 0o750) with
      | (s', none) => ensureDirsWalk env s' rest
      | (s', some _) => (s', false)

/-- the path and its ancestors (root included), outermost first -/
def ancestorsIncl : Path → List Path
  | [] => [[]]
  | n :: q => ancestorsIncl q ++ [n :: q]

/-- `sticky_parent` of snakeoil's walk: the set-group-ID bit of the deepest directory that already exists on the
way (`os.stat`, so through symlinks); `anc` outermost first, `acc` = the value so far -/
def sgidAbove (fs : Fs) : List Path → Bool → Bool
  | [], acc => acc
  | a :: rest, acc =>
    match statFollow fs 8 a with
    | some (_, _, nd) => sgidAbove fs rest (decide (nd.mode &&& 0o2000 ≠ 0))
    | none => acc

/-- snakeoil `ensure_dirs(p, mode=0o750, minimal=True)` for a missing `p`: the walk, then its `resets`: when the
directories were made below a set-group-ID directory, the requested mode is re-applied to the **last** one
(`if base == apath and sticky_parent: resets.append((base, mode))`) — that drops the inherited set-group-ID bit
from `p` itself, the intermediate directories keep it.  A failing `chmod` makes `ensure_dirs` return `False`. -/
def ensureDirs (env : Env) (s : St) (p : Path) : St × Bool :=
  match ensureDirsWalk env s (ancestorsIncl p) with
  | (s1, true) =>
    if s.fs.view p = none ∧ sgidAbove s.fs (ancestorsIncl p) false = true then
      match s1.sys env (.chmod p 0o750) with
      | (s2, none) => (s2, true)
      | (s2, some _) => (s2, false)
    else (s1, true)
  | (s1, false) => (s1, false)

/-- what creates the object itself at `fp` -/
def createOps (env : Env) (e : Entry) (fp : Path) : List Op :=
  match e.kind with
  | .reg d _ => if d = "" then [.creat fp (maskMode 0o666 env.umask)]
                else [.creat fp (maskMode 0o666 env.umask), .write fp d]
  | .sym t => [.symlink t fp]
  | .fifo => [.mkfifo fp (maskMode 0o666 env.umask)]
  | .dir => []

/-- `ops.copyfile(obj, mkdirs=True)` for a non-directory entry -/
def copyfile (env : Env) (s : St) (e : Entry) : St × Except Exc Unit :=
  match s.fs.view e.loc with
  | some (_, nd) =>
    if nd.kind = .dir then (s, .error .cannotOverwrite)
    else
      -- existent: build the '#new' sibling, then rename over the old entry
      let fp := tmpOf e.loc
      match unlinkIfExists env s fp with
      | (s1, .error x) => (s1, .error x)
      | (s1, .ok ()) =>
        match s1.sysAll env (createOps env e fp ++ permsOps e fp ++ [.rename fp e.loc]) with
        | (s2, r) => (s2, r)
  | none =>
    -- `os.path.exists(dirname)`, else `ensure_dirs(dirname, mode=0o750, minimal=True)`
    let r := if (statFollow s.fs 8 e.loc.tail).isSome then (s, true) else ensureDirs env s e.loc.tail
    if r.2 then r.1.sysAll env (createOps env e e.loc ++ permsOps e e.loc)
    else (r.1, .error .failedCopy)

/-- `ops.do_link(src, trg)`; `EXDEV` does not occur on the single modelled device, so the result is
`ok ()` (= `True`) or an exception -/
def doLink (env : Env) (s : St) (src trg : Path) : St × Except Exc Unit :=
  match s.sys env (.link src trg) with
  | (s1, none) => (s1, .ok ())
  | (s1, some .EEXIST) =>
    let path := tmpOf trg
    match unlinkIfExists env s1 path with
    | (s2, .error x) => (s2, .error x)
    | (s2, .ok ()) =>
      match s2.sys env (.link src path) with
      | (s3, some e) => (s3, .error (.os e))
      | (s3, none) =>
        match s3.sys env (.rename path trg) with
        | (s4, none) => (s4, .ok ())
        | (s4, some e) =>
          match unlinkIfExists env s4 path with
          | (s5, .error x) => (s5, .error x)
          | (s5, .ok ()) => (s5, .error (.os e))
  | (s1, some e) => (s1, .error (.os e))

/-- `fsFile._can_be_hardlinked` for two regular entries of one (dev, inode) key -/
def canHardlink (t x : Entry) : Bool :=
  decide (t.uid = x.uid ∧ t.gid = x.gid ∧ t.mode = x.mode ∧ t.mtime = x.mtime)

/-- the source inode key `(st_dev, st_ino)` of a regular entry -/
def Entry.key (e : Entry) : Option (Nat × Nat) :=
  match e.kind with
  | .reg _ k => k
  | _ => none

/-- `merged_inodes`: the dict `key → [entries]` is kept as one list in insertion order; the list of a key is
the sub-list of the entries with that key (same order), so "first candidate of `merged_inodes[key]` that can be
hard-linked" is `firstCand` -/
abbrev Cands := List Entry

def firstCand (c : Cands) (k : Nat × Nat) (x : Entry) : Option Entry :=
  c.find? (fun t => decide (t.key = some k) && canHardlink t x)

/-- the symlink branch of the `except CannotOverwrite` handler: `gen_obj(pjoin(x.location, x.target))` is a
directory ⇒ the entry is skipped -/
def symOverDirSkips (fs : Fs) (e : Entry) : Bool :=
  match e.kind with
  | .sym t =>
    match pathOfTarget fs e.loc t with      -- NB: joined to the location itself, as the code does
    | none => false
    | some q => match fs.view q with
      | some (_, nd) => decide (nd.kind = .dir)
      | none => false
  | _ => false

/-- second loop of `merge_contents`: everything that is not a directory, in contents order -/
def mergeNonDirs (env : Env) : St → Cands → List Entry → St × Except Exc Unit
  | s, _, [] => (s, .ok ())
  | s, c, x :: xs =>
    match x.kind with
    | .reg _ (some k) =>
      match firstCand c k x with
      | some t =>
        match doLink env s t.loc x.loc with
        | (s1, .ok ()) => mergeNonDirs env s1 c xs
        | (s1, .error e) => (s1, .error e)
      | none =>
        match copyfile env s x with
        | (s1, .ok ()) => mergeNonDirs env s1 (c ++ [x]) xs
        | (s1, .error e) => (s1, .error e)
    | _ =>
      match copyfile env s x with
      | (s1, .ok ()) => mergeNonDirs env s1 c xs
      | (s1, .error .cannotOverwrite) =>
        if symOverDirSkips s1.fs x then mergeNonDirs env s1 c xs else (s1, .error .cannotOverwrite)
      | (s1, .error e) => (s1, .error e)

/-- `ensure_perms(x, obj)` for a directory entry on an existing directory: mode is kept, ownership enforced -/
def dirPermsExisting (env : Env) (s : St) (x : Entry) (nd : Inode) : St × Except Exc Unit :=
  if x.uid ≠ nd.uid ∨ x.gid ≠ nd.gid then s.sysAll env [.lchown x.loc x.uid x.gid] else (s, .ok ())

/-- one iteration of the first loop of `merge_contents` -/
def mergeDir (env : Env) (s : St) (x : Entry) : St × Except Exc Unit :=
  match statFollow s.fs 8 x.loc with
  | some (_, _, nd) =>
    if nd.kind ≠ .dir then (s, .error .cannotOverwrite) else dirPermsExisting env s x nd
  | none =>
    if statErr s.fs 8 x.loc ≠ .ENOENT then (s, .error (.os (statErr s.fs 8 x.loc)))   -- only FileNotFoundError is caught
    else
      match s.sys env (.mkdir x.loc (mkdirMode env x)) with
      | (s1, none) => s1.sysAll env (permsOps x x.loc ++ permsOps x x.loc)
      | (s1, some .EEXIST) =>
        -- "we do this form to catch dangling symlinks"
        s1.sysAll env ([.unlink x.loc, .mkdir x.loc (mkdirMode env x)] ++ permsOps x x.loc ++ permsOps x x.loc)
      | (s1, some e) => (s1, .error (.os e))

def mergeDirs (env : Env) : St → List Entry → St × Except Exc Unit
  | s, [] => (s, .ok ())
  | s, x :: xs =>
    match mergeDir env s x with
    | (s1, .ok ()) => mergeDirs env s1 xs
    | (s1, .error e) => (s1, .error e)

/-- rendering of a location as the code sorts it (`str` comparison, code point order): `/a/b` for `["b","a"]` -/
def pathKey : Path → List Char
  | [] => []
  | n :: q => pathKey q ++ '/' :: n.toList

/-- `list.sort()` on fs objects (`fsBase.__lt__` compares locations): a stable insertion sort by `pathKey` -/
def insertByKey (x : Entry) : List Entry → List Entry
  | [] => [x]
  | y :: ys => if pathKey y.loc ≤ pathKey x.loc then y :: insertByKey x ys else x :: y :: ys

def sortDirs : List Entry → List Entry
  | [] => []
  | x :: xs => insertByKey x (sortDirs xs)

/-- `merge_contents(cset, offset)`: `entries` in contents (dict) order, locations relative to the root;
`withOffset` = an `offset` argument was given (then a missing root is created first) -/
def mergeContents (env : Env) (withOffset : Bool) (entries : List Entry) (fs : Fs) : St × Except Exc Unit :=
  let r0 : St × Except Exc Unit :=
    if withOffset = true ∧ fs.view [] = none then St.sysAll env ⟨fs, []⟩ [.mkdir [] (maskMode 0o777 env.umask)]
    else (⟨fs, []⟩, .ok ())
  match r0 with
  | (s1, .error e) => (s1, .error e)
  | (s1, .ok ()) =>
    match mergeDirs env s1 (sortDirs (entries.filter (·.isDir))) with
    | (s2, .error e) => (s2, .error e)
    | (s2, .ok ()) => mergeNonDirs env s2 [] (entries.filter (fun e => !e.isDir))

end Pkgcore.C18
