import Pkgcore.Model.C01
/-!
# C40 model — `pkgcore.ebuild.keywording`: `match_packages`, `suggested_keywords`, `filter_prefix_keywords`,
`select_best_version`, as written.

The repository is a finite list of packages (key = category/package, lexed version + revision for the CPV order,
KEYWORDS, live flag).  `repo.match(dep)` is glue (atom matching belongs to another property): a request line carries
the indices of the packages its spec matched, in the order `repo.match` returned them, together with `dep.op` and
whether `dep.slot` is set.  `repo.match(pkg.unversioned_atom)` is "the packages with the same key".
Python sets become duplicate-free lists; `sort_keywords` is modelled for the only case it is used in (arches without
`-`): alphabetical order.  The generator `match_packages` is run to completion: the result is the list of yielded
requests and the exception that ended it, if any.
-/
namespace Pkgcore.C40
open Pkgcore.C01 (Ver)

abbrev Str := List Char

structure Pkg where
  key : Str
  ver : Ver
  rev : Str
  keywords : List Str
  live : Bool
  deriving Repr

structure Repo where
  known : List Str          -- repo.known_arches
  pkgs : List Pkg
  deriving Repr

structure Req where
  text : Str                -- str(dep)
  op : Str                  -- dep.op
  slotted : Bool            -- bool(dep.slot)
  matched : List Nat        -- repo.match(dep), as indices into repo.pkgs
  written : List Str
  deriving Repr

structure Opts where
  stable : Bool
  cc : List Str
  onlyNew : Bool
  filterArch : List Str
  allarches : Bool
  deriving Repr

inductive Exc
  | packageInvalid | packageNoMatch | keywordNoMatch
  | keywordNotSpecified (pkgs : List Str)
  | keywordNoneLeft | packageListEmpty | packageListDoneAlready
  deriving DecidableEq, Repr

/-- `s.lstrip(chars)` -/
def lstrip (chars : List Char) (s : Str) : Str := s.dropWhile (chars.contains ·)

def dedup (l : List Str) : List Str := l.eraseDups

/-- `filter_prefix_keywords` -/
def filterPrefix (kws : List Str) : List Str := kws.filter (fun x => !x.contains '-')

/-- the packages `repo.match(pkg.unversioned_atom)` returns -/
def sameKey (repo : Repo) (p : Pkg) : List Pkg := repo.pkgs.filter (·.key = p.key)

/-- `suggested_keywords(repo, pkg, stable=stable)` as a duplicate-free list -/
def suggested (repo : Repo) (p : Pkg) (stable : Bool) : List Str :=
  let disallowed : List Char := if stable then ['-', '~'] else ['-']
  let candidates := dedup (((sameKey repo p).flatMap (·.keywords)).filter (fun x => !(disallowed.contains (x.headD ' ')) && x ≠ [])
                      |>.map (lstrip ['~']))
  let candidates :=
    if stable then
      candidates.filter (fun c => ((p.keywords.filter (fun x => x.head? = some '~')).map (lstrip ['~'])).contains c)
    else
      candidates.filter (fun c => !((p.keywords.map (lstrip ['~', '-'])).contains c))
  filterPrefix candidates

def strLe (a b : Str) : Bool := (compare (String.ofList a) (String.ofList b)).isLE

/-- `sort_keywords` on arches without `-` -/
def sortKw (l : List Str) : List Str := l.mergeSort strLe

/-- CPV order of two versions of the same package -/
def pkgLe (a b : Pkg) : Bool := (C01.verCmp a.ver (some a.rev) b.ver (some b.rev)) != .gt

/-- first element of `sorted(matches, reverse=True)` satisfying `ok`: the greatest, the earliest among equals -/
def bestOf (ok : Pkg → Bool) (ms : List (Nat × Pkg)) : Option (Nat × Pkg) :=
  ms.foldl (fun acc x =>
    if ok x.2 then
      match acc with
      | none => some x
      | some b => if pkgLe x.2 b.2 then some b else some x
    else acc) none

/-- `select_best_version` -/
def selectBest (ms : List (Nat × Pkg)) : Option (Nat × Pkg) :=
  (bestOf (fun p => !p.keywords.isEmpty) ms).orElse fun _ =>
  (bestOf (fun p => !p.live) ms).orElse fun _ =>
  bestOf (fun _ => true) ms

structure St where
  previous : Option (List Str) := none
  keywordedAlready : Bool := false
  filtered : Bool := false
  yielded : Bool := false
  noPotential : List Str := []
  noKeywords : List Str := []
  yields : List (Nat × List Str) := []
  deriving Repr

inductive Step
  | raise (e : Exc)
  | next (st : St)

/-- `keywords = list(cc_arches)` for an empty line, otherwise the narrowing to `cc_arches` -/
def ccStep (o : Opts) (kws : List Str) : List Str :=
  if kws.isEmpty then o.cc else if o.cc.isEmpty then kws else kws.filter (o.cc.contains ·)

/-- the `only_new` filter -/
def onlyNewStep (o : Opts) (pkg : Pkg) (kws : List Str) : List Str :=
  if o.onlyNew then
    kws.filter (fun k => !pkg.keywords.contains k && (o.stable || !pkg.keywords.contains ('~' :: k)))
  else kws

/-- `allarches_kw` -/
def allarchesKw (repo : Repo) (o : Opts) (pkg : Pkg) : List Str :=
  if o.allarches && o.stable && !o.filterArch.isEmpty then
    sortKw ((suggested repo pkg true).filter (repo.known.contains ·))     -- `suggested & valid_arches`
  else []

/-- the `filter_arch` filter with the all-arches additions -/
def filterStep (repo : Repo) (o : Opts) (pkg : Pkg) (kws : List Str) : List Str :=
  if o.filterArch.isEmpty then kws
  else
    let f := kws.filter (o.filterArch.contains ·)
    f ++ (allarchesKw repo o pkg).filter (fun k => !f.contains k)

/-- the loop body from `if not keywords: keywords = list(cc_arches)` on; `kws` passed the unknown-keyword check -/
def tailStep (repo : Repo) (o : Opts) (st : St) (r : Req) (idx : Nat) (pkg : Pkg) (kws : List Str) : Step :=
  let kws' := ccStep o kws
  if !kws.isEmpty && !o.cc.isEmpty && kws'.isEmpty then .next st            -- no longer addressed to anyone
  else if kws'.isEmpty then
    let st := if !(suggested repo pkg o.stable).isEmpty then { st with noKeywords := st.noKeywords ++ [r.text] }
              else { st with noPotential := st.noPotential ++ [r.text] }
    .next { st with yields := st.yields ++ [(idx, kws')] }
  else
    let st := { st with previous := some kws' }
    let kws1 := onlyNewStep o pkg kws'
    if o.onlyNew && kws1.isEmpty then .next { st with keywordedAlready := true }
    else
      let kws2 := filterStep repo o pkg kws1
      if !o.filterArch.isEmpty && kws2.isEmpty then .next { st with filtered := true }
      else .next { st with yields := st.yields ++ [(idx, kws2)], yielded := true }

inductive Expanded
  | skip                      -- NO_KEYWORDS: `continue`
  | bad                       -- SAME_KEYWORDS on the first line: KeywordNoMatch
  | kws (l : List Str)

/-- the three sentinels -/
def expandSentinels (repo : Repo) (o : Opts) (st : St) (r : Req) (pkg : Pkg) : Expanded :=
  let kws := r.written.map (lstrip ['~'])
  if kws.contains ['-'] then .skip
  else
    let kws := if kws.contains ['*'] then sortKw (suggested repo pkg o.stable) ++ kws.filter (· ≠ ['*']) else kws
    let sameUse := kws.contains ['^']
    if sameUse && st.previous.isNone then .bad
    else .kws (if sameUse then (st.previous.getD []) ++ kws.filter (· ≠ ['^']) else kws)

/-- the sentinels and the unknown-keyword check -/
def sentinelStep (repo : Repo) (o : Opts) (st : St) (r : Req) (idx : Nat) (pkg : Pkg) : Step :=
  match expandSentinels repo o st r pkg with
  | .skip => .next st
  | .bad => .raise .keywordNoMatch
  | .kws kws =>
    if kws.any (fun k => !repo.known.contains k) then .raise .keywordNoMatch
    else tailStep repo o st r idx pkg kws

/-- `matched[0] if stable and matched else select_best_version(matched)` -/
def pick (repo : Repo) (o : Opts) (r : Req) : Option (Nat × Pkg) :=
  let ms : List (Nat × Pkg) := r.matched.filterMap fun i => (repo.pkgs[i]?).map (i, ·)
  if o.stable && !ms.isEmpty then ms.head? else selectBest ms

/-- one iteration of the `for dep, written in requested` loop -/
def stepLine (repo : Repo) (o : Opts) (st : St) (r : Req) : Step :=
  if o.stable && (r.op ≠ ['='] || r.slotted) then .raise .packageInvalid
  else
    match pick repo o r with
    | none => .raise .packageNoMatch
    | some (idx, pkg) => sentinelStep repo o st r idx pkg

def runLines (repo : Repo) (o : Opts) : St → List Req → St × Option Exc
  | st, [] => (st, none)
  | st, r :: rs =>
    match stepLine repo o st r with
    | .raise e => (st, some e)
    | .next st' => runLines repo o st' rs

/-- the code after the loop -/
def finish (st : St) : Option Exc :=
  if !st.noKeywords.isEmpty then some (.keywordNotSpecified st.noKeywords)
  else if !st.noPotential.isEmpty then
    (if st.yielded then some (.keywordNotSpecified st.noPotential) else some .keywordNoneLeft)
  else if !st.yielded then
    (if st.filtered then some .packageListEmpty
     else if st.keywordedAlready then some .packageListDoneAlready
     else some .packageListEmpty)
  else none

/-- `list(match_packages(...))` with the exception that ended it -/
def matchPackages (repo : Repo) (o : Opts) (reqs : List Req) : List (Nat × List Str) × Option Exc :=
  match runLines repo o {} reqs with
  | (st, some e) => (st.yields, some e)
  | (st, none) => (st.yields, finish st)

end Pkgcore.C40
