/-!
# C22 model — `pkgcore.fs.contents.contentsSet` as written (after the `fix:` commits of C22)

* Paths are `List Char`.  `normpath`, `dirname`, `join` mirror `posixpath` (character level:
  `str.split("/")`, the component loop with its `..` rule, the `//` rule for exactly two leading slashes,
  `rfind("/")`, `rstrip("/")`, `lstrip("/")`).
* An fs entry is `(location, kind, tag)`; `fsBase.__init__` normalises the location, so entries are built
  with `mkEntry`.  `tag` stands for every other attribute (mode, uid, gid, mtime, target, data …): the set
  operations never look at them, they only have to come out of the right operand.
* `contentsSet._dict` (an insertion ordered `dict` location ↦ entry) is the list of its values in insertion
  order (`CSet`); `d[k] = v` replaces in place or appends, `del d[k]` filters.  Python `set`s of location
  strings are lists used only through membership.
* Arguments: a single argument is an entry or a path string (`Arg`); the argument of a set operation is another
  `contentsSet` or any other iterable of entries / path strings (`Other`).
* Exceptions (`KeyError`, the `TypeError`/`ValueError`/`AttributeError` raised when a value-carrying operation is
  handed a bare path string) are `Option.none`.
* Frozen sets (`mutable=False`) are not modelled.
-/
namespace Pkgcore.C22

abbrev Path := List Char

/-! ## posixpath -/

/-- `s.split("/")` -/
def splitSlash : List Char → List (List Char)
  | [] => [[]]
  | c :: cs =>
    if c = '/' then [] :: splitSlash cs
    else match splitSlash cs with
      | [] => [[c]]
      | h :: t => (c :: h) :: t

/-- `"/".join(comps)` -/
def joinSlash : List (List Char) → List Char
  | [] => []
  | [a] => a
  | a :: b :: r => a ++ '/' :: joinSlash (b :: r)

def dot : List Char := ['.']
def dotdot : List Char := ['.', '.']

/-- `initial_slashes` of `posixpath.normpath`: `path.startswith("/")`, and 2 when
`path.startswith("//") and not path.startswith("///")` -/
def initialSlashes (s : List Char) : Nat :=
  match s with
  | [] => 0
  | c0 :: r =>
    if c0 ≠ '/' then 0
    else match r with
      | [] => 1
      | c1 :: r' =>
        if c1 ≠ '/' then 1
        else match r' with
          | [] => 2
          | c2 :: _ => if c2 = '/' then 1 else 2

/-- the `for comp in comps` loop of `normpath`; `acc` is `new_comps` reversed (top of the stack first) -/
def normLoop (abs : Bool) : List (List Char) → List (List Char) → List (List Char)
  | acc, [] => acc
  | acc, c :: cs =>
    if c = [] ∨ c = dot then normLoop abs acc cs
    else if c ≠ dotdot ∨ (abs = false ∧ acc = []) ∨ acc.head? = some dotdot then normLoop abs (c :: acc) cs
    else normLoop abs acc.tail cs

/-- `posixpath.normpath` -/
def normpath (s : Path) : Path :=
  if s = [] then dot
  else
    let k := initialSlashes s
    let comps := (normLoop (k != 0) [] (splitSlash s)).reverse
    let p := List.replicate k '/' ++ joinSlash comps
    if p = [] then dot else p

/-- `p[:p.rfind("/") + 1]` -/
def headToLastSlash : List Char → List Char
  | [] => []
  | c :: cs =>
    let r := headToLastSlash cs
    if r ≠ [] then c :: r else if c = '/' then [c] else []

/-- `s.rstrip("/")` -/
def rstripSlash : List Char → List Char
  | [] => []
  | c :: cs => if rstripSlash cs = [] ∧ c = '/' then [] else c :: rstripSlash cs

/-- `s.lstrip("/")` -/
def lstripSlash : List Char → List Char
  | [] => []
  | c :: cs => if c = '/' then lstripSlash cs else c :: cs

/-- `posixpath.dirname` -/
def dirname (p : Path) : Path :=
  let head := headToLastSlash p
  if head ≠ [] ∧ head ≠ List.replicate head.length '/' then rstripSlash head else head

/-- `posixpath.join(a, b)` -/
def pjoin (a b : Path) : Path :=
  if b.head? = some '/' then b
  else if a = [] ∨ a.getLast? = some '/' then a ++ b
  else a ++ '/' :: b

/-! ## entries and the dict -/

structure Entry where
  loc : Path
  kind : Nat
  tag : Nat
  deriving DecidableEq, Repr

/-- `fsBase.__init__`: the location is normalised -/
def mkEntry (raw : Path) (kind tag : Nat) : Entry := ⟨normpath raw, kind, tag⟩

abbrev CSet := List Entry

inductive Arg
  | ent (e : Entry)
  | path (s : Path)
  deriving DecidableEq, Repr

inductive Other
  | cset (c : CSet)
  | items (l : List Arg)
  deriving Repr

/-- `self._dict.get(k)` -/
def lookup (c : CSet) (k : Path) : Option Entry := c.find? (fun e => e.loc = k)

/-- `k in self._dict` -/
def hasKey (c : CSet) (k : Path) : Bool := (lookup c k).isSome

/-- `self._dict[e.location] = e` -/
def dictSet : CSet → Entry → CSet
  | [], e => [e]
  | x :: xs, e => if x.loc = e.loc then e :: xs else x :: dictSet xs e

/-- `self._dict.pop(k, None)` -/
def dictDel (c : CSet) (k : Path) : CSet := c.filter (fun e => e.loc ≠ k)

/-- the dict key an argument is resolved to: `obj.location` for entries, `normpath(obj)` for strings -/
def keyOf : Arg → Path
  | .ent e => e.loc
  | .path s => normpath s

/-- `__contains__` -/
def contains (c : CSet) (a : Arg) : Bool := hasKey c (keyOf a)

/-- `__getitem__`; `none` = `KeyError` -/
def getitem (c : CSet) (a : Arg) : Option Entry := lookup c (keyOf a)

/-- `add` -/
def add (c : CSet) (e : Entry) : CSet := dictSet c e

/-- `__delitem__` / `remove`; `none` = `KeyError` -/
def delitem (c : CSet) (a : Arg) : Option CSet :=
  if hasKey c (keyOf a) then some (dictDel c (keyOf a)) else none

/-- `discard` -/
def discard (c : CSet) (a : Arg) : CSet := dictDel c (keyOf a)

/-- `update(iterable of entries)` -/
def update (c : CSet) (l : List Entry) : CSet := l.foldl dictSet c

/-- `contentsSet(initial)` -/
def ofList (l : List Entry) : CSet := update [] l

/-- what iterating the argument yields -/
def Other.args : Other → List Arg
  | .cset c => c.map .ent
  | .items l => l

/-- `isfs_obj(x)`-guarded access to the entry -/
def Arg.entry? : Arg → Option Entry
  | .ent e => some e
  | .path _ => none

/-- a list of items as entries; `none` = a bare string was met -/
def entriesOf : List Arg → Option (List Entry)
  | [] => some []
  | a :: as =>
    match a.entry?, entriesOf as with
    | some e, some es => some (e :: es)
    | _, _ => none

/-- the argument as entries (`check_instance` / `_ensure_fsbase` / `x.location`); `none` = a bare string was met -/
def Other.entries : Other → Option (List Entry)
  | .cset c => some c
  | .items l => entriesOf l

/-- `set(self._convert_loc(other))` -/
def convertLoc (l : List Arg) : List Path := l.map keyOf

/-- `x in other` for a location string `x`, `other` being a contentsSet (whose `__contains__` normalises the
string again) or the converted location set -/
def otherHas : Other → Path → Bool
  | .cset c, x => contains c (.path x)
  | .items l, x => (convertLoc l).contains x

/-- `difference` -/
def difference (c : CSet) (o : Other) : CSet := c.filter (fun x => !otherHas o x.loc)

/-- `difference_update`: `for x in other: if x in self: self.remove(x)` -/
def differenceUpdate (c : CSet) (o : Other) : CSet :=
  o.args.foldl (fun c a => if contains c a then dictDel c (keyOf a) else c) c

/-- one item of `intersection`'s generator: `x if isfs_obj(x) else self[x]`, kept `if x in self` -/
def interItem (c : CSet) (a : Arg) : Option Entry :=
  if contains c a then (match a with | .ent e => some e | .path _ => getitem c a) else none

/-- `intersection`: `contentsSet(x if isfs_obj(x) else self[x] for x in other if x in self)` -/
def intersection (c : CSet) (o : Other) : CSet := ofList (o.args.filterMap (interItem c))

/-- `intersection_update`: `l = [x for x in self if x.location not in other]; for x in l: self.remove(x)` -/
def intersectionUpdate (c : CSet) (o : Other) : CSet :=
  (c.filter (fun x => !otherHas o x.loc)).foldl (fun (c : CSet) (x : Entry) => dictDel c x.loc) c

/-- `issubset`: `all(x in other for x in self._dict)` -/
def issubset (c : CSet) (o : Other) : Bool := c.all (fun x => otherHas o x.loc)

/-- `issuperset`: `all(x in self for x in other)` (a contentsSet is iterated as entries, anything else as the
converted location strings) -/
def issuperset (c : CSet) : Other → Bool
  | .cset c' => c'.all (fun e => contains c (.ent e))
  | .items l => (convertLoc l).all (fun s => contains c (.path s))

/-- `isdisjoint`: `not any(x in other for x in self._dict)` -/
def isdisjoint (c : CSet) (o : Other) : Bool := !c.any (fun x => otherHas o x.loc)

/-- `union`: `c = contentsSet(other); c.update(self)` -/
def union (c : CSet) (o : Other) : Option CSet := o.entries.map fun l => update (ofList l) c

/-- the body of `symmetric_difference_update` once `other` is a contentsSet `o'`:
`l = [x for x in self if x in other]; for x in other: if x not in self: add(x); for x in l: remove(x)` -/
def symDiffCore (c o' : CSet) : CSet :=
  let l := c.filter (fun x => contains o' (.ent x))
  let c1 := o'.foldl (fun (c : CSet) (x : Entry) => if contains c (.ent x) then c else add c x) c
  l.foldl (fun (c : CSet) (x : Entry) => dictDel c x.loc) c1

/-- `symmetric_difference_update`: anything but a contentsSet goes through `contentsSet(_ensure_fsbase(other))` -/
def symmetricDifferenceUpdate (c : CSet) : Other → Option CSet
  | .cset c' => some (symDiffCore c c')
  | .items l => ((Other.items l).entries.map ofList).map (symDiffCore c)

/-- `symmetric_difference`: copy, then the in-place operation -/
def symmetricDifference (c : CSet) (o : Other) : Option CSet := symmetricDifferenceUpdate (update [] c) o

/-- `update` with an arbitrary argument (`x.location` of a string raises) -/
def updateOther (c : CSet) (o : Other) : Option CSet := o.entries.map (update c)

/-! ## relocation -/

/-- `fsBase.change_attributes(location=loc)`: relative results go through `abspath` (depends on the cwd):
`none`; otherwise the class constructor normalises again -/
def changeLocation (e : Entry) (loc : Path) : Option Entry :=
  if loc.head? = some '/' then some (mkEntry loc e.kind e.tag) else none

/-- the new location computed by `change_offset_rewriter` for one entry -/
def rewriteLoc (offsetLen : Nat) (newOffset : Path) (loc : Path) : Path :=
  normpath (pjoin newOffset (lstripSlash (loc.drop offsetLen)))

/-- `len(normpath(orig_offset or "/").rstrip("/"))` -/
def offsetLen (origOffset : Path) : Nat :=
  (rstripSlash (normpath (if origOffset = [] then ['/'] else origOffset))).length

/-- `contentsSet.change_offset(old, new)`; `none` when some rewritten location is relative -/
def changeOffset (c : CSet) (old new : Path) : Option CSet :=
  (c.mapM fun e => changeLocation e (rewriteLoc (offsetLen old) new e.loc)).map (update [])

/-! ## completing directories -/

/-- insertion into a Python `set` of strings -/
def setAdd (s : List Path) (x : Path) : List Path := if x ∈ s then s else s ++ [x]

/-- `while target not in missing and target not in self: missing.add(target); target = dirname(target)`.
`dirname` never lengthens a path and a path it does not shorten is a fixed point; such a target has just been
added to `missing`, so the Python loop stops there as well (see `climb_terminates`). -/
def climb (self : CSet) (missing : List Path) (target : Path) : List Path :=
  if target ∈ missing ∨ contains self (.path target) then missing
  else if (dirname target).length < target.length then climb self (setAdd missing target) (dirname target)
  else setAdd missing target
termination_by target.length

/-- kind code of `fsDir` -/
def kindDir : Nat := 1

/-- `add_missing_directories(mode, uid, gid, mtime)` (`dirTag` = those four) -/
def addMissingDirectories (c : CSet) (dirTag : Nat) : CSet :=
  let missing0 := (c.map fun (x : Entry) => dirname x.loc).foldl
    (fun s d => if contains c (.path d) then s else setAdd s d) []
  let missing := missing0.foldl (fun m x => climb c m (dirname x)) missing0
  let missing := missing.filter (· ≠ ['/'])
  update c (missing.map fun x => mkEntry x kindDir dirTag)

/-! ## object identity

`contents.py` has two kinds of methods.  The in-place ones rewrite `self._dict` (`add`, `remove`, `discard`, `update`,
the `…_update` forms, `add_missing_directories`).  The value-returning ones build a new object and leave `self` alone:
`contentsSet(...)` in `difference` / `intersection` / `union` / `symmetric_difference`, `self.clone(empty=True)`
followed by `update` in `change_offset` — whatever the arguments are, in particular when nothing has to be changed
(relocation onto the same prefix, empty argument).  A run over several objects is modelled on a heap: the list of the
objects created so far; a new object gets the next index. -/

/-- the objects created so far, by creation index -/
abbrev Heap := List CSet

/-- one method call in a run over several objects -/
inductive Step where
  /-- an in-place method of object `i`; `f` = what it makes of `self._dict` -/
  | inPlace (i : Nat) (f : CSet → CSet)
  /-- a value-returning method of object `i`; its result (`none` = it raised) is a new object -/
  | fresh (i : Nat) (f : CSet → Option CSet)

/-- a call on an index that does not exist, or a value-returning call that raises, leaves the heap alone -/
def Heap.step (h : Heap) : Step → Heap
  | .inPlace i f =>
    match h[i]? with
    | some c => h.set i (f c)
    | none => h
  | .fresh i f =>
    match h[i]? with
    | some c => (match f c with | some r => h ++ [r] | none => h)
    | none => h

/-- a sequence of calls -/
def Heap.run (h : Heap) (l : List Step) : Heap := l.foldl Heap.step h

/-- the edit a call makes to object `j`: only an in-place method *of that object* makes one -/
def Step.editOf (j : Nat) : Step → Option (CSet → CSet)
  | .inPlace i f => if i = j then some f else none
  | .fresh _ _ => none

/-- `obj.change_offset(old, new)` as a call on object `i` -/
def Step.relocate (i : Nat) (old new : Path) : Step := .fresh i fun c => changeOffset c old new

end Pkgcore.C22
