/-!
# C14 model — `pkgcore.package.conditionals.PackageWrapper` over `snakeoil.containers.LimitedChangeSet`

Mirrors, as written (after the three `fix:` commits in the pkgcore tree, see `notes/C14.md`):

* `LimitedChangeSet.add / remove / changes_count / commit / rollback`  (snakeoil, external component — modelled
  exactly as shipped, including its treatment of no-op changes in `rollback`);
* `PackageWrapper.request_enable / request_disable` for the configurable attribute (`use`), `rollback`, `commit`,
  `changes_count`, and the wrapped-attribute getter `_getattr_wrapped` with its `(generation, value)` cache.

Conventions: flags `α` and attribute names `β` are arbitrary types with decidable equality (the driver uses
`String`).  The Python `set` `_new` is a list used only through membership (`insert` appends when absent,
`set.remove` filters), `_changed` likewise; `_change_order` is a list whose **head is the most recent entry**.
The blacklist (`unchangable_keys`, an `InvertedContains` in pkgcore) is the predicate `locked`.
A wrapped attribute's value is a function of the raw attribute and the USE set, so a cached value is modelled by
**the USE snapshot it was computed from**.

`Variant` selects between the code as pinned and the code as fixed, so that the defects of the pinned tree
can be stated (and refuted) about the same definitions; every main theorem is about `Variant.fixed`.
-/
namespace Pkgcore.C14

/-- kind of a `_change_order` entry (`_removed = 0`, `_added = 1`) -/
inductive Chg | removed | added
  deriving DecidableEq, Repr

/-- `snakeoil.containers.LimitedChangeSet` state: `_new`, `_changed`, `_change_order` (head = latest) -/
structure LCS (α : Type) where
  new : List α
  changed : List α
  log : List (Chg × α)
  deriving Repr

/-- what `add`/`remove` can do -/
inductive Res (α : Type)
  | ok (s : LCS α)      -- returned normally (possibly without changing anything)
  | unchangable         -- raised `Unchangable`
  | keyError            -- raised `KeyError` (only `remove`)

variable {α : Type} [DecidableEq α] {β : Type} [DecidableEq β]

namespace LCS

/-- `LimitedChangeSet(initial_keys, unchangable_keys)` -/
def init (initial : List α) : LCS α := ⟨initial.eraseDups, [], []⟩

/-- `set.add` -/
def setAdd (l : List α) (k : α) : List α := if k ∈ l then l else l ++ [k]
/-- `set.remove` / `discard` (membership semantics) -/
def setDel (l : List α) (k : α) : List α := l.filter (· ≠ k)

/-- `LimitedChangeSet.add` -/
def add (locked : α → Bool) (s : LCS α) (k : α) : Res α :=
  if k ∈ s.changed ∨ locked k = true then
    if k ∈ s.new then .ok s else .unchangable
  else .ok ⟨setAdd s.new k, k :: s.changed, (.added, k) :: s.log⟩

/-- `LimitedChangeSet.remove` -/
def remove (locked : α → Bool) (s : LCS α) (k : α) : Res α :=
  if k ∈ s.changed ∨ locked k = true then
    if k ∈ s.new then .unchangable else .keyError
  else .ok ⟨setDel s.new k, k :: s.changed, (.removed, k) :: s.log⟩

/-- `changes_count` -/
def count (s : LCS α) : Nat := s.log.length

/-- `commit` (`_orig` is never read by pkgcore and is not modelled) -/
def commit (s : LCS α) : LCS α := ⟨s.new, [], []⟩

/-- one iteration of the `while l > point` loop of `rollback` -/
def popOne (s : LCS α) : LCS α :=
  match s.log with
  | [] => s
  | (c, k) :: rest =>
    ⟨(match c with | .removed => setAdd s.new k | .added => setDel s.new k), setDel s.changed k, rest⟩

def popN : Nat → LCS α → LCS α
  | 0, s => s
  | n + 1, s => popN n (popOne s)

/-- `rollback(point)`; `none` = `TypeError` (point negative or beyond `changes_count()`) -/
def rollback (s : LCS α) (point : Int) : Option (LCS α) :=
  if point < 0 ∨ point > (s.count : Int) then none else some (popN (s.count - point.toNat) s)

end LCS

/-- which of the three repaired spots behave as repaired -/
structure Variant where
  disableBumps : Bool     -- request_disable advances `_reuse_pt`            (fix b296925)
  commitMonotone : Bool   -- commit() advances `_reuse_pt` instead of `= 0`   (fix af3d1b4)
  keyErrorCaught : Bool   -- request_disable treats KeyError as "already off" (fix 23a25da)
  deriving Repr

def Variant.fixed : Variant := ⟨true, true, true⟩
def Variant.pinned : Variant := ⟨false, false, false⟩

/-- `PackageWrapper` state: `_configurable`, `_reuse_pt`, `_cached_wrapped` (attr ↦ (generation, value));
the value is the USE snapshot it was computed from -/
structure PW (α β : Type) where
  use : LCS α
  reusePt : Nat
  cache : β → Option (Nat × List α)

def PW.init (initial : List α) : PW α β := ⟨LCS.init initial, 0, fun _ => none⟩

/-- operations of a history -/
inductive Op (α β : Type)
  | enable (vals : List α)       -- `request_enable("use", *vals)`
  | disable (vals : List α)      -- `request_disable("use", *vals)`
  | rollback (point : Int)       -- `rollback(point)`
  | commit                       -- `commit()`
  | read (attr : β)              -- `getattr(pkg, attr)` for a wrapped attribute
  | refusedWrapped               -- `request_enable/disable(<wrapped attr>, atom)` that finds nothing to force:
                                 --   `self.rollback(entry_point)` with the current count, returns False
  | readFail (attr : β)          -- `getattr(pkg, attr)` during which loading/evaluating the raw attribute raises
                                 --   (lazily loaded metadata): the exception propagates out of `_getattr_wrapped`
                                 --   before anything is stored

/-- observable result of an operation -/
inductive Out (α : Type)
  | bool (b : Bool)              -- request_* returned b
  | unit                         -- rollback/commit returned
  | typeError                    -- rollback raised TypeError
  | keyError                     -- request_disable raised KeyError (pinned tree only)
  | value (snapshot : List α)    -- a read; the USE snapshot the value was computed from
  | raised                       -- a read that propagated the raw attribute's exception
  deriving DecidableEq, Repr

/-- `list(map(self._configurable.add, vals))`: apply in order, stop at the first `Unchangable`;
the state reached so far is kept (it is a mutation) and rolled back by the caller -/
def addAll (locked : α → Bool) : LCS α → List α → LCS α × Bool
  | s, [] => (s, true)
  | s, v :: vs =>
    match LCS.add locked s v with
    | .ok s' => addAll locked s' vs
    | _ => (s, false)

/-- result of the removal loop of `request_disable` -/
inductive RemRes | done | refused | keyError
  deriving DecidableEq, Repr

/-- the removal loop of `request_disable`; with `caught` a `KeyError` means "already off": go on -/
def removeAll (locked : α → Bool) (caught : Bool) : LCS α → List α → LCS α × RemRes
  | s, [] => (s, .done)
  | s, v :: vs =>
    match LCS.remove locked s v with
    | .ok s' => removeAll locked caught s' vs
    | .unchangable => (s, .refused)
    | .keyError => if caught then removeAll locked caught s vs else (s, .keyError)

/-- `PackageWrapper.rollback(point)` with a point known to be valid (`entry_point`) -/
def PW.rollbackTo (s : PW α β) (u : LCS α) (entry : Nat) : PW α β :=
  { s with use := LCS.popN (u.count - entry) u, reusePt := s.reusePt + 1 }

/-- one operation of `PackageWrapper` -/
def step (v : Variant) (locked : α → Bool) (s : PW α β) : Op α β → PW α β × Out α
  | .enable vals =>
    let entry := s.use.count
    match addAll locked s.use vals with
    | (u, true) => ({ s with use := u, reusePt := s.reusePt + 1 }, .bool true)
    | (u, false) => (s.rollbackTo u entry, .bool false)
  | .disable vals =>
    let entry := s.use.count
    match removeAll locked v.keyErrorCaught s.use vals with
    | (u, .done) => ({ s with use := u, reusePt := if v.disableBumps then s.reusePt + 1 else s.reusePt }, .bool true)
    | (u, .refused) => (s.rollbackTo u entry, .bool false)
    | (u, .keyError) => ({ s with use := u }, .keyError)
  | .rollback point =>
    match s.use.rollback point with
    | none => (s, .typeError)
    | some u => ({ s with use := u, reusePt := s.reusePt + 1 }, .unit)
  | .commit =>
    ({ s with use := s.use.commit, reusePt := if v.commitMonotone then s.reusePt + 1 else 0 }, .unit)
  | .read attr =>
    match s.cache attr with
    | some (pt, snap) =>
      if pt = s.reusePt then (s, .value snap)
      else ({ s with cache := fun a => if a = attr then some (s.reusePt, s.use.new) else s.cache a }, .value s.use.new)
    | none => ({ s with cache := fun a => if a = attr then some (s.reusePt, s.use.new) else s.cache a }, .value s.use.new)
  | .refusedWrapped => (s.rollbackTo s.use s.use.count, .bool false)
  | .readFail _ =>
    -- only a miss consults the raw attribute (a hit returns the stored value: that is an ordinary `.read`); the exception
    -- leaves `_getattr_wrapped` before `_cached_wrapped[attr] = (_reuse_pt, o)`: no store, no generation change
    (s, .raised)

/-- run a history, collecting every result -/
def run (v : Variant) (locked : α → Bool) : PW α β → List (Op α β) → PW α β × List (Out α)
  | s, [] => (s, [])
  | s, op :: ops =>
    let (s1, o) := step v locked s op
    let (s2, os) := run v locked s1 ops
    (s2, o :: os)

end Pkgcore.C14
