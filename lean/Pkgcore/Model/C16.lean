import Pkgcore.Model.C01
/-!
# C16 model — the resolver's candidate streams (choice policy)

Mirrors, for the packages matching one atom (all of one `category/package`):
* `plan.pkg_sort_highest` = `sorted(reverse=True)` inside every `caching_repo` (`sortDesc cmpPkg`; Python's sort is stable, so is
  `sortDesc`),
* the comparator `f` of `plan.highest_iter_sort` and its `sort_cmp(l, f, key=itemgetter(0), reverse=True)` on the
  `[head, iterator]` pairs (`highestSorter`),
* `snakeoil.iterables.iter_sort` as used by `repository.misc.multiplex_sorting_repo.itermatch` (`iterSort`: the pulled heads are
  re-sorted after every element, an exhausted iterator is dropped without re-sorting, a single remaining iterator is drained),
* `merge_plan.prefer_livefs_dbs`, `prefer_highest_version_strategy` (`upgradeStream`) and `prefer_reuse_strategy`
  (`reuseStream`: `multiplex.tree` of the two sorted groups = concatenation).
`cmp(x, y)` on packages of one key is the sign of `ver_cmp` (C01).
-/
namespace Pkgcore.C16
open Pkgcore.C01

structure Cand where
  id : Nat
  ver : Ver
  /-- digits of the revision (`""` when there is none); packages always carry a `Revision` object -/
  rev : List Char
  /-- `pkg.repo.livefs` -/
  livefs : Bool
  deriving DecidableEq, Repr

/-- `cmp(x, y)` for two packages of the same category/package -/
def cmpPkg (x y : Cand) : Ordering := verCmp x.ver (some x.rev) y.ver (some y.rev)

/-- the comparator `f` of `highest_iter_sort` -/
def fHighest (x y : Cand) : Ordering :=
  let c := cmpPkg x y
  if c != .eq then c
  else if x.livefs then (if y.livefs then .eq else .gt)
  else if y.livefs then .lt else .eq

/-- stable descending sort (`list.sort(key=cmp_to_key(cmp), reverse=True)`): an element goes in front of the first
element that is not strictly greater, so equal elements keep their order -/
def insertDesc {α} (cmp : α → α → Ordering) (a : α) : List α → List α
  | [] => [a]
  | b :: l => if cmp b a == .gt then b :: insertDesc cmp a l else a :: b :: l

def sortDesc {α} (cmp : α → α → Ordering) : List α → List α
  | [] => []
  | a :: l => insertDesc cmp a (sortDesc cmp l)

/-- the `[next(x), x]` pairs of the non-empty iterables -/
def heads {α} (its : List (List α)) : List (α × List α) :=
  its.filterMap fun it => match it with | [] => none | x :: xs => some (x, xs)

/-- the `while l:` loop of `iter_sort` (`fuel` bounds the number of yielded elements) -/
def iterSortLoop {α} (sorter : List (α × List α) → List (α × List α)) : Nat → List (α × List α) → List α
  | 0, _ => []
  | _ + 1, [] => []
  | n + 1, (h, y :: rest) :: l => h :: iterSortLoop sorter n (sorter ((y, rest) :: l))
  | _ + 1, [(h, []), (h2, r2)] => h :: h2 :: r2
  | n + 1, (h, []) :: l => h :: iterSortLoop sorter n l

def iterSort {α} (sorter : List (α × List α) → List (α × List α)) (its : List (List α)) : List α :=
  match heads its with
  | [(h, r)] => h :: r
  | l => iterSortLoop sorter ((its.map List.length).sum + 1) (sorter l)

/-- `highest_iter_sort` on the `[head, iterator]` pairs -/
def highestSorter (l : List (Cand × List Cand)) : List (Cand × List Cand) :=
  sortDesc (fun a b => fHighest a.1 b.1) l

/-- a repository: the candidates it holds for the atom, in whatever order it lists them -/
abbrev Repo := List Cand

def isLivefs (r : Repo) : Bool := r.any (·.livefs)

/-- `caching_repo(repo, pkg_sort_highest).itermatch(atom)` -/
def repoStream (r : Repo) : List Cand := sortDesc cmpPkg r

/-- `prefer_livefs_dbs` -/
def preferLivefs (dbs : List Repo) : List Repo := dbs.filter isLivefs ++ dbs.filter (fun r => !isLivefs r)

/-- `prefer_highest_version_strategy(dbs).itermatch(atom)` -/
def upgradeStream (dbs : List Repo) : List Cand := iterSort highestSorter ((preferLivefs dbs).map repoStream)

/-- `prefer_reuse_strategy(dbs).itermatch(atom)` -/
def reuseStream (dbs : List Repo) : List Cand :=
  iterSort highestSorter ((dbs.filter isLivefs).map repoStream) ++
    iterSort highestSorter ((dbs.filter fun r => !isLivefs r).map repoStream)

/-! ## the resolver's memory of insoluble atoms (`merge_plan._viable`)

One lookup of an atom that the plan does not satisfy yet: `cands` is what *all* repositories offer for it, `limited` says that
this lookup was restricted to the installed repositories (`dbs == self.livefs_dbs`, the retry `check_for_cycles` forces on a
build-time cycle).  `if not limit_to_vdb and not matches: self.insoluble.add(atom)`.  Whatever is in `insoluble` prunes candidates
of every later choice point (`choices.reduce_atoms(self.insoluble)`), for every later target resolved on the same resolver. -/

structure Lookup where
  atom : Nat
  cands : List Cand
  limited : Bool

/-- the `matches` of the lookup -/
def lookupMatches (l : Lookup) : List Cand := if l.limited then l.cands.filter (·.livefs) else l.cands

def markInsoluble (ins : List Nat) (l : Lookup) : List Nat :=
  if !l.limited && (lookupMatches l).isEmpty then l.atom :: ins else ins

/-- the insoluble set after a history of lookups on one resolver -/
def insolubleAfter (ls : List Lookup) : List Nat := ls.foldl markInsoluble []

end Pkgcore.C16
