import Pkgcore.Generated.C09Tables
/-!
# C09 model — `DepSet.parse`, `stringify_boolean`, `evaluate_depset` as written (after the `fix:` commits)

Mirrors `src/pkgcore/ebuild/conditionals.py` (`DepSet.parse`, `stringify_boolean`,
`DepSet.evaluate_depset`), `src/pkgcore/restrictions/boolean.py` (`base.evaluate_conditionals`) and
`src/pkgcore/restrictions/packages.py` (`Conditional.evaluate_conditionals`).

* Tokens are `List Char`; the lexing is `dep_str.split()` and is done by Python on both sides of the
  correspondence (tokens are non-empty and contain no white space; the model does not rely on it).
* The parser is the explicit stack machine of the code: `cur` is `depsets[-1]`, the stack holds
  `(raw_conditionals[-1], depsets[-2])` pairs, `next(words)` look-ahead is pattern matching on the rest of
  the token list, `words.appendleft((k2,))` is "do not consume `k2`".
* Every exception of the parser (`DepsetParseError`, the wrapped `IndexError`/`StopIteration`, an
  `element_func` that raises, an operator callable that raises) is `none`.
* `element_func` is the parameter `okEl` (does it accept the token / the `uri -> name` pair); an element is
  represented by its source text.
* class attributes `_evaluate_collapsible`, `_evaluate_wipe_empty` and the operator tables come from
  `Generated/C09Tables.lean` (regenerated from the imported modules on every run).
-/
namespace Pkgcore.C09

abbrev Tok := List Char

/-- the four group classes: `AndRestriction`, `OrRestriction`, `JustOneRestriction`, `AtMostOneOfRestriction` -/
inductive Kind | and | or | justOne | atMostOne
  deriving DecidableEq, Repr, Inhabited

def Kind.className : Kind → String
  | .and => "AndRestriction" | .or => "OrRestriction"
  | .justOne => "JustOneRestriction" | .atMostOne => "AtMostOneOfRestriction"

def Kind.ofClassName (s : String) : Option Kind :=
  if s = "AndRestriction" then some .and else if s = "OrRestriction" then some .or
  else if s = "JustOneRestriction" then some .justOne else if s = "AtMostOneOfRestriction" then some .atMostOne
  else none

/-- `cls._evaluate_collapsible` (missing class ⇒ `false`, excluded by `class_table_complete`) -/
def collapsible (k : Kind) : Bool :=
  match Generated.C09.classFlags.lookup k.className with
  | some (c, _) => c
  | none => false

/-- `cls._evaluate_wipe_empty` -/
def wipeEmpty (k : Kind) : Bool :=
  match Generated.C09.classFlags.lookup k.className with
  | some (_, w) => w
  | none => true

/-- a dependency structure node: an element (its text, with the optional `-> name` of SRC_URI), a boolean
group, or a `Conditional("use", ContainmentMatch(flag, negate=neg), payload)` -/
inductive Dep where
  | leaf (k : Tok) (ren : Option Tok)
  | grp (kind : Kind) (cs : List Dep)
  | cond (neg : Bool) (flag : Tok) (cs : List Dep)
  deriving Repr, Inhabited

/-! structural equality is decidable (nested inductive: written out) -/
mutual
def Dep.decEq : (a b : Dep) → Decidable (a = b)
  | .leaf k r, .leaf k' r' =>
    if h : k = k' ∧ r = r' then isTrue (by rw [h.1, h.2]) else isFalse (by intro e; cases e; exact h ⟨rfl, rfl⟩)
  | .grp kd cs, .grp kd' cs' =>
    if h : kd = kd' then
      match Dep.decEqL cs cs' with
      | isTrue h2 => isTrue (by rw [h, h2])
      | isFalse h2 => isFalse (by intro e; cases e; exact h2 rfl)
    else isFalse (by intro e; cases e; exact h rfl)
  | .cond n f cs, .cond n' f' cs' =>
    if h : n = n' ∧ f = f' then
      match Dep.decEqL cs cs' with
      | isTrue h2 => isTrue (by rw [h.1, h.2, h2])
      | isFalse h2 => isFalse (by intro e; cases e; exact h2 rfl)
    else isFalse (by intro e; cases e; exact h ⟨rfl, rfl⟩)
  | .leaf _ _, .grp _ _ => isFalse (by intro e; cases e)
  | .leaf _ _, .cond _ _ _ => isFalse (by intro e; cases e)
  | .grp _ _, .leaf _ _ => isFalse (by intro e; cases e)
  | .grp _ _, .cond _ _ _ => isFalse (by intro e; cases e)
  | .cond _ _ _, .leaf _ _ => isFalse (by intro e; cases e)
  | .cond _ _ _, .grp _ _ => isFalse (by intro e; cases e)
def Dep.decEqL : (a b : List Dep) → Decidable (a = b)
  | [], [] => isTrue rfl
  | [], _ :: _ => isFalse (by intro e; cases e)
  | _ :: _, [] => isFalse (by intro e; cases e)
  | a :: as, b :: bs =>
    match Dep.decEq a b with
    | isTrue h =>
      match Dep.decEqL as bs with
      | isTrue h2 => isTrue (by rw [h, h2])
      | isFalse h2 => isFalse (by intro e; cases e; exact h2 rfl)
    | isFalse h => isFalse (by intro e; cases e; exact h rfl)
end
instance : DecidableEq Dep := Dep.decEq

/-- value of an entry of the `operators` mapping: a group class, or a callable that raises -/
inductive Op | node (k : Kind) | invalid
  deriving DecidableEq, Repr

abbrev Ops := List (Tok × Op)

def tkOpen : Tok := ['(']
def tkClose : Tok := [')']
def tkArrow : Tok := ['-', '>']

/-- `k[-1] == "?"` -/
def isCondTok (k : Tok) : Bool := k.getLast? == some '?'

/-- `k[-1] == "?" or k in operators` -/
def isOpener (ops : Ops) (k : Tok) : Bool := isCondTok k || (ops.lookup k).isSome

/-- what the `")"` branch appends to `depsets[-2]`; `none` = the parser raises -/
def closeFrame (ops : Ops) (c : Tok) (cur : List Dep) : Option Dep :=
  if cur.isEmpty then none
  else match ops.lookup c with
    | some (.node kind) =>
      match cur with
      | [x] => if collapsible kind then some x else some (.grp kind cur)
      | _ => some (.grp kind cur)
    | some .invalid => none
    | none =>
      if c.isEmpty then none                                            -- `c[0]` raises IndexError, wrapped
      else if c.head? = some '!' then some (.cond true c.tail.dropLast cur)  -- `c[1:-1]`
      else some (.cond false c.dropLast cur)                            -- `c[:-1]`

/-- may `k3` stand after `->`?  (after the `fix:` the rename target must be a plain file-name token) -/
def plainTok (ops : Ops) (k : Tok) : Bool :=
  k != tkClose && k != tkOpen && k != tkArrow && !isOpener ops k && !k.contains '|'

/-- the `for k in words` loop of `DepSet.parse` -/
def parseLoop (ops : Ops) (ren : Bool) (okEl : Tok → Option Tok → Bool) :
    List Tok → List Dep → List (Tok × List Dep) → Option (List Dep)
  | [], cur, [] => some cur
  | [], _, _ :: _ => none                              -- `len(depsets) != 1`
  | k :: rest, cur, stack =>
    if k = tkClose then
      match stack with
      | [] => none                                     -- `not raw_conditionals`
      | (c, parent) :: stack' =>
        match closeFrame ops c cur with
        | none => none
        | some node => parseLoop ops ren okEl rest (parent ++ [node]) stack'
    else if k = tkOpen then parseLoop ops ren okEl rest [] (([], cur) :: stack)
    else if isOpener ops k then
      match rest with
      | [] => none                                     -- StopIteration
      | k2 :: rest' =>
        if k2 = tkOpen then parseLoop ops ren okEl rest' [] ((k, cur) :: stack) else none
    else if k.contains '|' then none
    else if ren then
      if k = tkArrow then none                         -- an arrow has to follow the uri it renames
      else if rest.head? = some tkArrow then           -- `k2 = next(words)` is `->`
        match rest with
        | _ :: k3 :: rest'' =>
          if plainTok ops k3 && okEl k (some k3) then
            parseLoop ops ren okEl rest'' (cur ++ [.leaf k (some k3)]) stack
          else none
        | _ => none                                    -- StopIteration on `k3 = next(words)`
      -- no more words, or `k2` is pushed back with `words.appendleft`
      else if okEl k none then parseLoop ops ren okEl rest (cur ++ [.leaf k none]) stack else none
    else if okEl k none then parseLoop ops ren okEl rest (cur ++ [.leaf k none]) stack else none

/-- `DepSet.parse(" ".join(toks), …).restrictions` -/
def parse (ops : Ops) (ren : Bool) (okEl : Tok → Option Tok → Bool) (toks : List Tok) : Option (List Dep) :=
  parseLoop ops ren okEl toks [] []

/-- the text `stringify_boolean` emits before the children of a group of each class -/
def Kind.sym : Kind → Tok
  | .and => [] | .or => ['|', '|'] | .justOne => ['^', '^'] | .atMostOne => ['?', '?']

/-- `"{}{}? (".format("!" if negate else "", flag)` without the `" ("` -/
def condTok (neg : Bool) (flag : Tok) : Tok := (if neg then ['!'] else []) ++ flag ++ ['?']

mutual
/-- `_internal_stringify_boolean` as a token list (`" ".join` followed by `split()` is the identity on it).
An element renders as its own text; `uri -> name` is the text of an element built by
`element_func(uri, name)`. -/
def render : Dep → List Tok
  | .leaf k none => [k]
  | .leaf k (some r) => [k, tkArrow, r]
  | .grp kind cs => (if kind = .and then [tkOpen] else [kind.sym, tkOpen]) ++ renderL cs ++ [tkClose]
  | .cond neg f cs => [condTok neg f, tkOpen] ++ renderL cs ++ [tkClose]
def renderL : List Dep → List Tok
  | [] => []
  | c :: cs => render c ++ renderL cs
end

/-- `parent_cls` of `evaluate_conditionals`: `DepSet` (a subclass of `AndRestriction`) or a group class -/
inductive PCls | depset | node (k : Kind)
  deriving DecidableEq, Repr

/-- `issubclass(parent_cls, self.__class__)` for a `self` of class `k` -/
def isSubclass (p : PCls) (k : Kind) : Bool :=
  match p with
  | .depset => k == .and
  | .node k' => k' == k

/-- the tail of `boolean.base.evaluate_conditionals`: what is appended to `parent_seq` given the evaluated
children `l` -/
def finish (p : PCls) (kind : Kind) (force : Bool) (l : List Dep) : List Dep :=
  if !wipeEmpty kind || !l.isEmpty then
    if force || (collapsible kind && (isSubclass p kind || l.length ≤ 1)) then l else [.grp kind l]
  else []

mutual
/-- `node.evaluate_conditionals(parent_cls, parent_seq, enabled)` (tristate_locked = None): the items
appended to `parent_seq`.  `F flag` = `flag in enabled`. -/
def evalNode (F : Tok → Bool) (p : PCls) : Dep → List Dep
  | .leaf k r => [.leaf k r]
  | .grp kind cs => finish p kind false (evalList F (.node kind) cs)
  | .cond neg f cs =>
    if F f != neg then
      (if cs.isEmpty then [] else finish p .and false (evalList F (.node .and) cs))
    else []
def evalList (F : Tok → Bool) (p : PCls) : List Dep → List Dep
  | [] => []
  | c :: cs => evalNode F p c ++ evalList F p cs
end

mutual
/-- `DepSet._node_conds` after `parse`: was any `Conditional` built -/
def hasCond : Dep → Bool
  | .leaf _ _ => false
  | .grp _ cs => hasCondL cs
  | .cond _ _ _ => true
def hasCondL : List Dep → Bool
  | [] => false
  | c :: cs => hasCond c || hasCondL cs
end

/-- `DepSet.evaluate_depset(enabled).restrictions` -/
def evaluateDepset (F : Tok → Bool) (ts : List Dep) : List Dep :=
  if hasCondL ts then finish .depset .and true (evalList F .depset ts) else ts

/-! ### operator tables of the call sites (from the generated table) -/

def opOfClassName (s : String) : Option Op :=
  if s = "!" then some .invalid else (Kind.ofClassName s).map .node

/-- the `operators` mapping `ebuild_src` passes for attribute `attr` -/
def opsFor (attr : String) : Option Ops := do
  let t ← Generated.C09.operatorTables.lookup attr
  t.mapM fun (k, c) => (opOfClassName c).map fun o => (k.toList, o)

end Pkgcore.C09
