import Pkgcore.Model.C01
/-!
# C02 model — equality, ordering and hashing of `CPV` and `atom` objects, as written

Mirrors (after the `fix:` commits recorded in `known_findings.d/C02.json`)

* `pkgcore.ebuild.cpv.CPV.__eq__/__ne__/__lt__/__le__/__gt__/__ge__/__hash__` and the helper
  `cpv.ver_hash_key`,
* `pkgcore.ebuild.atom.atom.__cmp__`, `__eq__`, `__ne__`, the `__lt__ … __ge__` injected by
  `snakeoil.klass.inject_richcmp_methods_from_cmp`, and the tuple hashed into `atom._hash`.

Objects are modelled by the attributes those methods read.  Versions are the lexed structure `C01.Ver`
(see `Model/C01.lean`), revisions the digit text of the `Revision` object; an unversioned CPV / atom has
`version = revision = None`, modelled as `none`.  Python `str` comparison is code-point lexicographic,
i.e. Lean's `compare` on `List Char`; `hash()` is not modelled: the model exposes the *value that is passed to
`hash()`* (equal values ⇒ equal hashes is a property of CPython, the converse is sampled on real hashes).
The identity short-cut `self is other` of `atom.__eq__` is subsumed by reflexivity (`atomCmp_refl`).
-/
namespace Pkgcore.C02
open Pkgcore.C01

abbrev Str := List Char

/-- `snakeoil.compatibility.cmp`: `None` sorts below everything, otherwise `(a > b) - (a < b)` -/
def pycmp {α : Type} [Ord α] : Option α → Option α → Ordering
  | none, none => .eq
  | none, some _ => .lt
  | some _, none => .gt
  | some a, some b => compare a b

/-- `if c: return c` followed by the rest of the function -/
def orElse (c rest : Ordering) : Ordering := if c ≠ .eq then c else rest

/-- `(version, revision)`: `None, None` or a version string with a `Revision` object -/
abbrev VR := Option (Ver × Str)

/-- `ver_cmp(v1, r1, v2, r2)` on possibly-`None` versions; `none` = the `AttributeError` raised by
`None.split("_")` when exactly one side is unversioned -/
def verCmpO : VR → VR → Option Ordering
  | none, none => some .eq            -- ver1 == ver2, `not rev1 and not rev2`
  | some (v1, r1), some (v2, r2) => some (verCmp v1 (some r1) v2 (some r2))
  | _, _ => none

/-! ## `cpv.ver_hash_key` -/

/-- one element of the `key` list: `int(v)` or, for a later component with a leading zero, `v.rstrip("0")` -/
inductive CompK
  | int (n : Nat)
  | str (s : Str)
  deriving DecidableEq, Repr

/-- the loop body `key.append(v.rstrip("0") if v[0] == "0" else int(v))` -/
def compK (c : Str) : CompK :=
  if c.head? = some '0' then .str (rstrip0 c) else .int (natOfDigits c)

/-- the tuple returned by `ver_hash_key` for a non-`None` version -/
structure VKey where
  nums : List CompK
  letter : Option Char
  sufs : List (Suf × Nat)
  rev : Nat
  deriving DecidableEq, Repr

def verHashKey (v : Ver) (r : Str) : VKey :=
  { nums := .int (natOfDigits (v.comps.headD [])) :: v.comps.tail.map compK
    letter := v.letter
    sufs := v.sufs.map fun x => (x.1, natOfDigits x.2)
    rev := natOfDigits r }       -- `int(rev) if rev else 0`

def verHashKeyO : VR → Option VKey
  | none => none
  | some (v, r) => some (verHashKey v r)

/-! ## CPV -/

structure Cpv where
  cat : Str
  pkg : Str
  vr : VR
  deriving DecidableEq, Repr

/-- `self.cpvstr == other.cpvstr`.  `cpvstr` is `cat/pkg[-ver[-rN]]` with `-r0` dropped and the revision's
leading zeros removed, so on well-formed objects the strings are equal iff these pieces are. -/
def cpvstrEq (a b : Cpv) : Bool :=
  a.cat == b.cat && a.pkg == b.pkg &&
    match a.vr, b.vr with
    | none, none => true
    | some (v1, r1), some (v2, r2) => v1 == v2 && natOfDigits r1 == natOfDigits r2
    | _, _ => false

/-- `CPV.__eq__` (the `AttributeError` of a mixed comparison is swallowed ⇒ `False`) -/
def cpvEq (a b : Cpv) : Bool :=
  if cpvstrEq a b then true
  else if a.cat = b.cat ∧ a.pkg = b.pkg then
    match verCmpO a.vr b.vr with
    | some c => c == .eq
    | none => false
  else false

def cpvNe (a b : Cpv) : Bool := !cpvEq a b

/-- shape shared by `__lt__/__le__/__gt__/__ge__`: `verTest` on the `ver_cmp` result when category and
package agree, else `strTest` on the packages, else on the categories; `none` = `TypeError` -/
def cpvRich (verTest strTest : Ordering → Bool) (a b : Cpv) : Option Bool :=
  if a.cat = b.cat then
    if a.pkg = b.pkg then (verCmpO a.vr b.vr).map verTest
    else some (strTest (compare a.pkg b.pkg))
  else some (strTest (compare a.cat b.cat))

def cpvLt := cpvRich (· == .lt) (· == .lt)
/-- `__le__` uses `ver_cmp(...) <= 0` but `self.package < other.package` -/
def cpvLe := cpvRich (· != .gt) (· == .lt)
def cpvGt := cpvRich (· == .gt) (· == .gt)
def cpvGe := cpvRich (· != .lt) (· == .gt)

/-- the tuple given to `hash()` in `CPV.__hash__` -/
def cpvHashKey (a : Cpv) : Str × Str × Option VKey := (a.cat, a.pkg, verHashKeyO a.vr)

/-! ## atom -/

inductive Op | lt | le | eq | glob | ge | gt | tilde
  deriving DecidableEq, Repr

/-- the text stored in `atom.op` -/
def Op.str : Op → Str
  | .lt => ['<'] | .le => ['<', '='] | .eq => ['='] | .glob => ['=', '*']
  | .ge => ['>', '='] | .gt => ['>'] | .tilde => ['~']

/-- the attributes of an atom that `__cmp__` and `_hash` read.  `vop = none` is an unversioned atom
(`op == ""`, `version is None`); `use` is the list written between the brackets (before sorting). -/
structure Atom where
  cat : Str
  pkg : Str
  vop : Option (Op × Ver × Str)
  blocks : Bool
  strong : Bool
  negate : Bool
  slot : Option Str
  subslot : Option Str
  slotOp : Option Str
  use : Option (List Str)
  repo : Option Str
  deriving Repr

def Atom.opStr (a : Atom) : Str :=
  match a.vop with
  | none => []
  | some (o, _, _) => o.str

def Atom.vr (a : Atom) : VR := a.vop.map (·.2)

/-- `tuple(sorted(...))` on strings -/
def sortUse (l : List Str) : List Str := l.mergeSort fun x y => compare x y != .gt

/-- the attribute `atom.use` -/
def Atom.useAttr (a : Atom) : Option (List Str) := a.use.map sortUse

/-- `f(v)` of `__cmp__` and `v or ""` of the hash tuple -/
def orEmpty : Option Str → Str
  | none => []
  | some s => s

/-- the part of `atom.__cmp__` after the `ver_cmp` call -/
def atomCmpTail (a b : Atom) : Ordering :=
  orElse (compare a.blocks b.blocks).swap <|            -- `return -c`
  orElse (compare a.strong b.strong) <|
  orElse (compare a.negate b.negate) <|
  orElse (compare (orEmpty a.slot) (orEmpty b.slot)) <|
  orElse (compare (orEmpty a.subslot) (orEmpty b.subslot)) <|
  orElse (compare (orEmpty a.slotOp) (orEmpty b.slotOp)) <|
  orElse (pycmp a.useAttr b.useAttr) <|
  pycmp a.repo b.repo

/-- `atom.__cmp__`; `none` = an exception escaping from `ver_cmp` -/
def atomCmp (a b : Atom) : Option Ordering :=
  let c := compare a.cat b.cat
  if c ≠ .eq then some c else
  let c := compare a.pkg b.pkg
  if c ≠ .eq then some c else
  let c := compare a.opStr b.opStr
  if c ≠ .eq then some c else
  match verCmpO a.vr b.vr with
  | none => none
  | some c => if c ≠ .eq then some c else some (atomCmpTail a b)

def atomEq (a b : Atom) : Option Bool := (atomCmp a b).map (· == .eq)
def atomNe (a b : Atom) : Option Bool := (atomEq a b).map (!·)
def atomLt (a b : Atom) : Option Bool := (atomCmp a b).map (· == .lt)
def atomLe (a b : Atom) : Option Bool := (atomCmp a b).map (· != .gt)
def atomGt (a b : Atom) : Option Bool := (atomCmp a b).map (· == .gt)
def atomGe (a b : Atom) : Option Bool := (atomCmp a b).map (· != .lt)

/-- the tuple given to `hash()` in `atom.__init__` -/
def atomHashKey (a : Atom) :
    Str × Str × Str × Option VKey × Bool × Bool × Str × Str × Str × Option (List Str) × Option Str :=
  (a.cat, a.pkg, a.opStr, verHashKeyO a.vr, a.blocks, a.strong,
   orEmpty a.slot, orEmpty a.subslot, orEmpty a.slotOp, a.useAttr, a.repo)

end Pkgcore.C02
