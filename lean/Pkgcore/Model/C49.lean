import Pkgcore.Generated.C49Tables
/-!
# C49 model — metadata accumulation across eclasses (`inherit`, `__load_ebuild`, `__dump_metadata_keys`,
`package_factory._update_metadata`)

A hand translation of the bash in `data/lib/pkgcore/ebd/ebuild-default-functions.bash` (`inherit`, after the
`fix:` commit: the accumulated variables are put aside, unset, and restored around every eclass) and
`ebuild.bash` (`__load_ebuild`, `__dump_metadata_keys`), followed by the Python post-processing of
`_update_metadata` (DEFINED_PHASES mapped through `eapi.phases_rev` and sorted, INHERITED turned into the
eclass set).

An ebuild or eclass is a list of `Stmt`: assignments (`V="…"`), appends (`V+=" …"`, `V="${V} …"`),
`unset V`, function definitions, `EXPORT_FUNCTIONS p₁ … pₙ`, and `inherit` with the inherited eclasses' bodies
inlined (the harness resolves names to bodies; an eclass inherited twice is sourced twice, as in bash).
`EXPORT_FUNCTIONS` is only the call: it `eval`s `p() { ${ECLASS}_p "$@"; }` for every argument, so `p` is a
defined function from then on, whether `${ECLASS}_p` has been defined before the call, is defined after it,
or never (the `<eclass>_<phase>` functions themselves are ordinary `func` statements).
The shell's variable store is a function `name → Option value`.
-/
namespace Pkgcore.C49

abbrev Str := List Char

inductive Stmt
  | set (v : Str) (val : Str)
  | append (v : Str) (val : Str)
  | unset (v : Str)
  | func (name : Str)
  | export (phases : List Str)
  | inherit (ecls : List (Str × List Stmt))
  deriving Repr

structure St where
  vars : Str → Option Str      -- shell variables (the ones the statements touch)
  acc : Str → Str              -- E_<var> accumulators ("" = unset/empty)
  inherited : List Str         -- INHERITED, in order
  direct : List Str            -- INHERIT (direct inherits of the ebuild)
  funcs : List Str             -- defined functions

def St.init : St := ⟨fun _ => none, fun _ => [], [], [], []⟩

/-- the two variable names the code itself mentions -/
def kRDEPEND : Str := "RDEPEND".toList
def kDEPEND : Str := "DEPEND".toList

/-- `${a:+$a }b` -/
def joinSp (a b : Str) : Str := if a = [] then b else a ++ ' ' :: b

def setVar (vars : Str → Option Str) (v : Str) (val : Option Str) : Str → Option Str :=
  fun k => if k = v then val else vars k

mutual
/-- source a list of statements; `A` = the accumulated variables of the EAPI, `me` = `$ECLASS` -/
def run (A : List Str) (depth : Nat) (me : Str) : List Stmt → St → St
  | [], st => st
  | s :: rest, st => run A depth me rest (step A depth me s st)
/-- one statement -/
def step (A : List Str) (depth : Nat) (_me : Str) : Stmt → St → St
  | .set v val, st => { st with vars := setVar st.vars v (some val) }
  | .append v val, st => { st with vars := setVar st.vars v (some ((st.vars v).getD [] ++ ' ' :: val)) }
  | .unset v, st => { st with vars := setVar st.vars v none }
  | .func name, st => { st with funcs := st.funcs ++ [name] }
  | .export phases, st => { st with funcs := st.funcs ++ phases }   -- the stubs; `$ECLASS` (`_me`) only occurs in their bodies
  | .inherit ecls, st =>
    let st := if depth = 0 then { st with direct := st.direct ++ ecls.map (·.1) } else st
    inheritAll A depth ecls st
/-- the `for ECLASS in "$@"` loop of `inherit` -/
def inheritAll (A : List Str) (depth : Nat) : List (Str × List Stmt) → St → St
  | [], st => st
  | (name, body) :: rest, st =>
    let saved := st.vars
    -- put the caller's values aside and unset
    let st1 := { st with vars := fun k => if k ∈ A then none else st.vars k }
    let st2 := run A (depth + 1) name body st1
    -- append what the eclass set to E_*, hand the caller's values back
    let st3 : St :=
      { st2 with
        acc := fun k => if k ∈ A ∧ (st2.vars k).getD [] ≠ [] then joinSp (st2.acc k) ((st2.vars k).getD []) else st2.acc k,
        vars := fun k => if k ∈ A then saved k else st2.vars k,
        inherited := st2.inherited ++ [name] }
    inheritAll A depth rest st3
end

/-- `echo ${!key}`: split on blanks, join with single spaces -/
def splitWs : Str → List Str
  | [] => [[]]
  | c :: cs =>
    if c = ' ' ∨ c = '\t' ∨ c = '\n' then [] :: splitWs cs
    else match splitWs cs with
      | [] => [[c]]
      | w :: ws => (c :: w) :: ws

def joinWords : List Str → Str
  | [] => []
  | [w] => w
  | w :: ws => w ++ ' ' :: joinWords ws

def normalise (s : Str) : Str := joinWords ((splitWs s).filter (· ≠ []))

/-- the end of `__load_ebuild`: the RDEPEND default of EAPI 0-3 and the merge of the eclass values -/
def loadFinish (A : List Str) (rdependDefault : Bool) (st : St) : Str → Option Str :=
  let vars := if rdependDefault ∧ st.vars kRDEPEND = none
    then setVar st.vars kRDEPEND (some ((st.vars kDEPEND).getD [])) else st.vars
  fun k =>
    if k ∈ A then
      let cur := (vars k).getD []
      some (cur ++ (if cur ≠ [] then [' '] else []) ++ st.acc k)
    else vars k

/-- `__dump_metadata_keys` for one plain key: nothing when unset or empty, else the normalised value -/
def dumpKey (vars : Str → Option Str) (k : Str) : Option Str :=
  match vars k with
  | some v => if v = [] then none else some (normalise v)
  | none => none

structure EapiInfo where
  accumulated : List Str              -- variables merged across eclasses
  rdependDefault : Bool
  keys : List Str                     -- plain metadata keys of the EAPI
  phases : List (Str × Str)           -- phase function → DEFINED_PHASES name
  deriving Repr

/-- insertion sort on strings (`sorted()` of the phase names) -/
def insertSorted (x : Str) : List Str → List Str
  | [] => [x]
  | y :: ys => if compare (String.ofList x) (String.ofList y) = .gt then y :: insertSorted x ys else x :: y :: ys

def sortStrs (l : List Str) : List Str := l.foldr insertSorted []

structure Metadata where
  keys : List (Str × Str)             -- plain keys that were emitted
  definedPhases : List Str            -- sorted, duplicate free; `[]` = "-"
  inherit_ : Str                      -- INHERIT, normalised ("" = absent)
  eclasses : List Str                 -- INHERITED
  deriving Repr

/-- regenerate the metadata of an ebuild -/
def metadata (e : EapiInfo) (ebuild : List Stmt) : Metadata :=
  let st := run e.accumulated 0 [] ebuild St.init
  let vars := loadFinish e.accumulated e.rdependDefault st
  let ph := (e.phases.filter fun p => st.funcs.contains p.1).map (·.2)
  { keys := e.keys.filterMap fun k => (dumpKey vars k).map (k, ·),
    definedPhases := sortStrs ph.eraseDups,
    inherit_ := normalise (joinWords st.direct),
    eclasses := st.inherited }

end Pkgcore.C49

namespace Pkgcore.C49

/-- the variables `inherit`/`__load_ebuild` accumulate (hard-coded in the bash), PROPERTIES and RESTRICT
only when `PKGCORE_ACCUMULATE_PROPERTIES_RESTRICT` -/
def accBase : List Str := ["IUSE", "REQUIRED_USE", "DEPEND", "RDEPEND", "PDEPEND", "BDEPEND", "IDEPEND"].map String.toList
def accExtra : List Str := ["PROPERTIES", "RESTRICT"].map String.toList

/-- the EAPI description from the generated table; the RDEPEND default is `__safe_has "${EAPI}" 0 1 2 3` -/
def eapiInfo (r : Generated.C49.Row) : EapiInfo :=
  { accumulated := accBase ++ (if r.accumulatePR then accExtra else []),
    rdependDefault := ["0", "1", "2", "3"].contains r.magic,
    keys := r.keys.map String.toList,
    phases := r.phases.map fun p => (p.1.toList, p.2.toList) }

end Pkgcore.C49
