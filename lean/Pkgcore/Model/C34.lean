import Pkgcore.Generated.C34Tables
/-!
# C34 model — `pkgcore.ebuild.filter_env`, ported function by function

The buffer is the `str` handed to `run()` (the data plus the `"\0"` sentinel `main_run` appends) as a
`List Char`; positions are `Nat`.  `buff[pos]` is `b[pos]?` with `none` = `IndexError`
(`Err.index`; `is_function`/`is_envvar` catch it and answer `none`).  Simple scanning loops
(`while buff[pos] in …: pos += 1`, `str.find`) are total functions by recursion on the remaining length;
the mutually recursive walkers (`walk_here_statement`, `walk_command_complex`,
`raw_walk_command_escaped_parsing`, `walk_dollar_expansion`, `process_scope` and its two loops) take a
`fuel` that is decremented at every call and every loop iteration (`Err.fuel` when it runs out —
`Pkgcore.C34.fuel_suffices` proves it never does with the `fuelFor` that `mainRun` uses).

`str.isspace` / `str.isalnum` come from tables generated out of CPython (`Generated/C34Tables.lean`).
The scanner takes the name predicates as parameters `Option (List Char → Bool)`; `mainRunNames` (= `main_run`) obtains
them from the token lists through `buildRegexString` (the string `build_regex_string` builds), a parser and a matcher for the
subset of `re` syntax in use (last section).  `out.write(buff[a:b])` is recorded as the window `(a, b)`; the callbacks
are recorded as the list of recognised statements.
-/
namespace Pkgcore.C34

abbrev Buf := List Char

inductive Err | index | fuel
  deriving DecidableEq, Repr

inductive Level | command | space     -- COMMAND_PARSING, SPACE_PARSING
  deriving DecidableEq, Repr

def inRanges (t : List (Nat × Nat)) (c : Char) : Bool := t.any fun r => r.1 ≤ c.toNat && c.toNat ≤ r.2

/-- `filter_env.isspace`: the ASCII subset of `str.isspace` (table generated from the code's own predicate) -/
def isSpace (c : Char) : Bool := inRanges Generated.C34.spaceRanges c
/-- `str.isalnum` -/
def isAlnum (c : Char) : Bool := inRanges Generated.C34.alnumRanges c

def oneOf (s : String) (c : Char) : Bool := s.toList.contains c

/-- `while buff[pos] satisfies p: pos += 1` — `none` when it runs off the end (IndexError) -/
def skipWhile (p : Char → Bool) (b : Buf) (pos : Nat) : Option Nat :=
  if h : pos < b.length then
    if p b[pos] then skipWhile p b (pos + 1) else some pos
  else none
termination_by b.length - pos

/-- `while pos < end and p(buff[pos]): pos += 1` -/
def skipWhileLt (p : Char → Bool) (b : Buf) (pos : Nat) : Nat :=
  if h : pos < b.length then
    if p b[pos] then skipWhileLt p b (pos + 1) else pos
  else pos
termination_by b.length - pos

/-- `buff.find(c, pos)` for a single character -/
def findChar (c : Char) (b : Buf) (pos : Nat) : Option Nat :=
  if h : pos < b.length then
    if b[pos] = c then some pos else findChar c b (pos + 1)
  else none
termination_by b.length - pos

/-- `buff[a:b]` -/
def slice (b : Buf) (i j : Nat) : List Char := (b.take j).drop i

/-- `buff.find(word, pos)` -/
def findSub (w : List Char) (b : Buf) (pos : Nat) : Option Nat :=
  if pos < b.length then
    if slice b pos (pos + w.length) = w then some pos else findSub w b (pos + 1)
  else if w = [] ∧ pos = b.length then some pos else none
termination_by b.length - pos

/-- `is_function(buff, pos)`: `(start, end, pos)` of `name () {` or `none` -/
def isFunction (b : Buf) (pos : Nat) : Option (Nat × Nat × Nat) := do
  let pos ← skipWhile (oneOf " \t") b pos
  let pos :=
    if slice b pos (pos + 8) = "function".toList then
      (match b[pos + 8]? with
       | some c => if isSpace c then pos + 9 else pos
       | none => pos)
    else pos
  let pos ← skipWhile isSpace b pos
  let start := pos
  let pos ← skipWhile (fun c => !oneOf "\x00 \t\n=\"'()" c) b pos
  let stop := pos
  if stop = start then none else
  let pos ← skipWhile (oneOf " \t") b pos
  if b[pos]? ≠ some '(' then none else
  let pos ← skipWhile (oneOf " \t") b (pos + 1)
  if b[pos]? ≠ some ')' then none else
  let pos ← skipWhile isSpace b (pos + 1)
  if b[pos]? ≠ some '{' then none else
  some (start, stop, pos + 1)

/-- `is_envvar(buff, pos)`: `(start, end, pos)` of `name=` or `none` -/
def isEnvvar (b : Buf) (pos : Nat) : Option (Nat × Nat × Nat) := do
  let start ← skipWhile (oneOf " \t") b pos
  let pos ← skipWhile (fun c => !oneOf "\x00\"'()- \t\n=" c) b start
  if b[pos]? = some '=' then (if pos = start then none else some (start, pos, pos + 1)) else none

/-- `walk_statement_no_parsing` -/
def walkNoParsing (b : Buf) (pos : Nat) (endchar : Char) : Nat :=
  (findChar endchar b pos).getD (b.length - 1)

/-- `walk_statement_dollared_quote_parsing` -/
def walkDollaredQuote (b : Buf) (pos : Nat) (endchar : Char) : Nat :=
  if h : pos < b.length then
    if b[pos] = endchar then pos
    else if b[pos] = '\\' then walkDollaredQuote b (pos + 2) endchar
    else walkDollaredQuote b (pos + 1) endchar
  else pos
termination_by b.length - pos

/-- `walk_statement_pound(buff, pos, endchar=None)` -/
def walkPound (b : Buf) (pos : Nat) (endchar : Option Char) : Except Err Nat :=
  let rest : Nat :=
    if endchar = some '`' then
      match findChar '\n' b pos, findChar '`' b pos with
      | none, some i2 => i2
      | some i, some i2 => min i i2
      | some i, none => i
      | none, none => b.length - 1
    else (findChar '\n' b pos).getD (b.length - 1)
  if pos = 0 then .ok rest
  else match b[pos - 1]? with
    | none => .error .index
    | some c => if !isSpace c then .ok (pos + 1) else .ok rest

/-- the line-start test of the here-document search: is there a newline directly before `i` — for `<<-` (`tabs`) after
skipping tabs backwards? -/
def lineStartBefore (b : Buf) (tabs : Bool) : Nat → Bool
  | 0 => false
  | i + 1 =>
    match b[i]? with
    | some c => if tabs ∧ c = '\t' then lineStartBefore b tabs i else c = '\n'
    | none => false

/-- is the occurrence of the here word at `e`, followed by the character `c`, the terminating line?  The line must be exactly
the word (after leading tabs for `<<-`); inside `$( )` (`endchar = ')'`) the word may be followed by the closing parenthesis;
an empty word ends at an empty line only -/
def hereEnds (w : List Char) (b : Buf) (tabs : Bool) (endchar : Char) (e : Nat) (c : Char) : Bool :=
  decide (c = '\n' ∨ (w.length ≠ 0 ∧ c = ')' ∧ endchar = ')')) && lineStartBefore b tabs e

/-- the `while end_here != -1` search of `walk_here_statement` (after the fixes: the search always advances) -/
def hereSearch (w : List Char) (b : Buf) (tabs : Bool) (endchar : Char) (from_ : Nat) : Nat → Except Err (Option Nat)
  | 0 => .error .fuel
  | fuel + 1 =>
    match findSub w b from_ with
    | none => .ok none
    | some e =>
      match b[e + w.length]? with
      | none => .error .index
      | some c =>
        if hereEnds w b tabs endchar e c then .ok (some e)
        else hereSearch w b tabs endchar (e + max w.length 1) fuel

/-- a recognised statement, as reported to the callbacks -/
structure Stmt where
  isFunc : Bool
  start : Nat            -- `com_start`
  stop : Nat             -- where the scanner continues after the statement
  name : List Char
  filtered : Bool
  deriving DecidableEq, Repr

structure ScopeResult where
  pos : Nat
  windows : List (Nat × Nat)      -- `out.write(buff[a:b])`, in order
  stmts : List Stmt
  deriving Repr

/-- loop state of `process_scope` -/
structure ScopeState where
  pos : Nat
  windowStart : Nat
  windowEnd : Option Nat
  windows : List (Nat × Nat)
  stmts : List Stmt

/-- the `if window_end is not None:` block at the top of the loop: write the pending window, start a new one -/
def flushWindow (emit : Bool) (s : ScopeState) : ScopeState :=
  match s.windowEnd with
  | some e => { s with windows := if emit then s.windows ++ [(s.windowStart, e)] else s.windows,
                       windowStart := s.pos, windowEnd := none }
  | none => s

/-- the `if out is not None:` block after the loop (with the fix: the sentinel a walker ran past is not data) -/
def finishScope (emit : Bool) (b : Buf) (endchar : Char) (s : ScopeState) : ScopeResult :=
  if emit then
    let we := min (s.windowEnd.getD s.pos) b.length
    let we := if we = b.length ∧ b.length ≠ 0 ∧ b[b.length - 1]? = some endchar then b.length - 1 else we
    ⟨s.pos, s.windows ++ [(s.windowStart, we)], s.stmts⟩
  else ⟨s.pos, s.windows, s.stmts⟩

def applyMatch (m : Option (List Char → Bool)) (name : List Char) : Bool :=
  match m with
  | some f => f name
  | none => false

mutual
/-- `walk_here_statement(buff, pos, endchar)` -/
def walkHere (fuel : Nat) (b : Buf) (pos : Nat) (endchar : Char) : Except Err Nat :=
  match fuel with
  | 0 => .error .fuel
  | fuel + 1 =>
    let pos := pos + 1
    match b[pos]? with
    | none => .error .index
    | some c =>
      if c = '<' then .ok (pos + 1) else
      let tabs : Bool := c = '-'                       -- `<<-`: the terminating line may be indented with tabs
      let pos := skipWhileLt (fun c => isSpace c || c = '-') b pos
      match b[pos]? with
      | none => .error .index
      | some q => do
        let (wstart, endHere) ←
          if q = '\'' ∨ q = '"' then pure (pos + 1, walkNoParsing b (pos + 1) q)
          else do
            let e ← walkComplex fuel b pos ' ' .space
            pure (pos, e)
        let word := slice b wstart endHere
        let endHere := endHere + 1
        if endHere ≥ b.length then pure endHere else
        match ← hereSearch word b tabs endchar endHere (b.length + 1) with
        | none => pure b.length
        | some e => pure (e + word.length)

/-- `walk_command_complex(buff, pos, endchar, interpret_level)`; `start` is the position it was called at -/
def walkComplexLoop (fuel : Nat) (b : Buf) (start pos : Nat) (endchar : Char) (lvl : Level) : Except Err Nat :=
  match fuel with
  | 0 => .error .fuel
  | fuel + 1 =>
    match b[pos]? with
    | none => .ok pos                      -- `while pos < end` is over
    | some ch =>
      if ch = endchar then
        if endchar ≠ '}' then .ok pos
        else if start = pos then .ok pos
        else match b[pos - 1]? with
          | none => .error .index
          | some p => if p = ';' ∨ p = '\n' then .ok pos else walkComplexLoop fuel b start (pos + 1) endchar lvl
      else if (lvl = .command ∧ (ch = ';' ∨ ch = '\n')) ∨ (lvl = .space ∧ isSpace ch) then .ok pos
      else if ch = '\\' then walkComplexLoop fuel b start (pos + 2) endchar lvl
      else if ch = '<' then
        if pos + 1 < b.length ∧ b[pos + 1]? = some '<' ∧ lvl = .command then do
          let p ← walkHere fuel b (pos + 1) endchar
          walkComplexLoop fuel b start p endchar lvl
        else walkComplexLoop fuel b start (pos + 1) endchar lvl
      else if ch = '#' then
        let atWord : Except Err Bool :=
          if start = pos then .ok true
          else match b[pos - 1]? with
            | none => .error .index
            | some p => .ok (isSpace p || p = ';')
        match atWord with
        | .error e => .error e
        | .ok true => do
          let p ← walkPound b pos none
          walkComplexLoop fuel b start p endchar lvl
        | .ok false => walkComplexLoop fuel b start (pos + 1) endchar lvl
      else if ch = '$' then do
        let p ← walkDollar fuel b (pos + 1) endchar false
        walkComplexLoop fuel b start p endchar lvl
      else if ch = '{' then do
        let p ← walkEscaped fuel b (pos + 1) '}'
        walkComplexLoop fuel b start (p + 1) endchar lvl
      else if ch = '(' ∧ lvl = .command then do
        let p ← walkEscaped fuel b (pos + 1) ')'
        walkComplexLoop fuel b start (p + 1) endchar lvl
      else if ch = '`' ∨ ch = '"' then do
        let p ← walkEscaped fuel b (pos + 1) ch
        walkComplexLoop fuel b start (p + 1) endchar lvl
      else if ch = '\'' ∧ endchar ≠ '"' then
        walkComplexLoop fuel b start (walkNoParsing b (pos + 1) '\'' + 1) endchar lvl
      else walkComplexLoop fuel b start (pos + 1) endchar lvl

def walkComplex (fuel : Nat) (b : Buf) (pos : Nat) (endchar : Char) (lvl : Level) : Except Err Nat :=
  match fuel with
  | 0 => .error .fuel
  | fuel + 1 => walkComplexLoop fuel b pos pos endchar lvl

/-- `raw_walk_command_escaped_parsing(buff, pos, endchar)` -/
def walkEscaped (fuel : Nat) (b : Buf) (pos : Nat) (endchar : Char) : Except Err Nat :=
  match fuel with
  | 0 => .error .fuel
  | fuel + 1 =>
    match b[pos]? with
    | none => .ok pos
    | some ch =>
      if ch = endchar then .ok pos
      else if ch = '\\' then walkEscaped fuel b (pos + 2) endchar
      else if ch = '{' then
        if endchar ≠ '"' then do
          let p ← walkEscaped fuel b (pos + 1) '}'
          walkEscaped fuel b (p + 1) endchar
        else walkEscaped fuel b (pos + 1) endchar
      else if ch = '(' then
        if endchar ≠ '"' then do
          let p ← walkEscaped fuel b (pos + 1) ')'
          walkEscaped fuel b (p + 1) endchar
        else walkEscaped fuel b (pos + 1) endchar
      else if ch = '`' ∨ ch = '"' then do
        let p ← walkEscaped fuel b (pos + 1) ch
        walkEscaped fuel b (p + 1) endchar
      else if ch = '\'' ∧ endchar ≠ '"' then
        walkEscaped fuel b (walkNoParsing b (pos + 1) '\'' + 1) endchar
      else if ch = '$' then do
        let p ← walkDollar fuel b (pos + 1) endchar (endchar = '"')
        walkEscaped fuel b p endchar
      else if ch = '#' ∧ endchar ≠ '"' then do
        let p ← walkPound b pos (some endchar)
        walkEscaped fuel b p endchar
      else walkEscaped fuel b (pos + 1) endchar

/-- the plain-variable branch of `walk_dollar_expansion` (`$name`) -/
def dollarName (fuel : Nat) (b : Buf) (pos : Nat) (endchar : Char) : Except Err Nat :=
  match fuel with
  | 0 => .error .fuel
  | fuel + 1 =>
    match b[pos]? with
    | none => .ok b.length                       -- `if pos >= end: return end`
    | some c =>
      if c = endchar then .ok pos
      else if isSpace c then .ok pos
      else if c = '$' then walkDollar fuel b (pos + 1) endchar false
      else if !isAlnum c ∧ c ≠ '_' then .ok pos
      else dollarName fuel b (pos + 1) endchar

/-- the `${ … }` branch of `walk_dollar_expansion` -/
def dollarBrace (fuel : Nat) (b : Buf) (pos : Nat) (endchar : Char) : Except Err Nat :=
  match fuel with
  | 0 => .error .fuel
  | fuel + 1 =>
    match b[pos]? with
    | none => .ok (pos + 1)
    | some c =>
      if c = '}' then .ok (pos + 1)
      else if c = '$' then do
        let p ← walkDollar fuel b (pos + 1) endchar false
        dollarBrace fuel b p endchar
      else dollarBrace fuel b (pos + 1) endchar

/-- `walk_dollar_expansion(buff, pos, end, endchar, disable_quote)` -/
def walkDollar (fuel : Nat) (b : Buf) (pos : Nat) (endchar : Char) (disableQuote : Bool) : Except Err Nat :=
  match fuel with
  | 0 => .error .fuel
  | fuel + 1 =>
    match b[pos]? with
    | none => .error .index
    | some c =>
      if c = '(' then do
        let r ← processScope fuel false b (pos + 1) none none ')'
        pure (r.pos + 1)
      else if c = '\'' ∧ !disableQuote then .ok (walkDollaredQuote b (pos + 1) '\'' + 1)
      else if c ≠ '{' then
        if c = '$' then .ok (pos + 1) else dollarName fuel b pos endchar
      else dollarBrace fuel b (pos + 1) endchar

/-- the value part of an assignment: `while pos < end and not isspace(buff[pos]) and buff[pos] != ";"` -/
def assignLoop (fuel : Nat) (b : Buf) (pos : Nat) (endchar : Char) : Except Err Nat :=
  match fuel with
  | 0 => .error .fuel
  | fuel + 1 =>
    match b[pos]? with
    | none => .ok pos
    | some c =>
      if isSpace c ∨ c = ';' then .ok pos
      else if c = '\'' then assignLoop fuel b (walkNoParsing b (pos + 1) '\'' + 1) endchar
      else if c = '"' ∨ c = '`' then do
        let p ← walkEscaped fuel b (pos + 1) c
        assignLoop fuel b (p + 1) endchar
      else if c = '(' then do
        let p ← walkEscaped fuel b (pos + 1) ')'
        assignLoop fuel b (p + 1) endchar
      else if c = '$' then
        if pos + 1 ≥ b.length then assignLoop fuel b (pos + 1) endchar
        else do
          let p ← walkDollar fuel b (pos + 1) endchar false
          assignLoop fuel b p endchar
      else do
        let p ← walkComplex fuel b pos ' ' .space
        assignLoop fuel b p endchar

/-- the main loop of `process_scope` -/
def scopeLoop (fuel : Nat) (emit : Bool) (b : Buf) (vm fm : Option (List Char → Bool)) (endchar : Char)
    (s : ScopeState) : Except Err ScopeResult :=
  match fuel with
  | 0 => .error .fuel
  | fuel + 1 =>
    match b[s.pos]? with
    | none => .ok (finishScope emit b endchar s)
    | some ch =>
      if ch = endchar then .ok (finishScope emit b endchar s) else
      let s := flushWindow emit s
      let comStart := s.pos
      if isSpace ch then scopeLoop fuel emit b vm fm endchar { s with pos := s.pos + 1 }
      else if ch = '#' then do
        let p ← walkPound b s.pos (some endchar)
        scopeLoop fuel emit b vm fm endchar { s with pos := p }
      else
        match isFunction b s.pos with
        | some (ns, ne, np) => do
          let name := slice b ns ne
          let r ← processScope fuel false b np none none '}'
          let filt := applyMatch fm name
          scopeLoop fuel emit b vm fm endchar
            { s with pos := r.pos + 1,
                     windowEnd := if filt then some comStart else s.windowEnd,
                     stmts := s.stmts ++ [⟨true, comStart, r.pos + 1, name, filt⟩] }
        | none =>
          match isEnvvar b s.pos with
          | none => do
            let p ← walkComplex fuel b s.pos endchar .command
            let p := if p < b.length ∧ b[p]? ≠ some endchar then p + 1 else p
            scopeLoop fuel emit b vm fm endchar { s with pos := p }
          | some (ns, ne, np) =>
            let name := slice b ns ne
            let filt := applyMatch vm name
            let s := { s with pos := np, windowEnd := if filt then some comStart else s.windowEnd }
            if np ≥ b.length then                                  -- `return pos` without the final write
              .ok ⟨np, s.windows, s.stmts ++ [⟨false, comStart, np, name, filt⟩]⟩
            else do
              let p ← assignLoop fuel b np endchar
              scopeLoop fuel emit b vm fm endchar
                { s with pos := p, stmts := s.stmts ++ [⟨false, comStart, p, name, filt⟩] }

/-- `process_scope(out, buff, pos, var_match, func_match, endchar)`; `emit` = `out is not None` -/
def processScope (fuel : Nat) (emit : Bool) (b : Buf) (pos : Nat) (vm fm : Option (List Char → Bool))
    (endchar : Char) : Except Err ScopeResult :=
  match fuel with
  | 0 => .error .fuel
  | fuel + 1 => scopeLoop fuel emit b vm fm endchar ⟨pos, pos, none, [], []⟩
end

/-- the fuel `mainRun` uses: every call and every loop iteration costs one unit and moves forward -/
def fuelFor (b : Buf) : Nat := 6 * b.length + 16

/-- `main_run`: append the sentinel, run the top-level scope, collect what was written -/
def mainRun (data : List Char) (vm fm : Option (List Char → Bool)) : Except Err (List Char × ScopeResult) :=
  let b := data ++ ['\x00']
  match processScope (fuelFor b) true b 0 vm fm '\x00' with
  | .ok r => .ok ((r.windows.map fun w => slice b w.1 w.2).flatten, r)
  | .error e => .error e

/-! ## name selection: `build_regex_string` and `re.match` on the regular-expression subset it is used with

`build_regex_string` is ported as the string manipulation it is; the string is then read by a parser of the
subset of Python's `re` syntax the callers use (literal characters, `\c` for a non-alphanumeric `c`, `.`,
the postfix operators `*`, `+`, `?` on a single character, `^`, `$`, `|`, `(?:…)`, `(?!…)`) and matched by a
backtracking matcher (`re.match`: anchored at position 0, no flags).  Anything outside the subset is
*unsupported* (`none`), never guessed. -/

/-- the characters one atom accepts -/
inductive Cs | lit (c : Char) | any
  deriving DecidableEq, Repr

/-- `.` does not match a newline (no `DOTALL`) -/
def Cs.accepts : Cs → Char → Bool
  | .lit c, d => c == d
  | .any, d => d != '\n'

inductive Re
  | eps | fail
  | ch (s : Cs)
  | star (s : Cs)
  | bol | eol
  | seq (a b : Re) | alt (a b : Re) | neg (a : Re)
  deriving Repr

/-- `cs*` followed by the continuation `k` (position, rest of the subject) -/
def starM (cs : Cs) (k : Nat → List Char → Bool) : Nat → List Char → Bool
  | i, [] => k i []
  | i, c :: s => k i (c :: s) || (cs.accepts c && starM cs k (i + 1) s)

/-- backtracking match of `r` at position `i` (rest of the subject `s`), then `k` -/
def Re.m : Re → Nat → List Char → (Nat → List Char → Bool) → Bool
  | .eps, i, s, k => k i s
  | .fail, _, _, _ => false
  | .ch cs, i, s, k => match s with
    | c :: s' => cs.accepts c && k (i + 1) s'
    | [] => false
  | .star cs, i, s, k => starM cs k i s
  | .bol, i, s, k => i == 0 && k i s
  | .eol, i, s, k => (s.isEmpty || s == ['\n']) && k i s       -- `$`: at the end or before a final newline
  | .seq a b, i, s, k => a.m i s (fun i' s' => b.m i' s' k)
  | .alt a b, i, s, k => a.m i s k || b.m i s k
  | .neg a, i, s, k => !(a.m i s (fun _ _ => true)) && k i s

/-- `pattern.match(name) is not None` -/
def Re.matches (r : Re) (name : List Char) : Bool := r.m 0 name (fun _ _ => true)

def seqOf : List Re → Re
  | [] => .eps
  | r :: rs => .seq r (seqOf rs)

def altOf : List Re → Re
  | [] => .fail
  | [r] => r
  | r :: rs => .alt r (altOf rs)

/-- one open group of the parser: the finished branches and the items of the branch being read -/
structure Frame where
  neg : Bool
  alts : List Re
  cur : List Re
  deriving Repr

def Frame.re (f : Frame) : Re := altOf (f.alts ++ [seqOf f.cur])
def Frame.push (f : Frame) (r : Re) : Frame := { f with cur := f.cur ++ [r] }

inductive Mode | normal | esc | open1 | open2
  deriving DecidableEq, Repr

structure PState where
  mode : Mode
  top : Frame
  stack : List Frame
  deriving Repr

/-- the characters with a meaning of their own in a regular expression -/
def specials : List Char := ['.', '^', '$', '*', '+', '?', '{', '}', '[', ']', '\\', '|', '(', ')']
def isSpecial (c : Char) : Bool := specials.contains c

/-- a postfix operator applies to a preceding single-character atom only (everything else is unsupported) -/
def applyPostfix (f : Frame) (mk : Cs → List Re) : Option Frame :=
  match f.cur.getLast? with
  | some (.ch cs) => some { f with cur := f.cur.dropLast ++ mk cs }
  | _ => none

/-- read one character of the regular expression -/
def step (st : PState) (c : Char) : Option PState :=
  match st.mode with
  | .esc => if isAlnum c then none else some { st with mode := .normal, top := st.top.push (.ch (.lit c)) }
  | .open1 => if c = '?' then some { st with mode := .open2 } else none
  | .open2 =>
    if c = ':' then some ⟨.normal, ⟨false, [], []⟩, st.top :: st.stack⟩
    else if c = '!' then some ⟨.normal, ⟨true, [], []⟩, st.top :: st.stack⟩
    else none
  | .normal =>
    if c = '\\' then some { st with mode := .esc }
    else if c = '(' then some { st with mode := .open1 }
    else if c = ')' then
      match st.stack with
      | [] => none
      | outer :: rest =>
        let r := st.top.re
        some ⟨.normal, outer.push (if st.top.neg then .neg r else r), rest⟩
    else if c = '|' then some { st with top := { st.top with alts := st.top.alts ++ [seqOf st.top.cur], cur := [] } }
    else if c = '^' then some { st with top := st.top.push .bol }
    else if c = '$' then some { st with top := st.top.push .eol }
    else if c = '.' then some { st with top := st.top.push (.ch .any) }
    else if c = '*' then (applyPostfix st.top fun cs => [.star cs]).map fun f => { st with top := f }
    else if c = '+' then (applyPostfix st.top fun cs => [.ch cs, .star cs]).map fun f => { st with top := f }
    else if c = '?' then (applyPostfix st.top fun cs => [.alt (.ch cs) .eps]).map fun f => { st with top := f }
    else if c = '[' ∨ c = ']' ∨ c = '{' ∨ c = '}' then none
    else some { st with top := st.top.push (.ch (.lit c)) }

def parseFrom (st : PState) : List Char → Option PState
  | [] => some st
  | c :: cs => match step st c with
    | some st' => parseFrom st' cs
    | none => none

/-- `re.compile(s)` on the supported subset -/
def parseRe (s : List Char) : Option Re :=
  match parseFrom ⟨.normal, ⟨false, [], []⟩, []⟩ s with
  | some ⟨.normal, top, []⟩ => some top.re
  | _ => none

/-- `'|'.join(tokens)` -/
def joinBar : List (List Char) → List Char
  | [] => []
  | [t] => t
  | t :: ts => t ++ '|' :: joinBar ts

/-- `build_regex_string(tokens, invert)`: the pattern text, `none` for Python's `None` -/
def buildRegexString (tokens : List (List Char)) (invert : Bool) : Option (List Char) :=
  let tokens := tokens.filter (· ≠ [])
  if tokens = [] then none else
  let s := '^' :: (['(', '?', ':'] ++ joinBar tokens ++ [')']) ++ ['$']
  some (if invert then ['(', '?', '!'] ++ s ++ [')'] else s)

inductive SelErr
  | noneMatch        -- `build_regex_string` returned `None`: `None.match` raises AttributeError
  | unsupported      -- the pattern is outside the modelled subset of `re`
  deriving DecidableEq, Repr

/-- `build_regex_string(tokens, invert=wl).match` as `main_run` obtains it (`if tokens:` first) -/
def mkMatcher (tokens : List (List Char)) (invert : Bool) : Except SelErr (Option (List Char → Bool)) :=
  if tokens = [] then .ok none else
  match buildRegexString tokens invert with
  | none => .error .noneMatch
  | some s =>
    match parseRe s with
    | none => .error .unsupported
    | some r => .ok (some r.matches)

inductive RunErr
  | sel (e : SelErr) | scan (e : Err)
  deriving DecidableEq, Repr

/-- `main_run(out, data, vars_to_filter, funcs_to_filter, vars_is_whitelist, funcs_is_whitelist)` -/
def mainRunNames (data : List Char) (vtoks ftoks : List (List Char)) (vwl fwl : Bool) :
    Except RunErr (List Char × ScopeResult) :=
  match mkMatcher vtoks vwl with
  | .error e => .error (.sel e)
  | .ok vm =>
    match mkMatcher ftoks fwl with
    | .error e => .error (.sel e)
    | .ok fm =>
      match mainRun data vm fm with
      | .ok r => .ok r
      | .error e => .error (.scan e)

/-! ## the bytes written

`process_scope` writes every window as `out.write(buff[a:b].encode("utf-8"))`: the window is cut from the *text* (character
offsets) and encoded afterwards, window by window. -/

/-- `str.encode("utf-8")` (Lean's `Char` has no surrogates, like the text Python decoded from the dump) -/
def utf8 (s : List Char) : List UInt8 := s.flatMap String.utf8EncodeChar

/-- the byte strings handed to `out.write`, concatenated: one `buff[a:b].encode("utf-8")` per window -/
def writtenBytes (data : List Char) (r : ScopeResult) : List UInt8 :=
  (r.windows.map fun w => utf8 (slice (data ++ ['\x00']) w.1 w.2)).flatten

end Pkgcore.C34
