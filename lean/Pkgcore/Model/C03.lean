import Pkgcore.Model.C01Lex
import Pkgcore.Model.C04
import Pkgcore.Generated.C03Tables
/-!
# C03 model — `atom.__init__` as a string-level parser, `atom.__str__` as a renderer

Mirrors, in the order of the code and after the `fix:` commits of `known_findings.d/C03.json`,

* `pkgcore.ebuild.atom.atom.__init__` (atom.py): `find("[")`, `find(":", 0, use_start)` (which, without USE
  deps, is `find(":", 0, -1)` and therefore does not look at the last character), the `]` checks, the USE
  token validation loop, `find("::", slot_start)` and the repo-id checks, the slot / sub-slot / slot-operator
  split gated by `eapi_obj.options`, blockers, operator, `cpv.CPV(cpvstr, versioned=bool(op))`, the `~`/revision
  check and the three EAPI gates;
* `pkgcore.ebuild.cpv.CPV.__init__` for one string argument, `isvalid_pkg_name`, `isvalid_rev`; the patterns
  `isvalid_cat_re`, `_pkg_re`, `eapi._valid_use_flag` as structural recognisers (their text is pinned in
  `Generated/C03Tables.lean` and compared by `tables_pinned`), `isvalid_version_re` as C01's `lexVer`;
* `atom.__str__` as `render` (on the parsed attributes; `cpvstr` is re-assembled from them).

Strings are `List Char` (code points).  Every `MalformedAtom` (and `InvalidCPV` turned into one) is an `Err`; the
kind is only used for the input histogram of the correspondence run.  The result record is C02's `Atom` (the
attributes `__cmp__`/`_hash` read); `use` holds the attribute `atom.use`, i.e. the **sorted** tuple of the tokens
written between the brackets; a version is C01's lexed `Ver`, a revision the digit text of the `Revision`
object (`[]` = no `-rN`).  `negate_vers` is a constructor argument, not syntax: always `false` here.
-/
namespace Pkgcore.C03
open Pkgcore.C01 Pkgcore.C02
export Pkgcore.Generated.C03 (Opts)

/-- the `eapi` argument: `none` = not given (`"-1"`), `some n` = EAPI `n` -/
abbrev Eapi := Option Nat

/-- `eapi_mod.get_eapi(eapi if eapi != "-1" else LATEST_PMS_EAPI_VER).options`.  For an EAPI that is not
registered (not in the generated table) the real constructor raises `AttributeError` at the first gate it consults;
such EAPIs are outside the property (0–9 and "not given") and the all-`false` record here is only a filler. -/
def optsOf : Eapi → Opts
  | none => Generated.C03.latestOpts
  | some n => (Generated.C03.eapiOpts.lookup n).getD ⟨false, false, false, false, false⟩

/-- `eapi == "-1"`: the only case in which `::repo` is not refused -/
def repoAllowed : Eapi → Bool
  | none => true
  | some _ => false

inductive Err
  | empty | useUnclosed | useTrailing | useEmptyTok | useMalformed | useDefaultsEapi | useBadFlag
  | repoEmpty | repoHyphen | repoChars | slotEmpty | slotOpTarget | slotEapi | slotStart | slotChars
  | noPackage | strongEapi | useEapi | repoEapi
  | cpvNoSlash | cpvCategory | cpvNoVersion | cpvRevOnly | cpvVersion | cpvPkgName | tildeRev
  deriving DecidableEq, Repr

/-! ## string primitives -/

/-- split at the first `c` (`s.find(c)`): `s = a ++ c :: b`, `c ∉ a` -/
def breakOn (c : Char) : Str → Option (Str × Str)
  | [] => none
  | x :: xs =>
    if x = c then some ([], xs)
    else match breakOn c xs with
      | some (a, b) => some (x :: a, b)
      | none => none

/-- split at the last `c` (`s.rsplit(c, 1)`) -/
def breakOnLast (c : Char) : Str → Option (Str × Str)
  | [] => none
  | x :: xs =>
    match breakOnLast c xs with
    | some (a, b) => some (x :: a, b)
    | none => if x = c then some ([], xs) else none

/-- split at the first `"::"` (`s.find("::")`) -/
def breakDColon : Str → Option (Str × Str)
  | [] => none
  | [_] => none
  | x :: y :: r =>
    if x = ':' ∧ y = ':' then some ([], r)
    else match breakDColon (y :: r) with
      | some (a, b) => some (x :: a, b)
      | none => none

/-- `x[:-n]` when `x` ends with `suf` (`n = len(suf)`), else `none` -/
def stripSuffix? (suf x : Str) : Option Str :=
  if suf.isSuffixOf x then some (x.take (x.length - suf.length)) else none

/-! ## character classes -/

def isAlnum (c : Char) : Bool := c.isAlphanum
/-- `eapi._valid_use_flag = ^[A-Za-z0-9][A-Za-z0-9+_@-]*\Z` -/
def validUseFlag : Str → Bool
  | [] => false
  | c :: cs => isAlnum c && cs.all fun c => isAlnum c || c == '+' || c == '_' || c == '@' || c == '-'
/-- `cpv.isvalid_cat_re = ^(?:[A-Za-z0-9_][A-Za-z0-9+_.-]*)\Z` -/
def validCat : Str → Bool
  | [] => false
  | c :: cs => (isAlnum c || c == '_') && cs.all fun c => isAlnum c || c == '+' || c == '_' || c == '.' || c == '-'
/-- `cpv._pkg_re = ^[a-zA-Z0-9+_]+\Z` -/
def pkgChunkChar (c : Char) : Bool := isAlnum c || c == '+' || c == '_'
def validPkgChunk (s : Str) : Bool := !s.isEmpty && s.all pkgChunkChar
/-- `atom.valid_slot_chars` -/
def slotChar (c : Char) : Bool := isAlnum c || c == '.' || c == '+' || c == '_' || c == '-'
/-- `atom.valid_repo_chars` -/
def repoChar (c : Char) : Bool := isAlnum c || c == '_' || c == '-'
/-- `cpv.isvalid_version_re.match(s)` (C01's lexer accepts exactly that language) -/
def isValidVer (s : Str) : Bool := (lexVer s).isSome
/-- `cpv.isvalid_rev(s)`: `s and s[0] == "r" and s[1:].isascii() and s[1:].isdigit()` -/
def isValidRev : Str → Bool
  | 'r' :: d => !d.isEmpty && d.all Char.isDigit
  | _ => false

/-! ## phase 1: USE deps -/

/-- `use_start = atom.find("[")`, `use_end = atom.find("]", use_start)` and the two checks on `use_end`;
result: the text left of `[` and the text between the brackets -/
def splitUse (s : Str) : Except Err (Str × Option Str) :=
  match breakOn '[' s with
  | none => .ok (s, none)
  | some (pre, post) =>
    match breakOn ']' post with
    | none => .error .useUnclosed
    | some (body, rest) => if rest.isEmpty then .ok (pre, some body) else .error .useTrailing

/-- the part of the validation loop up to the `(+)`/`(-)` handling: strips `=`/`?` with an optional `!`, or a
leading `-`.  `IndexError`s (empty `x`) are the `useEmptyTok` results. -/
def stripUseAffixes (x : Str) : Except Err Str :=
  match x.getLast? with
  | none => .error .useEmptyTok
  | some l =>
    if l = '=' ∨ l = '?' then
      match x.dropLast with
      | [] => .error .useEmptyTok
      | c :: t =>
        let y := if c = '!' then t else c :: t
        match y with
        | [] => .error .useEmptyTok
        | d :: _ => if d = '-' then .error .useMalformed else .ok y
    else
      match x with
      | c :: t => if c = '-' then .ok t else .ok x
      | [] => .ok x

/-- the body of `for x in self.use:` -/
def checkUseTok (o : Opts) (x : Str) : Except Err Unit :=
  match stripUseAffixes x with
  | .error e => .error e
  | .ok y =>
    match y.getLast? with
    | none => .error .useEmptyTok
    | some l =>
      let r : Except Err Str :=
        if l = ')' then
          if !o.useDepDefaults then .error .useDefaultsEapi
          else match stripSuffix? ['(', '+', ')'] y with
            | some z => .ok z
            | none => match stripSuffix? ['(', '-', ')'] y with
              | some z => .ok z
              | none => .ok y
        else .ok y
      match r with
      | .error e => .error e
      | .ok z =>
        if z.isEmpty then .error .useEmptyTok
        else if !validUseFlag z then .error .useBadFlag
        else .ok ()

def checkUseToks (o : Opts) : List Str → Except Err Unit
  | [] => .ok ()
  | t :: ts =>
    match checkUseTok o t with
    | .error e => .error e
    | .ok () => checkUseToks o ts

/-- `self.use = tuple(sorted(atom[use_start + 1 : use_end].split(",")))` + the validation loop -/
def parseUse (o : Opts) (body : Str) : Except Err (List Str) :=
  let toks := sortUse (splitOn ',' body)
  match checkUseToks o toks with
  | .error e => .error e
  | .ok () => .ok toks

/-! ## phase 2: slot, sub-slot, slot operator, repo id -/

/-- `slot_start = atom.find(":", 0, use_start)`.  With USE deps the search covers everything left of `[`;
without (`use_start = -1`) the last character is excluded.  Result: text before and after that `:`. -/
def findSlot (hasUse : Bool) (t : Str) : Option (Str × Str) :=
  match breakOn ':' t with
  | some (h, rest) => if hasUse || !rest.isEmpty then some (h, rest) else none
  | none => none

def checkRepo (r : Str) : Except Err Unit :=
  match r with
  | [] => .error .repoEmpty
  | c :: _ =>
    if c = '-' then .error .repoHyphen
    else if !r.all repoChar then .error .repoChars
    else .ok ()

/-- one element of `for chunk in slots:` -/
def checkSlotChunk (chunk : Str) : Except Err Unit :=
  match chunk with
  | [] => .error .slotEmpty
  | c :: _ =>
    if c = '-' ∨ c = '.' then .error .slotStart
    else if !chunk.all slotChar then .error .slotChars
    else .ok ()

structure SlotInfo where
  slot : Option Str
  subslot : Option Str
  slotOp : Option Str
  repo : Option Str
  deriving DecidableEq, Repr

/-- the `else:` branch for a non-empty `slot` text: `(slot, subslot, slot_operator)` -/
def parseSlotText (o : Opts) (slot : Str) : Except Err (Option Str × Option Str × Option Str) :=
  if o.subSlotting then
    match slot with
    | [] => .error .slotEmpty                                   -- not reached (caller tests `not slot`)
    | c :: t =>
      if c = '*' ∨ c = '=' then
        if !t.isEmpty then .error .slotOpTarget else .ok (none, none, some [c])
      else
        let (slot, op) : Str × Option Str :=
          if slot.getLast? = some '=' then (slot.dropLast, some ['=']) else (slot, none)
        match breakOn '/' slot with                              -- `slot.split("/", 1)`
        | some (a, b) =>
          match checkSlotChunk a, checkSlotChunk b with
          | .ok (), .ok () => .ok (some a, some b, op)
          | .error e, _ => .error e
          | _, .error e => .error e
        | none =>
          match checkSlotChunk slot with
          | .ok () => .ok (some slot, none, op)
          | .error e => .error e
  else if !o.hasSlotDeps then .error .slotEapi
  else
    match checkSlotChunk slot with
    | .ok () => .ok (some slot, none, none)
    | .error e => .error e

/-- the `if slot_start != -1:` block; `rest` is the text after the `:` found by `findSlot` -/
def parseSlotPart (o : Opts) (rest : Str) : Except Err SlotInfo :=
  -- `i2 = atom.find("::", slot_start)`; `repo_id = atom[i2 + 2:]`; `slot = atom[slot_start + 1 : i2]`
  let (slotTxt, repo) : Str × Option Str :=
    match breakDColon (':' :: rest) with
    | some (before, r) => (before.tail, some r)
    | none => (rest, none)
  let repoCheck : Except Err Unit := match repo with
    | some r => checkRepo r
    | none => .ok ()
  match repoCheck with
  | .error e => .error e
  | .ok () =>
    if slotTxt.isEmpty then
      if repo.isNone then .error .slotEmpty else .ok ⟨none, none, none, repo⟩
    else
      match parseSlotText o slotTxt with
      | .error e => .error e
      | .ok (s, ss, op) => .ok ⟨s, ss, op, repo⟩

/-! ## phase 3: blockers and operator -/

/-- `(blocks, blocks_strongly, rest)` -/
def parseBlocks (o : Opts) (t : Str) : Except Err (Bool × Bool × Str) :=
  match t with
  | [] => .error .noPackage
  | '!' :: '!' :: r => if !o.strongBlockers then .error .strongEapi else .ok (true, true, r)
  | '!' :: r => .ok (true, false, r)
  | _ => .ok (false, false, t)

/-- `(op, cpvstr)`; `op = none` is `""` -/
def parseOp (t : Str) : Except Err (Option Op × Str) :=
  match t with
  | [] => .error .noPackage
  | '<' :: '=' :: r => .ok (some .le, r)
  | '<' :: r => .ok (some .lt, r)
  | '>' :: '=' :: r => .ok (some .ge, r)
  | '>' :: r => .ok (some .gt, r)
  | '=' :: r => if t.getLast? = some '*' then .ok (some .glob, r.dropLast) else .ok (some .eq, r)
  | '~' :: r => .ok (some .tilde, r)
  | _ => .ok (none, t)

/-! ## phase 4: `CPV(cpvstr, versioned=bool(op))` -/

/-- `cpv.isvalid_pkg_name(chunks)` -/
def validPkgName (chunks : List Str) : Bool :=
  match chunks with
  | [] => false                                                   -- not reached: `split` never returns []
  | c0 :: _ =>
    if c0.isEmpty || c0.head? == some '+' then false
    else if !chunks.all (fun s => s.isEmpty || validPkgChunk s) then false
    else if chunks.length == 1 then true
    else if isValidVer (chunks.getLast?.getD []) then false
    else if chunks.length ≥ 3 && isValidRev (chunks.getLast?.getD []) then
      !isValidVer (chunks.dropLast.getLast?.getD [])
    else true

/-- `(category, package, (version, revision) | None)` -/
def parseCpv (versioned : Bool) (s : Str) : Except Err (Str × Str × Option (Ver × Str)) :=
  match breakOnLast '/' s with                                    -- `cpvstr.rsplit("/", 1)`
  | none => .error .cpvNoSlash
  | some (cat, pkgver) =>
    if !validCat cat then .error .cpvCategory
    else
      let chunks := splitOn '-' pkgver
      if versioned then
        if chunks.length == 1 then .error .cpvNoVersion
        else
          let last := chunks.getLast?.getD []
          let rc : Except Err (Str × List Str) :=
            if isValidRev last then
              if chunks.length < 3 then .error .cpvRevOnly else .ok (last.tail, chunks.dropLast)
            else .ok ([], chunks)
          match rc with
          | .error e => .error e
          | .ok (rev, chunks) =>
            match lexVer (chunks.getLast?.getD []) with
            | none => .error .cpvVersion
            | some v =>
              let chunks := chunks.dropLast
              if !validPkgName chunks then .error .cpvPkgName
              else .ok (cat, joinSep '-' chunks, some (v, rev))
      else
        if !validPkgName chunks then .error .cpvPkgName
        else .ok (cat, joinSep '-' chunks, none)

/-! ## `atom.__init__` -/

def parseWith (o : Opts) (repoOk : Bool) (s : Str) : Except Err Atom :=
  if s.isEmpty then .error .empty else
  match splitUse s with
  | .error e => .error e
  | .ok (t, useBody) =>
    let useR : Except Err (Option (List Str)) := match useBody with
      | none => .ok none
      | some body => match parseUse o body with
        | .ok u => .ok (some u)
        | .error e => .error e
    match useR with
    | .error e => .error e
    | .ok use =>
      let slotR : Except Err (Str × SlotInfo) := match findSlot useBody.isSome t with
        | none => .ok (t, ⟨none, none, none, none⟩)
        | some (h, rest) => match parseSlotPart o rest with
          | .ok si => .ok (h, si)
          | .error e => .error e
      match slotR with
      | .error e => .error e
      | .ok (t, si) =>
        match parseBlocks o t with
        | .error e => .error e
        | .ok (blocks, strong, t) =>
          match parseOp t with
          | .error e => .error e
          | .ok (op, cpvstr) =>
            if si.slot.isSome && !o.hasSlotDeps then .error .slotEapi
            else if use.isSome && !o.hasUseDeps then .error .useEapi
            else if !repoOk && si.repo.isSome then .error .repoEapi
            else
              match parseCpv op.isSome cpvstr with
              | .error e => .error e
              | .ok (cat, pkg, vr) =>
                let vop : Except Err (Option (Op × Ver × Str)) := match op, vr with
                  | some op, some (v, r) =>
                    if op = .tilde ∧ !r.isEmpty then .error .tildeRev else .ok (some (op, v, r))
                  | none, none => .ok none
                  | some _, none => .error .cpvNoVersion          -- "operator requires a version": not reached
                  | none, some _ => .error .cpvVersion            -- "versioned atom requires an operator": not reached
                match vop with
                | .error e => .error e
                | .ok vop =>
                  .ok { cat := cat, pkg := pkg, vop := vop, blocks := blocks, strong := strong, negate := false,
                        slot := si.slot, subslot := si.subslot, slotOp := si.slotOp, use := use, repo := si.repo }

/-- `atom(s, eapi=e)` -/
def parseAtom (e : Eapi) (s : Str) : Except Err Atom := parseWith (optsOf e) (repoAllowed e) s

/-! ## `atom.__str__` -/

/-- Python truthiness of an optional string -/
def truthy : Option Str → Option Str
  | some (c :: cs) => some (c :: cs)
  | _ => none

/-- the attribute `cpvstr` of the atom (the text handed to `CPV`) -/
def cpvText (a : Atom) : Str :=
  a.cat ++ '/' :: a.pkg ++
    match a.vop with
    | some (_, v, r) => '-' :: C01.render v ++ (if r.isEmpty then [] else '-' :: 'r' :: r)
    | none => []

def renderSlot (a : Atom) : Str :=
  match truthy a.slot with
  | some s =>
    ':' :: s ++ (match truthy a.subslot with | some ss => '/' :: ss | none => []) ++
      (if a.slotOp = some ['='] then ['='] else [])
  | none =>
    match truthy a.slotOp with
    | some op => ':' :: op
    | none => []

def renderUse (a : Atom) : Str :=
  match a.use with
  | some (t :: ts) => '[' :: joinSep ',' (t :: ts) ++ [']']
  | _ => []

/-- `str(atom)` -/
def render (a : Atom) : Str :=
  let s := match a.vop with
    | some (.glob, _, _) => '=' :: cpvText a ++ ['*']
    | some (op, _, _) => op.str ++ cpvText a
    | none => cpvText a
  let s := if a.blocks then (if a.strong then '!' :: '!' :: s else '!' :: s) else s
  s ++ renderSlot a ++ (match truthy a.repo with | some r => ':' :: ':' :: r | none => []) ++ renderUse a

/-! ## glue to C04 (`atom.restrictions` reads the parsed attributes) -/

/-- the lexing of one non-transitive USE token in `restricts._parse_nontransitive_use` -/
def lexUseDep (t : Str) : C04.UseDep :=
  let (t, on) := match t with
    | '-' :: r => (r, false)
    | _ => (t, true)
  match stripSuffix? ['(', '+', ')'] t with
  | some f => ⟨f, on, some true⟩
  | none => match stripSuffix? ['(', '-', ')'] t with
    | some f => ⟨f, on, some false⟩
    | none => ⟨t, on, none⟩

/-- the atom as `atom.match` sees it (C04's record) -/
def toC04 (a : Atom) : C04.Atom :=
  { cat := a.cat, pkg := a.pkg, vop := a.vop, negate := a.negate, blocks := a.blocks, strong := a.strong,
    slot := a.slot, subslot := a.subslot, slotOp := a.slotOp, repo := a.repo, use := a.use.map (·.map lexUseDep) }

end Pkgcore.C03
