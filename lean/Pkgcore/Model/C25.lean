import Pkgcore.Model.C24
import Pkgcore.Model.C28
/-!
# C25 model — `pkgcore.fs.tar`: `fsobj_to_tarinfo`, `add_contents_to_tarfile` (directories first, hard-link
table keyed by `(dev, inode)`, `LNKTYPE` rewriting — after the `fix:` commit), `archive_to_fsobj` (location
normalisation, inode table keyed by location, link chains) and `convert_archive` (relocation below symlinked
directories, missing directories, final ordering).

The byte format is `tarfile`'s: an archive is the list of its members (`Member` = the fields of a `TarInfo`
the code reads or writes, plus the data stream as an opaque token).  Contract (checked by the correspondence
run, not proved): writing a member list with `TarFile.addfile` and iterating the re-opened archive yields the
same members; `extractfile` on a hard link yields the data of the member it names.  Compression is
transparent.  mtimes are opaque tokens (pax headers keep them exactly); file contents are tokens.
`normpath`, `splitOn`, `joinWith` come from `Model/C24.lean`, `sortBy` from `Model/C28.lean`.
-/
namespace Pkgcore.C25
open Pkgcore.C24

structure Attrs where
  mode : Nat
  uid : Nat
  gid : Nat
  mtime : Str
  deriving DecidableEq, Repr

structure File where
  loc : Str
  a : Attrs
  dev : Option Nat
  inode : Option Nat
  data : Nat
  src : Nat := 0          -- identity of the data-source object (`files_ordering` key); set by the reader
  deriving DecidableEq, Repr

inductive Obj
  | file (f : File)
  | dir (loc : Str) (a : Attrs)
  | sym (loc target : Str) (a : Attrs)
  | fifo (loc : Str) (a : Attrs)
  | dev (loc : Str) (a : Attrs) (chr : Bool) (major minor : Nat)
  deriving DecidableEq, Repr

def Obj.loc : Obj → Str
  | .file f => f.loc | .dir l _ => l | .sym l _ _ => l | .fifo l _ => l | .dev l _ _ _ _ => l

def Obj.isDir : Obj → Bool | .dir _ _ => true | _ => false
def Obj.isReg : Obj → Bool | .file _ => true | _ => false
def Obj.isSym : Obj → Bool | .sym _ _ _ => true | _ => false

inductive MTyp | reg | lnk | dir | sym | fifo | chr | blk
  deriving DecidableEq, Repr

/-- the `TarInfo` fields that matter, and the data stream handed to `addfile` -/
structure Member where
  typ : MTyp
  name : Str
  linkname : Str
  a : Attrs
  major : Nat
  minor : Nat
  data : Option Nat
  deriving DecidableEq, Repr

/-! ## writing -/

/-- `s.lstrip("/")` -/
def lstripSlash (s : Str) : Str := s.dropWhile (· = '/')
/-- `s.strip("/")` -/
def stripSlash (s : Str) : Str := ((s.dropWhile (· = '/')).reverse.dropWhile (· = '/')).reverse

/-- `f"./{location.lstrip('/')}"` -/
def relName (loc : Str) : Str := '.' :: '/' :: lstripSlash loc

/-- `fsobj_to_tarinfo(obj, absolute_path=False)` (data attached by the caller) -/
def toMember : Obj → Member
  | .file f => ⟨.reg, relName f.loc, [], f.a, 0, 0, none⟩
  | .dir l a => ⟨.dir, relName l, [], a, 0, 0, none⟩
  | .sym l t a => ⟨.sym, relName l, t, a, 0, 0, none⟩
  | .fifo l a => ⟨.fifo, relName l, [], a, 0, 0, none⟩
  | .dev l a chr mj mn =>
    -- the tar header keeps `mode & 0o7777` (a device's mode carries S_IFCHR/S_IFBLK above that)
    ⟨if chr then .chr else .blk, relName l, [], { a with mode := a.mode % 4096 }, mj, mn, none⟩

/-- `x._can_be_hardlinked(existing)` for two regular files -/
def canLink (x e : File) : Bool :=
  x.inode.isSome && x.dev.isSome && x.dev == e.dev && x.inode == e.inode && x.a == e.a

abbrev Key := Option Nat × Option Nat

/-- dict assignment `inodes[key] = x` -/
def keyPut (d : List (Key × File)) (k : Key) (x : File) : List (Key × File) :=
  if d.any (·.1 == k) then d.map (fun p => if p.1 == k then (k, x) else p) else d ++ [(k, x)]

/-- the `for x in contents_set.iterdirs(invert=True)` loop -/
def addRest : List Obj → List (Key × File) → List Member
  | [], _ => []
  | .file x :: rest, inodes =>
    let key : Key := (x.dev, x.inode)
    match inodes.lookup key with
    | some e =>
      if canLink x e then
        { toMember (.file x) with typ := .lnk, linkname := relName e.loc } :: addRest rest inodes
      else { toMember (.file x) with data := some x.data } :: addRest rest (keyPut inodes key x)
    | none => { toMember (.file x) with data := some x.data } :: addRest rest (keyPut inodes key x)
  | o :: rest, inodes => toMember o :: addRest rest inodes

/-- `add_contents_to_tarfile(contents_set, tar)`: the members written, in order -/
def addContents (s : List Obj) : List Member :=
  (C28.sortBy Obj.loc (s.filter Obj.isDir)).map toMember ++ addRest (s.filter fun o => !o.isDir) []

/-! ## reading -/

/-- `os.path.abspath(os.path.join("/", name.strip("/")))` -/
def absLoc (name : Str) : Str := normpath ('/' :: stripSlash name)

/-- `os.path.abspath(os.path.join("/", member.linkname))` -/
def absLink (linkname : Str) : Str :=
  if linkname.head? = some '/' then normpath linkname else normpath ('/' :: linkname)

structure RState where
  next : Nat                                  -- `_unique_inode` counter
  nsrc : Nat := 0                             -- how many data sources were created so far
  seen : List (Str × Nat × Nat) := []         -- location ↦ (inode, data) of the files read so far
  deriving Repr

/-- `dict[k] = v` for the inode cache -/
def seenPut (d : List (Str × Nat × Nat)) (k : Str) (v : Nat × Nat) : List (Str × Nat × Nat) :=
  if d.any (·.1 == k) then d.map (fun p => if p.1 == k then (k, v) else p) else d ++ [(k, v)]

/-- one iteration of `for member in src_tar` with archive device number `dev`;
`none` = `AssertionError` (dangling hard link) -/
def readMember (dev : Nat) (st : RState) (m : Member) : Option (RState × Option Obj) :=
  let loc := absLoc m.name
  match m.typ with
  | .dir => if stripSlash m.name = ['.'] then some (st, none) else some (st, some (.dir loc m.a))
  | .reg =>
    let ino := st.next
    some ({ next := st.next + 1, nsrc := st.nsrc + 1, seen := seenPut st.seen loc (ino, m.data.getD 0) },
      some (.file ⟨loc, m.a, some dev, some ino, m.data.getD 0, st.nsrc⟩))
  | .lnk =>
    match st.seen.lookup (absLink m.linkname) with
    | none => none
    | some (ino, data) =>
      some ({ st with nsrc := st.nsrc + 1, seen := seenPut st.seen loc (ino, data) },
        some (.file ⟨loc, m.a, some dev, some ino, data, st.nsrc⟩))
  | .sym => some (st, some (.sym loc m.linkname m.a))
  | .fifo => some (st, some (.fifo loc m.a))
  | .chr => some (st, some (.dev loc { m.a with mode := m.a.mode ||| 8192 } true m.major m.minor))      -- S_IFCHR
  | .blk => some (st, some (.dev loc { m.a with mode := m.a.mode ||| 24576 } false m.major m.minor))    -- S_IFBLK

def readLoop (dev : Nat) : List Member → RState → Option (List Obj)
  | [], _ => some []
  | m :: ms, st =>
    match readMember dev st m with
    | none => none
    | some (st', o) => (readLoop dev ms st').map fun tl => match o with | some x => x :: tl | none => tl

/-- `list(archive_to_fsobj(tar))`, the counter starting at `c` -/
def archiveToFsobj (c : Nat) (ms : List Member) : Option (List Obj) := readLoop c ms ⟨c + 1, 0, []⟩

/-! ## `convert_archive` -/

/-- `contentsSet(...)`/`update`: keyed by location, later objects replace -/
def setAdd (d : List Obj) (o : Obj) : List Obj :=
  if d.any (·.loc == o.loc) then d.map (fun x => if x.loc == o.loc then o else x) else d ++ [o]
def setOf (l : List Obj) : List Obj := l.foldl setAdd []
def setUpdate (d l : List Obj) : List Obj := l.foldl setAdd d
def setRemove (d l : List Obj) : List Obj := d.filter fun x => !(l.any (·.loc == x.loc))

def withLoc (o : Obj) (l : Str) : Obj :=
  match o with
  | .file f => .file { f with loc := l }
  | .dir _ a => .dir l a | .sym _ t a => .sym l t a | .fifo _ a => .fifo l a | .dev _ a c mj mn => .dev l a c mj mn

/-- `os.path.dirname` -/
def dirName (p : Str) : Str :=
  let comps := splitOn '/' p
  let head := joinWith '/' comps.dropLast
  if comps.length ≤ 1 then [] else if (head.all (· = '/')) then (if head.isEmpty then ['/'] else head)
  else ((head.reverse.dropWhile (· = '/')).reverse)

/-- `fsLink.resolved_target` -/
def resolvedTarget (loc target : Str) : Str :=
  if target.head? = some '/' then target else normpath (loc ++ ('/' :: '.' :: '.' :: '/' :: target))

/-- the prefix `child_nodes` tests locations against: `normpath(start).rstrip("/") + "/"` -/
def cnPrefix (start : Str) : Str := ((normpath start).reverse.dropWhile (· = '/')).reverse ++ ['/']

/-- `loc` lies strictly below `start` (`x.location.startswith(cn_path)`) -/
def isChild (start loc : Str) : Bool := (cnPrefix start).isPrefixOf loc

/-- `set.child_nodes(start)`: members strictly below `start` -/
def childNodes (d : List Obj) (start : Str) : List Obj := d.filter fun x => isChild start x.loc

/-- the location `change_offset_rewriter(old, new, …)` gives an entry recorded at `loc`:
`normpath(pjoin(new, loc[len(normpath(old or "/").rstrip("/")):].lstrip("/")))` -/
def moveLoc (old new loc : Str) : Str :=
  let n := (((normpath (if old.isEmpty then ['/'] else old)).reverse.dropWhile (· = '/')).reverse).length
  let rest := lstripSlash (loc.drop n)
  let joined := if rest.head? = some '/' then rest
    else if new.isEmpty ∨ new.getLast? = some '/' then new ++ rest else new ++ '/' :: rest
  normpath joined

/-- `affected.change_offset(old, new)` -/
def changeOffset (affected : List Obj) (old new : Str) : List Obj :=
  setOf (affected.map fun x => withLoc x (moveLoc old new x.loc))

/-- where the entries below `x` go: `x.resolved_target` (only symlinks are ever asked) -/
def symTarget (x : Obj) : Str := match x with | .sym l t _ => resolvedTarget l t | _ => x.loc

/-- the bounded `for _ in range(nsyms**2 + nsyms + 2): for x in sorted(syms): … break` loop on the symlinks (after the
fix; it was `while True`): the first argument is the number of passes left, `none` = the `else:` branch of the outer
loop, `raise AssertionError("… symlink loop …")` -/
def symLoop : Nat → List Obj → Option (List Obj)
  | 0, _ => none
  | fuel + 1, syms =>
    let sorted := C28.sortBy Obj.loc syms
    match sorted.find? (fun x => !(childNodes syms x.loc).isEmpty) with
    | none => some syms
    | some x =>
      let affected := childNodes syms x.loc
      symLoop fuel (setUpdate (setRemove syms affected) (changeOffset affected x.loc (symTarget x)))

/-- the `for x in syms` loop relocating everything below a symlinked directory -/
def relocate : List Obj → List Obj → List Obj → List Obj × List Obj
  | [], t, adds => (t, adds)
  | x :: xs, t, adds =>
    let affected := childNodes t x.loc
    if affected.isEmpty then relocate xs t adds
    else relocate xs (setRemove t affected) (adds ++ changeOffset affected x.loc (symTarget x))

/-- the bounded repetition of the relocation pass (`for _ in range(len(syms) + 1)`): stop when a pass moves nothing -/
def relocatePasses : Nat → List Obj → List Obj → List Obj
  | 0, _, t => t
  | n + 1, syms, t =>
    let (t', adds) := relocate syms t []
    if adds.isEmpty then t' else relocatePasses n syms (setUpdate t' adds)

/-- the directory `add_missing_directories` creates at `p` (mode 0775, root; the mtime is the current time: empty token) -/
def newDir (p : Str) : Obj := .dir p ⟨509, 0, 0, []⟩

/-- `add_missing_directories`: the locations of the directories to create.  The code climbs from every missing
parent towards the root; the model adds one level of missing parents per round until none is missing (same set);
`fuel` = number of rounds allowed -/
def missingDirs : Nat → List Obj → List Str
  | 0, _ => []
  | fuel + 1, t =>
    let have_ (p : Str) := t.any (·.loc == p)
    let missing := (t.map fun x => dirName x.loc).filter fun p => !have_ p && p != ['/'] && !p.isEmpty
    let missing := missing.eraseDups
    if missing.isEmpty then []
    else missing ++ missingDirs fuel (t ++ missing.map newDir)

/-- length of the longest location: every round of `missingDirs` shortens the paths it looks at, so this many
rounds (+1) reach the root from everywhere -/
def maxLocLen (t : List Obj) : Nat := t.foldr (fun o m => max o.loc.length m) 0

def srcOf : Obj → Nat | .file f => f.src | _ => 0

def insertByNat (key : Obj → Nat) (e : Obj) : List Obj → List Obj
  | [] => [e]
  | x :: xs => if key e ≤ key x then e :: x :: xs else x :: insertByNat key e xs
def sortByNat (key : Obj → Nat) (l : List Obj) : List Obj := l.foldr (insertByNat key) []

/-- `convert_archive(archive)` given `raw = list(archive_to_fsobj(archive))`; added directories carry an
empty mtime token (the code uses the current time); `none` = `AssertionError` (symlink loop among symlinks recorded
below symlinks: the pass bound of the code, not a modelling fuel) -/
def convertArchive (raw : List Obj) : Option (List Obj) :=
  let t := setOf raw
  let rawSyms := t.filter Obj.isSym
  match symLoop (rawSyms.length * rawSyms.length + rawSyms.length + 2) (setOf rawSyms) with
  | none => none
  | some syms =>
    let t := setUpdate (setRemove t rawSyms) syms
    let symsRev := (C28.sortBy Obj.loc syms).reverse
    let t := relocatePasses (symsRev.length + 1) symsRev t
    let t := setUpdate t ((missingDirs (maxLocLen t + 1) t).eraseDups.map newDir)
    let dirs := C28.sortBy Obj.loc (t.filter Obj.isDir)
    let others := C28.sortBy Obj.loc (t.filter fun o => !o.isDir && !o.isReg)
    -- regular files keep the archive order of their data sources (`files_ordering[x.data]`)
    let regs := sortByNat srcOf (t.filter Obj.isReg)
    some (dirs ++ others ++ regs)

/-- `generate_contents(write_set(S))` -/
def roundTrip (c : Nat) (s : List Obj) : Option (List Obj) :=
  (archiveToFsobj c (addContents s)).bind convertArchive

end Pkgcore.C25
