import Pkgcore.Generated.C30Tables
/-!
# C30 model — `WorldFile._modify` / `add` / `remove`, `FileList._parse` / `flush`, `pmerge.update_worldset`

Mirrors the code *after* the `fix:` commit "treat an atom's slot as one string" (`modifyUnfixed` keeps the
old per-character loop to state the defect).

Conventions (tied to the code by the correspondence run):

* the lexing of the world file is trivial (`readlines_ascii(path, True)`: split on newlines, strip white
  space; `"\n".join(...)` on write), so a file content is a `List Line` of stripped lines;
* `_atoms` is a Python `set` of atoms: a duplicate-free list of canonical atom texts, compared up to
  membership (`sorted(...)` in `flush` only fixes the order of the lines, which is not compared);
  `atom(text)` / `str(atom)` round-trip on the texts that occur (`key`, `key:slot`, existing entries) is C03's
  subject and is checked on every generated entry by the harness;
* `WorldFile` is used as `pmerge` uses it when nested sets are not resolvable (`config=None`): an `@set`
  line is dropped with the warning "it will be wiped on update";
* `AtomicWriteFile` is the op sequence open(tmp,"w"), chmod, chown, writes, close, rename(tmp, path) with
  `tmp = dirname/.update.basename`; `discard` is close + unlink(tmp).
-/
namespace Pkgcore.C30

abbrev Line := List Char
/-- the in-memory set `_atoms` -/
abbrev World := List Line

/-- `set.add` -/
def setAdd (w : World) (e : Line) : World := if e ∈ w then w else w ++ [e]
/-- `set.remove`; `none` = `KeyError` -/
def setRemove (w : World) (e : Line) : Option World := if e ∈ w then some (w.erase e) else none

/-- the text `_modify` hands to `atom(...)`: `atom_inst.key` or `atom_inst.key + ":" + atom_inst.slot` -/
def worldText (key : Line) (slot : Option Line) : Line :=
  match slot with
  | none => key                       -- `atom_inst.slot` is None
  | some s =>
    if s.isEmpty then key             -- falsy slot
    else if s = ['0'] then key
    else key ++ ':' :: s

/-- a request: `add(atom)` / `remove(atom)` for an atom with this key and slot -/
inductive Req
  | add (key : Line) (slot : Option Line)
  | remove (key : Line) (slot : Option Line)
  deriving DecidableEq, Repr

/-- `WorldFile.add` / `WorldFile.remove` on the in-memory set -/
def modify (w : World) : Req → Option World
  | .add k s => some (setAdd w (worldText k s))
  | .remove k s => setRemove w (worldText k s)

/-- the loop before the repair: one entry per *character* of the slot string (no validity errors modelled) -/
def modifyUnfixedAdd (w : World) (key : Line) (slot : Option Line) : World :=
  match slot with
  | none => setAdd w key
  | some s =>
    if s.isEmpty then setAdd w key
    else s.foldl (fun w c => setAdd w (if c = '0' then key else key ++ [':', c])) w

/-- `FileList._parse` for a `WorldFile` without resolvable nested sets: blank lines, `#` comments and
`@set` references contribute nothing -/
def isEntryLine : Line → Bool
  | [] => false
  | c :: _ => c != '#' && c != '@'

def parse (lines : List Line) : World := (lines.filter isEntryLine).foldl setAdd []

/-! ## the directory holding the world file -/

abbrev Name := List Char
abbrev Fs := Name → Option (List Line)

inductive FsOp
  | openTrunc (p : Name)                    -- `open(p, "w")`
  | chmod (p : Name)
  | chown (p : Name)
  | append (p : Name) (ls : List Line)      -- buffered data reaching the file
  | rename (src dst : Name)
  | unlink (p : Name)
  deriving DecidableEq, Repr

def upd (fs : Fs) (p : Name) (v : Option (List Line)) : Fs := fun q => if q = p then v else fs q

def step (fs : Fs) : FsOp → Fs
  | .openTrunc p => upd fs p (some [])
  | .chmod _ => fs
  | .chown _ => fs
  | .append p ls => match fs p with
    | some c => upd fs p (some (c ++ ls))
    | none => fs
  | .rename s d => match fs s with
    | some c => upd (upd fs d (some c)) s none
    | none => fs
  | .unlink p => upd fs p none

def run (ops : List FsOp) (fs : Fs) : Fs := ops.foldl step fs

/-- `os.path.join(dirname(fp), ".update." + basename(fp))` -/
def tmpName (p : Name) : Name := ['.', 'u', 'p', 'd', 'a', 't', 'e', '.'] ++ p

/-- `FileList.flush()` when nothing fails: the lines reach the temp file in some chunks, then the rename -/
def flushOps (path : Name) (chunks : List (List Line)) : List FsOp :=
  [.openTrunc (tmpName path), .chmod (tmpName path), .chown (tmpName path)]
    ++ chunks.map (.append (tmpName path)) ++ [.rename (tmpName path) path]

/-- `flush()` when an exception is raised after the temp file was opened: `f.discard()` -/
def discardOps (path : Name) (chunks : List (List Line)) : List FsOp :=
  [.openTrunc (tmpName path), .chmod (tmpName path), .chown (tmpName path)]
    ++ chunks.map (.append (tmpName path)) ++ [.unlink (tmpName path)]

/-- what a fresh `WorldFile(path)` sees (`none`: the file does not exist, iteration raises) -/
def readWorld (fs : Fs) (path : Name) : Option World := (fs path).map parse

/-- `update_worldset(world_set, pkg, remove)`: the new in-memory set and the file operations performed.
`layout` is how `flush` lays the set out (`sorted`, then whatever chunks the buffered writer produces). -/
def updateWorldset (layout : World → List (List Line)) (path : Name) (w : World) (r : Req) : World × List FsOp :=
  match modify w r with
  | none => (w, [])                                   -- KeyError: "nothing to remove, thus skip the flush"
  | some w' => (w', flushOps path (layout w'))

/-- a sequence of `update_worldset` calls on one `WorldFile` instance -/
def updateAll (layout : World → List (List Line)) (path : Name) : World → Fs → List Req → World × Fs
  | w, fs, [] => (w, fs)
  | w, fs, r :: rs =>
    let (w', ops) := updateWorldset layout path w r
    updateAll layout path w' (run ops fs) rs

/-- `update_worldset` when the flush may fail *transiently* (an `OSError` from one of its calls, e.g. `ENOSPC` at the
rename): the exception propagates out of `update_worldset`, `flush` has discarded the temp file, the world file keeps
its old content — and the in-memory set keeps the change (the code does not roll it back), so the next successful
flush of the same `WorldFile` object writes it too. -/
def updateWorldsetF (layout : World → List (List Line)) (path : Name) (w : World) (r : Req) (fails : Bool) : World × List FsOp :=
  match modify w r with
  | none => (w, [])
  | some w' => (w', if fails then discardOps path (layout w') else flushOps path (layout w'))

/-- a sequence of `update_worldset` calls on one long-lived `WorldFile`, some of whose flushes fail -/
def updateAllF (layout : World → List (List Line)) (path : Name) : World → Fs → List (Req × Bool) → World × Fs
  | w, fs, [] => (w, fs)
  | w, fs, (r, fails) :: rs =>
    let res := updateWorldsetF layout path w r fails
    updateAllF layout path res.1 (run res.2 fs) rs

end Pkgcore.C30
