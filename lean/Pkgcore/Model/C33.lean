import Pkgcore.Generated.C33Tables
/-!
# C33 model — install helpers of `pkgcore.ebuild.ebd_ipc` and `misc.get_relative_dosym_target`

The helpers are modelled in two layers, both mirroring the code after the `fix:` commits listed in
`known_findings.d/C33.json`:

* **plan** — what each helper's `run`/`_install_targets` asks the file system to do, as a list of `Op`s
  (`os.makedirs`+chmod, unlink+`shutil.copyfile`+chmod, `os.symlink`, link-with-overwrite, `os.link`,
  `open(..., "w")`), or a rejection (`IpcCommandError`).  Path *strings* (`--dest`, arguments, man page
  names, link names) are `List Char` and are handled with character-level mirrors of `os.path.basename`,
  `dirname`, `splitext`, `join`, `normpath`, `relpath`, `str.rsplit`, `lstrip/rstrip`.
* **interpreter** — the effect of an `Op` on an abstract image `Fs := Path → Option Node` with the POSIX
  error cases the helpers run into (missing parent, non-directory on the way, directory in the way of a file).

An image path is the list of non-empty components of `pjoin(ED, dest, d.lstrip("/"))` below `ED`
(`toPath`; the kernel ignores repeated slashes; `.`/`..` components and symlinked directories inside the
image are outside the model — the generator does not produce them).
The source tree is described structurally (`Src`): `os.path.isdir/islink/lexists`, `os.stat` success and
`os.walk` are answered from that description.  Option strings are modelled after parsing (`RawOpts`);
shlex/argparse are exercised by the correspondence run only.
-/
namespace Pkgcore.C33

abbrev Str := List Char
abbrev Path := List Str

/-! ## string / path primitives (character level, as CPython's posixpath) -/

/-- `s.split(sep)` for a one-character separator (never returns `[]`) -/
def splitOn (sep : Char) : Str → List Str
  | [] => [[]]
  | c :: cs =>
    if c = sep then [] :: splitOn sep cs
    else match splitOn sep cs with
      | [] => [[c]]
      | h :: t => (c :: h) :: t

/-- `sep.join(parts)` -/
def joinWith (sep : Char) : List Str → Str
  | [] => []
  | [c] => c
  | c :: cs => c ++ sep :: joinWith sep cs

/-- `s.lstrip("/")` -/
def lstripSlash (s : Str) : Str := s.dropWhile (· = '/')
/-- `s.rstrip("/")` -/
def rstripSlash (s : Str) : Str := (s.reverse.dropWhile (· = '/')).reverse

/-- `os.path.basename(p)` = `p[p.rfind("/")+1:]` -/
def basename (p : Str) : Str := (p.reverse.takeWhile (· ≠ '/')).reverse

/-- `os.path.dirname(p)` -/
def dirname (p : Str) : Str :=
  let head := (p.reverse.dropWhile (· ≠ '/')).reverse
  if head.all (· = '/') then head else rstripSlash head

/-- `p.startswith("/")` (`os.path.isabs`) -/
def isAbs (p : Str) : Bool := p.head? = some '/'

/-- `os.path.join(a, b)` -/
def pjoin (a b : Str) : Str :=
  if isAbs b then b
  else if a = [] ∨ a.getLast? = some '/' then a ++ b
  else a ++ '/' :: b

/-- `s.rsplit(sep, 1)[0]` -/
def rsplit1Head (sep : Char) (s : Str) : Str :=
  match s.reverse.dropWhile (· ≠ sep) with
  | [] => s
  | _ :: rootRev => rootRev.reverse

/-- `os.path.splitext(b)` for a name without `/` -/
def splitext (b : Str) : Str × Str :=
  match b.reverse.dropWhile (· ≠ '.') with
  | [] => (b, [])
  | _ :: rootRev =>
    if rootRev.all (· = '.') then (b, [])
    else (rootRev.reverse, '.' :: (b.reverse.takeWhile (· ≠ '.')).reverse)

/-- one step of `normpath`'s component loop; `abs` = `initial_slashes > 0` -/
def normStep (abs : Bool) (new : List Str) (comp : Str) : List Str :=
  if comp = [] ∨ comp = ['.'] then new
  else if comp ≠ ['.', '.'] ∨ (!abs ∧ new = []) ∨ (new ≠ [] ∧ new.getLast? = some ['.', '.'])
  then new ++ [comp]
  else new.dropLast

/-- `os.path.normpath(p)` -/
def normpath (p : Str) : Str :=
  if p = [] then ['.'] else
  let initial : Nat :=
    if isAbs p then (if p.take 2 = ['/', '/'] ∧ p.take 3 ≠ ['/', '/', '/'] then 2 else 1) else 0
  let comps := (splitOn '/' p).foldl (normStep (initial > 0)) []
  let out := List.replicate initial '/' ++ joinWith '/' comps
  if out = [] then ['.'] else out

/-- length of the common prefix of two component lists (`len(commonprefix([a, b]))`) -/
def commonLen : List Str → List Str → Nat
  | a :: as, b :: bs => if a = b then commonLen as bs + 1 else 0
  | _, _ => 0

/-- `os.path.relpath(path, start)` for **absolute** `path` and `start` (so `abspath = normpath`) -/
def relpath (path start : Str) : Str :=
  let startList := (splitOn '/' (normpath start)).filter (· ≠ [])
  let pathList := (splitOn '/' (normpath path)).filter (· ≠ [])
  let i := commonLen startList pathList
  let rel := List.replicate (startList.length - i) ['.', '.'] ++ pathList.drop i
  if rel = [] then ['.'] else joinWith '/' rel

/-- `get_relative_dosym_target(source, target)` -/
def relativeDosymTarget (source target : Str) : Str :=
  relpath source (pjoin ['/'] (dirname target))

/-- components of an image-relative path string -/
def toPath (s : Str) : Path := (splitOn '/' s).filter (· ≠ [])

/-! ## requests -/

inductive LinkKind | toFile | toDir | broken
  deriving DecidableEq, Repr

/-- what is found at a source path -/
inductive Src
  | missing
  | file (id : Nat)
  | link (text : Str) (kind : LinkKind)
  | dir (kids : List (Str × Src))
  deriving Repr

structure Target where
  arg : Str
  node : Src
  deriving Repr

/-- `os.path.isdir(arg)` -/
def Target.isDir (t : Target) : Bool :=
  match t.node with
  | .dir _ => true
  | .link _ .toDir => true
  | _ => false

inductive Rej
  | noTargets            -- argparse: the following arguments are required
  | nonexistent          -- existing_path
  | isDirectory          -- "... is a directory"
  | cannotStat           -- broken symlink as install source
  | copyFailed           -- shutil.copyfile on a directory
  | invalidManPage       -- doman: no valid section
  | missingLinkName      -- dosym: trailing slash
  | relNotPermitted      -- dosym -r before EAPI 8
  | relNeedsAbs          -- dosym -r with a relative source
  | oserror              -- file-system level failure
  | unmodelled           -- request outside the model (reported, never compared)
  deriving DecidableEq, Repr

/-- an install option string after `shlex.split` + `install_parser` -/
structure RawOpts where
  present : Bool          -- the --insoptions/--diroptions option was passed at all
  empty : Bool            -- its value was the empty string
  mode : Option Nat       -- value of -m/--mode when given
  owner : Option Nat      -- value of -o/--owner when given (uid)
  group : Option Nat      -- value of -g/--group when given (gid)
  deriving Repr, DecidableEq

/-- what `_set_attributes` is asked to establish: `chmod(mode)`, and `lchown(owner, group)` where given
(`-1` = leave alone) -/
structure Attr where
  mode : Nat
  owner : Option Nat
  group : Option Nat
  deriving Repr, DecidableEq

/-- mode bits and ownership of an image entry -/
structure Perm where
  mode : Nat
  uid : Nat
  gid : Nat
  deriving Repr, DecidableEq

/-- `_set_attributes(opts, path)` on an entry that has `p`: lchown where asked, then chmod -/
def Attr.over (a : Attr) (p : Perm) : Perm := ⟨a.mode, a.owner.getD p.uid, a.group.getD p.gid⟩

/-- `self.insoptions`/`self.diroptions` → what is handed to `_set_attributes`
(`none`: empty namespace, nothing done; no `-m` among other options: the parser default 0o755) -/
def effMode (dflt : Option Attr) (raw : RawOpts) : Option Attr :=
  if raw.present then (if raw.empty then none else some ⟨raw.mode.getD 0o755, raw.owner, raw.group⟩)
  else dflt

structure Ctx where
  dest : Str
  insMode : Option Attr
  dirMode : Option Attr
  deriving Repr

inductive Content
  | file (id : Nat)
  | link (text : Str)
  deriving DecidableEq, Repr

inductive Op
  | mkdirs (p : Path) (mode : Option Attr)           -- os.makedirs(p, exist_ok=True); _set_attributes on the leaf
  | copy (c : Content) (p : Path) (mode : Option Attr) -- unlink; shutil.copyfile(follow_symlinks=False); _set_attributes
  | symlink (text : Str) (p : Path)                   -- os.symlink (fails when p exists)
  | relink (text : Str) (p : Path)                    -- dosym: symlink, overwriting a non-directory
  | hardlink (src : Path) (p : Path)                  -- dohard: os.link, overwriting a non-directory
  | touch (p : Path)                                  -- open(p, "w").close()
  deriving DecidableEq, Repr

def Op.path : Op → Path
  | .mkdirs p _ | .copy _ p _ | .symlink _ p | .relink _ p | .hardlink _ p | .touch p => p

/-- `_prefix_targets`: `pjoin(ED, dest.lstrip("/"), d.lstrip("/"))` below `ED` -/
def prefixed (c : Ctx) (d : Str) : Path := toPath c.dest ++ toPath d

/-! ## the image -/

inductive Node
  | dir (mode : Perm)
  | file (mode : Perm) (id : Nat)     -- `id` identifies the content (0 = empty file)
  | link (text : Str) (uid gid : Nat)
  deriving DecidableEq, Repr

abbrev Fs := Path → Option Node

def emptyFs : Fs := fun _ => none

def Fs.set (fs : Fs) (p : Path) (n : Node) : Fs := fun q => if q = p then some n else fs q

/-- the image root always exists -/
def Fs.isDir (fs : Fs) (p : Path) : Bool :=
  p = [] || (match fs p with | some (.dir _) => true | _ => false)

/-! ## plans -/

/-- `_install` on one `(source, dest)` pair -/
def installOne (c : Ctx) (node : Src) (d : Str) : Except Rej Op :=
  match node with
  | .missing => .error .cannotStat
  | .file id => .ok (.copy (.file id) (prefixed c d) c.insMode)
  | .link _ .broken => .error .cannotStat
  | .link text _ => .ok (.copy (.link text) (prefixed c d) c.insMode)
  | .dir _ => .error .copyFailed

/-- `self.install((f, basename(f)) for f in files)` -/
def installByBasename (c : Ctx) (ts : List Target) : Except Rej (List Op) :=
  ts.mapM fun t => installOne c t.node (basename t.arg)

/-- the checks argparse performs on the `targets` positional -/
def checkTargets (ts : List Target) : Except Rej Unit :=
  if ts = [] then .error .noTargets
  else if ts.any (fun t => match t.node with | .missing => true | _ => false) then .error .nonexistent
  else .ok ()

/-- `_InstallWrapper.run`: create the destination directory, then `_install_targets` -/
def wrapperRun (c : Ctx) (ts : List Target) (body : Except Rej (List Op)) : Except Rej (List Op) := do
  checkTargets ts
  let ops ← body
  pure (Op.mkdirs (toPath c.dest) none :: ops)

mutual
/-- one directory of the `os.walk` in `_install_from_dirs`; `dd` = components of `dest_dir` -/
def walkDir (c : Ctx) (dd : Path) (kids : List (Str × Src)) : Except Rej (List Op) := do
  let here := Op.mkdirs (toPath c.dest ++ dd) c.dirMode
  let syms := kids.filterMap fun (n, s) =>
    match s with
    | .link text .toDir => some (Op.symlink text (toPath c.dest ++ dd ++ [n]))
    | _ => none
  let files ← walkFiles c dd kids
  let subs ← walkSubs c dd kids
  pure (here :: syms ++ files ++ subs)
/-- the `filenames` of one walked directory -/
def walkFiles (c : Ctx) (dd : Path) : List (Str × Src) → Except Rej (List Op)
  | [] => pure []
  | (n, s) :: rest =>
    match s with
    | .file id => do
      let r ← walkFiles c dd rest
      pure (Op.copy (.file id) (toPath c.dest ++ dd ++ [n]) c.insMode :: r)
    | .link text .toFile => do
      let r ← walkFiles c dd rest
      pure (Op.copy (.link text) (toPath c.dest ++ dd ++ [n]) c.insMode :: r)
    | .link _ .broken => .error .cannotStat
    | _ => walkFiles c dd rest
/-- the real sub-directories of one walked directory -/
def walkSubs (c : Ctx) (dd : Path) : List (Str × Src) → Except Rej (List Op)
  | [] => pure []
  | (n, s) :: rest =>
    match s with
    | .dir kids => do
      let a ← walkDir c (dd ++ [n]) kids
      let r ← walkSubs c dd rest
      pure (a ++ r)
    | _ => walkSubs c dd rest
end

/-- the top-level `dest_dir` of `_install_from_dirs`: `normpath(pjoin(base_dir, "."))` with
`base_dir = basename(d.rstrip("/"))` — the last non-empty component of the argument, and nothing at all when that
component is `.` (`doins -r dir/.`: `normpath` drops it, the contents of `dir` go directly under `--dest`) -/
def topDir (arg : Str) : Path :=
  let b := toPath (basename (rstripSlash arg))
  if b = [['.']] then [] else b

/-- `_install_from_dirs(dirs)` -/
def fromDirs (c : Ctx) : List Target → Except Rej (List Op)
  | [] => pure []
  | t :: rest =>
    match t.node with
    | .dir kids => do
      let a ← walkDir c (topDir t.arg) kids
      let r ← fromDirs c rest
      pure (a ++ r)
    | _ => .error .unmodelled

/-- `Doins._install_targets` (after the fix: a directory without `-r` is rejected) -/
def doinsTargets (c : Ctx) (recursive : Bool) (ts : List Target) : Except Rej (List Op) := do
  let dirs := ts.filter (·.isDir)
  let files := ts.filter (!·.isDir)
  let dops ← if dirs = [] then pure [] else if recursive then fromDirs c dirs else .error .isDirectory
  let fops ← installByBasename c files
  pure (dops ++ fops)

/-- `Dodoc._install_targets` -/
def dodocTargets (c : Ctx) (allowRecursive recursive : Bool) (ts : List Target) : Except Rej (List Op) := do
  let dirs := ts.filter (·.isDir)
  let files := ts.filter (!·.isDir)
  let dops ← if dirs = [] then pure [] else if recursive ∧ allowRecursive then fromDirs c dirs else .error .isDirectory
  let fops ← installByBasename c files
  pure (dops ++ fops)

structure HtmlOpts where
  recursive : Bool
  aExts : List Str      -- -a
  AExts : List Str      -- -A
  fFiles : List Str     -- -f
  xDirs : List Str      -- -x
  docPrefix : Str       -- -p
  deriving Repr

/-- `Dohtml.parse_args`: the allowed extension set -/
def htmlAllowedExts (o : HtmlOpts) : List Str :=
  (if o.aExts = [] then Generated.C33.dohtmlDefaultExts.map String.toList else o.aExts) ++ o.AExts

/-- `Dohtml._allowed_file` -/
def htmlAllowed (o : HtmlOpts) (arg : Str) : Bool :=
  let b := basename arg
  (htmlAllowedExts o).contains ((splitext b).2.drop 1) || o.fFiles.contains b

/-- `Dohtml._install_targets` -/
def dohtmlTargets (c : Ctx) (o : HtmlOpts) (ts : List Target) : Except Rej (List Op) := do
  let dirs := ts.filter (·.isDir)
  let files := ts.filter (!·.isDir)
  let dops ← if dirs = [] then pure []
    else if o.recursive then fromDirs c (dirs.filter fun d => !o.xDirs.contains d.arg)
    else .error .isDirectory
  let fops ← installByBasename c (files.filter fun f => htmlAllowed o f.arg)
  pure (dops ++ fops)

/-! ### doman -/

structure ManCtx where
  detect : Bool          -- eapi.options.doman_language_detect
  override : Bool        -- eapi.options.doman_language_override
  i18n : Str             -- -i18n=<lang>
  exts : List Str        -- eapi.archive_exts
  ci : Bool              -- eapi.options.unpack_case_insensitive
  deriving Repr

def lowerAscii (c : Char) : Char := if 'A' ≤ c ∧ c ≤ 'Z' then Char.ofNat (c.toNat + 32) else c

/-- `eapi.archive_exts_regex.match(ext)` for an extension as returned by `splitext` -/
def isArchiveExt (m : ManCtx) (ext : Str) : Bool :=
  m.exts.any fun e => if m.ci then e.map lowerAscii = ext.map lowerAscii else e = ext

/-- `\w` (ASCII part) -/
def isWord (c : Char) : Bool := c.isAlphanum || c = '_'

/-- `[a-z]{2}(_[A-Z]{2})?` -/
def isLang : Str → Bool
  | [a, b] => a.isLower && b.isLower
  | [a, b, u, c, d] => a.isLower && b.isLower && u = '_' && c.isUpper && d.isUpper
  | _ => false

/-- `detect_lang_re = ^(.+)\.([a-z]{2}(_[A-Z]{2})?)\.(\w+)$` as a structural recogniser:
returns `(group 1, group 2, group 4)` -/
def detectLang (b : Str) : Option (Str × Str × Str) :=
  match (splitOn '.' b).reverse with
  | g4 :: g2 :: g1 :: more =>
    let g1s := joinWith '.' (g1 :: more).reverse
    if g4 ≠ [] ∧ g4.all isWord ∧ isLang g2 ∧ g1s ≠ [] then some (g1s, g2, g4) else none
  | _ => none

/-- `valid_mandir_re = man[0-9n](f|p|pm)?$` with `re.match` -/
def validMandir (s : Str) : Bool :=
  match s with
  | 'm' :: 'a' :: 'n' :: d :: suf =>
    (d.isDigit || d = 'n') && (suf = [] || suf = ['f'] || suf = ['p'] || suf = ['p', 'm'])
  | _ => false

/-- the extension that names the section: `splitext`, looking through one archive suffix -/
def manExt (m : ManCtx) (b : Str) : Str :=
  let ext := (splitext b).2
  if isArchiveExt m ext then (splitext (rsplit1Head '.' b)).2 else ext

/-- the language handling: `(name, mandir)` -/
def manLang (m : ManCtx) (b mandir : Str) : Str × Str :=
  if m.override ∧ m.i18n ≠ [] then (b, pjoin m.i18n mandir)
  else if m.detect then
    match detectLang b with
    | some (g1, g2, g4) => (g1 ++ '.' :: g4, pjoin g2 mandir)
    | none => if m.i18n ≠ [] then (b, pjoin m.i18n mandir) else (b, mandir)
  else (b, mandir)

/-- the body of `Doman._install_targets` for one argument: `(mandir, name)` or invalid -/
def manPlace (m : ManCtx) (arg : Str) : Option (Str × Str) :=
  let b := basename arg
  let mandir := ['m', 'a', 'n'] ++ (manExt m b).drop 1
  let r := manLang m b mandir
  if validMandir (basename r.2) then some (r.2, r.1) else none

/-- the loop of `Doman._install_targets` with its `dirs` set -/
def domanLoop (c : Ctx) (m : ManCtx) (seen : List Str) : List Target → Except Rej (List Op)
  | [] => pure []
  | t :: rest =>
    match manPlace m t.arg with
    | none => .error .invalidManPage
    | some (mandir, name) => do
      let mk := if seen.contains mandir then [] else [Op.mkdirs (prefixed c mandir) c.dirMode]
      let cp ← installOne c t.node (pjoin mandir name)
      let r ← domanLoop c m (if seen.contains mandir then seen else mandir :: seen) rest
      pure (mk ++ cp :: r)

/-- the loop of `Domo._install_targets` -/
def domoLoop (c : Ctx) (pn : Str) (seen : List Str) : List Target → Except Rej (List Op)
  | [] => pure []
  | t :: rest => do
    let d := pjoin (splitext (basename t.arg)).1 "LC_MESSAGES".toList
    let mk := if seen.contains d then [] else [Op.mkdirs (prefixed c d) c.dirMode]
    let cp ← installOne c t.node (pjoin d (pn ++ ".mo".toList))
    let r ← domoLoop c pn (if seen.contains d then seen else d :: seen) rest
    pure (mk ++ cp :: r)

/-! ### dodir / keepdir / dosym / dohard -/

/-- `Dodir.run`: `install_dirs(targets)` (no destination directory, `--dest` stays `/`) -/
def dodirPlan (c : Ctx) (targets : List Str) : Except Rej (List Op) :=
  if targets = [] then .error .noTargets
  else pure (targets.map fun d => Op.mkdirs (prefixed c d) c.dirMode)

/-- `Keepdir.run` -/
def keepdirPlan (c : Ctx) (category pn slot : Str) (targets : List Str) : Except Rej (List Op) := do
  let mk ← dodirPlan c targets
  let fname := ".keep_".toList ++ category ++ '_' :: pn ++ '-' :: slot
  pure (mk ++ targets.map fun x => Op.touch (toPath x ++ toPath fname))

/-- `_Symlink.run` -/
def symlinkRun (c : Ctx) (mk : Path → Op) (target : Str) : List Op :=
  let destDir := rsplit1Head '/' target
  (if destDir ≠ target then [Op.mkdirs (prefixed c destDir) c.dirMode] else []) ++ [mk (toPath target)]

/-- `Dosym.run`; `fs` is the image before the request (bug-379899 test, after the fix: the link name is
looked up inside the image) -/
def dosymPlan (c : Ctx) (fs : Fs) (relAllowed relative : Bool) (source target : Str) : Except Rej (List Op) :=
  if target.getLast? = some '/' ∨ fs.isDir (toPath target) then .error .missingLinkName
  else if relative then
    if !relAllowed then .error .relNotPermitted
    else if !isAbs source then .error .relNeedsAbs
    else pure (symlinkRun c (Op.relink (relativeDosymTarget source target)) target)
  else pure (symlinkRun c (Op.relink source) target)

/-- `Dohard.run` (after the fix: the source names an image entry) -/
def dohardPlan (c : Ctx) (source target : Str) : Except Rej (List Op) :=
  pure (symlinkRun c (Op.hardlink (toPath source)) target)

/-! ## the interpreter -/

def isLinkAt (fs : Fs) (p : Path) : Bool := match fs p with | some (.link _ _ _) => true | _ => false
def isFileAt (fs : Fs) (p : Path) : Bool := match fs p with | some (.file _ _) => true | _ => false

/-- what a new entry gets from the process: mode from the umask, owner from the effective ids -/
structure Umask where
  dirMode : Perm     -- 0o777 & ~umask, euid, egid
  fileMode : Perm    -- 0o666 & ~umask, euid, egid
  deriving Repr

/-- `os.makedirs(exist_ok=True)` below an existing prefix `pre` -/
def mkdirsAux (u : Umask) (fs : Fs) (pre : Path) : List Str → Except Rej Fs
  | [] => .ok fs
  | comp :: rest =>
    let p := pre ++ [comp]
    match fs p with
    | none => mkdirsAux u (fs.set p (.dir u.dirMode)) p rest
    | some (.dir _) => mkdirsAux u fs p rest
    | some (.link _ _ _) => .error .unmodelled  -- a symlink on the way is followed by the kernel
    | some (.file _ _) => .error .oserror

/-- a new non-directory entry at `p`: the parent must be a directory, a directory at `p` is in the way -/
def placeLeaf (fs : Fs) (p : Path) (n : Node) : Except Rej Fs :=
  if p = [] then .error .oserror
  else if isLinkAt fs p.dropLast then .error .unmodelled
  else if !fs.isDir p.dropLast then .error .oserror
  else match fs p with
    | some (.dir _) => .error .oserror
    | _ => .ok (fs.set p n)

/-- a `.` or `..` component: resolved by the kernel, outside the model -/
def dotted (p : Path) : Bool := p.any fun c => c = ['.'] || c = ['.', '.']

def applyOpRaw (u : Umask) (fs : Fs) : Op → Except Rej Fs
  | .mkdirs p mode => do
    let fs' ← mkdirsAux u fs [] p
    match mode with
    | some a =>
      match fs' p with
      | some (.dir q) => pure (fs'.set p (.dir (a.over q)))
      | _ => pure fs'
    | none => pure fs'
  | .copy (.file id) p mode => placeLeaf fs p (.file ((mode.map (·.over u.fileMode)).getD u.fileMode) id)
  | .copy (.link text) p mode =>
    -- a symbolic link is chown'ed (lchown) but never chmod'ed
    let q := (mode.map (·.over u.fileMode)).getD u.fileMode
    placeLeaf fs p (.link text q.uid q.gid)
  | .symlink text p =>
    match fs p with
    | some _ => .error .oserror
    | none => placeLeaf fs p (.link text u.fileMode.uid u.fileMode.gid)
  | .relink text p => placeLeaf fs p (.link text u.fileMode.uid u.fileMode.gid)
  | .hardlink src p =>
    match fs src with
    | some (.file m id) => if src = p then .error .oserror else placeLeaf fs p (.file m id)
    | some (.link _ _ _) => .error .unmodelled
    | _ => .error .oserror
  | .touch p =>
    match fs p with
    | some (.file m _) => placeLeaf fs p (.file m 0)
    | some (.link _ _ _) => .error .unmodelled
    | _ => placeLeaf fs p (.file u.fileMode 0)

def Op.dotted : Op → Bool
  | .hardlink src p => Pkgcore.C33.dotted p || Pkgcore.C33.dotted src
  | op => Pkgcore.C33.dotted op.path

def applyOp (u : Umask) (fs : Fs) (op : Op) : Except Rej Fs :=
  if op.dotted then .error .unmodelled else applyOpRaw u fs op

def runOps (u : Umask) (fs : Fs) : List Op → Except Rej Fs
  | [] => .ok fs
  | op :: rest =>
    match applyOp u fs op with
    | .ok fs' => runOps u fs' rest
    | .error e => .error e

/-! ## one request -/

inductive Helper
  | basenameInstall      -- doexe, dobin, dosbin, dolib, dolib.so, dolib.a, doinfo
  | doins (recursive : Bool)
  | dodoc (allowRecursive recursive : Bool)
  | dohtml (o : HtmlOpts)
  | doman (m : ManCtx)
  | domo (pn : Str)
  deriving Repr

/-- the plan of an `_InstallWrapper` helper that takes `targets` -/
def installPlan (h : Helper) (c : Ctx) (ts : List Target) : Except Rej (List Op) :=
  match h with
  | .basenameInstall => wrapperRun c ts (installByBasename c ts)
  | .doins r => wrapperRun c ts (doinsTargets c r ts)
  | .dodoc a r => wrapperRun c ts (dodocTargets c a r ts)
  | .dohtml o =>
    let c' := { c with dest := pjoin c.dest (lstripSlash o.docPrefix) }
    wrapperRun c' ts (dohtmlTargets c' o ts)
  | .doman m => wrapperRun c ts (domanLoop c m [] ts)
  | .domo pn => wrapperRun c ts (domoLoop c pn [] ts)

/-- plan, then run it on the image -/
def execute (u : Umask) (fs : Fs) (plan : Except Rej (List Op)) : Except Rej Fs :=
  match plan with
  | .ok ops => runOps u fs ops
  | .error e => .error e

/-- one IPC request of any of the helpers -/
inductive Request
  | install (h : Helper) (c : Ctx) (ts : List Target)
  | dodir (c : Ctx) (ds : List Str)
  | keepdir (c : Ctx) (category pn slot : Str) (ds : List Str)
  | dosym (c : Ctx) (relAllowed relative : Bool) (source target : Str)
  | dohard (c : Ctx) (source target : Str)

/-- what the helper asks of the file system for this request; `fs` is the image at the time of the request
(only `dosym` looks at it, for its "link name is a directory" test).  Nothing else is an input: the helper
objects carry no state from one request to the next. -/
def Request.plan (fs : Fs) : Request → Except Rej (List Op)
  | .install h c ts => installPlan h c ts
  | .dodir c ds => dodirPlan c ds
  | .keepdir c category pn slot ds => keepdirPlan c category pn slot ds
  | .dosym c relAllowed relative source target => dosymPlan c fs relAllowed relative source target
  | .dohard c source target => dohardPlan c source target

/-- a sequence of requests served by one helper table on one image; stops at the first rejection -/
def runRequests (u : Umask) (fs : Fs) : List Request → Except Rej Fs
  | [] => .ok fs
  | r :: rest =>
    match execute u fs (r.plan fs) with
    | .ok fs' => runRequests u fs' rest
    | .error e => .error e

end Pkgcore.C33
