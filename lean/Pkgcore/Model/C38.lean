import Pkgcore.Generated.C38Tables
/-!
# C38 model — `pkgcore.bugzilla.pkglist` as written

Strings are `List Char`.  The CPython primitives the code relies on are modelled structurally, with their
character classes taken from tables generated out of the running interpreter:

* `isSpace` — `str.isspace()`; the harness checks on every run that `str.split()`, and `\s` / `\S` of the two
  regular expressions (`_TOKEN_RE = \S+`, `_COMMENT_RE = (?:^|\s)#`) use exactly this class;
* `isBreak` — the line boundaries of `str.splitlines()`; `splitLines` is `splitlines(keepends=True)`
  (a `\r` directly followed by `\n` is one terminator);
* `rstrip p` — `str.rstrip(chars)` / `str.rstrip()`;
* `splitComment` — `_COMMENT_RE.search(raw)`: splits `raw` at the first `#` that starts the string or follows a
  whitespace character (`match.end() - 1`); the `#` belongs to the second part;
* `scan` — `_TOKEN_RE.finditer(body)` / `body.split()`: the maximal runs of non-whitespace, each with the
  whitespace in front of it, plus the whitespace after the last token.  Slices such as
  `body[: tokens[1].start()]` and `body[tokens[-1].end() :]` are concatenations of these pieces.

Atoms are opaque: `parseAtom` stands for `parse_atom` (an external component; `none` = `MalformedAtom`).
-/
namespace Pkgcore.C38

def isSpace (c : Char) : Bool := Generated.C38.spaceTable.contains c.toNat
def isBreak (c : Char) : Bool := Generated.C38.breakTable.contains c.toNat

abbrev Str := List Char

/-- `text.splitlines(keepends=True)` -/
def splitLines : Str → List Str
  | [] => []
  | c :: cs =>
    match splitLines cs with
    | [] => [[c]]
    | l :: ls =>
      if isBreak c ∧ ¬ (c = '\r' ∧ cs.head? = some '\n') then [c] :: l :: ls   -- `c` terminates its own line
      else (c :: l) :: ls                                                         -- `c` belongs to the line that follows it

/-- `s.rstrip(chars)`: drop the longest suffix of characters satisfying `p` -/
def rstrip (p : Char → Bool) (s : Str) : Str := (s.reverse.dropWhile p).reverse

def isCRLF (c : Char) : Bool := c = '\r' || c = '\n'

/-- `_COMMENT_RE.search(raw)`: `(raw[:h], raw[h:])` for the first `#` at the start or after whitespace
(`h = match.end() - 1`); no match ⇒ `(raw, "")`.  `atStart` is "the previous character is whitespace or
there is none". -/
def splitCommentAux (atStart : Bool) : Str → Str × Str
  | [] => ([], [])
  | c :: cs =>
    if c = '#' ∧ atStart then ([], c :: cs)
    else
      let r := splitCommentAux (isSpace c) cs
      (c :: r.1, r.2)

def splitComment (raw : Str) : Str × Str := splitCommentAux true raw

/-- the tokens of a string with the whitespace around them -/
structure Segs where
  /-- `(whitespace before the token, token)` in order -/
  items : List (Str × Str)
  /-- whitespace after the last token (the whole string if there is no token) -/
  trail : Str
  deriving DecidableEq, Repr

/-- `_TOKEN_RE.finditer(body)` with the text between the matches -/
def scan : Str → Segs
  | [] => ⟨[], []⟩
  | c :: cs =>
    let s := scan cs
    if isSpace c then
      match s.items with
      | [] => ⟨[], c :: s.trail⟩
      | (ws, tok) :: rest => ⟨(c :: ws, tok) :: rest, s.trail⟩
    else
      match s.items with
      | ([], tok) :: rest => ⟨([], c :: tok) :: rest, s.trail⟩     -- directly followed by more of the same token
      | items => ⟨([], [c]) :: items, s.trail⟩                       -- last character of a token

/-- the string a decomposition came from -/
def Segs.render (s : Segs) : Str := (s.items.flatMap fun it => it.1 ++ it.2) ++ s.trail

/-- `body.split()` -/
def tokens (body : Str) : List Str := (scan body).items.map (·.2)

/-- `" ".join(words)` -/
def joinSp : List Str → Str
  | [] => []
  | [w] => w
  | w :: ws => w ++ ' ' :: joinSp ws

variable {α : Type}

/-- `PackageListEntry` -/
structure Entry (α : Type) where
  lineno : Nat
  raw : Str
  pkg : Option α
  keywords : List Str := []
  comment : Str := []
  eol : Str := []
  deriving DecidableEq, Repr

/-- one turn of the loop of `PackageList._parse`; `none` = `PackageListError` (malformed atom) -/
def parseLine (parseAtom : Str → Option α) (lineno : Nat) (line : Str) : Option (Entry α) :=
  let raw := rstrip isCRLF line                  -- raw = line.rstrip("\r\n")
  let eol := line.drop raw.length                -- eol = line[len(raw):]
  let sc := splitComment raw
  -- comment, body = body[match.end() - 1 :], body[: match.start()]; without a match body = raw.
  -- match.start() is one before the `#` when a whitespace character precedes it, else 0
  let body := if sc.2.isEmpty then raw else sc.1.dropLast
  match tokens body with
  | [] => some ⟨lineno, raw, none, [], sc.2, eol⟩
  | t :: ks =>
    match parseAtom t with
    | none => none
    | some pkg => some ⟨lineno, raw, some pkg, ks, sc.2, eol⟩

/-- `enumerate(lines, start=lineno)` driving `parseLine`; `Except lineno` -/
def parseLines (parseAtom : Str → Option α) : Nat → List Str → Except Nat (List (Entry α))
  | _, [] => .ok []
  | n, l :: ls =>
    match parseLine parseAtom n l with
    | none => .error n
    | some e => (parseLines parseAtom (n + 1) ls).map (e :: ·)

/-- `PackageList(text).entries` -/
def parse (parseAtom : Str → Option α) (text : Str) : Except Nat (List (Entry α)) :=
  parseLines parseAtom 1 (splitLines text)

/-- `"".join(x.raw + x.eol for x in entries)` -/
def renderEntries (es : List (Entry α)) : Str := es.flatMap fun e => e.raw ++ e.eol

/-- `PackageListEntry.with_keywords(keywords)` -/
def Entry.withKeywords (e : Entry α) (keywords : List Str) : Entry α :=
  match e.pkg with
  | none => e                                                     -- if self.pkg is None: return self
  | some _ =>
    let sc := splitComment e.raw                                   -- body = raw[:comment_at]; sc.2 = raw[comment_at:]
    let s := scan sc.1
    match s.items with
    | [] => e                                                      -- no tokens: return self
    | [(ws0, t0)] =>                                               -- head = body[: tokens[0].end()] + (" " if keywords else "")
      { e with keywords := keywords,
               raw := ws0 ++ t0 ++ (if keywords.isEmpty then [] else [' ']) ++ joinSp keywords ++ s.trail ++ sc.2 }
    | (ws0, t0) :: (ws1, _) :: _ =>                                -- head = body[: tokens[1].start()]
      { e with keywords := keywords,
               raw := ws0 ++ t0 ++ ws1 ++ joinSp keywords ++ s.trail ++ sc.2 }

def ALL : Str := [Generated.C38.allKeywords]
def SAME : Str := [Generated.C38.sameKeywords]
def NO : Str := [Generated.C38.noKeywords]

inductive ExpandError
  | nothingAbove (lineno : Nat)       -- `^` with no line above it
  | copiesEmpty (lineno : Nat)        -- `^` copies an empty line onto a line with keywords of its own
  deriving DecidableEq, Repr

/-- the inner loop `for keyword in entry.keywords` of `expand` -/
def expandKeywords (suggested : List Str) (previous : Option (List Str)) (lineno nkeywords : Nat) :
    List Str → Except ExpandError (List Str)
  | [] => .ok []
  | k :: ks =>
    if k = ALL then
      -- keywords.extend(suggest(entry.pkg) or (NO_KEYWORDS,))
      (expandKeywords suggested previous lineno nkeywords ks).map ((if suggested.isEmpty then [NO] else suggested) ++ ·)
    else if k = SAME then
      match previous with
      | none => .error (.nothingAbove lineno)
      | some prev =>
        if prev.isEmpty ∧ nkeywords > 1 then .error (.copiesEmpty lineno)
        else (expandKeywords suggested previous lineno nkeywords ks).map (prev ++ ·)
    else (expandKeywords suggested previous lineno nkeywords ks).map (k :: ·)

/-- the outer loop of `expand`: returns the expanded entries and the `changed` flag -/
def expandLoop (suggest : α → List Str) : Option (List Str) → List (Entry α) →
    Except ExpandError (List (Entry α) × Bool)
  | _, [] => .ok ([], false)
  | previous, e :: es =>
    match e.pkg with
    | none => (expandLoop suggest previous es).map fun r => (e :: r.1, r.2)
    | some pkg =>
      match expandKeywords (suggest pkg) previous e.lineno e.keywords.length e.keywords with
      | .error err => .error err
      | .ok kws =>
        if kws ≠ e.keywords then
          (expandLoop suggest (some kws) es).map fun r => (e.withKeywords kws :: r.1, true)
        else
          (expandLoop suggest (some kws) es).map fun r => (e :: r.1, r.2)

/-- what went wrong -/
inductive Failure
  | malformed (lineno : Nat)
  | expand (e : ExpandError)
  deriving DecidableEq, Repr

/-- `str(PackageList(text).expand(suggest))` -/
def expandText (parseAtom : Str → Option α) (suggest : α → List Str) (text : Str) : Except Failure Str :=
  match parse parseAtom text with
  | .error n => .error (.malformed n)
  | .ok es =>
    match expandLoop suggest none es with
    | .error err => .error (.expand err)
    | .ok (es', changed) => .ok (if changed then renderEntries es' else text)   -- `if not changed: return self`

/-- `PackageList.build(entries)`: `"\n".join(" ".join((str(pkg), *keywords)).rstrip() for …)` -/
def joinNl : List Str → Str
  | [] => []
  | [l] => l
  | l :: ls => l ++ '\n' :: joinNl ls

def buildText (strAtom : α → Str) (entries : List (α × List Str)) : Str :=
  joinNl (entries.map fun e => rstrip isSpace (joinSp (strAtom e.1 :: e.2)))

end Pkgcore.C38
