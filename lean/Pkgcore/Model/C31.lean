import Pkgcore.Generated.C31Tables
/-!
# C31 model — the environment transfer from `EbuildProcessor` to the bash ebuild daemon

Two machines are modelled.

* **Python side** (`src/pkgcore/ebuild/processor.py`, after the three `fix:` commits):
  `_quote_value`, `_generate_env_str` (marker `PKGCORE_NONEXPORTED_VARS`, `sorted`, readonly skip, key check,
  the plain / `export` lines), `_byte_len` and the raw framing `"<cmd> <N>\n<data>"` written by `send_env`
  (inline and file) and `_run_depend_like_phase`.  Python `str` is `List Char` (code points); what reaches
  the pipe is `utf8 text` (the processor's pipe is a text file object whose encoding is UTF-8).
* **bash side** (`data/lib/pkgcore/ebd/ebuild-daemon.bash`, `ebuild-daemon-lib.bash`): `__ebd_read_line`
  (`read`), `__ebd_read_size` (`read -r -N n`: exactly `n` units), the dispatch on `start_receiving_env
  bytes|file` / `gen_metadata N`, and `eval`/`source` of the received text.  bash itself is modelled as a small
  evaluator for assignment scripts: lines of `[export ]NAME=word …` with scalar words and `NAME=([i]=word …)`
  arrays, words built from bare characters, `'…'`, `"…"` and `$'…'` with the ANSI-C escapes of bash's
  `ansicstr`.  Everything outside this fragment (expansions, globs, other commands, `\u`, `\c`, a NUL result)
  is *unsupported* = `none`, never guessed.  The daemon runs in the C locale, so the evaluator works on
  **units = bytes**, represented as `Char`s below 256.  This evaluator is the recorded contract for bash; it
  is differential-tested against the real `bash` on every run (also on forms the Python side never produces,
  e.g. unescaped backslashes inside `$'…'`, which is how the pre-fix defect shows up in the model too).
-/
namespace Pkgcore.C31

abbrev Str := List Char

/-! ## Python primitives -/

def inRanges (n : Nat) (rs : List (Nat × Nat)) : Bool := rs.any fun r => r.1 ≤ n && n ≤ r.2

/-- `chr(n).isalnum()`, from the generated tables -/
def isAlnumChar (c : Char) : Bool :=
  if c.toNat < 128 then inRanges c.toNat Generated.C31.alnumAscii else inRanges c.toNat Generated.C31.alnumHigh

/-- `chr(n).isalpha()` -/
def isAlphaChar (c : Char) : Bool :=
  if c.toNat < 128 then inRanges c.toNat Generated.C31.alphaAscii else inRanges c.toNat Generated.C31.alphaHigh

/-- `str.isalnum()`: non-empty and every character alphanumeric -/
def isAlnum (v : Str) : Bool := !v.isEmpty && v.all isAlnumChar

/-- `s.replace(c, rep)` for a one-character pattern -/
def replaceChar (c : Char) (rep : Str) (s : Str) : Str := s.flatMap fun x => if x = c then rep else [x]

/-- `sep.join(parts)` -/
def joinSep (sep : Str) : List Str → Str
  | [] => []
  | [x] => x
  | x :: y :: ys => x ++ sep ++ joinSep sep (y :: ys)

/-- `str(n)` for a non-negative int -/
def digits (n : Nat) : Str :=
  if n < 10 then [Char.ofNat (48 + n)] else digits (n / 10) ++ [Char.ofNat (48 + n % 10)]

def isPySpace (c : Char) : Bool := Generated.C31.pySpace.contains c.toNat

def splitWsAux : Str → Str → List Str
  | cur, [] => if cur.isEmpty then [] else [cur]
  | cur, c :: cs =>
    if isPySpace c then (if cur.isEmpty then splitWsAux [] cs else cur :: splitWsAux [] cs)
    else splitWsAux (cur ++ [c]) cs

/-- `str.split()` without argument -/
def splitWs (s : Str) : List Str := splitWsAux [] s

/-- Python `<` on `str` (lexicographic by code point) -/
def strLt : Str → Str → Bool
  | [], [] => false
  | [], _ :: _ => true
  | _ :: _, [] => false
  | a :: as, b :: bs => if a.toNat < b.toNat then true else if b.toNat < a.toNat then false else strLt as bs

/-- UTF-8 encoding of one code point, as byte units -/
def enc (c : Char) : Str :=
  let n := c.toNat
  if n < 0x80 then [c]
  else if n < 0x800 then [Char.ofNat (0xC0 + n / 64), Char.ofNat (0x80 + n % 64)]
  else if n < 0x10000 then
    [Char.ofNat (0xE0 + n / 4096), Char.ofNat (0x80 + n / 64 % 64), Char.ofNat (0x80 + n % 64)]
  else
    [Char.ofNat (0xF0 + n / 262144), Char.ofNat (0x80 + n / 4096 % 64), Char.ofNat (0x80 + n / 64 % 64),
     Char.ofNat (0x80 + n % 64)]

/-- `text.encode("utf-8")` -/
def utf8 (s : Str) : Str := s.flatMap enc

/-! ## `_quote_value` and `_generate_env_str` -/

/-- `EbuildProcessor._quote_value` -/
def quoteValue (v : Str) : Str :=
  if isAlnum v then v
  else if !v.contains '\'' then '\'' :: v ++ ['\'']
  else
    let escaped := replaceChar '\'' ['\\', '\''] (replaceChar '\\' ['\\', '\\'] v)
    '$' :: '\'' :: escaped ++ ['\'']

/-- the pre-fix scalar quoting (only `'` escaped inside `$'…'`), kept to state what was wrong -/
def quoteValueLegacy (v : Str) : Str :=
  if isAlnum v then v
  else if !v.contains '\'' then '\'' :: v ++ ['\'']
  else '$' :: '\'' :: replaceChar '\'' ['\\', '\''] v ++ ['\'']

/-- the pre-fix array element (`f'[{i}]="{value}"'`: no escaping at all) -/
def quoteElemLegacy (v : Str) : Str := '"' :: v ++ ['"']

/-- an array element: `f'"{value}"' if value.isalnum() else self._quote_value(value)` -/
def quoteElem (v : Str) : Str := if isAlnum v then '"' :: v ++ ['"'] else quoteValue v

/-- values of the environment mapping: `str` or `list`/`tuple` of `str` -/
inductive Val
  | scalar (v : Str)
  | array (vs : List Str)
  deriving DecidableEq, Repr

/-- `f'[{i}]={value}' for i, value in enumerate(elements)` -/
def elemStrs : Nat → List Str → List Str
  | _, [] => []
  | i, v :: vs => ('[' :: digits i ++ [']', '='] ++ quoteElem v) :: elemStrs (i + 1) vs

def assignStr (k : Str) : Val → Str
  | .scalar v => k ++ '=' :: quoteValue v
  | .array vs => k ++ '=' :: '(' :: joinSep [' '] (elemStrs 0 vs) ++ [')']

def marker : Str := "PKGCORE_NONEXPORTED_VARS".toList

inductive Err | key | attr
  deriving DecidableEq, Repr

/-- `frozenset(env_dict.pop("PKGCORE_NONEXPORTED_VARS", "").split())`; a list value has no `.split` -/
def nonexportedOf (env : List (Str × Val)) : Except Err (List Str) :=
  match env.lookup marker with
  | none => .ok []
  | some (.scalar v) => .ok (splitWs v)
  | some (.array _) => .error .attr

def insertSorted (x : Str × Val) : List (Str × Val) → List (Str × Val)
  | [] => [x]
  | y :: ys => if strLt x.1 y.1 then x :: y :: ys else y :: insertSorted x ys

/-- `sorted(env_dict.items())` (keys of a dict are distinct, so only keys are ever compared) -/
def sortEnv (l : List (Str × Val)) : List (Str × Val) := l.foldr insertSorted []

/-- `key[0].isalpha() or key.startswith("_")` (an empty key raises as well) -/
def keyOk : Str → Bool
  | [] => false
  | c :: _ => isAlphaChar c || c == '_'

/-- the entries that are turned into assignments, in order -/
def items (ro : List Str) (env : List (Str × Val)) : List (Str × Val) :=
  (sortEnv (env.filter fun kv => kv.1 != marker)).filter fun kv => !ro.contains kv.1

/-- `EbuildProcessor._generate_env_str` (`ro` = `self._readonly_vars`) -/
def genEnvStr (ro : List Str) (env : List (Str × Val)) : Except Err Str :=
  match nonexportedOf env with
  | .error e => .error e
  | .ok nonexp =>
    let its := items ro env
    if its.all fun kv => keyOk kv.1 then
      let plain := (its.filter fun kv => nonexp.contains kv.1).map fun kv => assignStr kv.1 kv.2
      let exported := (its.filter fun kv => !nonexp.contains kv.1).map fun kv => assignStr kv.1 kv.2
      let lines := (if plain.isEmpty then [] else [joinSep [' '] plain]) ++
        (if exported.isEmpty then [] else ["export ".toList ++ joinSep [' '] exported])
      .ok (joinSep ['\n'] lines)
    else .error .key

/-! ## framing of raw transfers (`_byte_len`, `send_env`, `_run_depend_like_phase`) -/

/-- `self._byte_len(data)` -/
def byteLen (data : Str) : Nat := (utf8 data).length

/-- bytes written by `send_env` without `tmpdir`:
`self.write(f"start_receiving_env bytes {self._byte_len(data)}\n{data}", append_newline=False)` -/
def sendEnvInline (data : Str) : Str :=
  utf8 ("start_receiving_env bytes ".toList ++ digits (byteLen data) ++ '\n' :: data)

/-- bytes written by `send_env` with `tmpdir` (the data itself goes to the file `path`) -/
def sendEnvFile (path : Str) : Str := utf8 ("start_receiving_env file ".toList ++ path ++ ['\n'])

/-- bytes written by `_run_depend_like_phase`: `f"{command} {self._byte_len(data)}\n{data}"` -/
def sendDepend (cmd data : Str) : Str := utf8 (cmd ++ ' ' :: digits (byteLen data) ++ '\n' :: data)

/-- the pre-fix framing (`len(data)`: characters), kept to state what was wrong -/
def sendEnvInlineLegacy (data : Str) : Str :=
  utf8 ("start_receiving_env bytes ".toList ++ digits data.length ++ '\n' :: data)

/-! ## bash: words -/

def cons (c : Char) : Option (Str × Str) → Option (Str × Str)
  | some (v, r) => some (c :: v, r)
  | none => none

/-- unquoted characters that end a word inside an assignment list / array literal -/
def isTerm (c : Char) : Bool := c == ' ' || c == '\t' || c == '\n' || c == ')'

/-- characters taken literally when unquoted (conservative: everything bash may expand is excluded) -/
def isPlain (c : Char) : Bool :=
  c.isAlphanum || c == '_' || c == '/' || c == '.' || c == '-' || c == '+' || c == ',' || c == ':' ||
  c == '@' || c == '%' || c == '=' || c.toNat ≥ 128

def isOct (c : Char) : Bool := '0' ≤ c && c ≤ '7'
def octVal (c : Char) : Nat := c.toNat - 48
def isHex (c : Char) : Bool := c.isDigit || ('a' ≤ c && c ≤ 'f') || ('A' ≤ c && c ≤ 'F')
def hexVal (c : Char) : Nat :=
  if c.isDigit then c.toNat - 48 else if 'a' ≤ c && c ≤ 'f' then c.toNat - 87 else c.toNat - 55

/-- the one-character escapes of `$'…'` -/
def simpleEsc : Char → Option Char
  | '\\' => some '\\' | '\'' => some '\'' | '"' => some '"' | '?' => some '?'
  | 'a' => some '\x07' | 'b' => some '\x08' | 'e' => some '\x1b' | 'E' => some '\x1b'
  | 'f' => some '\x0c' | 'n' => some '\n' | 'r' => some '\r' | 't' => some '\t' | 'v' => some '\x0b'
  | _ => none

/-- a numeric escape yields the byte `n & 0xFF`; a NUL result is unsupported (bash truncates the word) -/
def emit (n : Nat) (k : Option (Str × Str)) : Option (Str × Str) :=
  if n % 256 = 0 then none else cons (Char.ofNat (n % 256)) k

/-- bash's internal marker bytes CTLESC / CTLNUL.  Observed on bash 5.2: inside `"…"` (in array literals) and
directly after a backslash inside `"…"` / `$'…'` they come out doubled, so these contexts are unsupported;
the Python side never produces them there (`"…"` only around alphanumerics, `\\` only before `\\` or `'`). -/
def isCtl (c : Char) : Bool := c == '\x01' || c == '\x7f'

def peekOct (s : Str) : Bool := s.head?.any isOct
def peekHex (s : Str) : Bool := s.head?.any isHex

mutual
/-- value of the word starting here (unquoted context) and the input after it -/
def word : Str → Option (Str × Str)
  | [] => some ([], [])
  | c :: cs =>
    if isTerm c then some ([], c :: cs)
    else if c = '\'' then sq cs
    else if c = '"' then dq cs
    else if c = '$' then
      match cs with
      | '\'' :: cs' => ansi cs'
      | _ => none
    else if isPlain c then cons c (word cs)
    else none
/-- inside `'…'` -/
def sq : Str → Option (Str × Str)
  | [] => none
  | c :: cs => if c = '\'' then word cs else if c = '\x00' then none else cons c (sq cs)
/-- inside `"…"` -/
def dq : Str → Option (Str × Str)
  | [] => none
  | c :: cs =>
    if c = '"' then word cs
    else if c = '\\' then
      match cs with
      | [] => none
      | e :: cs' =>
        if e = '$' || e = '`' || e = '"' || e = '\\' then cons e (dq cs')
        else if e = '\n' then dq cs'
        else if e = '\x00' || isCtl e then none
        else cons '\\' (cons e (dq cs'))
    else if c = '$' || c = '`' || c = '\x00' || isCtl c then none
    else cons c (dq cs)
/-- inside `$'…'` -/
def ansi : Str → Option (Str × Str)
  | [] => none
  | c :: cs =>
    if c = '\'' then word cs
    else if c = '\\' then ansiEsc cs
    else if c = '\x00' then none
    else cons c (ansi cs)
/-- after a backslash inside `$'…'` (bash `ansicstr`, flags = 2) -/
def ansiEsc : Str → Option (Str × Str)
  | [] => none
  | e :: cs =>
    match simpleEsc e with
    | some x => cons x (ansi cs)
    | none =>
      if isOct e then
        if peekOct cs then ansiOct2 (octVal e) cs else emit (octVal e) (ansi cs)
      else if e = 'x' then
        if cs.head? = some '{' then none
        else if peekHex cs then ansiHex1 cs
        else cons '\\' (cons 'x' (ansi cs))
      else if e = 'c' || e = 'u' || e = 'U' || e = '\x00' || isCtl e then none
      else cons '\\' (cons e (ansi cs))
/-- second octal digit (known to be one) -/
def ansiOct2 (n : Nat) : Str → Option (Str × Str)
  | [] => none
  | d :: cs => if peekOct cs then ansiOct3 (n * 8 + octVal d) cs else emit (n * 8 + octVal d) (ansi cs)
/-- third octal digit (known to be one) -/
def ansiOct3 (n : Nat) : Str → Option (Str × Str)
  | [] => none
  | d :: cs => emit (n * 8 + octVal d) (ansi cs)
/-- first hex digit of `\xH[H]` (known to be one) -/
def ansiHex1 : Str → Option (Str × Str)
  | [] => none
  | h :: cs => if peekHex cs then ansiHex2 (hexVal h) cs else emit (hexVal h) (ansi cs)
/-- second hex digit (known to be one) -/
def ansiHex2 (n : Nat) : Str → Option (Str × Str)
  | [] => none
  | h :: cs => emit (n * 16 + hexVal h) (ansi cs)
end

/-! ## bash: assignments, lines, scripts -/

/-- `p (sep p)*` with at most `fuel` items -/
def sepBy1 {α : Type} (p : Str → Option (α × Str)) (sep : Char) : Nat → Str → Option (List α × Str)
  | 0, _ => none
  | fuel + 1, s =>
    match p s with
    | none => none
    | some (a, r) =>
      match r with
      | c :: r' =>
        if c = sep then
          match sepBy1 p sep fuel r' with
          | some (as, r'') => some (a :: as, r'')
          | none => none
        else some ([a], r)
      | [] => some ([a], [])

def isNameStart (c : Char) : Bool := c.isAlpha || c == '_'
def isNameChar (c : Char) : Bool := c.isAlphanum || c == '_'

/-- decimal number (bash arithmetic on a plain digit string) -/
def natOfDigits (s : Str) : Nat := s.foldl (fun n c => 10 * n + (c.toNat - 48)) 0

/-- `[i]=word` -/
def elem (s : Str) : Option ((Nat × Str) × Str) :=
  match s with
  | '[' :: r =>
    let (ds, r1) := r.span Char.isDigit
    match ds, r1 with
    | _ :: _, ']' :: '=' :: r2 =>
      match word r2 with
      | some (v, r3) => some ((natOfDigits ds, v), r3)
      | none => none
    | _, _ => none
  | _ => none

/-- only dense literals `[0]=… [1]=… …` are supported -/
def denseFrom : Nat → List (Nat × Str) → Bool
  | _, [] => true
  | i, (j, _) :: rest => i == j && denseFrom (i + 1) rest

/-- the inside of `( … )` up to and including the closing parenthesis -/
def elems (fuel : Nat) (s : Str) : Option (List Str × Str) :=
  match s with
  | ')' :: r => some ([], r)
  | _ =>
    match sepBy1 elem ' ' fuel s with
    | some (es, ')' :: r) => if denseFrom 0 es then some (es.map (·.2), r) else none
    | _ => none

/-- `NAME=word` or `NAME=( … )` -/
def assign (fuel : Nat) (s : Str) : Option ((Str × Val) × Str) :=
  let (k, r) := s.span isNameChar
  match k, r with
  | c :: _, '=' :: r' =>
    if isNameStart c then
      match r' with
      | '(' :: r'' =>
        match elems fuel r'' with
        | some (vs, r3) => some ((k, .array vs), r3)
        | none => none
      | _ =>
        match word r' with
        | some (v, r3) => some ((k, .scalar v), r3)
        | none => none
    else none
  | _, _ => none

/-- one executed assignment: name, value, and whether it was made by `export` -/
structure Assign where
  key : Str
  val : Val
  exported : Bool
  deriving DecidableEq, Repr

def atLineEnd : Str → Bool
  | [] => true
  | c :: _ => c == '\n'

/-- one line: empty, `NAME=… NAME=…` (plain shell variables) or `export NAME=… NAME=…` -/
def line (fuel : Nat) (s : Str) : Option (List Assign × Str) :=
  if atLineEnd s then some ([], s)
  else if "export ".toList.isPrefixOf s then
    match sepBy1 (assign fuel) ' ' fuel (s.drop 7) with
    | some (as, r) => if atLineEnd r then some (as.map fun kv => ⟨kv.1, kv.2, true⟩, r) else none
    | none => none
  else
    match sepBy1 (assign fuel) ' ' fuel s with
    | some (as, r) => if atLineEnd r then some (as.map fun kv => ⟨kv.1, kv.2, false⟩, r) else none
    | none => none

/-- `eval "$text"` / `source file`: the assignments executed, in order; `none` = outside the fragment -/
def evalScript (s : Str) : Option (List Assign) :=
  match sepBy1 (line (s.length + 1)) '\n' (s.length + 1) s with
  | some (ls, []) => some ls.flatten
  | _ => none

/-! ## bash daemon: receiving a raw transfer -/

def isBlank (c : Char) : Bool := c == ' ' || c == '\t'

/-- `read VAR` (no `-r`): one line without its newline.  Lines with backslashes or leading/trailing blanks
(which `read` would alter) are unsupported; EOF before the newline makes `read` fail. -/
def readLine (s : Str) : Option (Str × Str) :=
  let (l, r) := s.span (· != '\n')
  match r with
  | [] => none
  | _ :: r' =>
    if l.contains '\\' || l.head?.any isBlank || l.getLast?.any isBlank then none else some (l, r')

/-- `${var#prefix}` -/
def stripPrefix (p s : Str) : Str := if p.isPrefixOf s then s.drop p.length else s

/-- the count handed to `read -N`: a plain decimal number -/
def parseCount (s : Str) : Option Nat := if !s.isEmpty && s.all Char.isDigit then some (natOfDigits s) else none

/-- `read -r -N n`: exactly `n` units, whatever they are (blocks/fails if the peer sends fewer) -/
def readSize (n : Nat) (s : Str) : Option (Str × Str) := if s.length < n then none else some (s.take n, s.drop n)

/-- `__ebd_process_ebuild_phases`, the `start_receiving_env*)` arm: returns the text handed to
`eval`/`source` and what is left in the command pipe.  `fs` maps a path to the bytes of that file. -/
def recvEnv (fs : Str → Option Str) (chan : Str) : Option (Str × Str) :=
  match readLine chan with
  | none => none
  | some (l, rest) =>
    if "start_receiving_env".toList.isPrefixOf l then
      let l1 := stripPrefix "start_receiving_env ".toList l
      if "file".toList.isPrefixOf l1 then
        match fs (stripPrefix "file ".toList l1) with
        | some text => some (text, rest)
        | none => none
      else if "bytes".toList.isPrefixOf l1 then
        match parseCount (stripPrefix "bytes ".toList l1) with
        | some n => readSize n rest
        | none => none
      else none
    else none

/-- `__ebd_main_loop`, the `gen_metadata\ *|gen_ebuild_env\ *)` arm with `__ebd_process_metadata`:
`line=${com#* }; __ebd_read_size "${line}" __data` -/
def recvDepend (chan : Str) : Option (Str × Str × Str) :=
  match readLine chan with
  | none => none
  | some (l, rest) =>
    let (cmd, r) := l.span (· != ' ')
    match r with
    | _ :: cnt =>
      if cmd == "gen_metadata".toList || cmd == "gen_ebuild_env".toList then
        match parseCount cnt with
        | some n => (readSize n rest).map fun (d, rest') => (cmd, d, rest')
        | none => none
      else none
    | [] => none

/-! ## Python objects: the caller's mapping and what a hand-over does to it

`_generate_env_str(self, env_dict)` receives a *reference* to the caller's dict, and `ebd.py` builds `self.env` once and
hands that same object to `run_phase` for every phase of a build (`_run_depend_like_phase` passes the caller's dict
through `expected_ebuild_env` as well).  What a hand-over does to the object is therefore part of what the *next*
hand-over sends.  Objects live in a heap (address = position); `dict(x)` allocates a copy, `.pop` changes the object
it is called on. -/

abbrev Env := List (Str × Val)
abbrev Heap := List Env

/-- the object at address `a` -/
def Heap.get (h : Heap) (a : Nat) : Env := (h[a]?).getD []

/-- `dict(e)`: a new object with the same entries; its address -/
def Heap.alloc (h : Heap) (e : Env) : Heap × Nat := (h ++ [e], h.length)

/-- `d.pop("PKGCORE_NONEXPORTED_VARS", …)` on the object at `a`: the value found (if any) and the heap in which that
object no longer has the entry -/
def Heap.popMarker (h : Heap) (a : Nat) : Option Val × Heap :=
  ((h.get a).lookup marker, h.set a ((h.get a).filter fun kv => kv.1 != marker))

/-- `frozenset(<popped value or "">.split())` -/
def nonexportedOfVal : Option Val → Except Err (List Str)
  | none => .ok []
  | some (.scalar v) => .ok (splitWs v)
  | some (.array _) => .error .attr

/-- `_generate_env_str` after the pop: `nonexported` from the popped value, the lines from the entries that are left -/
def genEnvStrBody (ro : List Str) (mv : Option Val) (rest : Env) : Except Err Str :=
  match nonexportedOfVal mv with
  | .error e => .error e
  | .ok nonexp =>
    let its := (sortEnv rest).filter fun kv => !ro.contains kv.1
    if its.all fun kv => keyOk kv.1 then
      let plain := (its.filter fun kv => nonexp.contains kv.1).map fun kv => assignStr kv.1 kv.2
      let exported := (its.filter fun kv => !nonexp.contains kv.1).map fun kv => assignStr kv.1 kv.2
      let lines := (if plain.isEmpty then [] else [joinSep [' '] plain]) ++
        (if exported.isEmpty then [] else ["export ".toList ++ joinSep [' '] exported])
      .ok (joinSep ['\n'] lines)
    else .error .key

/-- `_generate_env_str(env_dict)` called with a reference to the object at `a`: the text (or exception) and the heap
afterwards.  `copy` = whether the method starts with `env_dict = dict(env_dict)` (it does; `false` is kept to state what
that line is for). -/
def genEnvStrCall (copy : Bool) (ro : List Str) (h : Heap) (a : Nat) : Except Err Str × Heap :=
  let hw := if copy then h.alloc (h.get a) else (h, a)
  let ph := hw.1.popMarker hw.2
  (genEnvStrBody ro ph.1 (ph.2.get hw.2), ph.2)

/-- a build: the same object handed over `n` times (once per phase); the texts sent -/
def handovers (copy : Bool) (ro : List Str) : Nat → Heap → Nat → List (Except Err Str)
  | 0, _, _ => []
  | n + 1, h, a => (genEnvStrCall copy ro h a).1 :: handovers copy ro n (genEnvStrCall copy ro h a).2 a

end Pkgcore.C31
