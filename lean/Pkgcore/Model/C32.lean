import Pkgcore.Model.C31
/-!
# C32 model — IPC helper requests (`src/pkgcore/ebuild/ebd_ipc.py`, `ebd.py:run_generic_phase`,
`ebuild-daemon-lib.bash:__ebd_ipc_cmd`) after the three `fix:` commits

* bash side of a request: six lines (`IPC_CMD`, nonfatal, `PWD`, `EBUILD_PHASE`, options, NUL-joined args),
  then `__ebd_read_array ret` = one `IFS=$'\a' read -a` (no `-r`) and `__ipc_exit "${ret[@]}"`.
* Python side: the dispatch loop of `generic_handler` (command word → handler), `IpcCommand.__call__`
  (five `read().strip()`, `shlex.split`, `chdir`, `parse_args` + `run`, the `nonfatal` branch, `_encode_ret`),
  the reply written by `run_generic_phase` for an escaping `IpcError`, and the status test of the external
  `install` fallback (`_install_cmd`, `_install_dirs_cmd`).
* Parameters (not modelled, any behaviour allowed): `shlex.split` (may fail), existence of the cwd, and the body
  of the helper (`parse_args` + `run`), which is reduced to its outcome: a return value, an `IpcCommandError`
  with code and message, or any other exception.

Request fields are lines (the protocol is line based: a newline inside an argument or `PWD` is outside the
model, see ASSUMPTIONS of the check).  `Str`, `digits`, `joinSep`, `replaceChar` are shared with C31.
-/
namespace Pkgcore.C32
open Pkgcore.C31 (Str digits joinSep replaceChar natOfDigits)

/-- what `run` returned: `None`, an `int`, a `str`, or a `(code, response)` tuple -/
inductive Ret
  | none
  | int (n : Int)
  | str (s : Str)
  | tuple (code : Int) (resp : Str)
  deriving DecidableEq, Repr

/-- outcome of `parse_args` + `run` -/
inductive Outcome
  | ok (r : Ret)
  | cmdError (code : Int) (msg : Str)     -- an IpcCommandError (argparse errors included)
  | otherError                             -- any other exception
  deriving DecidableEq, Repr

/-- `str(n)` for an int -/
def intStr (n : Int) : Str := if n < 0 then '-' :: digits n.natAbs else digits n.toNat

/-- `str(response).replace("\n", " ")` -/
def flat (s : Str) : Str := replaceChar '\n' [' '] s

/-- `IpcCommand._encode_ret` followed by `str()` in `EbuildProcessor.write` -/
def encodeRet : Ret → Str
  | .none => ['0']
  | .int n => '0' :: '\x07' :: flat (intStr n)
  | .str s => '0' :: '\x07' :: flat s
  | .tuple c r => intStr c ++ '\x07' :: flat r

/-- the pre-fix encoder (no folding of line breaks) -/
def encodeRetLegacy : Ret → Str
  | .none => ['0']
  | .int n => '0' :: '\x07' :: intStr n
  | .str s => '0' :: '\x07' :: s
  | .tuple c r => intStr c ++ '\x07' :: r

/-! ## the `install` fallback -/

/-- `_install_cmd` / `_install_dirs_cmd`: one `spawn_get_output` per destination group; the first one with a
non-zero status raises `IpcCommandError("\n".join(output), code=ret)` -/
def installGroups : List (Int × List Str) → Outcome
  | [] => .ok .none
  | (ret, output) :: rest => if ret ≠ 0 then .cmdError ret (joinSep ['\n'] output) else installGroups rest

/-- pre-fix (`if not ret: raise …`) -/
def installGroupsLegacy : List (Int × List Str) → Outcome
  | [] => .ok .none
  | (ret, output) :: rest => if ret = 0 then .cmdError ret (joinSep ['\n'] output) else installGroupsLegacy rest

/-! ## directory creation in Python (`_install_dirs`) -/

/-- the os-level work `_install_dirs` does for one directory: `os.makedirs(d, exist_ok=True)` and, when the request
carries `diroptions`, `_set_attributes` (`lchown`, `chmod`).  `some e` = that step raised an `OSError` whose
`strerror` is `e`; `path` is `repr(d)`. -/
structure DirStep where
  path : Str
  mkdir : Option Str
  attrs : Option Str
  deriving DecidableEq, Repr

/-- `_install_dirs`: the directories in order; the first failing step raises
`IpcCommandError("failed creating dir: …")` / `IpcCommandError("failed setting file attributes: …")` (code 1) and
nothing after it is attempted -/
def installDirsPy (withOpts : Bool) : List DirStep → Outcome
  | [] => .ok .none
  | s :: rest =>
    match s.mkdir with
    | some e => .cmdError 1 ("failed creating dir: ".toList ++ s.path ++ ": ".toList ++ e)
    | none =>
      if withOpts then
        match s.attrs with
        | some e => .cmdError 1 ("failed setting file attributes: ".toList ++ s.path ++ ": ".toList ++ e)
        | none => installDirsPy withOpts rest
      else installDirsPy withOpts rest

/-! ## `IpcCommand.__call__` -/

structure Request where
  nonfatal : Str
  cwd : Str
  phase : Str
  options : Str
  args : Str
  deriving DecidableEq, Repr

/-- the behaviours the model is parametric in -/
structure World where
  /-- `shlex.split` (`none`: ValueError) -/
  split : Str → Option (List Str)
  /-- message of that ValueError -/
  splitMsg : Str → Str
  /-- does `chdir(cwd)` succeed -/
  cwdOk : Str → Bool
  /-- `parse_args` + `run` of the helper called `name` -/
  body : (name cwd phase : Str) → (options args : List Str) → Outcome

def isWs (c : Char) : Bool := Pkgcore.C31.isPySpace c

/-- `str.strip()` -/
def strip (s : Str) : Str := ((s.dropWhile isWs).reverse.dropWhile isWs).reverse

/-- `args.strip("\0")` then `.split("\0")` (empty string ⇒ no arguments) -/
def splitOn (sep : Char) : Str → List Str
  | [] => [[]]
  | c :: cs =>
    if c = sep then [] :: splitOn sep cs
    else match splitOn sep cs with
      | [] => [[c]]
      | x :: xs => (c :: x) :: xs

def parseArgs (line : Str) : List Str :=
  let a := ((line.dropWhile (· == '\x00')).reverse.dropWhile (· == '\x00')).reverse
  if a.isEmpty then [] else splitOn '\x00' a

/-- an exception leaving `__call__` -/
inductive Raised
  | cmd (code : Int) (msg : Str)      -- IpcCommandError(msg, code, name)
  | internal                           -- IpcInternalError("internal failure")
  deriving DecidableEq, Repr

structure CallResult where
  /-- lines written to the daemon by `__call__` itself -/
  written : List Str
  raised : Option Raised
  deriving DecidableEq, Repr

/-- everything after the five reads -/
def outcomeOf (W : World) (name : Str) (r : Request) : Outcome :=
  match W.split (strip r.options) with
  | none => .cmdError 1 ("invalid options: ".toList ++ W.splitMsg (strip r.options))
  | some opts =>
    if W.cwdOk (strip r.cwd) then W.body name (strip r.cwd) (strip r.phase) opts (parseArgs (strip r.args))
    else .otherError

def call (W : World) (name : Str) (r : Request) : CallResult :=
  let nonfatal := strip r.nonfatal == "true".toList
  match outcomeOf W name r with
  | .ok ret => ⟨[encodeRet ret], none⟩
  | .cmdError code msg =>
    if nonfatal then ⟨[encodeRet (.tuple code msg)], none⟩ else ⟨[], some (.cmd code msg)⟩
  | .otherError => ⟨[], some .internal⟩

/-- `e.ret`, written by `run_generic_phase` when an `IpcError` escapes (`IpcError.__init__`: default code 1) -/
def raisedReply : Raised → Str
  | .cmd code msg => encodeRet (.tuple code msg)
  | .internal => encodeRet (.tuple 1 "internal failure".toList)

/-- all lines the daemon receives for one request, and whether the build goes on -/
def serve (W : World) (name : Str) (r : Request) : List Str × Bool :=
  let c := call W name r
  match c.raised with
  | none => (c.written, true)
  | some e => (c.written ++ [raisedReply e], false)

/-! ## the dispatch loop (`generic_handler` with the IPC helpers as `additional_commands`) -/

inductive SessionEnd
  | finished (ok : Bool)        -- `phases succeeded` / `phases failed …`
  | buildFailed                 -- an IpcError escaped; `run_generic_phase` answered and shut the daemon down
  | unhandled (line : Str)      -- UnhandledCommand
  | eof                         -- the daemon hung up / the request is incomplete
  | outOfFuel
  deriving DecidableEq, Repr

/-- first word of a stripped line and the remainder (`line.partition(" ")`) -/
def cmdWord (line : Str) : Str := (strip line).takeWhile (· != ' ')

/-- lines read from the daemon → (replies written, lines left unread, how the session ended) -/
def session (W : World) (helpers : List Str) : Nat → List Str → List Str × List Str × SessionEnd
  | 0, ls => ([], ls, .outOfFuel)
  | _ + 1, [] => ([], [], .eof)
  | fuel + 1, l :: ls =>
    let cmd := cmdWord l
    if helpers.contains cmd then
      match ls with
      | nf :: cwd :: ph :: op :: ar :: rest =>
        let (replies, go) := serve W cmd ⟨nf, cwd, ph, op, ar⟩
        if go then
          let (more, left, e) := session W helpers fuel rest
          (replies ++ more, left, e)
        else (replies, rest, .buildFailed)
      | _ => ([], ls, .eof)
    else if cmd == "phases".toList then
      ([], ls, .finished ((strip l).drop 7 |>.takeWhile (· != ' ') |> (· == "succeeded".toList)))
    else ([], ls, .unhandled (strip l))

/-! ## bash: reading the reply -/

/-- `read` without `-r` on the reply pipe: a backslash quotes the next character, backslash-newline continues
the line; returns the line (backslashes removed) and the rest of the pipe.  `pending` = a backslash was just read. -/
def bashReadAux : Bool → Str → Option (Str × Str)
  | _, [] => none
  | true, c :: cs =>
    if c = '\n' then bashReadAux false cs
    else match bashReadAux false cs with
      | some (l, r) => some (c :: l, r)
      | none => none
  | false, c :: cs =>
    if c = '\\' then bashReadAux true cs
    else if c = '\n' then some ([], cs)
    else match bashReadAux false cs with
      | some (l, r) => some (c :: l, r)
      | none => none

def bashRead (pipe : Str) : Option (Str × Str) := bashReadAux false pipe

/-- `ret[0]` of `IFS=$'\a' read -a ret` -/
def statusField (line : Str) : Str := line.takeWhile (· != '\x07')

/-- `[[ ${ret} == 0 ]]` in `__ipc_exit` / `__helper_exit` -/
def bashSuccess (line : Str) : Bool := statusField line == ['0']

/-- the daemon's view of one reply: read one line from the pipe, look at the status -/
def daemonReadsReply (pipe : Str) : Option (Bool × Str) :=
  match bashRead pipe with
  | some (l, rest) => some (bashSuccess l, rest)
  | none => none

/-- what `EbuildProcessor.write` puts into the pipe for a list of replies -/
def wire (replies : List Str) : Str := replies.flatMap fun r => r ++ ['\n']

end Pkgcore.C32
