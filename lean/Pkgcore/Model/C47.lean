import Pkgcore.Model.C29
/-!
# C47 model — `tar_syncer._pre_download` / `http_syncer._sync` / `tar_syncer._post_download`

The *repos directory* (parent of the repository path) is a `Pkgcore.C29.Store`; the three entries that matter
are the repository `repo`, the staging directory `.repo.update` and `.repo.old`.  A tree is abstracted to the
flat list of its files (relative path, content).  The routine, after the `fix:` commit, is

1. `_pre_download`: if the repository path is missing and `.repo.old` is a non-empty directory (an update
   interrupted between its two renames), rename it back;
2. `_sync`: `urlopen` (may fail: nothing else happens), ETag/Last-Modified comparison (unchanged: stop),
   `os.makedirs(basedir, exist_ok=True)`, download to a temporary file outside the repos directory (may break
   off: stop);
3. `_post_download`: `shutil.rmtree` of leftover staging directories, `os.makedirs` of both, `tar --extract`
   into `.repo.update` (file by file; may fail after some files: stop), `rename(repo, .repo.old)`,
   `rename(.repo.update, repo)`, then the `.etag` / `.modified` bookkeeping files are written into the new tree.
   (`.repo.old` is removed by an `atexit` handler — or by step 3 of the next sync.)

`syncUnfixed` is the routine before the repair: `os.makedirs` raises on a leftover and the sync stops there.
-/
namespace Pkgcore.C47
open Pkgcore.C29

def updOf (repo : Name) : Name := '.' :: repo ++ ['.', 'u', 'p', 'd', 'a', 't', 'e']
def oldOf (repo : Name) : Name := '.' :: repo ++ ['.', 'o', 'l', 'd']

/-- files the syncer itself keeps inside the tree; not part of the repository content -/
def bookkeeping : List Name := [['.', 'e', 't', 'a', 'g'], ['.', 'm', 'o', 'd', 'i', 'f', 'i', 'e', 'd']]

def content (fs : List (Name × Content)) : List (Name × Content) := fs.filter (fun p => !bookkeeping.contains p.1)

/-- what a reader finds at the repository path: the files of the tree (nothing if the path does not exist) -/
def treeAt (st : Store) (repo : Name) : List (Name × Content) :=
  match st repo with
  | some (.dir fs) => content fs
  | _ => []

inductive Download
  | unreachable     -- urlopen raised (connection refused, 404, …)
  | unchanged       -- 304 / equal ETag / equal Last-Modified
  | broken          -- connection lost while reading the body
  | ok
  deriving DecidableEq, Repr

inductive Unpack
  | ok
  | fails (k : Nat) -- tar exits non-zero after having written the first `k` files
  deriving DecidableEq, Repr

/-- the repair in `_pre_download` -/
def recoverOps (st : Store) (repo : Name) : List Op :=
  match st repo, st (oldOf repo) with
  | none, some (.dir (_ :: _)) => [.rename (oldOf repo) repo]
  | _, _ => []

/-- tar writes one member after the other -/
def extractOps (repo : Name) (files : List (Name × Content)) : List Op :=
  files.map fun p => Op.put (updOf repo) p.1 p.2

/-- the directory content `extractOps` produces in an empty directory -/
def extracted (files : List (Name × Content)) : List (Name × Content) :=
  files.foldl (fun fs p => setFile fs p.1 p.2) []

def etagOps (repo : Name) (etag modified : Option Content) : List Op :=
  (match etag with | some c => [Op.put repo bookkeeping[0] c] | none => []) ++
  (match modified with | some c => [Op.put repo bookkeeping[1] c] | none => [])

/-- staging: remove leftovers, create both staging directories -/
def stageOps (S : Store) (repo : Name) : List Op :=
  wipeOps S (updOf repo) ++ wipeOps S (oldOf repo) ++ [.mkdir (updOf repo), .mkdir (oldOf repo)]

/-- `_post_download` when the unpack succeeds, from the state `S` reached after the download -/
def tailOps (S : Store) (repo : Name) (files : List (Name × Content)) (etag modified : Option Content) : List Op :=
  stageOps S repo ++ extractOps repo files ++ [.rename repo (oldOf repo), .rename (updOf repo) repo]
    ++ etagOps repo etag modified

/-- everything up to and including `os.makedirs(basedir, exist_ok=True)` -/
def headOps (st : Store) (repo : Name) : List Op := recoverOps st repo ++ [.mkdir repo]

/-- one `tar_syncer.sync()` -/
def syncOps (st : Store) (repo : Name) (d : Download) (u : Unpack) (files : List (Name × Content))
    (etag modified : Option Content) : List Op :=
  match d with
  | .unreachable => recoverOps st repo
  | .unchanged => recoverOps st repo
  | .broken => headOps st repo
  | .ok =>
    let S := run (headOps st repo) st
    match u with
    | .fails k => headOps st repo ++ stageOps S repo ++ extractOps repo (files.take k)
    | .ok => headOps st repo ++ tailOps S repo files etag modified

/-- before the repair: no recovery, and `os.makedirs` of a staging directory that exists raises (`SyncError`,
nothing else happens) -/
def syncUnfixed (st : Store) (repo : Name) (files : List (Name × Content)) : List Op :=
  [.mkdir repo] ++
  (if (st (updOf repo)).isSome || (st (oldOf repo)).isSome then []
   else [.mkdir (updOf repo), .mkdir (oldOf repo)] ++ extractOps repo files
          ++ [.rename repo (oldOf repo), .rename (updOf repo) repo])

end Pkgcore.C47
