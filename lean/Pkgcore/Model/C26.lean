import Pkgcore.Generated.C26Tables
/-!
# C26 model — `pkgcore.binpkg.xpak.Xpak` as written (byte exact)

A file is its content `List UInt8`.  `fd.seek/read/tell` become `drop`/`take` on the content, the
`r+b` handle used by `write_xpak` is the small state `Handle` (content + position).  Python exceptions
are the enum `Err`; which of them `write_xpak` catches (`OSError`, `MalformedXpak`) and which escape
(`struct.error`, `UnicodeDecodeError`, `AssertionError`) is part of the model.

Keys are `List Char` (Python `str`), written with `key.encode()` (UTF-8) and read back with
`key.decode("ascii")`.  Values are text (`String`, encoded with UTF-8 — Lean's `String` is by
definition a valid UTF-8 byte array, `String.fromUTF8?` is the strict decoder) or raw bytes.
The magic strings, the two record sizes and `_reading_key_rewrites` come from `Generated/C26Tables.lean`.
-/
namespace Pkgcore.C26
open Pkgcore.Generated.C26

abbrev Bytes := List UInt8

inductive Err
  | oserror      -- OSError (seek before start of file)
  | malformed    -- MalformedXpak
  | structError  -- struct.error that is *not* converted to MalformedXpak
  | unicode      -- UnicodeDecodeError (key not ASCII, value not UTF-8)
  | assertion    -- AssertionError in _get_data (short read)
  deriving DecidableEq, Repr

inductive Val
  | text (s : String)
  | bytes (b : Bytes)
  deriving DecidableEq

/-- big-endian unsigned 32 bit, the `L` of `struct.pack(">L", n)` -/
def be32 (n : Nat) : Bytes :=
  [UInt8.ofNat (n / 16777216), UInt8.ofNat (n / 65536), UInt8.ofNat (n / 256), UInt8.ofNat n]

/-- `struct.pack(">L", n)`: `struct.error` unless `0 <= n < 2**32` -/
def pack32 (n : Nat) : Except Err Bytes :=
  if n < 4294967296 then .ok (be32 n) else .error .structError

/-- `struct.unpack(">L", b)[0]` on exactly four bytes (callers check the length first) -/
def rd32 (b : Bytes) : Nat :=
  match b with
  | [a, b, c, d] => a.toNat * 16777216 + b.toNat * 65536 + c.toNat * 256 + d.toNat
  | _ => 0

/-- `val.encode("utf8")` for `str`, identity for `bytes` -/
def Val.raw : Val → Bytes
  | .text s => s.toUTF8.data.toList
  | .bytes b => b

/-- `key.encode()` -/
def encKey (k : List Char) : Bytes := (String.ofList k).toUTF8.data.toList

/-- `key.decode("ascii")`: every byte < 0x80, one char per byte -/
def decAscii (b : Bytes) : Option (List Char) :=
  if b.all (· < 128) then some (b.map fun x => Char.ofNat x.toNat) else none

/-- `r.decode()` (strict UTF-8) -/
def decUtf8 (b : Bytes) : Option String := String.fromUTF8? ⟨b.toArray⟩

/-- `key.startswith("environment")` -/
def isEnvKey (k : List Char) : Bool := "environment".toList.isPrefixOf k

/-- `_reading_key_rewrites.get(key, key)` -/
def rewriteKey (k : List Char) : List Char :=
  match keyRewrites.lookup (String.ofList k) with
  | some r => r.toList
  | none => k

/-! ## reading -/

/-- `_check_magic(fd)`: returns `(xpak_start, index_len, data_len)` -/
def checkMagic (f : Bytes) : Except Err (Nat × Nat × Nat) :=
  if f.length < trailerSize then .error .oserror            -- fd.seek(-16, 2) → EINVAL
  else
    let t := f.drop (f.length - trailerSize)                -- trailer.read(fd): always 16 bytes here
    let pre := t.take 8
    let size := rd32 ((t.drop 8).take 4)
    let post := t.drop 12
    if pre ≠ trailerPre ∨ post ≠ trailerPost then .error .malformed
    else if f.length < size + 8 then .error .oserror        -- fd.seek(-(size + 8), 2) → EINVAL
    else
      let start := f.length - (size + 8)
      let h := (f.drop start).take headerSize               -- header.read(fd)
      if h.length < headerSize then .error .malformed       -- struct.error → MalformedXpak
      else if h.take 8 ≠ headerPre then .error .malformed
      else .ok (start, rd32 ((h.drop 8).take 4), rd32 (h.drop 12))

/-- value of `keys_dict`: absolute offset, length, needs_decoding -/
abbrev Slot := Nat × Nat × Bool

/-- `OrderedDict.__setitem__`: an existing key keeps its position -/
def odSet (d : List (List Char × Slot)) (k : List Char) (v : Slot) : List (List Char × Slot) :=
  if d.any (·.1 == k) then d.map (fun p => if p.1 == k then (k, v) else p) else d ++ [(k, v)]

/-- the `while index_len:` loop of `keys_dict`; `rest` is the file from the current position,
`fuel` bounds the iterations (every iteration consumes at least 12 bytes of `rest`) -/
def keysLoop : Nat → Bytes → Int → Nat → List (List Char × Slot) → Except Err (List (List Char × Slot))
  | 0, _, indexLen, _, acc => if indexLen = 0 then .ok acc else .error .structError
  | fuel + 1, rest, indexLen, dataStart, acc =>
    if indexLen = 0 then .ok acc
    else
      let b4 := rest.take 4
      if b4.length < 4 then .error .structError               -- struct.unpack(">L", short) – not caught
      else
        let keyLen := rd32 b4
        let kb := (rest.drop 4).take keyLen
        match decAscii kb with
        | none => .error .unicode
        | some key =>
          if kb.length ≠ keyLen then .error .malformed
          else
            let b8 := (rest.drop (4 + keyLen)).take 8
            if b8.length < 8 then .error .malformed
            else
              let offset := rd32 (b8.take 4)
              let dataLen := rd32 (b8.drop 4)
              let key := rewriteKey key
              keysLoop fuel (rest.drop (12 + keyLen)) (indexLen - (keyLen + 12 : Nat)) dataStart
                (odSet acc key (dataStart + offset, dataLen, !isEnvKey key))

/-- the `keys_dict` property -/
def keysDict (f : Bytes) : Except Err (List (List Char × Slot)) :=
  match checkMagic f with
  | .error e => .error e
  | .ok (start, indexLen, _) =>
    let indexStart := start + headerSize
    keysLoop (f.length + 1) (f.drop indexStart) indexLen (indexStart + indexLen) []

/-- `_get_data(fd, offset, data_len, needs_decoding)` -/
def getData (f : Bytes) (s : Slot) : Except Err Val :=
  let r := (f.drop s.1).take s.2.1
  if r.length ≠ s.2.1 then .error .assertion
  else if s.2.2 then
    match decUtf8 r with
    | some t => .ok (.text t)
    | none => .error .unicode
  else .ok (.bytes r)

/-- `list(Xpak(path).items())` -/
def items (f : Bytes) : Except Err (List (List Char × Val)) :=
  match keysDict f with
  | .error e => .error e
  | .ok d => d.mapM fun (k, s) => (getData f s).map fun v => (k, v)

/-! ## reading through one shared file object (`Xpak(fileobj)`)

For a file-object source `_fd` is the *same* object for every `items()`/`values()` generator and every
`x[key]`/`x.get(key)` on the instance, so data reads of one instance interleave on one file position. -/

/-- a read-only file object: content and the position `fd.tell()` -/
structure RFd where
  content : Bytes
  pos : Nat

/-- `_get_data(fd, offset, data_len, needs_decoding)` on a file object whose position is wherever the
previous read left it: `if fd.tell() != offset: fd.seek(offset, 0)`, then `fd.read(data_len)` (which
advances the position by the number of bytes actually read) -/
def getDataFd (h : RFd) (s : Slot) : Except Err Val × RFd :=
  let h := if h.pos ≠ s.1 then { h with pos := s.1 } else h
  let r := (h.content.drop h.pos).take s.2.1
  let h' : RFd := { h with pos := h.pos + r.length }
  if r.length ≠ s.2.1 then (.error .assertion, h')
  else if s.2.2 then
    match decUtf8 r with
    | some t => (.ok (.text t), h')
    | none => (.error .unicode, h')
  else (.ok (.bytes r), h')

/-- a history of data reads on one shared file object (each element: the slot of the key that the
step reads — the next entry of some `items()`/`values()` generator, or a keyed lookup); a raised
exception is recorded and the history goes on (the caller may catch it) -/
def readHistory : RFd → List Slot → List (Except Err Val)
  | _, [] => []
  | h, s :: rest => let (v, h') := getDataFd h s; v :: readHistory h' rest

/-! ## writing -/

/-- the `for key, val in data.items()` loop: index records and data blobs, `cur` = `cur_pos` -/
def encodeLoop : List (List Char × Val) → Nat → Except Err (Bytes × Bytes)
  | [], _ => .ok ([], [])
  | (k, v) :: rest, cur => do
    let kb := encKey k
    let vb := v.raw
    let a ← pack32 kb.length
    let b ← pack32 cur
    let c ← pack32 vb.length
    let (idx, dat) ← encodeLoop rest (cur + vb.length)
    pure (a ++ kb ++ b ++ c ++ idx, vb ++ dat)

/-- the `try: … except (OSError, MalformedXpak)` block computing `start`
(`os.stat(path).st_size` = length of the content when no segment is recognised) -/
def startOf (f : Bytes) : Except Err Nat :=
  match keysDict f with
  | .ok _ => (checkMagic f).map (·.1)
  | .error .oserror => .ok f.length
  | .error .malformed => .ok f.length
  | .error e => .error e

/-- an `r+b` file handle -/
structure Handle where
  content : Bytes
  pos : Nat

def Handle.seek (h : Handle) (p : Nat) : Handle := { h with pos := p }

/-- `handle.write(b)` at the current position (a position past EOF zero-fills the gap) -/
def Handle.write (h : Handle) (b : Bytes) : Handle :=
  { content := h.content.take h.pos ++ List.replicate (h.pos - h.content.length) 0 ++ b
               ++ h.content.drop (h.pos + b.length),
    pos := h.pos + b.length }

/-- `handle.truncate()` at the current position -/
def Handle.truncate (h : Handle) : Handle :=
  { h with content := h.content.take h.pos ++ List.replicate (h.pos - h.content.length) 0 }

/-- `Xpak.write_xpak(path, data)`: new content of the file (the file's state after a raised
`struct.error` — sizes ≥ 2³² — is not described) -/
def writeXpak (f : Bytes) (m : List (List Char × Val)) : Except Err Bytes := do
  let start ← startOf f
  let (idx, dat) ← encodeLoop m 0
  let il ← pack32 idx.length
  let dl ← pack32 dat.length
  let off ← pack32 (idx.length + dat.length + trailerSize + 8)
  let h : Handle := ⟨f, 0⟩
  let h := h.seek start
  let h := h.write (headerPre ++ il ++ dl)
  let h := h.write (idx ++ dat)
  let h := h.write (trailerPre ++ off ++ trailerPost)
  let h := h.truncate
  pure h.content

end Pkgcore.C26
