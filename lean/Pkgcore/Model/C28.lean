import Pkgcore.Model.C24
import Pkgcore.Generated.C28Tables
/-!
# C28 model — `pkgcore.ebuild.digest`: `_manifest_line`, `Manifest.update` (classification of the
scanned package directory, assembly and ordering of the text, "already current" test, atomic write
after the `fix:` commit) and `parse_manifest`.

The directory scan (`iter_scan`) and the hashing are inputs: `ScanObj` is one scanned object with its
location relative to the package directory (`/files/a.patch`), whether it is a regular file, and its
checksums; a `Fetchable` is a distfile name with its checksums.  Both arrive in arbitrary order.
Checksums are `size` plus a dict `chf name ↦ value`.  String/number primitives and the abstract file
system come from `Model/C24.lean`.  PGP armour skipping (`gpg.skip_signatures`) is not modelled — generated
Manifests are never signed.
-/
namespace Pkgcore.C28
open Pkgcore.C24 Pkgcore.Generated.C28

structure Sums where
  size : Int
  others : List (Str × Nat)          -- chf (lower case) ↦ value, a dict: arbitrary order
  deriving DecidableEq, Repr

structure ScanObj where
  path : Str                          -- `obj.location` below the package directory, starts with `/`
  isReg : Bool
  sums : Sums
  deriving DecidableEq, Repr

structure Fetchable where
  filename : Str
  sums : Sums
  deriving DecidableEq, Repr

/-! ## rendering -/

/-- stable insertion sort by a string key: `sorted(items, key=…)` -/
def insertBy {α : Type} (key : α → Str) (e : α) : List α → List α
  | [] => [e]
  | x :: xs => if key e ≤ key x then e :: x :: xs else x :: insertBy key e xs

def sortBy {α : Type} (key : α → Str) (l : List α) : List α := l.foldr (insertBy key) []

/-- `str.upper()` / `str.lower()` on ASCII letters (chf names and type words are ASCII) -/
def upperChar (c : Char) : Char := if 'a' ≤ c ∧ c ≤ 'z' then Char.ofNat (c.toNat - 32) else c
def lowerChar (c : Char) : Char := if 'A' ≤ c ∧ c ≤ 'Z' then Char.ofNat (c.toNat + 32) else c
def upper (s : Str) : Str := s.map upperChar
def lower (s : Str) : Str := s.map lowerChar

/-- `get_handler(chf).long2str(v)`: `"%x" % v` right-justified with zeros to the handler's width -/
def widthOf (chf : Str) : Nat := (chfWidths.lookup (String.ofList chf)).getD 0
def hexPadTo (w n : Nat) : Str :=
  let d := Nat.toDigits 16 n
  List.replicate (w - d.length) '0' ++ d

/-- `_manifest_line(chf, filename, chksums)` -/
def manifestLine (mtype : Str) (name : Str) (s : Sums) : Str :=
  mtype ++ ' ' :: name ++ ' ' :: renderInt s.size
    ++ (sortBy (·.1) s.others).flatMap (fun (chf, v) => ' ' :: upper chf ++ ' ' :: hexPadTo (widthOf chf) v)
    ++ ['\n']

/-! ## `Manifest.update`: what goes where -/

inductive Cls
  | skip                      -- not a regular file, or excluded
  | aux (name : Str)
  | ebuild (name : Str)
  | misc (name : Str)
  | bad                       -- ValueError: unexpected directory
  deriving DecidableEq, Repr

def isExcluded (path : Str) : Bool := (splitOn '/' path).any fun comp => excludes.any fun e => e.toList == comp

/-- `str.startswith` -/
def startsWith (p s : Str) : Bool := p.isPrefixOf s
/-- `s[-n:] == suf` -/
def endsWith (suf s : Str) : Bool := suf.reverse.isPrefixOf s.reverse

/-- `os.path.dirname(obj.location) == "/"`: the only slash is the leading one -/
def topLevel (path : Str) : Bool := path.head? = some '/' && !(path.drop 1).contains '/'

/-- body of the `for obj in iter_scan(…)` loop -/
def classify (o : ScanObj) : Cls :=
  if !o.isReg then .skip
  else if isExcluded o.path then .skip
  else if startsWith (tag "/files/") o.path then .aux (o.path.drop 7)
  else if topLevel o.path then
    (if endsWith (tag ".ebuild") o.path then .ebuild (o.path.drop 1) else .misc (o.path.drop 1))
  else .bad

/-- dict assignment `d[name] = sums` -/
def dictPut (d : List (Str × Sums)) (name : Str) (s : Sums) : List (Str × Sums) :=
  if d.any (·.1 == name) then d.map (fun p => if p.1 == name then (name, s) else p) else d ++ [(name, s)]

structure Buckets where
  aux : List (Str × Sums) := []
  ebuild : List (Str × Sums) := []
  misc : List (Str × Sums) := []
  deriving DecidableEq, Repr

/-- the scan loop; `none` = `ValueError` -/
def scanLoop : List ScanObj → Buckets → Option Buckets
  | [], b => some b
  | o :: os, b =>
    match classify o with
    | .skip => scanLoop os b
    | .aux n => scanLoop os { b with aux := dictPut b.aux n o.sums }
    | .ebuild n => scanLoop os { b with ebuild := dictPut b.ebuild n o.sums }
    | .misc n => scanLoop os { b with misc := dictPut b.misc n o.sums }
    | .bad => none

/-- `os.path.basename` -/
def baseName (p : Str) : Str := ((splitOn '/' p).getLast?).getD []

def linesOf (mtype : String) (d : List (Str × Sums)) : Str :=
  (sortBy (·.1) d).flatMap fun (n, s) => manifestLine (tag mtype) n s

/-- the text `update` assembles (`data`); `none` = `ValueError`.  `thin` skips the scan. -/
def manifestText (thin : Bool) (scan : List ScanObj) (fetch : List Fetchable) : Option Str :=
  match (if thin then some {} else scanLoop scan {}) with
  | none => none
  | some b =>
    some (linesOf "AUX" b.aux
      ++ (sortBy (·.filename) fetch).flatMap (fun f => manifestLine (tag "DIST") (baseName f.filename) f.sums)
      ++ linesOf "EBUILD" b.ebuild ++ linesOf "MISC" b.misc)

/-- `AtomicWriteFile(path)` without perms/uid/gid: temp file, writes, close, rename -/
def writeOps (dir : Str) (chunks : List Str) : List FsOp :=
  [.creat (tmpName dir (tag "Manifest"))] ++ chunks.map (.write (tmpName dir (tag "Manifest")))
    ++ [.close (tmpName dir (tag "Manifest")), .rename (tmpName dir (tag "Manifest")) (targetName dir (tag "Manifest"))]

/-- file operations of `update(fetchables)` when the assembled text is `text`, written in `chunks`:
nothing for a thin Manifest without distfiles, nothing when the file already holds `text` -/
def updateOps (thin : Bool) (nofetch : Bool) (old : Option Str) (text : Str) (dir : Str) (chunks : List Str) : List FsOp :=
  if thin && nofetch then []
  else if old = some text then []
  else writeOps dir chunks

/-- the write when something raises inside the `with AtomicWriteFile(...)` block (or an os-level call fails)
after `written` reached the temp file: `__exit__` discards the temp file -/
def abortWriteOps (dir : Str) (written : List Str) : List FsOp :=
  [.creat (tmpName dir (tag "Manifest"))] ++ written.map (.write (tmpName dir (tag "Manifest")))
    ++ [.close (tmpName dir (tag "Manifest")), .unlink (tmpName dir (tag "Manifest"))]

/-- one regeneration in the life of a package directory: `update()` run on the package as it is now, over
whatever the file system holds (`none` text = `ValueError`: nothing is written).  Nothing but the current
listing, the current fetchables and the bytes of the existing Manifest enters: no time stamps, no memory of
what was hashed before. -/
def regenStep (thin : Bool) (dir : Str) (fs : Fs) (st : List ScanObj × List Fetchable) : Fs :=
  match manifestText thin st.1 st.2 with
  | none => fs
  | some text => run (updateOps thin st.2.isEmpty (fs.read (targetName dir (tag "Manifest"))) text dir [text]) fs

/-- a history of package states, the Manifest regenerated in place after each of them -/
def regen (thin : Bool) (dir : Str) (fs : Fs) (hist : List (List ScanObj × List Fetchable)) : Fs :=
  hist.foldl (regenStep thin dir) fs

/-- the write as it was before the fix: `open(path, "w")` then `write` -/
def inplaceOps (dir : Str) (chunks : List Str) : List FsOp :=
  [.creat (targetName dir (tag "Manifest"))] ++ chunks.map (.write (targetName dir (tag "Manifest")))
    ++ [.close (targetName dir (tag "Manifest"))]

/-! ## `parse_manifest` -/

def isSpace (c : Char) : Bool := pySpaces.contains c.toNat

/-- `str.split()` without argument: runs of white space separate, no empty pieces -/
def pySplitGo : Str → Str → List Str
  | [], cur => if cur.isEmpty then [] else [cur.reverse]
  | c :: cs, cur =>
    if isSpace c then (if cur.isEmpty then pySplitGo cs [] else cur.reverse :: pySplitGo cs [])
    else pySplitGo cs (c :: cur)

def pySplit (s : Str) : List Str := pySplitGo s []

/-- `convert_chksums(zip(i, i))`: pairs, chf lower-cased, explicit `size` pairs dropped; a dangling
token is ignored by `zip` (the token count was checked before); `none` = ValueError from `int(·, 16)` -/
def convertPairs : List Str → Option (List (Str × Nat))
  | chf :: v :: rest =>
    if lower chf = tag "size" then convertPairs rest
    else match parseHex v, convertPairs rest with
      | some n, some tl => some ((lower chf, n) :: tl)
      | _, _ => none
  | _ => some []

structure Parsed where
  dist : List (Str × Sums) := []
  aux : List (Str × Sums) := []
  ebuild : List (Str × Sums) := []
  misc : List (Str × Sums) := []
  deriving DecidableEq, Repr

/-- `dict([("size", n)] + pairs)`: a repeated chf keeps the last value -/
def dedupPairs (l : List (Str × Nat)) : List (Str × Nat) :=
  l.foldl (fun d p => if d.any (·.1 == p.1) then d.map (fun q => if q.1 == p.1 then p else q) else d ++ [p]) []

def addParsed (p : Parsed) (t : Str) (name : Str) (s : Sums) : Option Parsed :=
  let dup (d : List (Str × Sums)) : Bool := d.any (·.1 == name)
  if t = tag "DIST" then (if dup p.dist then none else some { p with dist := p.dist ++ [(name, s)] })
  else if t = tag "AUX" then (if dup p.aux then none else some { p with aux := p.aux ++ [(name, s)] })
  else if t = tag "EBUILD" then (if dup p.ebuild then none else some { p with ebuild := p.ebuild ++ [(name, s)] })
  else if t = tag "MISC" then (if dup p.misc then none else some { p with misc := p.misc ++ [(name, s)] })
  else none

/-- the `for data in i` loop; `none` = `ParseChksumError` -/
def parseLoop : List Str → Parsed → Option Parsed
  | [], p => some p
  | l :: ls, p =>
    match pySplit l with
    | [] => parseLoop ls p
    | [_] => none                                     -- IndexError on line[1] (or unknown type)
    | [_, _] => none                                  -- even number of tokens
    | t :: name :: size :: rest =>
      if rest.length % 2 ≠ 0 then none
      else match parseInt size, convertPairs rest with
        | some n, some pairs =>
          (match addParsed p t name ⟨n, dedupPairs pairs⟩ with
            | some p' => parseLoop ls p'
            | none => none)
        | _, _ => none

/-- `parse_manifest(path)` on a file with this content -/
def parseManifest (content : Str) : Option Parsed := parseLoop (splitLines content) {}

end Pkgcore.C28
