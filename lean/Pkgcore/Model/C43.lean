/-!
# C43 model — `pkgcore.config.central.ConfigManager`: section lookup, inheritance expansion, collapse

Mirrors, as written:

* `_integrate_config_source`: `sections_lookup[name].appendleft(section)` for every section of every source, sources in
  order (`buildLookup`; a stack's head is the section from the *latest* source);
* `_get_inherited_sections` (`loop`/`expand`): the `for … in slist` loop over a list that grows while it is iterated,
  with `inherit_names`, self-inherits served from the rest of the stack, and its three errors;
* `collapse_section` + `_ConfigStack.render_value`: inherit-only check, first entry (in `slist` order) holding a key wins,
  `class` required, the four special keys dropped.

A section is its `inherit` list (if the key is present), its `inherit-only` flag and its other items (string values;
typed rendering is glue exercised by the harness).  Names, keys and values are `String`.

`loop` is defined by well-founded recursion: Lean accepting the definition *is* the proof that the expansion
terminates on arbitrary (cyclic, self-referential, duplicated) inheritance graphs.
-/
namespace Pkgcore.C43

abbrev Name := String

structure Sec where
  inherit : Option (List Name)          -- `None` = no "inherit" key
  inheritOnly : Bool
  items : List (String × String)         -- every other key (including "class" and "default")
  deriving DecidableEq, Repr

abbrev Source := List (Name × Sec)       -- one config source: section name ↦ section
abbrev Lookup := List (Name × List Sec)  -- `sections_lookup`: name ↦ deque, head = most recently added

/-- `sections_lookup[n].appendleft(s)` -/
def pushLeft : Lookup → Name → Sec → Lookup
  | [], n, s => [(n, [s])]
  | (m, st) :: rest, n, s => if m = n then (m, s :: st) :: rest else (m, st) :: pushLeft rest n s

/-- the `for name in config_data` loop of `_integrate_config_source` -/
def integrate (lk : Lookup) (src : Source) : Lookup := src.foldl (fun lk p => pushLeft lk p.1 p.2) lk

/-- `reload()`: every source in order -/
def buildLookup (sources : List Source) : Lookup := sources.foldl integrate []

/-- `sections_lookup.get(n)` as (head, rest); stacks are never empty -/
def stackOf (lk : Lookup) (n : Name) : Option (Sec × List Sec) :=
  match lk.lookup n with
  | some (c :: r) => some (c, r)
  | _ => none

/-- one `(name, section_stack)` element of `slist`; the stack is `conf :: rest` -/
structure Entry where
  name : Name
  conf : Sec
  rest : List Sec
  deriving DecidableEq, Repr

inductive Err
  | noSection (n : Name)       -- "no section called …"
  | inheritOnly                -- "cannot collapse inherit-only section"
  | selfMissing (n : Name)     -- "Self-inherit … cannot be found"
  | recursive (n : Name)       -- "Inherit … is recursive"
  | missing (n : Name)         -- "Inherit target … cannot be found"
  | noClass                    -- "no class specified"
  deriving DecidableEq, Repr

/-- the `for inherit in inherits` loop for the entry `(cur, _ :: rest)`: appends to `slist` (here `adds`) and to
`inherit_names` (`v`) -/
def expand (lk : Lookup) (cur : Name) (rest : List Sec) : List Name → List Name → List Entry → Except Err (List Entry × List Name)
  | [], v, adds => .ok (adds, v)
  | i :: is, v, adds =>
    if i = cur then
      match rest with
      | [] => .error (.selfMissing i)
      | c :: r => expand lk cur rest is v (adds ++ [⟨i, c, r⟩])
    else if i ∈ v then .error (.recursive i)
    else match stackOf lk i with
      | none => .error (.missing i)
      | some (c, r) => expand lk cur rest is (v ++ [i]) (adds ++ [⟨i, c, r⟩])

/-! ### termination measure -/

/-- size of the tree of self-inherit entries hanging below a stack -/
def sts (n : Name) : List Sec → Nat
  | [] => 0
  | c :: r => 1 + (c.inherit.getD []).count n * sts n r

def weight (e : Entry) : Nat := sts e.name (e.conf :: e.rest)
def wsum (q : List Entry) : Nat := (q.map weight).sum

/-- names with a section that were not inherited yet -/
def unv (lk : Lookup) (v : List Name) : Nat := ((lk.map (·.1)).filter (fun n => !(v.contains n))).length

theorem wsum_append (a b : List Entry) : wsum (a ++ b) = wsum a + wsum b := by simp [wsum]

theorem stackOf_mem (lk : Lookup) (i : Name) (c : Sec) (r : List Sec) (h : stackOf lk i = some (c, r)) :
    i ∈ lk.map (·.1) := by
  unfold stackOf at h
  split at h
  · rename_i c' r' hl
    induction lk with
    | nil => simp [List.lookup] at hl
    | cons p lk ih =>
      obtain ⟨m, st⟩ := p
      simp only [List.lookup] at hl
      split at hl
      · rename_i heq; simp at heq; simp [heq]
      · simp [ih hl]
  · simp at h

theorem unv_lt (lk : Lookup) (v : List Name) (i : Name) (hi : i ∈ lk.map (·.1)) (hv : i ∉ v) :
    unv lk (v ++ [i]) < unv lk v := by
  unfold unv
  generalize lk.map (·.1) = names at hi
  have himp : ∀ a : Name, (!((v ++ [i]).contains a)) = true → (!(v.contains a)) = true := by
    intro a; simp; intro h _; exact h
  have hle : ∀ l : List Name,
      (l.filter (fun n => !((v ++ [i]).contains n))).length ≤ (l.filter (fun n => !(v.contains n))).length := by
    intro l
    induction l with
    | nil => simp
    | cons a l ihl =>
      simp only [List.filter_cons]
      by_cases h1 : (!((v ++ [i]).contains a)) = true
      · rw [if_pos h1, if_pos (himp a h1)]; simp only [List.length_cons]; omega
      · rw [if_neg h1]
        split
        · simp only [List.length_cons]; omega
        · exact ihl
  induction names with
  | nil => simp at hi
  | cons n ns ih =>
    simp only [List.filter_cons]
    by_cases hn : n = i
    · subst hn
      have e1 : ¬ (!((v ++ [n]).contains n)) = true := by simp
      have e2 : (!(v.contains n)) = true := by simp [hv]
      rw [if_neg e1, if_pos e2]
      have := hle ns
      simp only [List.length_cons]; omega
    · have hi' : i ∈ ns := by
        rcases List.mem_cons.1 hi with h | h
        · exact absurd h.symm hn
        · exact h
      have := ih hi'
      by_cases h1 : (!((v ++ [i]).contains n)) = true
      · rw [if_pos h1, if_pos (himp n h1)]; simp only [List.length_cons]; omega
      · have h2 : (!(v.contains n)) = false := by
          simp at h1 ⊢
          by_cases hnv : n ∈ v
          · exact hnv
          · exact absurd (h1 hnv) hn
        rw [if_neg h1, h2]; simpa using this

/-- what one `expand` does to the measure -/
theorem expand_measure (lk : Lookup) (cur : Name) (rest : List Sec) (inh : List Name) (v : List Name) (adds : List Entry)
    (adds' : List Entry) (v' : List Name) (h : expand lk cur rest inh v adds = .ok (adds', v')) :
    (v' = v ∧ wsum adds' ≤ wsum adds + inh.count cur * sts cur rest) ∨ unv lk v' < unv lk v := by
  induction inh generalizing v adds with
  | nil => simp [expand] at h; obtain ⟨rfl, rfl⟩ := h; simp
  | cons i is ih =>
    unfold expand at h
    by_cases hic : i = cur
    · subst hic
      simp only [if_true] at h
      cases rest with
      | nil => simp at h
      | cons c r =>
        simp only at h
        rcases ih _ _ h with ⟨rfl, hw⟩ | hlt
        · left
          refine ⟨rfl, ?_⟩
          simp only [wsum_append] at hw
          have : wsum [⟨i, c, r⟩] = sts i (c :: r) := by simp [wsum, weight]
          rw [this] at hw
          simp only [List.count_cons_self, Nat.add_mul, Nat.one_mul]
          omega
        · exact Or.inr hlt
    · simp only [hic, if_false] at h
      by_cases hiv : i ∈ v
      · simp [hiv] at h
      · simp only [hiv, if_false] at h
        cases hs : stackOf lk i with
        | none => simp [hs] at h
        | some p =>
          obtain ⟨c, r⟩ := p
          simp only [hs] at h
          have hlt := unv_lt lk v i (stackOf_mem lk i c r hs) hiv
          rcases ih _ _ h with ⟨rfl, _⟩ | hlt'
          · exact Or.inr hlt
          · exact Or.inr (by omega)

/-- `_get_inherited_sections`: `q` = the part of `slist` not yet visited by the `for` loop, `acc` = the visited part
(reversed), `v` = `inherit_names` -/
def loop (lk : Lookup) (q : List Entry) (v : List Name) (acc : List Entry) : Except Err (List Entry) :=
  match q with
  | [] => .ok acc.reverse
  | e :: q' =>
    match hinh : e.conf.inherit with
    | none => loop lk q' v (e :: acc)
    | some inh =>
      match h : expand lk e.name e.rest inh v [] with
      | .error err => .error err
      | .ok (adds, v') => loop lk (q' ++ adds) v' (e :: acc)
termination_by (unv lk v, wsum q)
decreasing_by
  · simp_wf
    right
    simp [wsum, weight, sts]
    omega
  · simp_wf
    have := expand_measure lk e.name e.rest inh v [] adds v' h
    simp only [wsum_append]
    have hw : wsum (e :: q') = 1 + inh.count e.name * sts e.name e.rest + wsum q' := by
      simp [wsum, weight, sts, hinh]
    rw [hw]
    have h0 : wsum ([] : List Entry) = 0 := rfl
    rcases this with ⟨rfl, hle⟩ | hlt
    · right; omega
    · left; exact hlt

/-- first entry in `slist` order holding `key` (`_ConfigStack.render_value`) -/
def firstDef (key : String) (slist : List Entry) : Option String :=
  slist.findSome? (fun e => e.conf.items.lookup key)

/-- keys in order of first appearance (insertion order of the `_ConfigStack` dict) -/
def dedup : List String → List String
  | [] => []
  | a :: l => a :: (dedup l).filter (· ≠ a)

def specialKeys : List String := ["inherit", "inherit-only", "class", "default"]

/-- `collapse_named_section(name)` → `collapse_section`: the `config` mapping of the collapsed section,
keys in order of first appearance -/
def collapse (lk : Lookup) (name : Name) : Except Err (List (String × String)) :=
  match stackOf lk name with
  | none => .error (.noSection name)
  | some (c, r) =>
    if c.inheritOnly then .error .inheritOnly
    else match loop lk [⟨name, c, r⟩] [name] [] with
      | .error e => .error e
      | .ok slist =>
        match firstDef "class" slist with
        | none => .error .noClass
        | some _ =>
          let keys := (dedup (slist.flatMap (fun e => e.conf.items.map (·.1)))).filter (fun k => !(specialKeys.contains k))
          .ok (keys.filterMap (fun k => (firstDef k slist).map (k, ·)))

/-- stands for Python's `None`, the name under which `collapse_section([section])` walks an anonymous (inline) section:
it equals no section name and no name in an inherit list (the driver rejects inputs that use it), so neither the
self-inherit test `inherit == current_section` nor `inherit in inherit_names` can hit it -/
def anonName : Name := "<anonymous>"

/-- the part of `collapse_section` after `_get_inherited_sections`: `class` required, special keys dropped, first holder
of every key wins -/
def finish (slist : List Entry) : Except Err (List (String × String)) :=
  match firstDef "class" slist with
  | none => .error .noClass
  | some _ =>
    let keys := (dedup (slist.flatMap (fun e => e.conf.items.map (·.1)))).filter (fun k => !(specialKeys.contains k))
    .ok (keys.filterMap (fun k => (firstDef k slist).map (k, ·)))

/-- `collapse_section([sec])` for an anonymous section (inline `ref:`/`refs:` values, `LazyUnnamedSectionRef`): the
stack has one element and the name is `None` -/
def collapseAnon (lk : Lookup) (sec : Sec) : Except Err (List (String × String)) :=
  if sec.inheritOnly then .error .inheritOnly
  else match loop lk [⟨anonName, sec, []⟩] [anonName] [] with
    | .error e => .error e
    | .ok slist => finish slist

/-- the relevant sections themselves (for inspection by the driver) -/
def inherited (lk : Lookup) (name : Name) : Except Err (List Entry) :=
  match stackOf lk name with
  | none => .error (.noSection name)
  | some (c, r) => loop lk [⟨name, c, r⟩] [name] []

/-- the relevant sections of an anonymous section -/
def inheritedAnon (lk : Lookup) (sec : Sec) : Except Err (List Entry) := loop lk [⟨anonName, sec, []⟩] [anonName] []

/-- `is_default = bool(config_stack.render_value("default"))`: the raw value of the first relevant section holding the
key `default` (whatever it is — an explicit false shadows an inherited true) -/
def defaultOf (slist : List Entry) : Option String := firstDef "default" slist

/-! ## the manager over time: `rendered_sections`, `add_config_source`, `reload`

`collapse_named_section` answers from `rendered_sections` when the name was collapsed before; `reload()` rebuilds
`sections_lookup` from `original_config_sources` and throws the rendered sections away; `add_config_source` appends to
`original_config_sources` and reloads. -/

abbrev Cfg := List (String × String)

structure Mgr where
  sources : List Source            -- `original_config_sources`
  lookup : Lookup                  -- `sections_lookup`
  cache : List (Name × Cfg)        -- `rendered_sections` (successful collapses only)

/-- `reload()` -/
def Mgr.reload (m : Mgr) : Mgr := { m with lookup := buildLookup m.sources, cache := [] }

/-- `ConfigManager(sources)` -/
def Mgr.init (sources : List Source) : Mgr := Mgr.reload ⟨sources, [], []⟩

inductive MOp
  | collapse (name : Name)         -- `collapse_named_section(name)`
  | addSource (src : Source)       -- `add_config_source(src)`
  | reload                         -- `reload()`
  | collapseAnon (sec : Sec)       -- `collapse_section([sec])` on an anonymous section (not cached by the manager)

/-- one call; `some r` = what a collapse returned -/
def Mgr.step (m : Mgr) : MOp → Mgr × Option (Except Err Cfg)
  | .collapse n =>
    match m.cache.lookup n with
    | some c => (m, some (.ok c))
    | none =>
      match collapse m.lookup n with
      | .ok c => ({ m with cache := (n, c) :: m.cache }, some (.ok c))
      | .error e => (m, some (.error e))
  | .addSource src => (Mgr.reload { m with sources := m.sources ++ [src] }, none)
  | .reload => (m.reload, none)
  | .collapseAnon sec => (m, some (collapseAnon m.lookup sec))

def Mgr.run : Mgr → List MOp → Mgr × List (Option (Except Err Cfg))
  | m, [] => (m, [])
  | m, op :: ops =>
    let r := m.step op
    let rest := Mgr.run r.1 ops
    (rest.1, r.2 :: rest.2)

end Pkgcore.C43
