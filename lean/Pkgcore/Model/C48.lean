/-!
# C48 model — is a cached metadata entry still valid, and what happens when it is not

Mirrors, as written:

* `pkgcore.cache.base.validate_entry` (recorded ebuild checksum of the cache's `chf_type`, `_eclasses_` present ⇒
  `INHERIT` present and `rebuild_cache_entry` succeeds);
* `pkgcore.ebuild.eclass_cache.base.rebuild_cache_entry` (every recorded `(chf, value)` of every recorded eclass must
  equal the attribute of the eclass currently visible under that name; a vanished eclass has no attributes);
* `pkgcore.ebuild.ebuild_src.package_factory._get_metadata` / `_update_metadata` for one package: the walk over the
  configured caches in order (missing or unreadable entry → next cache; valid → use it; stale → delete it unless the
  cache is read-only, next cache), then regeneration and the write into the first writable cache, recording what
  the cache's format records (`_chf_` and `_eclasses_` serialised with the cache's own `chf_type`/`eclass_chf_types`).

Checksums, mtimes and directories are opaque values compared for equality (`String`: hex digest, integer seconds,
path).  Sourcing the ebuild (the bash daemon) is a parameter: `regen = none` when it fails, else the names of all
inherited eclasses; the payload of an entry is an opaque number (0 = freshly regenerated).
-/
namespace Pkgcore.C48

inductive Kind | md5 | mtime | eclassdir
  deriving DecidableEq, Repr

abbrev Val := String

/-- the attributes `LazilyHashedPath` computes for a file (an ebuild, or an eclass as found in the eclass stack) -/
structure Info where
  md5 : Val
  mtime : Val
  dir : Val
  deriving DecidableEq, Repr

def Info.get (i : Info) : Kind → Val
  | .md5 => i.md5
  | .mtime => i.mtime
  | .eclassdir => i.dir

/-- a cache class: `chf_type` and `eclass_chf_types` -/
structure Fmt where
  chf : Kind
  eclassChfs : List Kind
  deriving DecidableEq, Repr

/-- `flat_hash.md5_cache` (the md5-dict format) -/
def Fmt.md5dict : Fmt := ⟨.md5, [.md5]⟩
/-- `flat_hash.database` -/
def Fmt.flat : Fmt := ⟨.mtime, [.eclassdir, .mtime]⟩

/-- a cache entry as `cache[cpv]` returns it -/
structure Entry where
  chf : Val                                        -- `_md5_` / `_mtime_`
  eclasses : Option (List (String × List Val))     -- `_eclasses_` after `reconstruct_eclasses`; `none` = key absent
  hasInherit : Bool                                -- `INHERIT` key present
  payload : Nat                                    -- stands for all the other keys
  deriving DecidableEq, Repr

inductive Slot
  | absent                 -- `KeyError`
  | unreadable             -- `CacheCorruption`, or an entry without its checksum key (flat_hash: `KeyError`)
  | entry (e : Entry)
  deriving DecidableEq, Repr

structure Cache where
  fmt : Fmt
  readonly : Bool
  slot : Slot               -- what this cache holds for the package
  deriving DecidableEq, Repr

/-- the tree as it is now -/
structure World where
  ebuild : Info
  eclass : String → Option Info      -- `eclass_db.eclasses.get(name)` (stacked eclass directories already resolved)

/-- `rebuild_cache_entry(entry_eclasses) is not None` -/
def rebuildOk (w : World) (fmt : Fmt) (recs : List (String × List Val)) : Bool :=
  recs.all fun rec =>
    (fmt.eclassChfs.zip rec.2).all fun kv =>
      match w.eclass rec.1 with
      | some i => i.get kv.1 == kv.2
      | none => false                  -- `getattr(None, chf, None)` is `None`, never equal to a recorded value

/-- `validate_entry` -/
def validate (w : World) (fmt : Fmt) (e : Entry) : Bool :=
  if e.chf != w.ebuild.get fmt.chf then false
  else match e.eclasses with
    | none => true
    | some recs => if !e.hasInherit then false else rebuildOk w fmt recs

/-- the `for cache in caches` loop of `_get_metadata`: `(index, payload)` of the entry used, and the caches afterwards -/
def walk (w : World) : List Cache → Nat → Option (Nat × Nat) × List Cache
  | [], _ => (none, [])
  | c :: cs, i =>
    match c.slot with
    | .entry e =>
      if validate w c.fmt e then (some (i, e.payload), c :: cs)
      else
        let c' := if c.readonly then c else { c with slot := .absent }
        let r := walk w cs (i + 1)
        (r.1, c' :: r.2)
    | _ =>
      let r := walk w cs (i + 1)
      (r.1, c :: r.2)

/-- the entry `_update_metadata` hands to a cache of format `fmt` -/
def mkEntry (w : World) (inherited : List String) (fmt : Fmt) : Entry :=
  { chf := w.ebuild.get fmt.chf
    eclasses := if inherited.isEmpty then none
                else some (inherited.map fun n => (n, match w.eclass n with
                                                       | some i => fmt.eclassChfs.map i.get
                                                       | none => []))
    hasInherit := !inherited.isEmpty
    payload := 0 }

/-- the `for cache in self._cache: if not cache.readonly: cache[cpv] = mydata; break` loop -/
def store (fresh : Fmt → Entry) : List Cache → List Cache
  | [] => []
  | c :: cs => if c.readonly then c :: store fresh cs else { c with slot := .entry (fresh c.fmt) } :: cs

inductive Result
  | used (idx : Nat) (payload : Nat)     -- metadata taken from cache number idx
  | regenerated                          -- sourced from the ebuild
  | failed                               -- sourcing failed (`MetadataException`)
  deriving DecidableEq, Repr

/-- `_get_metadata(pkg)` -/
def getMetadata (w : World) (regen : Option (List String)) (caches : List Cache) : Result × List Cache :=
  match walk w caches 0 with
  | (some (i, p), cs) => (.used i p, cs)
  | (none, cs) =>
    match regen with
    | none => (.failed, cs)
    | some inherited => (.regenerated, store (mkEntry w inherited) cs)

end Pkgcore.C48
