import Pkgcore.Model.C04
/-!
# C05 model — `atom.intersects(other)` as written (after the `fix:` commits in `known_findings.d/C05.json`)

The case tree of `pkgcore.ebuild.atom.atom.intersects`, on the atom record of C04 (`C04.Atom`):
key, slot, sub-slot and repository tests; the per-flag table of admissible package states built from the
USE deps of both atoms; then the version cases (`=` against anything, `~`/`~`, `=*`/`=*`, `=*`/`~`, two
ranges, range/`~`, range/`=*`).  `restricts.VersionMatch(op, ver, rev).match(x)` is C01's `versionMatch`,
`cpv.ver_glob_match` is C04's `verGlobMatch`, `cpv.ver_cmp` is C01's `verCmp`.

Conventions: the `states` dict (flag ↦ set of states) is the function `statesFor` of the flag (a dict keyed
by flag accumulating `&` over the tokens with that flag); a set of states ⊆ {on, off, missing} is a triple of
Booleans.  Conditional USE deps (`x?`, `x=`) are skipped by the code and are outside the model, like in C04.
`negate_vers` is ignored by `intersects` (it builds fresh, un-negated `VersionMatch` objects).
-/
namespace Pkgcore.C05
open Pkgcore.C01 Pkgcore.C04
open Pkgcore.C02 (Op Str verHashKey VKey CompK)

/-! ## USE deps -/

/-- a subset of `{"on", "off", "missing"}` -/
structure States where
  on : Bool
  off : Bool
  missing : Bool
  deriving DecidableEq, Repr

def States.inter (s t : States) : States := ⟨s.on && t.on, s.off && t.off, s.missing && t.missing⟩
def States.nonempty (s : States) : Bool := s.on || s.off || s.missing

/-- the `allowed` set of one token -/
def allowed (u : UseDep) : States :=
  if u.on then (if u.dflt = some true then ⟨true, false, true⟩ else ⟨true, false, false⟩)
  else (if u.dflt = some true then ⟨false, true, false⟩ else ⟨false, true, true⟩)

/-- `states[flag]` after the loop: the intersection of `allowed` over the tokens with that flag -/
def statesFor (deps : List UseDep) (f : Str) : States :=
  (deps.filter fun u => u.flag == f).foldl (fun s u => s.inter (allowed u)) ⟨true, true, true⟩

/-- `all(states.values())` -/
def useOk (deps : List UseDep) : Bool := deps.all fun u => (statesFor deps u.flag).nonempty

/-! ## versions -/

/-- `restricts.VersionMatch(op, v, r).match(x)` for a package-like `x` with version `pv`, revision `pr` -/
def vMatch (op : Op) (v : Ver) (r : Str) (pv : Ver) (pr : Str) : Bool :=
  match opVals (opText op) with
  | some (vals, droprev) => versionMatch vals droprev false v (some r) pv (some pr)
  | none => false

def isLtOp : Op → Bool | .lt | .le => true | _ => false        -- `"<" in op`
def isGtOp : Op → Bool | .gt | .ge => true | _ => false        -- `">" in op`
def isRanged (o : Op) : Bool := isLtOp o || isGtOp o
def isStrict : Op → Bool | .lt | .gt => true | _ => false      -- `op in ("<", ">")`

abbrev VC := Op × Ver × Str

/-- the part of `intersects` after `ranged`/`other` have been chosen (`rg` is `<`, `<=`, `>` or `>=`) -/
def rangedVs (rg ot : VC) : Bool :=
  let (ro, rv, rr) := rg
  let (oo, ov, orv) := ot
  if isRanged oo then
    if !(vMatch oo ov orv rv rr && vMatch ro rv rr ov orv) then false
    else if isStrict ro && isStrict oo && (verCmp rv none ov none == .eq) then
      decide ((natOfDigits rr - natOfDigits orv) + (natOfDigits orv - natOfDigits rr) > 1)   -- abs(int - int) > 1
    else true
  else if oo = .tilde then
    if vMatch ro rv rr ov orv then true
    else isGtOp ro && vMatch oo ov orv rv rr
  else if oo = .glob then
    if vMatch ro rv rr ov orv then true
    else if natOfDigits orv ≠ 0 then false
    else verGlobMatch ov [] rv []
  else false    -- NotImplementedError; unreachable: `=` was handled before

/-- the version part of `intersects` for two versioned atoms -/
def vInter (a b : VC) : Bool :=
  let (oa, va, ra) := a
  let (ob, vb, rb) := b
  if (isLtOp oa && isLtOp ob) || (isGtOp oa && isGtOp ob) then true
  else if oa = .eq then
    if ob = .glob then verGlobMatch vb rb va ra else vMatch ob vb rb va ra
  else if ob = .eq then
    if oa = .glob then verGlobMatch va ra vb rb else vMatch oa va ra vb rb
  else if oa = .tilde ∧ ob = .tilde then verCmp va none vb none == .eq
  else if oa = .glob ∧ ob = .glob then verGlobMatch vb rb va ra || verGlobMatch va ra vb rb
  else if oa = .glob ∧ ob = .tilde then verGlobMatch va ra vb ra
  else if ob = .glob ∧ oa = .tilde then verGlobMatch vb rb va rb
  else if isRanged oa then rangedVs a b
  else rangedVs b a

/-! ## `atom.intersects` -/

/-- `x is not None and y is not None and x != y` -/
def bothDiffer (x y : Option Str) : Bool :=
  match x, y with
  | some s, some t => s != t
  | _, _ => false

def useList (a : Atom) : List UseDep := a.use.getD []

def intersects (a b : Atom) : Bool :=
  if a.cat != b.cat || a.pkg != b.pkg then false        -- `self.key != other.key`
  else if bothDiffer a.slot b.slot then false
  else if bothDiffer a.subslot b.subslot then false
  else if bothDiffer a.repo b.repo then false
  else if !useOk (useList a ++ useList b) then false
  else
    match a.vop, b.vop with
    | some x, some y => vInter x y
    | _, _ => true                                      -- `not self.op or not other.op`

end Pkgcore.C05
