import Pkgcore.Generated.C29Tables
/-!
# C29 model — vdb and binpkg repository updates as lists of file-system operations

One *category directory* of a repository is a `Store`: a map from entry names to objects, an object
being a regular file (binpkg tarball) or a flat directory of metadata files (vdb entry).  The model
mirrors, after the `fix:` commits in the repo worktree,

* `pkgcore.vdb.repo_ops`: `install.add_data` (wipe a leftover `.tmp.<P>` directory, create it, write each
  metadata file with `open(..., "w")`), `install.finalize_data` (one `os.rename`), `uninstall.finalize_data`
  (`_hide_data`: wipe a leftover `.tmp.<P>.unmerge`, one `os.rename` out of view; then `shutil.rmtree`
  there), `replace.finalize_data` (different version: install-finalize then uninstall-finalize; same
  version: hide old, rename new in, wipe old);
* `pkgcore.binpkg.repo_ops`: `install` (write `.tmp.<pid>.<P>.tbz2`, chmod, one `os.rename`),
  `uninstall` (`os.unlink`), `replace` (rename in, then unlink the replaced version's file if it is another file);
* the listing rules of `vdb.ondisk.tree._get_packages` / `binpkg.repository.tree._get_packages`
  (tables regenerated from the code constants), with the package's metadata as part of the view, so a
  half-written or half-deleted package is *different* from both the old and the new view.

Operations on the repository root and the category directory itself (`utime`, `mkdir`/`rmdir` of the
category, `chmod`) do not change what a fresh scan lists; they are `noop`s kept in the sequence so that it
lines up with the recorded OS calls.  `shutil.rmtree` is the list of its unlink/rmdir calls.
-/
namespace Pkgcore.C29

abbrev Name := List Char
abbrev Content := List Char

inductive Obj
  | file (c : Content)
  | dir (files : List (Name × Content))
  deriving DecidableEq, Repr

/-- a category directory: entry name ↦ object -/
abbrev Store := Name → Option Obj

def upd (st : Store) (n : Name) (v : Option Obj) : Store := fun m => if m = n then v else st m

inductive Op
  | noop (what : Name)                   -- utime(repo), mkdir/rmdir(category), chmod
  | mkdir (n : Name)                     -- create an empty directory unless something is there
  | put (n f : Name) (c : Content)       -- create-or-replace file `f` inside directory `n`
  | del (n f : Name)                     -- unlink file `f` inside directory `n`
  | rmdir (n : Name)                     -- remove directory `n` if it is empty
  | write (n : Name) (c : Content)       -- create-or-replace the regular file `n`
  | rename (a b : Name)
  | unlink (n : Name)
  deriving DecidableEq, Repr

/-- replace the entry for `f` or append it -/
def setFile : List (Name × Content) → Name → Content → List (Name × Content)
  | [], f, c => [(f, c)]
  | (g, d) :: rest, f, c => if g = f then (g, c) :: rest else (g, d) :: setFile rest f c

/-- change the object under one name -/
def modify (st : Store) (n : Name) (f : Option Obj → Option Obj) : Store := fun m => if m = n then f (st n) else st m

def mkdirF : Option Obj → Option Obj
  | none => some (.dir [])
  | o => o                                               -- EEXIST (ignored by ensure_dirs)
def putF (f : Name) (c : Content) : Option Obj → Option Obj
  | some (.dir fs) => some (.dir (setFile fs f c))
  | o => o                                               -- ENOENT / ENOTDIR
def delF (f : Name) : Option Obj → Option Obj
  | some (.dir fs) => some (.dir (fs.filter (fun p => p.1 ≠ f)))
  | o => o
def rmdirF : Option Obj → Option Obj
  | some (.dir []) => none
  | o => o                                               -- ENOTEMPTY / ENOENT / ENOTDIR
def writeF (c : Content) : Option Obj → Option Obj
  | some (.dir fs) => some (.dir fs)                     -- EISDIR
  | _ => some (.file c)
def unlinkF : Option Obj → Option Obj
  | some (.file _) => none
  | o => o

/-- may `rename(2)` put object `o` over what is at the destination? -/
def renameOk : Obj → Option Obj → Bool
  | .dir _, some (.dir (_ :: _)) => false                -- ENOTEMPTY
  | .dir _, some (.file _) => false                      -- ENOTDIR
  | .file _, some (.dir _) => false                      -- EISDIR
  | _, _ => true

def step (st : Store) : Op → Store
  | .noop _ => st
  | .mkdir n => modify st n mkdirF
  | .put n f c => modify st n (putF f c)
  | .del n f => modify st n (delF f)
  | .rmdir n => modify st n rmdirF
  | .write n c => modify st n (writeF c)
  | .unlink n => modify st n unlinkF
  | .rename a b =>
    if a = b then st else
    match st a with
    | none => st                                         -- ENOENT
    | some o => if renameOk o (st b) then upd (upd st b (some o)) a none else st

def run (ops : List Op) (st : Store) : Store := ops.foldl step st

/-- every crash state: the store before the first operation, and after each one -/
def states : List Op → Store → List Store
  | [], st => [st]
  | op :: ops, st => st :: states ops (step st op)

/-! ## names -/

def startsWith (p : List Char) (n : Name) : Bool := p.isPrefixOf n
def endsWith (s : List Char) (n : Name) : Bool := s.isSuffixOf n

def tmpPrefix : List Char := ['.', 't', 'm', 'p', '.']
/-- `.tmp.<dirname>` (vdb install) -/
def tmpOf (n : Name) : Name := tmpPrefix ++ n
/-- `.tmp.<dirname>.unmerge` (vdb uninstall) -/
def hidOf (n : Name) : Name := tmpPrefix ++ n ++ ['.', 'u', 'n', 'm', 'e', 'r', 'g', 'e']
/-- `.tmp.<pid>.<basename>` (binpkg install) -/
def binTmpOf (pid : List Char) (n : Name) : Name := tmpPrefix ++ pid ++ ['.'] ++ n

/-- entries `vdb.ondisk.tree._get_packages` skips -/
def hiddenVdb (n : Name) : Bool :=
  Generated.C29.vdbSkipPrefixes.any (fun p => startsWith p.toList n) ||
  Generated.C29.vdbSkipSuffixes.any (fun s => endsWith s.toList n)

/-- entries `binpkg.repository.tree._get_packages` skips (besides requiring the extension) -/
def hiddenBin (n : Name) : Bool :=
  Generated.C29.binSkipPrefixes.any (fun p => startsWith p.toList n) ||
  Generated.C29.binSkipSuffixes.any (fun s => endsWith s.toList n) ||
  !(endsWith Generated.C29.binExtension.toList (n.map Char.toLower))

/-- what a fresh vdb scan + metadata read yields for this category: package directory name ↦ its metadata files -/
def viewVdb (st : Store) : Name → Option (List (Name × Content)) := fun n =>
  if hiddenVdb n then none else
  match st n with
  | some (.dir fs) => some fs
  | _ => none

/-- what a fresh binpkg scan yields: tarball name ↦ its content -/
def viewBin (st : Store) : Name → Option Content := fun n =>
  if hiddenBin n then none else
  match st n with
  | some (.file c) => some c
  | _ => none

/-! ## the routines -/

/-- `if os.path.lexists(n): shutil.rmtree(n)` for a flat directory (the only thing the code leaves under these names) -/
def wipeOps (st : Store) (n : Name) : List Op :=
  match st n with
  | some (.dir fs) => fs.map (fun p => Op.del n p.1) ++ [.rmdir n]
  | _ => []

/-- `with open(path, "w") as f: f.write(s)` for each metadata file: created empty, then filled -/
def writeFiles (n : Name) (files : List (Name × Content)) : List Op :=
  files.flatMap fun p => [Op.put n p.1 [], Op.put n p.1 p.2]

/-- the directory content `writeFiles` produces from an empty directory -/
def written (files : List (Name × Content)) : List (Name × Content) :=
  files.foldl (fun fs p => setFile (setFile fs p.1 []) p.1 p.2) []

/-- `vdb install.add_data` -/
def vdbAddData (st : Store) (name : Name) (files : List (Name × Content)) : List Op :=
  wipeOps st (tmpOf name) ++ [.noop "mkdir-category".toList, .mkdir (tmpOf name), .noop "utime".toList]
    ++ writeFiles (tmpOf name) files

/-- `vdb install.finalize_data` -/
def vdbInstallFinalize (name : Name) : List Op := [.rename (tmpOf name) name, .noop "utime".toList]

def vdbInstall (st : Store) (name : Name) (files : List (Name × Content)) : List Op :=
  vdbAddData st name files ++ vdbInstallFinalize name

/-- `vdb uninstall._hide_data` -/
def vdbHide (st : Store) (name : Name) : List Op := wipeOps st (hidOf name) ++ [.rename name (hidOf name)]

/-- `shutil.rmtree(self.tmp_remove_path)` once the entry `name` of `st` has been moved there -/
def vdbWipeHidden (st : Store) (name : Name) : List Op :=
  match st name with
  | some (.dir fs) => fs.map (fun p => Op.del (hidOf name) p.1) ++ [.rmdir (hidOf name)]
  | _ => []

/-- `vdb uninstall.finalize_data` (+ the category `rmdir` of `notify_remove_package`) -/
def vdbUninstallFinalize (st : Store) (name : Name) : List Op :=
  [.noop "utime".toList] ++ vdbHide st name ++ vdbWipeHidden st name ++ [.noop "utime".toList]

def vdbUninstall (st : Store) (name : Name) : List Op :=
  vdbUninstallFinalize st name ++ [.noop "rmdir-category".toList]

/-- `vdb replace`: `add_data` for the new entry, then `replace.finalize_data` -/
def vdbReplace (st : Store) (old new : Name) (files : List (Name × Content)) : List Op :=
  vdbAddData st new files ++
  (if old = new then
    [.noop "utime".toList] ++ vdbHide st old ++ vdbInstallFinalize new ++ vdbWipeHidden st old ++ [.noop "utime".toList]
  else
    vdbInstallFinalize new ++ vdbUninstallFinalize st old)

/-- `binpkg install.add_data`: the tarball is written to the temp name in several steps (tar stream `pre`,
finally the complete file `c` with the xpak segment), then `chmod` -/
def binAddData (tmp : Name) (pre : List Content) (c : Content) : List Op :=
  [.noop "mkdir-category".toList] ++ (pre ++ [c]).map (Op.write tmp) ++ [.noop "chmod".toList]

def binInstall (tmp final : Name) (pre : List Content) (c : Content) : List Op :=
  binAddData tmp pre c ++ [.rename tmp final]

def binUninstall (final : Name) : List Op := [.unlink final, .noop "rmdir-category".toList]

/-- `binpkg replace`: `_notify_repo_remove` (category `rmdir` attempt), rename in, unlink the other version's file -/
def binReplace (tmp old new : Name) (pre : List Content) (c : Content) : List Op :=
  binAddData tmp pre c ++ [.noop "rmdir-category".toList, .rename tmp new] ++ (if old = new then [] else [.unlink old])

/-! ## the routines before the `fix:` commits (only to state the defects) -/

/-- `shutil.rmtree(self.remove_path)` on the live entry -/
def vdbUninstallUnfixed (st : Store) (name : Name) : List Op :=
  [.noop "utime".toList] ++ wipeOps st name ++ [.noop "utime".toList]

/-- `uninstall.finalize_data(self); install.finalize_data(self)` -/
def vdbReplaceUnfixed (st : Store) (old new : Name) (files : List (Name × Content)) : List Op :=
  [.noop "mkdir-category".toList, .mkdir (tmpOf new), .noop "utime".toList] ++ writeFiles (tmpOf new) files
    ++ vdbUninstallUnfixed st old ++ vdbInstallFinalize new

/-- binpkg `replace.finalize_data` that only renames the new tarball in -/
def binReplaceUnfixed (tmp new : Name) (pre : List Content) (c : Content) : List Op :=
  binAddData tmp pre c ++ [.noop "rmdir-category".toList, .rename tmp new]

end Pkgcore.C29
