import Pkgcore.Generated.C23Tables
/-!
# C23 model — the permission hardening triggers of `pkgcore.merge.triggers` as written

`fix_uid_perms`, `fix_gid_perms`, `fix_set_bits`, `detect_world_writable` run at the `pre_merge` hook of an
installing engine on `csets["new_cset"]`.

* An entry is `(kind, location, mode, uid, gid, payload)`; `payload` stands for everything else
  (`target`, `data`/`chksums`, `major`/`minor`, `mtime`, `dev`/`inode`): `change_attributes(uid=…)`,
  `(gid=…)`, `(mode=…)` rebuilds the object of the same class from all its attributes with only the named one
  replaced.  Kinds: 0 file, 1 dir, 2 symlink, 3 device, 4 fifo.
* `cset.update(gen)` is the dict update of `contentsSet`: `d[x.location] = x` for each produced entry — replaces in
  place when the key exists, appends otherwise (`dictSet`); the set is the list of its values.
* Python `m & ~mask` on a non-negative int clears the bits of `mask`: `clearBits`.
* Modes are unbounded `Nat` (device entries carry the file-type bits above the 12 permission bits).
* The reporter calls (`observer.warn`) have no effect on the set and are left out.
-/
namespace Pkgcore.C23

structure Entry where
  kind : Nat
  loc : List Char
  mode : Nat
  uid : Nat
  gid : Nat
  payload : Nat
  deriving DecidableEq, Repr

abbrev CSet := List Entry

def kindSym : Nat := 2

/-- `x.is_sym` -/
def Entry.isSym (e : Entry) : Bool := e.kind == kindSym

/-- `m & ~mask` for non-negative `m` -/
def clearBits (m mask : Nat) : Nat := m ^^^ (m &&& mask)

/-- `self._dict[e.location] = e` -/
def dictSet : CSet → Entry → CSet
  | [], e => [e]
  | x :: xs, e => if x.loc = e.loc then e :: xs else x :: dictSet xs e

/-- `cset.update(iterable)` -/
def update (c : CSet) (l : List Entry) : CSet := l.foldl dictSet c

/-- `fix_uid_perms(uid=bad, replacement=good).trigger`:
`cset.update(x.change_attributes(uid=good) for x in cset if x.uid == bad)` -/
def fixUid (bad good : Nat) (c : CSet) : CSet :=
  update c ((c.filter fun x => x.uid == bad).map fun x => { x with uid := good })

/-- `fix_gid_perms(gid=bad, replacement=good).trigger` -/
def fixGid (bad good : Nat) (c : CSet) : CSet :=
  update c ((c.filter fun x => x.gid == bad).map fun x => { x with gid := good })

/-- `(x.mode & 0o6000) and (x.mode & 0o002)` -/
def unsafeMode (m : Nat) : Bool := (m &&& 0o6000 != 0) && (m &&& 0o002 != 0)

/-- `fix_set_bits.trigger`: `l = [x for x in cset.iterlinks(True) if …]`;
`if l: cset.update(x.change_attributes(mode=x.mode & ~0o6002) for x in l)` -/
def fixSetBits (c : CSet) : CSet :=
  let l := c.filter fun x => !x.isSym && unsafeMode x.mode
  if l.isEmpty then c else update c (l.map fun x => { x with mode := clearBits x.mode 0o6002 })

/-- `detect_world_writable(fix_perms).trigger` (the early `return` when there is neither an observer nor
`fix_perms` changes nothing either) -/
def detectWorldWritable (fixPerms : Bool) (c : CSet) : CSet :=
  let l := c.filter fun x => !x.isSym && (x.mode &&& 0o002 != 0)
  if fixPerms then update c (l.map fun x => { x with mode := clearBits x.mode 0o002 }) else c

/-- `preinst_contents_reset.trigger` of the ebuild format (priority 1, registered for packages with a `pkg_preinst`
phase): `cset.clear(); cset.update(scan of the image [with the offset inserted])` — whatever was in `new_cset` is
replaced by a fresh scan `image` -/
def resetContents (image : CSet) (_c : CSet) : CSet := update [] image

inductive Trigger
  | fixUid (bad good : Nat)
  | fixGid (bad good : Nat)
  | fixSetBits
  | detectWorldWritable (fixPerms : Bool)
  | reset (image : CSet)
  deriving DecidableEq, Repr

def Trigger.run : Trigger → CSet → CSet
  | .fixUid b g => Pkgcore.C23.fixUid b g
  | .fixGid b g => Pkgcore.C23.fixGid b g
  | .fixSetBits => Pkgcore.C23.fixSetBits
  | .detectWorldWritable f => Pkgcore.C23.detectWorldWritable f
  | .reset image => resetContents image

def Trigger.isReset : Trigger → Bool
  | .reset _ => true
  | _ => false

/-- `execute_hook("pre_merge")` restricted to the hardening triggers, in the order given -/
def runTriggers (ts : List Trigger) (c : CSet) : CSet := ts.foldl (fun c t => t.run c) c

/-- trigger class name (as in the generated hook order) → trigger with the engine's default arguments -/
def triggerOfName (buildUid rootUid buildGid rootGid : Nat) : String → Option Trigger
  | "fix_uid_perms" => some (.fixUid buildUid rootUid)
  | "fix_gid_perms" => some (.fixGid buildGid rootGid)
  | "fix_set_bits" => some .fixSetBits
  | "detect_world_writable" => some (.detectWorldWritable false)
  | _ => none

/-- the hardening triggers of a default install engine, in the engine's own `pre_merge` order (generated) -/
def defaultTriggers (buildUid rootUid buildGid rootGid : Nat) : List Trigger :=
  Generated.C23.preMergeOrder.filterMap (triggerOfName buildUid rootUid buildGid rootGid)

/-- trigger class name → trigger, for an engine assembled the way the ebuild format does it (`image` = what
`preinst_contents_reset` scans) -/
def triggerOfNameE (buildUid rootUid buildGid rootGid : Nat) (image : CSet) (name : String) : Option Trigger :=
  if name = "preinst_contents_reset" then some (.reset image) else triggerOfName buildUid rootUid buildGid rootGid name

/-- the `pre_merge` triggers that touch `new_cset` in an ebuild-format install engine (default plugins + format
triggers + domain triggers), in the engine's own order (generated from the real engine) -/
def ebuildTriggers (buildUid rootUid buildGid rootGid : Nat) (image : CSet) : List Trigger :=
  Generated.C23.ebuildPreMergeOrder.filterMap (triggerOfNameE buildUid rootUid buildGid rootGid image)

end Pkgcore.C23
