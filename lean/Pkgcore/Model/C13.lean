/-!
# C13 model — `pkgcore.ebuild.domain`: is a package visible?

Mirrors, as written (after the two `fix:` commits, see `notes/C13.md`), for one package:

* `filter_repo`: the stacking of repository masks, profile masks (`(neg, pos)` per profile node), `package.mask`, and of
  profile unmasks and `package.unmask`; `generate_filter` / `apply_mask_filter`: visible unless some mask matches and no
  unmask does;
* `_pkg_filters` / `_make_keywords_filter` / `collapsed_restrict_to_data` (+ the non-incremental variant) /
  `_apply_keywords_filter`: default keywords, the containment shortcut, the stable branch (empty entry ⇒ `~ARCH`,
  entries filed by kind of restriction, incremental expansion) and the unstable branch (plain union), the `**`, `*`, `~*`
  wildcards, profile `package.keywords` additions;
* `_apply_license_filter` / `incremental_expansion_license`: per LICENSE alternative (`dnf_solutions`), the accepted set
  built from `ACCEPT_LICENSE` followed by the tokens of matching `package.license` entries.

Restriction matching is a parameter: every configuration entry carries whether its restriction matches the package
(and, for atoms, whether it has the package's key — atoms are only looked up under their key).  Mask atoms are
identified by their text.  The LICENSE depset (after USE evaluation) is an and/or tree.
-/
namespace Pkgcore.C13

/-- strings are lists of code points (the driver converts at the boundary) -/
abbrev Str := List Char

/-! ## masks -/

/-- one stacking step: remove `neg`, then add `pos` -/
structure MaskOp where
  neg : List Str
  pos : List Str
  deriving Repr

/-- `masks.difference_update(neg); masks.update(pos)` over all steps (a set as a list used through membership) -/
def applyOps : List MaskOp → List Str → List Str
  | [], s => s
  | op :: ops, s => applyOps ops ((s.filter fun a => !(op.neg.contains a)) ++ op.pos)

/-- `generate_filter(masks, unmasks)` applied to the package: not masked, or unmasked -/
def maskOk (matchesAtom : Str → Bool) (maskOps unmaskOps : List MaskOp) : Bool :=
  !((applyOps maskOps []).any matchesAtom) || (applyOps unmaskOps []).any matchesAtom

/-! ## keywords -/

/-- how `collapsed_restrict_to_data` files a restriction -/
inductive Cls | always | repo | cat | pkg | multi | atom
  deriving DecidableEq, Repr

/-- one `(restriction, keywords)` pair of package.keywords / package.accept_keywords / the profile's accept_keywords -/
structure KwEntry where
  cls : Cls
  sameKey : Bool          -- atoms only: the atom's key is the package's key
  hit : Bool              -- `restriction.match(pkg)`
  tokens : List Str
  deriving Repr

def isNeg (t : Str) : Bool := t.head? == some '-'
def isTilde (t : Str) : Bool := t.head? == some '~'
def isAt (t : Str) : Bool := t.head? == some '@'
def star : Str := ['*']

/-- `incremental_expansion(tokens, orig=s, finalize=True)` -/
def incExpand : List Str → List Str → List Str
  | [], s => s
  | t :: ts, s =>
    if isNeg t then
      let i := t.drop 1
      if i == star then incExpand ts [] else incExpand ts (s.filter (· != i))
    else incExpand ts ((s.filter (· != '-' :: t)) ++ [t])

/-- `{arch} ∪ ACCEPT_KEYWORDS ∪ {k.lstrip("~") for ~k in ACCEPT_KEYWORDS}` -/
def defaultKeys (arch : Str) (accept : List Str) : List Str :=
  [arch] ++ accept ++ (accept.filter isTilde).map (fun k => k.dropWhile (· == '~'))

def wildcards : List Str := [['*'], ['~', '*'], ['*', '*']]

/-- entries as `collapsed_restrict_to_data` sees them: empty data is skipped; on a stable system `f` first turns empty
data into `(~ARCH,)` -/
def effective (stable : Bool) (unstableArch : Str) (es : List KwEntry) : List KwEntry :=
  (es.map fun e => if stable && e.tokens.isEmpty then { e with tokens := [unstableArch] } else e).filter
    fun e => !e.tokens.isEmpty

/-- the `always` list: data of every always-true restriction, in order (the default keys first) -/
def alwaysTokens (defaults : List Str) (es : List KwEntry) : List Str :=
  defaults ++ (es.filter (·.cls == .always)).flatMap (·.tokens)

/-- `atom_d[pkg.key]`: the atom entries with the package's key in order, with — after every later always-true entry —
a pseudo entry holding that entry's negative tokens -/
def keyList : List KwEntry → Bool → List (Bool × List Str)
  | [], _ => []
  | e :: es, started =>
    match e.cls with
    | .atom => if e.sameKey then (e.hit, e.tokens) :: keyList es true else keyList es started
    | .always => if started then (true, e.tokens.filter isNeg) :: keyList es started else keyList es started
    | _ => keyList es started

/-- the data `pull_data` collects for the package: matching repo, category, package, multi restrictions (in that order),
then the key list -/
def pulled (es : List KwEntry) : List Str :=
  ([Cls.repo, .cat, .pkg, .multi].flatMap fun c => (es.filter fun e => e.cls == c && e.hit).flatMap (·.tokens)) ++
  ((keyList es false).filter (·.1)).flatMap (·.2)

/-- `defaults_finalized`: the positive tokens left after expanding the `always` list -/
def defaultsFinalized (defaults : List Str) (es : List KwEntry) : List Str :=
  (incExpand (alwaysTokens defaults es) []).filter (fun t => !isNeg t)

/-- `pull_data` of the incremental (stable) collapse -/
def allowedStable (defaults : List Str) (es : List KwEntry) : List Str :=
  incExpand (pulled es) (defaultsFinalized defaults es)

/-- `pull_data` of the non-incremental (unstable) collapse: the expanded defaults plus everything that matches -/
def allowedUnstable (defaults : List Str) (es : List KwEntry) : List Str :=
  incExpand (alwaysTokens defaults es) [] ++ pulled es

/-- `_apply_keywords_filter` given the allowed set -/
def keywordsAccepted (allowed pkgKeywords : List Str) : Bool :=
  allowed.contains ['*', '*'] ||
  (allowed.contains ['*'] && pkgKeywords.any fun k => !(isNeg k || isTilde k)) ||
  (allowed.contains ['~', '*'] && pkgKeywords.any isTilde) ||
  pkgKeywords.any allowed.contains

structure KwConfig where
  arch : Str
  accept : List Str              -- settings["ACCEPT_KEYWORDS"] (already expanded)
  entries : List KwEntry            -- pkg_keywords + pkg_accept_keywords + profile.accept_keywords
  profileKeywords : Bool            -- `self.profile.keywords` is non-empty
  deriving Repr

/-- the keywords filter of `_pkg_filters`; `pkgKeywords` = KEYWORDS plus the matching profile package.keywords additions -/
def kwOk (c : KwConfig) (pkgKeywords : List Str) : Bool :=
  let defaults := defaultKeys c.arch c.accept
  let unstableArch := '~' :: c.arch
  if c.entries.isEmpty && !c.profileKeywords && !(wildcards.any defaults.contains) then
    pkgKeywords.any defaults.contains                 -- the ContainmentMatch shortcut
  else
    let stable := !(defaults.contains unstableArch)
    let es := effective stable unstableArch c.entries
    keywordsAccepted (if stable then allowedStable defaults es else allowedUnstable defaults es) pkgKeywords

/-! ## licenses -/

/-- LICENSE depset after USE evaluation -/
inductive LTree
  | lic (name : Str)
  | all (ts : List LTree)
  | any (ts : List LTree)
  deriving Repr

def cross (a b : List (List Str)) : List (List Str) := a.flatMap fun x => b.map fun y => x ++ y

mutual
/-- `dnf_solutions()` -/
def LTree.dnf : LTree → List (List Str)
  | .lic n => [[n]]
  | .all ts => dnfAll ts
  | .any ts => dnfAny ts
def dnfAll : List LTree → List (List Str)
  | [] => [[]]
  | t :: ts => cross t.dnf (dnfAll ts)
def dnfAny : List LTree → List (List Str)
  | [] => []
  | t :: ts => t.dnf ++ dnfAny ts
end

/-- `incremental_expansion_license(pkg, and_pair, groups, tokens)`; tokens are well formed (no bare "-", "@", "-@") -/
def licExpand (groups : Str → List Str) (andPair : List Str) : List Str → List Str → List Str
  | [], s => s
  | t :: ts, s =>
    if isNeg t then
      let i := t.drop 1
      if i == star then licExpand groups andPair ts []
      else if isAt i then licExpand groups andPair ts (s.filter fun x => !((groups (i.drop 1)).contains x))
      else licExpand groups andPair ts (s.filter (· != i))
    else if isAt t then licExpand groups andPair ts (s ++ groups (t.drop 1))
    else if t == star then licExpand groups andPair ts (s ++ andPair)
    else licExpand groups andPair ts (s ++ [t])

structure LicConfig where
  master : List Str                       -- settings ACCEPT_LICENSE
  entries : List (Bool × List Str)        -- package.license: (matches, tokens), file order
  deriving Repr

/-- the license filter of `_pkg_filters` (present only if anything is configured) + `_apply_license_filter` -/
def licOk (groups : Str → List Str) (c : LicConfig) (license : LTree) : Bool :=
  if c.master.isEmpty && c.entries.isEmpty then true
  else
    let raw := c.master ++ (c.entries.filter (·.1)).flatMap (·.2)
    license.dnf.any fun andPair => andPair.all (licExpand groups andPair raw []).contains

/-! ## the filtered repository -/

structure Config where
  maskOps : List MaskOp
  unmaskOps : List MaskOp
  kw : KwConfig
  lic : LicConfig

structure Pkg where
  matchesAtom : Str → Bool
  keywords : List Str
  license : LTree

def visible (groups : Str → List Str) (c : Config) (p : Pkg) : Bool :=
  maskOk p.matchesAtom c.maskOps c.unmaskOps && kwOk c.kw p.keywords && licOk groups c.lic p.license

end Pkgcore.C13
