/-!
# C42 model — `pkgcore.ebuild.pkg_updates` (`_scan_directory`, `read_updates`, `_process_updates`) as written
(after the two `fix:` commits: files ordered by (year, quarter); lines with unparsable atoms are skipped).

Lexing is trivial and therefore structured: a line is the token list `raw_line.strip().split()`; a token
carries what the two parsers used by the code make of it (`atom(text)` → `Atom`/`MalformedAtom`, and whether
`text` is acceptable as a slot, i.e. `atom(f"{src}:{text}")` parses).  The correspondence run renders the tokens
to text files and lets the real parser do the lexing.

The aliased `deque` graph (`mods[k] = [head, tail]`, the same `deque` object nested inside two others) is
modelled by node ids into a heap of item lists; Python object identity = node id.  Node ids are allocated in
the order (entry of src, entry of trg, new checkpoint deque) so that every nested reference points to a
younger node — ids are an artefact of the model, Python has no order on objects.
-/
namespace Pkgcore.C42

abbrev Key := String

/-- result of `atom(text)` as far as `_process_updates` looks at it -/
structure Atom where
  text : String        -- str(atom)
  key : Key            -- atom.key  (category/package)
  versioned : Bool     -- atom.fullver is not None
  slotted : Bool       -- atom.slot is not None
  deriving DecidableEq, Repr

/-- one whitespace separated token -/
structure Tok where
  text : String
  atom : Option Atom   -- `atom(text)`; `none` = MalformedAtom
  slotOk : Bool        -- `atom(f"{src}:{text}")` parses (text is a valid slot)
  deriving DecidableEq, Repr

/-- the tuples appended to the deques: `("move", src, trg)` and `("slotmove", atom(f"{src}:{from}"), to)` -/
inductive Cmd
  | move (src trg : Atom)
  | slotmove (src : Atom) (fromSlot toSlot : String)
  deriving DecidableEq, Repr

def Cmd.srcKey : Cmd → Key
  | .move s _ => s.key
  | .slotmove s _ _ => s.key

/-- deque items: a command tuple or a nested deque (by identity) -/
inductive Item
  | cmd (c : Cmd)
  | ref (n : Nat)
  deriving DecidableEq, Repr

abbrev Heap := List (List Item)

def node (h : Heap) (i : Nat) : List Item := (h[i]?).getD []

/-- `deque.extend(items)` on the deque with identity `i` -/
def push (h : Heap) (i : Nat) (items : List Item) : Heap := h.modify i (· ++ items)

def assoc {β : Type} (k : Key) : List (Key × β) → Option β
  | [] => none
  | (k', v) :: r => if k' = k then some v else assoc k r

structure St where
  heap : Heap
  mods : List (Key × Nat × Nat)   -- insertion ordered `defaultdict`: key ↦ [head, tail]
  moved : List Key                -- keys of the `moved` dict

def St.init : St := ⟨[], [], []⟩

/-- `mods[k]` on the `defaultdict`: creates `[d, d]` with a fresh deque `d` when missing -/
def ensure (k : Key) (st : St) : St :=
  match assoc k st.mods with
  | some _ => st
  | none => { st with heap := st.heap ++ [[]], mods := st.mods ++ [(k, st.heap.length, st.heap.length)] }

def tailOf (st : St) (k : Key) : Nat :=
  match assoc k st.mods with
  | some (_, t) => t
  | none => 0

/-- `mods[k][1] = d` -/
def setTail (k : Key) (d : Nat) (mods : List (Key × Nat × Nat)) : List (Key × Nat × Nat) :=
  mods.map fun e => if e.1 = k then (e.1, e.2.1, d) else e

/-- `mods[src.key][1].append(("slotmove", src_slot, line[3]))` -/
def doSlotmove (st : St) (src : Atom) (s2 s3 : String) : St :=
  let st := ensure src.key st
  { st with heap := push st.heap (tailOf st src.key) [.cmd (.slotmove src s2 s3)] }

/-- the five statements of the accepted `move` branch -/
def doMove (st : St) (src trg : Atom) : St :=
  let st := ensure src.key st
  let st := ensure trg.key st
  let d := st.heap.length
  let heap := st.heap ++ [[]]                                                    -- d = deque()
  let heap := push heap (tailOf st src.key) [.cmd (.move src trg), .ref d]       -- mods[src.key][1].extend([("move", src, trg), d])
  let heap := push heap (tailOf st trg.key) [.ref d]                             -- mods[trg.key][1].append(d)
  { heap := heap, mods := setTail trg.key d st.mods, moved := src.key :: st.moved }  -- mods[trg.key][1] = d; moved[src.key] = trg

/-- one iteration of the loop of `_process_updates`; the argument is `raw_line.strip().split()` -/
def processLine (st : St) (line : List Tok) : St :=
  match line with
  | [] => st                                            -- empty line
  | w :: args =>
    if w.text = "move" then
      match args with
      | [a, b] =>
        match a.atom, b.atom with
        | some src, some trg =>
          if src.versioned then st                      -- must be versionless
          else if trg.versioned then st
          else if src.key ∈ st.moved then st            -- redundant
          else doMove st src trg
        | _, _ => st                                    -- MalformedAtom: logged, skipped
      | _ => st                                         -- bad move form
    else if w.text = "slotmove" then
      match args with
      | [a, s2, s3] =>
        match a.atom with
        | none => st                                    -- MalformedAtom
        | some src =>
          if src.key ∈ st.moved then st                 -- redundant
          else if src.slotted then st                   -- slotted atom makes no sense
          else if !s2.slotOk || !s3.slotOk then st      -- MalformedAtom from the two slot atoms
          else doSlotmove st src s2.text s3.text
      | _ => st                                         -- bad slotmove form
    else st                                             -- unknown command

/-- a directory entry: its name, what `update_regex` extracts from it, and its lines.
`key = none`: name rejected by the regex; `some (year, quarter)` for `nQ-YYYY` names (EAPIs whose regex has no
groups give every accepted name the same key `(0, 0)`) -/
structure UFile where
  name : String
  key : Option (Nat × Nat)
  lines : List (List Tok)
  deriving Repr

/-- sort key of `sorted(files)` where `files = [((year, quarter), filename)]` (Python compares the tuples
lexicographically and `str`s by code point, as `compare` on `String` does) -/
def UFile.sortKey (f : UFile) : Nat × Nat × String :=
  ((f.key.getD (0, 0)).1, (f.key.getD (0, 0)).2, f.name)

attribute [local instance] lexOrd in
def UFile.le (a b : UFile) : Bool := (compare a.sortKey b.sortKey).isLE

/-- `_scan_directory`: keep the files whose name the regex accepts, sorted by (year, quarter, name) -/
def scan (files : List UFile) : List UFile :=
  (files.filter fun f => f.key.isSome).mergeSort UFile.le

/-- `iflatten_instance(deque i, tuple)`: the command tuples of a deque, nested deques expanded in place.
The guard `i < j < size` is always true on reachable states (`deque_graph_acyclic`); it makes the recursion,
which in Python is unbounded, evidently terminating. -/
def flatten (h : Heap) (i : Nat) : List Cmd :=
  (node h i).flatMap fun it =>
    match it with
    | .cmd c => [c]
    | .ref j => if _hj : i < j ∧ j < h.length then flatten h j else []
termination_by h.length - i
decreasing_by omega

def processAll (files : List UFile) : St :=
  (scan files).foldl (fun st f => f.lines.foldl processLine st) St.init

/-- `read_updates`: flatten every head, drop the empty chains -/
def readUpdates (files : List UFile) : List (Key × List Cmd) :=
  let st := processAll files
  (st.mods.map fun e => (e.1, flatten st.heap e.2.1)).filter fun e => !e.2.isEmpty

end Pkgcore.C42
