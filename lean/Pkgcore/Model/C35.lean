/-!
# C35 model — the command protocol between `EbuildProcessor` (processor.py) and the bash daemon
(`ebuild-daemon.bash`, `ebuild-daemon-lib.bash`), as two state machines over two FIFO channels

Message level.  `c` carries what Python writes, `d` what the daemon writes.  A multi-line unit written without an
intervening read is one message (an IPC request = six lines, `path`+path, a raw transfer = header + payload,
`dying … dead`).  Reply *kinds* are modelled, not their text (`preload_eclass succeeded|failed` is one kind).

* daemon (`BMode`): `main` = `__ebd_main_loop` reading; `setup` = the loop of `__ebd_process_ebuild_phases` before
  `start_processing`; `running` = phases / metadata sourcing execute (may emit notices `key …`/`receive_env …`, issue
  a request and wait, finish with `phases succeeded|failed`); `wait k` = blocked in the `read` that follows request
  `k` (`__ebd_ipc_cmd`, `__internal_inherit`, `__source_bashrcs`, `__request_sandbox_summary`); from any of these it
  may die (`die`: `dying … dead`; SIGINT/SIGTERM handlers: one notice line; `env_receiving_failed`) — one `death`
  message, after which it reads nothing.  An unknown command in any reading mode is a death too (`die "unknown …"`).
* Python (`ops`, `out`): straight-line programs of `cmd c` (write a command without reply), `ask c` (write a command
  and register the expectation of its reply: `expect(..., async_req=True)`, or the first half of a synchronous
  `expect`), `drain` (`_consume_async_expects` / the reading half of `expect`: read until nothing is outstanding),
  `handler` (`generic_handler`: consume outstanding expects, then dispatch what the daemon sends until `phases …`),
  `stop` (after `shutdown_daemon`).  Every read also recognises a death notice (`readlines`).  When idle Python may
  start *any* program that is well typed against the daemon's command table (`wf`), in particular those of
  `is_responsive`, `preload_eclasses` (batched asynchronous expects), `clear_preloaded_eclasses`,
  `_ensure_metadata_paths`, `_run_depend_like_phase`, `run_phase`, `shutdown_processor`.
* channels are unbounded (a full pipe is not modelled); signal timing is abstracted to "the death step is always
  enabled".
-/
namespace Pkgcore.C35

/-- requests the running daemon makes -/
inductive Req | ipc | inherit | bashrcs | summary
  deriving DecidableEq, Repr

/-- reply kinds -/
inductive Reply | yep | preloadDone | clearDone | metaPathDone | envDone | loggingAck | next
  deriving DecidableEq, Repr

/-- what Python writes -/
inductive Cmd
  | alive | preload | clear | setMetaPath | genMeta | processEbuild | startEnv | logging | sandboxState
  | startProcessing | shutdown
  | ipcReply | inheritReply | bashrcItem | endRequest | summaryLine | endSummary
  | junk
  deriving DecidableEq, Repr

/-- what the daemon writes -/
inductive Msg
  | reply (r : Reply)
  | note                 -- `key K=V`, `receive_env N` + payload
  | request (k : Req)
  | phases               -- `phases succeeded` / `phases failed …`
  | death                -- `dying … dead`, `SIGINT`, `SIGTERM`, `env_receiving_failed`
  | junk
  deriving DecidableEq, Repr

inductive BMode | main | setup | running | wait (k : Req) | dead | exited
  deriving DecidableEq, Repr

/-- the daemon's command tables: `case ${com}` of `__ebd_main_loop`, `case ${line}` of the setup loop, and the reads
after each request; `none` = `die "unknown … com"` (or nobody is reading) -/
def trans : BMode → Cmd → Option (BMode × Option Reply)
  | .main, .alive => some (.main, some .yep)
  | .main, .preload => some (.main, some .preloadDone)
  | .main, .clear => some (.main, some .clearDone)
  | .main, .setMetaPath => some (.main, some .metaPathDone)
  | .main, .genMeta => some (.running, none)
  | .main, .processEbuild => some (.setup, none)
  | .main, .shutdown => some (.exited, none)
  | .setup, .startEnv => some (.setup, some .envDone)
  | .setup, .logging => some (.setup, some .loggingAck)
  | .setup, .sandboxState => some (.setup, none)
  | .setup, .alive => some (.setup, some .yep)
  | .setup, .startProcessing => some (.running, none)
  | .wait .ipc, .ipcReply => some (.running, none)
  | .wait .inherit, .inheritReply => some (.running, none)
  | .wait .bashrcs, .bashrcItem => some (.wait .bashrcs, some .next)
  | .wait .bashrcs, .endRequest => some (.running, none)
  | .wait .summary, .summaryLine => some (.wait .summary, none)
  | .wait .summary, .endSummary => some (.running, none)
  | _, _ => none

def optList : Option Reply → List Reply
  | some r => [r]
  | none => []

/-- the daemon working through a queue of commands: final mode and the replies it writes -/
def run : BMode → List Cmd → Option (BMode × List Reply)
  | m, [] => some (m, [])
  | m, x :: xs =>
    match trans m x with
    | none => none
    | some (m', r) =>
      match run m' xs with
      | none => none
      | some (m'', rs) => some (m'', optList r ++ rs)

/-- the reply Python registers for a command (`expect("yep!")`, `expect("preload_eclass succeeded")`,
`expect("clear_preloaded_eclasses succeeded")`, `expect("metadata_path_received")`, `expect("env_received")`,
`expect("logging_ack")`, `expect("next")`) -/
def expected : Cmd → Option Reply
  | .alive => some .yep
  | .preload => some .preloadDone
  | .clear => some .clearDone
  | .setMetaPath => some .metaPathDone
  | .startEnv => some .envDone
  | .logging => some .loggingAck
  | .bashrcItem => some .next
  | _ => none

/-- Python's micro operations -/
inductive POp | cmd (c : Cmd) | ask (c : Cmd) | drain | handler | stop
  deriving DecidableEq, Repr

/-- a program is well typed from daemon mode `m`: every command is understood in the mode the daemon will be in when
it reads it, `ask` is used exactly for the commands that are answered, `generic_handler` is entered exactly when
the daemon starts running, and the daemon is back in its main loop at the end -/
def wf : BMode → List POp → Bool
  | m, [] => m == .main
  | m, .cmd c :: ops => match trans m c with | some (m', none) => wf m' ops | _ => false
  | m, .ask c :: ops =>
    match trans m c with
    | some (m', some r) => expected c == some r && wf m' ops
    | _ => false
  | m, .drain :: ops => wf m ops
  | m, .handler :: ops => m == .running && wf .main ops
  | m, .stop :: _ => m == .exited

/-- a handler-free program fragment taking the daemon from `m` to `m'` (the answers to a request) -/
def wfTo : BMode → List POp → BMode → Bool
  | m, [], m' => m == m'
  | m, .cmd c :: ops, m' => match trans m c with | some (m1, none) => wfTo m1 ops m' | _ => false
  | m, .ask c :: ops, m' =>
    match trans m c with
    | some (m1, some r) => expected c == some r && wfTo m1 ops m'
    | _ => false
  | m, .drain :: ops, m' => wfTo m ops m'
  | _, _, _ => false

inductive PStatus | live | endedOk | endedError
  deriving DecidableEq, Repr

/-- global state -/
structure G where
  ops : List POp
  out : List Reply          -- `_outstanding_expects`
  st : PStatus
  b : BMode
  c : List Cmd              -- Python → daemon, head = oldest
  d : List Msg              -- daemon → Python
  deriving Repr

def init : G := ⟨[], [], .live, .main, [], []⟩

def alive (b : BMode) : Bool := b != .dead && b != .exited

/-- one step of either side; every interleaving is a sequence of these -/
inductive Step : G → G → Prop
  -- Python --------------------------------------------------------------------------------------------
  /-- idle: start any well typed program (an API call of `EbuildProcessor`) -/
  | pStart (g : G) (prog : List POp) : g.st = .live → g.ops = [] → wf .main prog = true →
      Step g { g with ops := prog }
  /-- `self.write(cmd)` -/
  | pCmd (g : G) (x : Cmd) (ops : List POp) : g.st = .live → g.ops = .cmd x :: ops →
      Step g { g with ops := ops, c := g.c ++ [x] }
  /-- `self.write(cmd)` + `_outstanding_expects.append(reply)` -/
  | pAsk (g : G) (x : Cmd) (r : Reply) (ops : List POp) : g.st = .live → g.ops = .ask x :: ops →
      expected x = some r →
      Step g { g with ops := ops, c := g.c ++ [x], out := g.out ++ [r] }
  /-- nothing outstanding any more -/
  | pDrainDone (g : G) (ops : List POp) : g.st = .live → g.ops = .drain :: ops → g.out = [] →
      Step g { g with ops := ops }
  /-- read one line while expectations are outstanding (`drain`, or the start of `generic_handler`): it is the
  expected one -/
  | pReadExpected (g : G) (r : Reply) (out : List Reply) (d : List Msg) (o : POp) (ops : List POp) :
      g.st = .live → g.ops = o :: ops → (o = .drain ∨ o = .handler) → g.out = r :: out → g.d = .reply r :: d →
      Step g { g with out := out, d := d }
  /-- … it is something else: `expect` returns False / "expects out of alignment"; the session is ended -/
  | pReadMismatch (g : G) (r : Reply) (out : List Reply) (m : Msg) (d : List Msg) (o : POp) (ops : List POp) :
      g.st = .live → g.ops = o :: ops → (o = .drain ∨ o = .handler) → g.out = r :: out → g.d = m :: d →
      m ≠ .reply r → m ≠ .death →
      Step g { g with st := .endedError, d := d }
  /-- any read: a death notice ends the session (EbdError / KeyboardInterrupt / shutdown) -/
  | pReadDeath (g : G) (d : List Msg) (o : POp) (ops : List POp) :
      g.st = .live → g.ops = o :: ops → (o = .drain ∧ g.out ≠ [] ∨ o = .handler) → g.d = .death :: d →
      Step g { g with st := .endedError, d := d }
  /-- `generic_handler`: `key`, `receive_env` -/
  | pHandleNote (g : G) (d : List Msg) (ops : List POp) :
      g.st = .live → g.ops = .handler :: ops → g.out = [] → g.d = .note :: d →
      Step g { g with d := d }
  /-- `generic_handler`: a request; the handler for it runs (any answer program of the right type), then the loop
  goes on -/
  | pHandleRequest (g : G) (k : Req) (ans : List POp) (d : List Msg) (ops : List POp) :
      g.st = .live → g.ops = .handler :: ops → g.out = [] → g.d = .request k :: d →
      wfTo (.wait k) ans .running = true →
      Step g { g with ops := ans ++ .handler :: ops, d := d }
  /-- `generic_handler`: `phases …` ends the loop -/
  | pHandlePhases (g : G) (d : List Msg) (ops : List POp) :
      g.st = .live → g.ops = .handler :: ops → g.out = [] → g.d = .phases :: d →
      Step g { g with ops := ops, d := d }
  /-- `generic_handler`: anything else is an UnhandledCommand; the session is ended -/
  | pHandleUnknown (g : G) (m : Msg) (d : List Msg) (ops : List POp) :
      g.st = .live → g.ops = .handler :: ops → g.out = [] → g.d = m :: d →
      (m = .junk ∨ ∃ r, m = .reply r) →
      Step g { g with st := .endedError, d := d }
  /-- after `shutdown_daemon` -/
  | pStop (g : G) (ops : List POp) : g.st = .live → g.ops = .stop :: ops →
      Step g { g with st := .endedOk }
  -- daemon --------------------------------------------------------------------------------------------
  /-- read a known command, answer it if it has an answer -/
  | bCmd (g : G) (x : Cmd) (cs : List Cmd) (b' : BMode) (r : Option Reply) :
      g.c = x :: cs → trans g.b x = some (b', r) →
      Step g { g with b := b', c := cs, d := g.d ++ (optList r).map .reply }
  /-- read an unknown command: die -/
  | bUnknown (g : G) (x : Cmd) (cs : List Cmd) :
      alive g.b = true → g.b ≠ .running → g.c = x :: cs → trans g.b x = none →
      Step g { g with b := .dead, c := cs, d := g.d ++ [.death] }
  | bNote (g : G) : g.b = .running → Step g { g with d := g.d ++ [.note] }
  | bRequest (g : G) (k : Req) : g.b = .running → Step g { g with b := .wait k, d := g.d ++ [.request k] }
  | bFinish (g : G) : g.b = .running → Step g { g with b := .main, d := g.d ++ [.phases] }
  /-- die / SIGINT / SIGTERM / env_receiving_failed: possible at any moment -/
  | bDeath (g : G) : alive g.b = true → Step g { g with b := .dead, d := g.d ++ [.death] }

inductive Reachable : G → Prop
  | init : Reachable init
  | step {g g' : G} : Reachable g → Step g g' → Reachable g'

/-! ## the programs of the real API (instances of `pStart` / `pHandleRequest`) -/

def progResponsive : List POp := [.ask .alive, .drain]
def progPreload (n : Nat) (sync : Bool) : List POp := List.replicate n (.ask .preload) ++ (if sync then [.drain] else [])
def progClear : List POp := [.ask .alive, .drain, .ask .clear, .drain]
def progMetaPath : List POp := [.ask .setMetaPath, .drain]
def progDepend (setPath : Bool) : List POp :=
  (if setPath then progMetaPath else []) ++ [.cmd .genMeta, .handler]
def progRunPhase (logging : Bool) : List POp :=
  [.cmd .processEbuild, .ask .startEnv, .drain, .cmd .sandboxState] ++
  (if logging then [.ask .logging, .drain] else []) ++ [.cmd .startProcessing, .handler]
def progShutdown : List POp := [.ask .alive, .drain, .cmd .shutdown, .stop]

def ansIpc : List POp := [.cmd .ipcReply]
def ansInherit : List POp := [.cmd .inheritReply]
def ansBashrcs (n : Nat) : List POp := (List.replicate n [POp.ask .bashrcItem, .drain]).flatten ++ [.cmd .endRequest]
def ansSummary (n : Nat) : List POp := List.replicate n (.cmd .summaryLine) ++ [.cmd .endSummary]

/-! ## the concrete forms of a death notice line

`readlines` looks at the first word of every line it reads: `dying` (from `die`: `dying ${PORTAGE_LOGFILE}`, i.e. bare
when no log file is set, followed by the log path when build logging is on), `SIGINT`, `SIGTERM`.  The abstraction
`Msg.death` stands for all of them, with or without argument. -/

/-- `line.strip().partition(" ")[0]` for ASCII blanks -/
def firstWord (line : List Char) : List Char :=
  (line.dropWhile fun c => c == ' ' || c == '\t').takeWhile fun c => !(c == ' ' || c == '\t' || c == '\n')

def wDying : List Char := ['d', 'y', 'i', 'n', 'g']
def wSigint : List Char := ['S', 'I', 'G', 'I', 'N', 'T']
def wSigterm : List Char := ['S', 'I', 'G', 'T', 'E', 'R', 'M']

def isNoticeLine (line : List Char) : Bool :=
  firstWord line == wDying || firstWord line == wSigint || firstWord line == wSigterm

/-- the notice lines the daemon writes: `dying`, `dying <logfile>`, `SIGINT`, `SIGTERM` (argument = anything) -/
inductive NoticeForm
  | dying (arg : Option (List Char))
  | sigint
  | sigterm
  deriving Repr

def NoticeForm.line : NoticeForm → List Char
  | .dying none => wDying ++ [' ', '\n']       -- `__ebd_write_line "dying ${PORTAGE_LOGFILE}"` with an empty variable
  | .dying (some a) => wDying ++ ' ' :: a ++ ['\n']
  | .sigint => wSigint ++ ['\n']
  | .sigterm => wSigterm ++ ['\n']

/-! ## `_consume_async_expects` at line level

The message-level machine above reads one message per outstanding expectation (`pReadExpected`/`pReadMismatch`).  Here
is the same routine on lines of text: a reply may be the expected text (`preload_eclass succeeded`) or a negative /
different one (`preload_eclass failed`); either way it is the reply *to that request* and has to be taken off the pipe,
otherwise every later request is paired with an earlier request's reply. -/

abbrev Line := List Char

/-- `x.rstrip("\n")` -/
def rstripNl (l : Line) : Line := (l.reverse.dropWhile (· == '\n')).reverse

inductive ReadRes
  | got (lines rest : List Line)
  | notice (rest : List Line)       -- a death notice was read: `readlines` raises
  | dry                             -- nothing left to read: Python blocks
  deriving DecidableEq, Repr

/-- `readlines(n)`: one `readline` per count, every line checked for a notice -/
def readLines : Nat → List Line → ReadRes
  | 0, pipe => .got [] pipe
  | _ + 1, [] => .dry
  | n + 1, l :: pipe =>
    if isNoticeLine l then .notice pipe
    else match readLines n pipe with
      | .got ls rest => .got (l :: ls) rest
      | r => r

inductive Consumed
  | result (ok : Bool) (rest : List Line)
  | interrupted (rest : List Line)
  | blocked
  deriving DecidableEq, Repr

/-- `_consume_async_expects`: read as many lines as expectations are outstanding, then compare -/
def consumeBatch (expected : List Line) (pipe : List Line) : Consumed :=
  match readLines expected.length pipe with
  | .got ls rest => .result (ls.map rstripNl == expected) rest
  | .notice rest => .interrupted rest
  | .dry => .blocked

/-! ## `__source_bashrcs`: the daemon's loop after `request_bashrcs` -/

/-- what Python sends per bashrc: `path` + file (sourced; `status` = exit status of `source`, i.e. of the last command
of the file or of its `return`), `transfer` + text (eval'ed), or an unknown mode word -/
inductive BashrcItem | path (status : Nat) | transfer (status : Nat) | other
  deriving DecidableEq, Repr

inductive BashrcLine | next | failed | death
  deriving DecidableEq, Repr

/-- lines the daemon writes while working through the items (then `end_request` ends the loop): a sourced file is
acknowledged whatever its exit status, a failing `eval` and an unknown mode die -/
def sourceBashrcs : List BashrcItem → List BashrcLine
  | [] => []
  | .path _ :: rest => .next :: sourceBashrcs rest
  | .transfer 0 :: rest => .next :: sourceBashrcs rest
  | .transfer (_ + 1) :: _ => [.death]
  | .other :: _ => [.failed, .death]

/-! ## the handler table of one `generic_handler` session (line level)

`generic_handler(additional_commands)` builds its table afresh on every call: the fixed commands, then
`handlers.update(additional_commands)`.  A processor object is pooled and serves many sessions with different additional
commands (metadata regeneration: `request_inherit`, `key`; phases: the IPC helpers, `request_bashrcs`, …); a command is
known in a session exactly when it is a fixed command or one of *this* session's additional commands. -/

/-- commands every session understands, with what they do there: `phases` ends the session, `prob`/`failed`/
`env_receiving_failed` raise UnhandledCommand, the notices and the sandbox summary are treated elsewhere in this file -/
def wPhases : Line := "phases".toList
def rejectWords : List Line := ["prob".toList, "env_receiving_failed".toList, "failed".toList]
def otherBaseWords : List Line := ["request_sandbox_summary".toList, wSigint, wSigterm, wDying]
def baseWords : List Line := wPhases :: rejectWords ++ otherBaseWords

inductive HEnd
  | finished            -- `phases …`: FinishedProcessing / ProcessorError, the session is over in an orderly way
  | unhandled (line : Line)   -- UnhandledCommand(line)
  | dry                 -- nothing left to read
  | outside             -- a notice or a summary request: see the notice matrix / message-level model
  deriving DecidableEq, Repr

/-- the dispatch loop of one session: the additional commands called (in order, by name) and how the session ends -/
def handlerSession (extra : List Line) : List Line → List Line × HEnd
  | [] => ([], .dry)
  | l :: rest =>
    let w := firstWord l
    if w ∈ extra then
      let r := handlerSession extra rest
      (w :: r.1, r.2)
    else if w == wPhases then ([], .finished)
    else if w ∈ otherBaseWords then ([], .outside)
    else ([], .unhandled l)

/-- one pooled processor serving sessions one after the other: each call builds its own table -/
def serveSessions (sessions : List (List Line × List Line)) : List (List Line × HEnd) :=
  sessions.map fun s => handlerSession s.1 s.2

/-! ## Python's view of a session (used to validate recorded traces) -/

inductive Obs | wrote (x : Cmd) | read (m : Msg)
  deriving DecidableEq, Repr

/-- is a sequence of writes and reads, as Python performs them, a behaviour of the protocol?  State: the mode the
daemon will be in once it has read everything written so far, and the replies not yet read. -/
def accept : BMode → List Reply → List Obs → Bool
  | _, _, [] => true
  | m, out, .wrote x :: tr =>
    match trans m x with
    | some (m', r) => accept m' (out ++ optList r) tr
    -- a command the reading loop does not know (or anything written to a dead daemon): the daemon dies / stays
    -- dead; what it had already answered may still be read, then its death notice
    | none => if m == .running || m == .exited then false else accept .dead out tr
  | _, _, .read .death :: _ => true
  | m, r :: out, .read (.reply r') :: tr => r == r' && accept m out tr
  | .running, [], .read .note :: tr => accept .running [] tr
  | .running, [], .read (.request k) :: tr => accept (.wait k) [] tr
  | .running, [], .read .phases :: tr => accept .main [] tr
  | _, _, _ => false

end Pkgcore.C35
