import Pkgcore.Model.C01
import Pkgcore.Generated.C44Tables
/-!
# C44 model — `pkgcore.util.parserestrict` (`parse_match`, `convert_glob`, `collect_ops`,
`parse_globbed_version`) as written, after the two `fix:` commits (restrictions collected so far are kept by
the globbed-version branch; slot globs next to a glob-free `cat/pkg`).

Strings are `List Char`.  The Python string primitives used by the code are re-implemented with their edge
behaviour: `s.rsplit("::", 1)`, `s.rsplit(c, 1)`, `s.partition(c)`, `s.strip()`, `sub in s`, the `while` loop
of `collect_ops`, `max(x for x in valid_ops if text.startswith(x))`.

Regular expressions are re-expressed structurally and differential-tested by the correspondence run:
* `valid_globbing = ^(?:[\w+-.]+|(?<!\*)\*)+$` ↦ `validGlob` (ASCII: word chars, `+ , - .`, and `*` never doubled);
* the `StrRegex("^" + re.escape(token).replace("\\*", ".*") + "$", match=True)` built by `convert_glob` ↦ the item
  list `compileGlob token` (escaped literal / `.*`) with the backtracking matcher `matchItems`;
* `cpv.isvalid_version_re` ↦ `lexVer`, which also produces the lexed version used by the C01 order.

The atom parser and atom matching are parameters (`AtomEnv`): `parse`, `isMatch`, and `isMatchNoCat` = the
conjunction of the atom's restrictions that do not look at the category (what
`collect_package_restrictions(atom.restrictions, attrs=("category",), invert=True)` keeps).
A restriction is compared only through what it matches; `AndRestriction(*rs)` with one element and the bare
element are therefore not distinguished.
-/
namespace Pkgcore.C44
open Pkgcore.C01 (Ver Suf)

abbrev Str := List Char

/-! ## Python string primitives -/

/-- `s.rsplit(c, 1)` for a single character: `some (before, after)` of the last `c`, `none` if `c not in s` -/
def rsplit1 (c : Char) : Str → Option (Str × Str)
  | [] => none
  | x :: xs =>
    match rsplit1 c xs with
    | some (a, b) => some (x :: a, b)
    | none => if x = c then some ([], xs) else none

/-- `s.startswith("::")`, returning the rest -/
def startsColons : Str → Option Str
  | ':' :: ':' :: r => some r
  | _ => none

/-- `s.rsplit("::", 1)`: split at the last occurrence of `::` -/
def rsplit2 : Str → Option (Str × Str)
  | [] => none
  | x :: xs =>
    match rsplit2 xs with
    | some (a, b) => some (x :: a, b)
    | none => (startsColons (x :: xs)).map fun r => ([], r)

/-- `s.partition(c)` without the separator: `(before, after)`; `(s, "")` if `c not in s` -/
def partition1 (c : Char) : Str → Str × Str
  | [] => ([], [])
  | x :: xs => if x = c then ([], xs) else ((x :: (partition1 c xs).1), (partition1 c xs).2)

def isWs (c : Char) : Bool := c = ' ' || c = '\t' || c = '\n' || c = '\r' || c = '\x0b' || c = '\x0c'

/-- `s.strip()` (ASCII white space) -/
def strip (s : Str) : Str := ((s.dropWhile isWs).reverse.dropWhile isWs).reverse

def isOpChar (c : Char) : Bool := c = '<' || c = '=' || c = '>' || c = '~'

/-- `collect_ops` -/
def collectOps (s : Str) : Str × Str := (s.takeWhile isOpChar, s.dropWhile isOpChar)

/-- `max(x for x in atom.valid_ops if text.startswith(x))` and the rest of the text
(`valid_ops` is the generated table; see `ops_table` in the property file) -/
def longestOp : Str → Option (Str × Str)
  | '<' :: '=' :: r => some (['<', '='], r)
  | '>' :: '=' :: r => some (['>', '='], r)
  | '<' :: r => some (['<'], r)
  | '>' :: r => some (['>'], r)
  | '=' :: r => some (['='], r)
  | '~' :: r => some (['~'], r)
  | _ => none

/-! ## globs -/

def isWordChar (c : Char) : Bool := c.isAlphanum || c = '_'

/-- the character class `[\w+-.]` (the range `+-.` is `+ , - .`) -/
def isGlobChar (c : Char) : Bool := isWordChar c || Generated.C44.globExtra.contains c

/-- `valid_globbing(token)` -/
def validGlob : Str → Bool
  | [] => false
  | s => s.all (fun c => isGlobChar c || c = '*') && !hasDoubleStar s
where
  hasDoubleStar : Str → Bool
    | '*' :: '*' :: _ => true
    | _ :: r => hasDoubleStar r
    | [] => false

inductive Item
  | lit (c : Char)     -- an escaped literal character
  | any                -- `.*`
  deriving DecidableEq, Repr

/-- the regular expression `"^" + re.escape(token).replace("\\*", ".*") + "$"` as items -/
def compileGlob (token : Str) : List Item := token.map fun c => if c = '*' then .any else .lit c

def tails : Str → List Str
  | [] => [[]]
  | x :: s => (x :: s) :: tails s

/-- `re.match` of the anchored item list against the whole string -/
def matchItems : List Item → Str → Bool
  | [], s => s.isEmpty
  | .lit c :: r, s =>
    match s with
    | [] => false
    | x :: s' => x = c && matchItems r s'
  | .any :: r, s => (tails s).any (matchItems r)

/-- `values.StrExactMatch(s)` / `values.StrRegex(pattern, match=True)` -/
inductive VMatch
  | exact (s : Str)
  | regex (items : List Item)
  deriving DecidableEq, Repr

def VMatch.test : VMatch → Str → Bool
  | .exact s, x => x = s
  | .regex items, x => matchItems items x

inductive Err
  | parse           -- ParseError
  deriving DecidableEq, Repr

/-- `convert_glob` -/
def convertGlob (token : Str) : Except Err (Option VMatch) :=
  if token = ['*'] ∨ token = [] then .ok none
  else if '*' ∉ token then .ok (some (.exact token))
  else if !validGlob token then .error .parse
  else .ok (some (.regex (compileGlob token)))

/-! ## versions: `cpv.isvalid_version_re` -/

def allDigits (s : Str) : Bool := s.all Char.isDigit

/-- split at every `c` (`s.split(c)`) -/
def splitOn (c : Char) : Str → List Str
  | [] => [[]]
  | x :: xs =>
    if x = c then [] :: splitOn c xs
    else match splitOn c xs with
      | [] => [[x]]
      | h :: t => (x :: h) :: t

def lexSuffix (s : Str) : Option (Suf × Str) :=
  let try_ (name : Str) (k : Suf) : Option (Suf × Str) :=
    if name.isPrefixOf s ∧ allDigits (s.drop name.length) then some (k, s.drop name.length) else none
  (try_ "pre".toList .pre).orElse fun _ =>
  (try_ "p".toList .p).orElse fun _ =>
  (try_ "beta".toList .beta).orElse fun _ =>
  (try_ "alpha".toList .alpha).orElse fun _ =>
  (try_ "rc".toList .rc)

/-- last dotted component: digits with an optional trailing ASCII letter -/
def lexLast (s : Str) : Option (Str × Option Char) :=
  match s.reverse with
  | [] => none
  | c :: r =>
    if c.isAlpha then (if r ≠ [] ∧ allDigits r then some (r.reverse, some c) else none)
    else if allDigits s then some (s, none) else none

def lexDotted (parts : List Str) : Option (List Str × Option Char) :=
  match parts with
  | [] => none
  | [l] => (lexLast l).map fun (d, c) => ([d], c)
  | p :: rest =>
    if p ≠ [] ∧ allDigits p then (lexDotted rest).map fun (ds, c) => (p :: ds, c) else none

/-- `isvalid_version_re.match(s)`, returning the lexed version -/
def lexVer (s : Str) : Option Ver :=
  match splitOn '_' s with
  | [] => none
  | d :: sufs =>
    match lexDotted (splitOn '.' d), sufs.mapM lexSuffix with
    | some (comps, letter), some ss => some ⟨comps, letter, ss⟩
    | _, _ => none

/-! ## restrictions -/

structure Pkg where
  category : Str
  package : Str
  ver : Ver
  rev : Str          -- digits of the revision, `""` when there is none
  slot : Str
  subslot : Str
  repo : Str         -- `pkg.repo.repo_id`
  deriving Repr

inductive Attr | category | package | slot | subslot
  deriving DecidableEq, Repr

def Pkg.get (p : Pkg) : Attr → Str
  | .category => p.category
  | .package => p.package
  | .slot => p.slot
  | .subslot => p.subslot

structure AtomEnv (A : Type) where
  parse : Str → Option A             -- `atom.atom(text)`; `none` = MalformedAtom
  isMatch : A → Pkg → Bool           -- `a.match(pkg)`
  isMatchNoCat : A → Pkg → Bool      -- all restrictions of `a` that do not read the category

inductive R (A : Type)
  | always                                   -- packages.AlwaysTrue
  | field (a : Attr) (m : VMatch)            -- PackageRestriction(attr, m); SlotDep / SubSlotDep are `exact`
  | repo (id : Str)                          -- restricts.RepositoryDep
  | version (op : Str) (v : Ver)             -- restricts.VersionMatch(op, ver)   (rev=None)
  | atom (a : A)
  | atomNoCat (a : A)
  | and (rs : List (R A))                    -- packages.AndRestriction(*rs)

/-- `_VersionMatch(op, ver, rev=None).match(pkg)`; `None` and `Revision("")` compare alike, both are revision 0 -/
def versionTest (op : Str) (v : Ver) (p : Pkg) : Bool :=
  match C01.opVals (String.ofList op) with
  | some (vals, droprev) => C01.versionMatch vals droprev false v (some []) p.ver (some p.rev)
  | none => false

mutual
def R.eval {A : Type} (env : AtomEnv A) (p : Pkg) : R A → Bool
  | .always => true
  | .field a m => m.test (p.get a)
  | .repo id => p.repo = id
  | .version op v => versionTest op v p
  | .atom a => env.isMatch a p
  | .atomNoCat a => env.isMatchNoCat a p
  | .and rs => R.evalAll env p rs
def R.evalAll {A : Type} (env : AtomEnv A) (p : Pkg) : List (R A) → Bool
  | [] => true
  | r :: rs => R.eval env p r && R.evalAll env p rs
end

/-! ## `parse_match` -/

/-- what the first part of `parse_match` leaves: the text in front of the slot/repository parts, the restrictions
collected so far, and whether the slot part contains a `*` -/
structure Prep (A : Type) where
  orig : Str
  text : Str
  restrictions : List (R A)
  globbedSlot : Bool

/-- `if slot: …` / `if subslot: …` -/
def slotRestr {A : Type} (attr : Attr) (s : Str) : Except Err (List (R A)) :=
  if s = [] then .ok []
  else if '*' ∈ s then
    match convertGlob s with
    | .error e => .error e
    | .ok none => .ok []
    | .ok (some m) => .ok [.field attr m]
  else .ok [.field attr (.exact s)]

/-- lines 92–118: strip, refuse `!`, split off `::repo` and `:slot/subslot` -/
def prep {A : Type} (s : Str) : Except Err (Prep A) :=
  let orig := strip s
  if '!' ∈ orig then .error .parse
  else
    let (text, r0) : Str × List (R A) := match rsplit2 orig with
      | some (t, repo) => (t, [.repo repo])
      | none => (orig, [])
    match rsplit1 ':' text with
    | none => .ok ⟨orig, text, r0, false⟩
    | some (t, slotTxt) =>
      let (slot, subslot) := partition1 '/' slotTxt
      match slotRestr (A := A) .slot slot with
      | .error e => .error e
      | .ok r1 =>
        match slotRestr (A := A) .subslot subslot with
        | .error e => .error e
        | .ok r2 => .ok ⟨orig, t, r0 ++ r1 ++ r2, decide ('*' ∈ slotTxt)⟩

/-- `if len(restrictions) == 1: return restrictions[0]; return AndRestriction(*restrictions)` -/
def mkAnd {A : Type} (rs : List (R A)) : R A :=
  match rs with
  | [r] => r
  | rs => .and rs

/-- the `len(tsplit) == 1` branch -/
def noCategory {A : Type} (env : AtomEnv A) (p : Prep A) : Except Err (R A) :=
  let (ops, text) := collectOps p.text
  if ops = [] ∧ '*' ∈ text then
    match convertGlob text with
    | .error e => .error e
    | .ok (some m) => .ok (mkAnd (p.restrictions ++ [.field .package m]))
    | .ok none => .ok (mkAnd (p.restrictions ++ [.always]))
  else if ops ≠ [] ∧ text.head? = some '*' then .error .parse
  else
    match env.parse (ops ++ "category/".toList ++ text) with
    | none => .error .parse
    | some a => .ok (.and (p.restrictions ++ [.atomNoCat a]))

/-- the code after the atom branch: `r = list(map(convert_glob, tsplit))` … -/
def generic {A : Type} (p : Prep A) (cat pkg : Str) : Except Err (R A) :=
  match convertGlob cat, convertGlob pkg with
  | .error e, _ => .error e
  | _, .error e => .error e
  | .ok none, .ok none => .ok (mkAnd (p.restrictions ++ [.always]))
  | .ok none, .ok (some m) => .ok (mkAnd (p.restrictions ++ [.field .package m]))
  | .ok (some c), .ok none => .ok (mkAnd (p.restrictions ++ [.field .category c]))
  | .ok (some c), .ok (some m) => .ok (mkAnd (p.restrictions ++ [.field .category c, .field .package m]))

/-- the first half of `parse_globbed_version`: operator, version, remaining chunk -/
def globbedSplit (text : Str) : Except Err (Str × Ver × Str) :=
  match longestOp text with
  | none => .error .parse              -- unreachable: `max()` of an empty sequence
  | some (op, rest) =>
    match rsplit1 '-' rest with
    | none => .error .parse            -- missing valid package version
    | some (chunk, vtxt) =>
      match lexVer vtxt with
      | none => .error .parse          -- invalid / globbed version
      | some v => .ok (op, v, chunk)

theorem rsplit1_length {c : Char} {s a b : Str} (h : rsplit1 c s = some (a, b)) : a.length < s.length := by
  induction s generalizing a b with
  | nil => simp [rsplit1] at h
  | cons x xs ih =>
    unfold rsplit1 at h
    cases hr : rsplit1 c xs with
    | some v =>
      obtain ⟨a', b'⟩ := v
      simp only [hr, Option.some.injEq, Prod.mk.injEq] at h
      have := ih hr
      rw [← h.1]; simp; omega
    | none =>
      simp only [hr] at h
      split at h
      · simp only [Option.some.injEq, Prod.mk.injEq] at h
        rw [← h.1]; simp
      · cases h

theorem rsplit2_length {s a b : Str} (h : rsplit2 s = some (a, b)) : a.length < s.length := by
  induction s generalizing a b with
  | nil => simp [rsplit2] at h
  | cons x xs ih =>
    unfold rsplit2 at h
    cases hr : rsplit2 xs with
    | some v =>
      obtain ⟨a', b'⟩ := v
      simp only [hr, Option.some.injEq, Prod.mk.injEq] at h
      have := ih hr
      rw [← h.1]; simp; omega
    | none =>
      simp only [hr] at h
      cases hs : startsColons (x :: xs) with
      | none => simp [hs] at h
      | some r =>
        simp only [hs, Option.map_some, Option.some.injEq, Prod.mk.injEq] at h
        rw [← h.1]; simp

theorem strip_length (s : Str) : (strip s).length ≤ s.length := by
  unfold strip
  rw [List.length_reverse]
  have h1 := (List.dropWhile_sublist isWs (l := (s.dropWhile isWs).reverse)).length_le
  have h2 := (List.dropWhile_sublist isWs (l := s)).length_le
  rw [List.length_reverse] at h1
  omega

theorem longestOp_length {s op rest : Str} (h : longestOp s = some (op, rest)) : rest.length < s.length := by
  unfold longestOp at h
  split at h <;> cases h <;> simp <;> omega

theorem prep_length {A : Type} {s : Str} {p : Prep A} (h : prep s = .ok p) : p.text.length ≤ s.length := by
  unfold prep at h
  simp only at h
  split at h
  · cases h
  · have hs := strip_length s
    cases h2 : rsplit2 (strip s) with
    | none =>
      simp only [h2] at h
      cases h1 : rsplit1 ':' (strip s) with
      | none => simp only [h1] at h; cases h; simpa using hs
      | some v =>
        obtain ⟨t, sl⟩ := v
        have := rsplit1_length h1
        simp only [h1] at h
        split at h
        · cases h
        · split at h
          · cases h
          · cases h; simp; omega
    | some w =>
      obtain ⟨t0, repo⟩ := w
      have h0 := rsplit2_length h2
      simp only [h2] at h
      cases h1 : rsplit1 ':' t0 with
      | none => simp only [h1] at h; cases h; simp; omega
      | some v =>
        obtain ⟨t, sl⟩ := v
        have := rsplit1_length h1
        simp only [h1] at h
        split at h
        · cases h
        · split at h
          · cases h
          · cases h; simp; omega

theorem globbedSplit_length {text op chunk : Str} {v : Ver} (h : globbedSplit text = .ok (op, v, chunk)) :
    chunk.length < text.length := by
  unfold globbedSplit at h
  cases h1 : longestOp text with
  | none => simp [h1] at h
  | some w =>
    obtain ⟨op', rest⟩ := w
    have l1 := longestOp_length h1
    simp only [h1] at h
    cases h2 : rsplit1 '-' rest with
    | none => simp [h2] at h
    | some u =>
      obtain ⟨c, vt⟩ := u
      have l2 := rsplit1_length h2
      simp only [h2] at h
      cases h3 : lexVer vt with
      | none => simp [h3] at h
      | some v' =>
        simp only [h3, Except.ok.injEq, Prod.mk.injEq] at h
        rw [← h.2.2]; omega

/-- `prep` together with the fact that makes the recursion of `parseMatch` terminate -/
def prepL {A : Type} (s : Str) : Except Err {p : Prep A // p.text.length ≤ s.length} :=
  match h : prep (A := A) s with
  | .ok p => .ok ⟨p, prep_length h⟩
  | .error e => .error e

def globbedSplitL (text : Str) : Except Err {r : Str × Ver × Str // r.2.2.length < text.length} :=
  match h : globbedSplit text with
  | .ok (op, v, chunk) => .ok ⟨(op, v, chunk), globbedSplit_length h⟩
  | .error e => .error e

/-- `parse_match(text)` -/
def parseMatch {A : Type} (env : AtomEnv A) (s : Str) : Except Err (R A) :=
  match prepL (A := A) s with
  | .error e => .error e
  | .ok ⟨p, _hp⟩ =>
    match rsplit1 '/' p.text with
    | none => noCategory env p
    | some (cat, pkg) =>
      if (p.text.head?.map isOpChar).getD false ∨ '*' ∉ p.text then
        -- possibly a valid atom object
        match env.parse p.orig with
        | some a => .ok (.atom a)
        | none =>
          if '*' ∈ p.text then
            -- support globbed targets with version restrictions
            match globbedSplitL p.text with
            | .error e => .error e
            | .ok ⟨(op, v, chunk), _hg⟩ =>
              match parseMatch env chunk with
              | .error e => .error e
              | .ok inner => .ok (.and (p.restrictions ++ [.version op v, inner]))
          else if !p.globbedSlot then .error .parse
          else
            -- slot globs are no atom syntax, what is left of the text can still be an atom
            match env.parse p.text with
            | some a => .ok (.and (p.restrictions ++ [.atom a]))
            | none => .error .parse
      else generic p cat pkg
termination_by s.length
decreasing_by
  simp only at _hg
  omega

end Pkgcore.C44
