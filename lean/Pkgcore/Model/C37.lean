import Pkgcore.Generated.C37Tables
/-!
# C37 model — `pkgcore.bugzilla.query` as written

* `Criterion`, `ChartGroup` (here the nested inductive `Chart`), `BugQuery` are the frozen dataclasses.
* A rendered query is a list of `(key, value)` parameters.  Keys are *structured tokens*: the lexing is the
  trivial `f"f{slot}"` / `f"v{slot}"` … formatting, so `Key.f 3` stands for `"f3"`; plain (simple) keys such as
  `id` are `Key.simple "id"`; `limit`, `offset`, `order` are their own tokens.  `Key.toString` gives the real
  text, which is what the correspondence run compares with the output of the real `params()`.  (Assumption
  recorded in the harness: simple keys come from the named constructors, so none of them looks like a chart key.)
* `render*` mirror `Criterion.render`, `ChartGroup.render`, `_render` with the slot threaded through.
* `mergeSimple` mirrors `_merge_simple` on an insertion-ordered dict (association list).
* `BugQuery.and` mirrors `__and__`, `anyOf` mirrors `any_of` (refusal = `none`), `paged` mirrors `paged`.
* `splitAxis`, `rebuild`, `batchLoop`, `batches` mirror `_split_axis`, `_rebuild_simple`/`_rebuild_chart`,
  `batches`.  The URL-encoded length of a string (`len(urllib.parse.quote_plus(s))`) is the parameter `el`;
  `urlLen` is `len(urllib.parse.urlencode(pairs))` in terms of it.
-/
namespace Pkgcore.C37

/-- parameter keys as tokens -/
inductive Key
  | simple (name : String)
  | f (slot : Nat) | o (slot : Nat) | v (slot : Nat) | j (slot : Nat) | n (slot : Nat)
  | limit | offset | order
  deriving DecidableEq, Repr

def Key.toString : Key → String
  | .simple s => s
  | .f k => s!"f{k}" | .o k => s!"o{k}" | .v k => s!"v{k}" | .j k => s!"j{k}" | .n k => s!"n{k}"
  | .limit => "limit" | .offset => "offset" | .order => "order"

abbrev Param := Key × String

/-- `Criterion` -/
structure Criterion where
  field : String
  op : String
  values : List String := []
  negate : Bool := false
  splittable : Bool := false
  deriving DecidableEq, Repr

/-- `Criterion | ChartGroup` -/
inductive Chart
  | crit (c : Criterion)
  | group (join : String) (children : List Chart)
  deriving Repr

/-- `Criterion.render(slot)` -/
def renderCrit (c : Criterion) (slot : Nat) : List Param :=
  [(.f slot, c.field), (.o slot, c.op)] ++ c.values.map (fun x => (Key.v slot, x)) ++
    (if c.negate then [(.n slot, "1")] else [])

mutual
/-- `_render(chart, slot)` -/
def renderChart : Chart → Nat → List Param × Nat
  | .crit c, slot => (renderCrit c slot, slot + 1)
  | .group join children, slot =>
    -- params = [(f"f{slot}", "OP"), (f"j{slot}", str(self.join))]; slot += 1; children …; (f"f{slot}", "CP")
    let r := renderCharts children (slot + 1)
    ([(.f slot, "OP"), (.j slot, join)] ++ r.1 ++ [(.f r.2, "CP")], r.2 + 1)
/-- `for child in …: rendered, slot = _render(child, slot); params.extend(rendered)` -/
def renderCharts : List Chart → Nat → List Param × Nat
  | [], slot => ([], slot)
  | t :: ts, slot =>
    let r := renderChart t slot
    let rs := renderCharts ts r.2
    (r.1 ++ rs.1, rs.2)
end

/-- the dataclass `BugQuery` -/
structure BugQuery where
  simple : List (String × List String) := []
  charts : List Chart := []
  limit : Option Int := none
  offset : Option Int := none
  order : Option String := none
  deriving Repr

/-- `for key, values in self.simple: params.extend((key, value) for value in values)` -/
def simpleParams (simple : List (String × List String)) : List Param :=
  simple.flatMap fun kv => kv.2.map fun x => (Key.simple kv.1, x)

/-- the trailing `limit` / `offset` / `order` parameters -/
def pagingParams (q : BugQuery) : List Param :=
  (match q.limit with | some l => [(Key.limit, toString l)] | none => []) ++
  (match q.offset with | some o => if o ≠ 0 then [(Key.offset, toString o)] else [] | none => []) ++
  (match q.order with | some o => [(Key.order, o)] | none => [])

/-- `BugQuery.params()` -/
def BugQuery.params (q : BugQuery) : List Param :=
  simpleParams q.simple ++ (renderCharts q.charts 1).1 ++ pagingParams q

/-! ## `&` -/

/-- `merged[key] = value` on an insertion-ordered dict -/
def dictSet (m : List (String × List String)) (key : String) (value : List String) : List (String × List String) :=
  match m with
  | [] => [(key, value)]
  | (k, x) :: rest => if k = key then (k, value) :: rest else (k, x) :: dictSet rest key value

/-- `merged.get(key, ())` -/
def dictGet (m : List (String × List String)) (key : String) : List String :=
  match m with
  | [] => []
  | (k, x) :: rest => if k = key then x else dictGet rest key

/-- `dict(left)` -/
def dictOf (l : List (String × List String)) : List (String × List String) :=
  l.foldl (fun m kv => dictSet m kv.1 kv.2) []

/-- `_merge_simple(left, right)` -/
def mergeSimple (left right : List (String × List String)) : List (String × List String) :=
  right.foldl (fun merged kv =>
    let existing := dictGet merged kv.1
    dictSet merged kv.1 (existing ++ kv.2.filter (fun x => !existing.contains x))) (dictOf left)

/-- `__and__` -/
def BugQuery.and (a b : BugQuery) : BugQuery :=
  { simple := mergeSimple a.simple b.simple
    charts := a.charts ++ b.charts
    limit := match b.limit with | none => a.limit | some l => some l
    offset := match b.offset with | none => a.offset | some o => some o
    -- `other.order or self.order`: the empty string is falsy
    order := match b.order with | some o => if o ≠ "" then some o else a.order | none => a.order }

/-- `BugQuery.any_of(*queries)`; `none` = `BugzillaUsageError` (a query with simple parameters) -/
def BugQuery.anyOf (qs : List BugQuery) : Option BugQuery :=
  if qs.all (fun q => q.simple.isEmpty) then
    some { charts := [.group Generated.C37.joinOr (qs.flatMap (·.charts))] }
  else none

/-- `paged(limit, offset)`; `none` = `BugzillaUsageError` -/
def BugQuery.paged (q : BugQuery) (limit offset : Int) : Option BugQuery :=
  if limit ≤ 0 then none else if offset < 0 then none else some { q with limit := some limit, offset := some offset }

/-! ## batching -/

/-- where the split values live -/
inductive Axis
  | simple (key : String)
  | chart (index : Nat)
  deriving DecidableEq, Repr

/-- one candidate of `_split_axis`: `(key, values, rebuild)` -/
structure Candidate where
  key : String
  values : List String
  axis : Axis
  deriving DecidableEq, Repr

/-- `len("".join(values))` -/
def joinedLen (values : List String) : Nat := (values.map String.length).sum

/-- the chart candidates: `enumerate(self.charts)` filtered by `isinstance(chart, Criterion) and chart.splittable` -/
def chartCandidates : List Chart → Nat → List Candidate
  | [], _ => []
  | .crit c :: ts, i => (if c.splittable then [⟨c.field, c.values, .chart i⟩] else []) ++ chartCandidates ts (i + 1)
  | .group _ _ :: ts, i => chartCandidates ts (i + 1)

/-- Python `max(candidates, key=…)`: the first candidate whose key is maximal -/
def maxBy (score : Candidate → Nat) : List Candidate → Option Candidate
  | [] => none
  | c :: cs => match maxBy score cs with
    | none => some c
    | some d => if score d > score c then some d else some c

/-- `_split_axis()` -/
def BugQuery.splitAxis (q : BugQuery) : Option Candidate :=
  maxBy (fun c => joinedLen c.values)
    ((q.simple.filter (fun kv => kv.1 = "id")).map (fun kv => ⟨kv.1, kv.2, .simple kv.1⟩)
      ++ chartCandidates q.charts 0)

/-- `charts[index] = charts[index].with_values(values)` -/
def setChartValues : List Chart → Nat → List String → List Chart
  | [], _, _ => []
  | .crit c :: ts, 0, values => .crit { c with values := values } :: ts
  | t :: ts, 0, _ => t :: ts            -- not reached: the index always points at a Criterion
  | t :: ts, i + 1, values => t :: setChartValues ts i values

/-- `_rebuild_simple(key, values)` / `_rebuild_chart(index, values)` -/
def BugQuery.rebuild (q : BugQuery) (axis : Axis) (values : List String) : BugQuery :=
  match axis with
  | .simple key =>
    { q with simple := q.simple.filter (fun kv => kv.1 ≠ key) ++ (if values.isEmpty then [] else [(key, values)]) }
  | .chart index => { q with charts := setChartValues q.charts index values }

/-- `len(urllib.parse.urlencode(pairs))`, given the quoted length `el` of each string: pairs are `k=v`
joined by `&` -/
def sumLen (el : String → Nat) (ps : List Param) : Nat :=
  (ps.map fun p => el p.1.toString + 1 + el p.2 + 1).sum

def urlLen (el : String → Nat) (ps : List Param) : Nat := sumLen el ps - 1

/-- the loop of `batches`: `cur`/`used` are `batch`/`used`; returns the yielded value lists -/
def batchLoop (cost : String → Nat) (budget : Int) : List String → List String → Nat → List (List String)
  | [], cur, _ => [cur]                                   -- final `yield rebuild(batch)`
  | v :: vs, cur, used =>
    if !cur.isEmpty ∧ ((used + cost v : Nat) : Int) > budget then
      cur :: batchLoop cost budget vs [v] (cost v)        -- yield; batch, used = [], 0; append; used += cost
    else
      batchLoop cost budget vs (cur ++ [v]) (used + cost v)

/-- `batches(base_length, max_length)` -/
def BugQuery.batches (el : String → Nat) (q : BugQuery) (base max : Int) : List BugQuery :=
  match q.splitAxis with
  | none => [q]
  | some c =>
    let empty := q.rebuild c.axis []
    let budget : Int := max - base - (urlLen el empty.params : Nat)
    let cost := fun (value : String) => el c.key + 1 + el value + 1   -- len(urlencode(((key, value),))) + 1
    (batchLoop cost budget c.values [] 0).map (q.rebuild c.axis)

end Pkgcore.C37
