import Pkgcore.Model.C09
/-!
# C10 model — `pkgcore.restrictions.required_use` as written

* A REQUIRED_USE structure is the `Dep` of C09 (what `DepSet.parse` builds with `_mk_required_use_node`): a leaf is a flag
  literal `a` / `!a`, groups are all-of / `||` / `^^` / `??`, `cond neg flag payload` is `flag? ( … )` / `!flag? ( … )`.
  (The parser never builds negated groups; `restrict.negate` of groups is therefore not modelled.)
* The closures built by `__to_single_constraint` are the function `evalSingle r on` (`on` = the flags that are True);
  `__to_multiple_constraint` is `toMultiple` (a list of (conditions, leaf constraint) pairs).
* `find_constraint_satisfaction` builds the variables and their domains (`domainOf`, in the order the code lists the
  values: the solver tries the *last* value first) and hands them to `snakeoil.constraints.Problem`, which lives
  outside the repository: it is a **contracted parameter** — `solve` enumerates the cartesian product of the domains
  (last value first) and keeps what satisfies every constraint.  The contract (same set of solutions, each once,
  same first solution) is what the correspondence run checks against the real solver.
-/
namespace Pkgcore.C10
open Pkgcore.C09

abbrev Tok := List Char

/-- `_mk_required_use_node(data)` read under an assignment: `!a` is true iff `a` is off -/
def lit (on : List Tok) (k : Tok) : Bool :=
  if k.head? = some '!' then !on.contains k.tail else on.contains k

mutual
/-- the constraint `__to_single_constraint(restrict)[0]` evaluated on `on` -/
def evalSingle (on : List Tok) : Dep → Bool
  | .leaf k _ => lit on k
  | .cond n f cs => (on.contains f == n) || allSingle on cs          -- `vals.issubset(on) == negate or all(children)`
  | .grp .and cs => allSingle on cs
  | .grp .or cs => anySingle on cs
  | .grp .justOne cs => countSingle on cs == 1                       -- `1 == sum(c(on) for c in children)`
  | .grp .atMostOne cs => decide (countSingle on cs ≤ 1)
def allSingle (on : List Tok) : List Dep → Bool
  | [] => true
  | c :: cs => evalSingle on c && allSingle on cs
def anySingle (on : List Tok) : List Dep → Bool
  | [] => false
  | c :: cs => evalSingle on c || anySingle on cs
def countSingle (on : List Tok) : List Dep → Nat
  | [] => 0
  | c :: cs => (if evalSingle on c then 1 else 0) + countSingle on cs
end

/-- one constraint yielded by `__to_multiple_constraint`: the conditions it is wrapped in (outermost first) and the
restriction compiled by `__to_single_constraint` -/
structure MC where
  conds : List (Bool × Tok)
  body : Dep

/-- `__condition(negate, {flag}, func)` applied along the chain -/
def MC.eval (on : List Tok) (c : MC) : Bool :=
  c.conds.any (fun e => on.contains e.2 == e.1) || evalSingle on c.body

mutual
/-- `__to_multiple_constraint(restrict)` -/
def toMultiple : Dep → List MC
  | .cond n f cs => (toMultipleL cs).map fun c => { c with conds := (n, f) :: c.conds }
  | .grp .and cs => toMultipleL cs
  | t => [⟨[], t⟩]
def toMultipleL : List Dep → List MC
  | [] => []
  | c :: cs => toMultiple c ++ toMultipleL cs
end

/-- `_compiled_constraints(restricts)` -/
def compiled (ts : List Dep) : List MC := toMultipleL ts

mutual
/-- `iter_flags` (the variables a constraint depends on) -/
def flagsOf : Dep → List Tok
  | .leaf k _ => [if k.head? = some '!' then k.tail else k]
  | .cond _ f cs => f :: flagsOfL cs
  | .grp _ cs => flagsOfL cs
def flagsOfL : List Dep → List Tok
  | [] => []
  | c :: cs => flagsOf c ++ flagsOfL cs
end

structure Inputs where
  iuse : List Tok
  forceT : List Tok
  forceF : List Tok
  preferT : List Tok

/-- the domain `add_variable` gives a flag, in the order of the code (the solver tries the last value first) -/
def domainOf (inp : Inputs) (v : Tok) : List Bool :=
  if !inp.iuse.contains v then [false]                    -- missing_vars ⇒ (False,)
  else if inp.forceF.contains v then [false]
  else if inp.forceT.contains v then [true]
  else if inp.preferT.contains v then [false, true]
  else [true, false]

/-- the keys of a dict: each name once -/
def dedup : List Tok → List Tok
  | [] => []
  | x :: xs => if xs.contains x then dedup xs else x :: dedup xs

/-- the variables of the problem: IUSE and the flags the constraints mention -/
def variables (inp : Inputs) (ts : List Dep) : List Tok :=
  dedup (inp.iuse ++ flagsOfL ts)

/-- every total assignment, the last value of each domain first -/
def product : List (Tok × List Bool) → List (List (Tok × Bool))
  | [] => [[]]
  | (v, dom) :: rest => dom.reverse.flatMap fun b => (product rest).map fun a => (v, b) :: a

def onOf (a : List (Tok × Bool)) : List Tok := (a.filter (·.2)).map (·.1)

/-- `list(find_constraint_satisfaction(restricts, iuse, force_true, force_false, prefer_true))` under the solver contract -/
def solve (inp : Inputs) (ts : List Dep) : List (List (Tok × Bool)) :=
  (product ((variables inp ts).map fun v => (v, domainOf inp v))).filter fun a =>
    (compiled ts).all fun c => c.eval (onOf a)

end Pkgcore.C10
