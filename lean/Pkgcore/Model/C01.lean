import Pkgcore.Generated.C01Tables
/-!
# C01 model — `pkgcore.ebuild.cpv.ver_cmp` and `_VersionMatch.match` as written

The model works on *lexed* versions: the result of `ver.split("_")`, `parts[0].split(".")`, the
trailing-letter extraction and `suffix_regexp.match` is the structure `Ver`.  The lexing itself
(`str.split`, the two regular expressions) is tied to the code by the correspondence run, which
renders random `Ver` values to strings and feeds the strings to the real `ver_cmp`.
String equality tests of the code (`ver1 == ver2`, `parts1[0] != parts2[0]`, `v1 == v2`,
`parts1[x] == parts2[x]`) become structural equality of the corresponding pieces (rendering is
injective on well-formed versions).
-/
namespace Pkgcore.C01

inductive Suf | alpha | beta | pre | rc | p
  deriving DecidableEq, Repr, Inhabited

def Suf.name : Suf → String
  | .alpha => "alpha" | .beta => "beta" | .pre => "pre" | .rc => "rc" | .p => "p"

/-- a lexed version: dotted components (digit strings), optional trailing letter, suffixes with their
(possibly empty) digit strings -/
structure Ver where
  comps : List (List Char)
  letter : Option Char
  sufs : List (Suf × List Char)
  deriving DecidableEq, Repr

/-- Python `int(s)` / `int("0" + s)` on an ASCII digit string -/
def natOfDigits (cs : List Char) : Nat := cs.foldl (fun n c => 10 * n + (c.toNat - 48)) 0

/-- `s.rstrip("0")` -/
def rstrip0 : List Char → List Char
  | [] => []
  | c :: cs => if rstrip0 cs = [] ∧ c = '0' then [] else c :: rstrip0 cs

/-- `suffix_value[name]` from the table generated out of `/repo` (missing ⇒ 0, excluded by `suffix_table_complete`) -/
def sufVal (s : Suf) : Int := (Generated.C01.suffixValue.lookup s.name).getD 0

/-- a revision as the code sees it: `None`, or a `Revision` whose text is a digit string (`""` allowed) -/
abbrev Rev := Option (List Char)

def Rev.truthy : Rev → Bool
  | none => false
  | some ds => !ds.isEmpty

/-- `snakeoil.compatibility.cmp` on revisions: `None` sorts below everything, `Revision`s compare as ints -/
def cmpRev : Rev → Rev → Ordering
  | none, none => .eq
  | none, some _ => .lt
  | some _, none => .gt
  | some a, some b => compare (natOfDigits a) (natOfDigits b)

/-- the `for idx, (v1, v2) in enumerate(zip(ver_parts1, ver_parts2))` loop -/
def compLoop : Nat → List (List Char) → List (List Char) → Ordering
  | _, [], _ => .eq
  | _, _ :: _, [] => .eq
  | i, a :: as, b :: bs =>
    if a = b then compLoop (i + 1) as bs
    else
      let c := if i = 0 ∨ (a.head? ≠ some '0' ∧ b.head? ≠ some '0')
               then compare (natOfDigits a) (natOfDigits b)
               else compare (rstrip0 a) (rstrip0 b)
      if c ≠ .eq then c else compLoop (i + 1) as bs

/-- `ord(letter)` or `-1` -/
def letterVal : Option Char → Int
  | none => -1
  | some c => c.toNat

/-- the suffix loop `for x in range(max(parts1_len, parts2_len))` -/
def sufLoop : List (Suf × List Char) → List (Suf × List Char) → Ordering
  | [], [] => .eq
  | [], (s, n) :: _ =>
    let val := sufVal s
    if val ≠ 0 then compare 0 val else compare (0 : Int) (natOfDigits n)
  | (s, n) :: _, [] =>
    let val := sufVal s
    if val ≠ 0 then compare val 0 else compare (natOfDigits n : Int) 0
  | x :: xs, y :: ys =>
    if x = y then sufLoop xs ys
    else
      let c := compare (sufVal x.1) (sufVal y.1)
      if c ≠ .eq then c
      else
        let c := compare (natOfDigits x.2) (natOfDigits y.2)
        if c ≠ .eq then c else sufLoop xs ys

/-- `ver_cmp(ver1, rev1, ver2, rev2)` -/
def verCmp (v1 : Ver) (r1 : Rev) (v2 : Ver) (r2 : Rev) : Ordering :=
  if v1 = v2 then
    if !r1.truthy && !r2.truthy then .eq else cmpRev r1 r2
  else
    let dotted : Ordering :=
      if v1.comps = v2.comps ∧ v1.letter = v2.letter then .eq
      else
        let c := compLoop 0 v1.comps v2.comps
        if c ≠ .eq then c
        else if v1.comps.length > v2.comps.length then .gt
        else if v2.comps.length > v1.comps.length then .lt
        else if letterVal v1.letter ≠ letterVal v2.letter then compare (letterVal v1.letter) (letterVal v2.letter)
        else .eq
    if dotted ≠ .eq then dotted
    else
      let s := sufLoop v1.sufs v2.sufs
      if s ≠ .eq then s else cmpRev r1 r2

def ordToInt : Ordering → Int
  | .lt => -1 | .eq => 0 | .gt => 1

/-- `_VersionMatch.match(pkg)`: operator given by its table entry `vals`; `droprev` for `~` -/
def versionMatch (vals : List Int) (droprev negate : Bool) (ver : Ver) (rev : Rev) (pkgVer : Ver) (pkgRev : Rev) : Bool :=
  let r1 : Rev := if droprev then none else rev
  let r2 : Rev := if droprev then none else pkgRev
  (vals.contains (ordToInt (verCmp pkgVer r2 ver r1))) != negate

/-- operator string → `vals` via the generated `_convert_str2op`; `~` ⇒ `(0,)` with droprev -/
def opVals (op : String) : Option (List Int × Bool) :=
  if op = "~" then some ([0], true)
  else (Generated.C01.str2op.lookup op).map (·, false)

end Pkgcore.C01
