import Pkgcore.Model.C01
/-!
# C15 model — plans as the resolver reports them, atom matching, and the certificate checker `planOk`

The 1000-line backtracking search of `pkgcore.resolver.plan.merge_plan` is not modelled.  What is modelled is
what a *reported* plan means:

* packages as the resolver sees them (`key`, version, slot, `repo.livefs`, the CNF of the five dependency
  classes as returned by `DepSet.cnf_solutions()`),
* `atom.match(pkg)` for the atoms the dependency strings of the generated repositories contain
  (key, optional version operator `< <= = >= > ~` decided by C01's `versionMatch`, optional slot); tied to the code by
  comparing it with the real `atom.match` on every atom × package of every generated case,
* the operations of `plan_state.iter_ops(True)` (`add`, `replace`, `remove`) and the package set they leave,
* the checker `planOk`, run by the harness on every plan the real resolver reports as successful.
-/
namespace Pkgcore.C15
open Pkgcore.C01

structure Atom where
  blocks : Bool
  key : Nat
  /-- version restriction: operator, version, revision -/
  vop : Option (String × Ver × Rev)
  slot : Option Nat
  deriving DecidableEq, Repr

structure Pkg where
  id : Nat
  key : Nat
  ver : Ver
  rev : Rev
  slot : Nat
  livefs : Bool
  /-- DEPEND, BDEPEND, RDEPEND, IDEPEND, PDEPEND: each a conjunction of any-of clauses -/
  deps : List (List (List Atom))
  deriving DecidableEq, Repr

/-- the version part of `atom.match` -/
def verOk (a : Atom) (p : Pkg) : Bool :=
  match a.vop with
  | none => true
  | some (op, v, r) =>
    match opVals op with
    | some (vals, droprev) => versionMatch vals droprev false v r p.ver p.rev
    | none => false

/-- `atom.match(pkg)` (the blocker prefix is not part of matching) -/
def atomMatch (a : Atom) (p : Pkg) : Bool :=
  a.key == p.key && verOk a p && (match a.slot with | none => true | some s => s == p.slot)

/-- operations of a reported plan, packages named by `id` -/
inductive Op where
  | add (p : Nat)
  | replace (old p : Nat)
  | remove (p : Nat)
  deriving DecidableEq, Repr

def find (U : List Pkg) (i : Nat) : Option Pkg := U.find? (·.id == i)

/-- one step of the checker's bookkeeping: `cur` = packages present, `merged` = packages the plan builds.
`none` = the plan is not well formed (unknown package, displacing something that is not installed and present,
building a package twice, "adding" an installed package that is not there). -/
def stepOp (U : List Pkg) (st : List Pkg × List Pkg) : Op → Option (List Pkg × List Pkg)
  | .add i =>
    (find U i).bind fun p =>
      if p.livefs then (if st.1.contains p then some st else none)
      else if st.1.contains p then none else some (st.1 ++ [p], st.2 ++ [p])
  | .replace o i =>
    (find U o).bind fun old => (find U i).bind fun p =>
      if old.livefs && st.1.contains old && !p.livefs && !(st.1.erase old).contains p
      then some ((st.1.erase old) ++ [p], st.2 ++ [p]) else none
  | .remove o =>
    (find U o).bind fun old => if old.livefs && st.1.contains old then some (st.1.erase old, st.2) else none

def runPlan (U : List Pkg) : List Pkg × List Pkg → List Op → Option (List Pkg × List Pkg)
  | st, [] => some st
  | st, o :: os => (stepOp U st o).bind fun st => runPlan U st os

/-- is the alternative `a` of a clause of `p` satisfied by the package set `F` -/
def altOk (F : List Pkg) (p : Pkg) (a : Atom) : Bool :=
  if a.blocks then !(F.any fun q => q.id != p.id && atomMatch a q) else F.any (atomMatch a)

def clauseOk (F : List Pkg) (p : Pkg) (cl : List Atom) : Bool := cl.any (altOk F p)

def pkgClosed (F : List Pkg) (p : Pkg) : Bool := p.deps.all fun cls => cls.all (clauseOk F p)

/-- no two packages of `F` share key and slot -/
def slotsOk : List Pkg → Bool
  | [] => true
  | p :: ps => !(ps.any fun q => q.key == p.key && q.slot == p.slot) && slotsOk ps

/-- ids identify packages -/
def idsOk : List Pkg → Bool
  | [] => true
  | p :: ps => !(ps.any fun q => q.id == p.id) && idsOk ps

/-- **the certificate checker** -/
def planOk (U : List Pkg) (targets : List Atom) (plan : List Op) : Bool :=
  idsOk U &&
  match runPlan U (U.filter (·.livefs), []) plan with
  | none => false
  | some (F, merged) =>
    targets.all (fun t => F.any (atomMatch t)) && slotsOk F && merged.all (pkgClosed F)

/-! diagnostics for the harness (what exactly is wrong with a rejected plan) -/

inductive Problem where
  | ids
  | malformed
  | target (i : Nat)
  | slot (p q : Nat)
  | clause (p cls cl : Nat)
  deriving DecidableEq, Repr

def slotProblems : List Pkg → List Problem
  | [] => []
  | p :: ps => ((ps.filter fun q => q.key == p.key && q.slot == p.slot).map fun q => .slot p.id q.id) ++ slotProblems ps

def enum {α} (l : List α) : List (Nat × α) := (List.range l.length).zip l

def problems (U : List Pkg) (targets : List Atom) (plan : List Op) : List Problem :=
  if !idsOk U then [.ids] else
  match runPlan U (U.filter (·.livefs), []) plan with
  | none => [.malformed]
  | some (F, merged) =>
    ((enum targets).filter fun t => !(F.any (atomMatch t.2))).map (fun t => .target t.1) ++ slotProblems F ++
    merged.flatMap fun p => (enum p.deps).flatMap fun cls => ((enum cls.2).filter fun cl => !clauseOk F p cl.2).map
      fun cl => .clause p.id cls.1 cl.1

/-! ## the order in which the alternatives of a clause are tried

`merge_plan.default_depset_reorder_strategy(depset, mode)` rewrites every clause of a dependency class before
`process_dependencies` walks it.  The search trusts it blindly: a clause for which no alternative could be added
is reported as `[clause]`, and an *empty* clause would be read by `process_dependencies_and_blocks` as "no
failure".  So the dependency closure of a reported plan rests on the reorder being a mere reordering. -/

/-- one clause: a single alternative is passed on as it is; otherwise the alternatives that are not blockers
and are already provided (`pref a` = `state.match_atom(a) or a in livefs_dbs`) come first, the others after
them, each group in clause order; without a preferred alternative the clause is passed on as it is -/
def reorderClause {α : Type} (blocks pref : α → Bool) (cl : List α) : List α :=
  if cl.length == 1 then cl else
  let vdb := cl.filter fun a => !blocks a && pref a
  if vdb.isEmpty then cl else vdb ++ cl.filter fun a => !(!blocks a && pref a)

def finalSet (U : List Pkg) (plan : List Op) : Option (List Nat × List Nat) :=
  (runPlan U (U.filter (·.livefs), []) plan).map fun st => (st.1.map (·.id), st.2.map (·.id))

end Pkgcore.C15
