/-!
# C06 model — `pkgcore.restrictions.boolean` as written (after the `fix:` for the negated any-of DNF)

A restriction tree is the inductive `R`.  Everything that is *not* a boolean node of
`boolean.py` (a `PackageRestriction`, a value matcher, `AlwaysBool`, a `Conditional`, …) is an opaque
`leaf id`; its `match` is the valuation `v id`.  `restriction.Negate(x)` is `neg x`.  An `atom`
(`ebuild/atom.py`) is an un-negated `AndRestriction` over its `.restrictions` whose normal forms are only
expanded when `full_solution_expansion` is set (`atom.iter_dnf_solutions`, `atom.cnf_solutions`).

Loops are structural recursions over the child list (early `return` = not recursing further),
`NotImplementedError` is `none`.  A normal form is a list of clauses, a clause a list of restriction
objects — the objects pkgcore puts in a clause are sub-trees kept opaque (`Negate(x)`, exactly-one-of /
at-most-one-of nodes, unexpanded atoms), hence `Clause := List R`.
-/
namespace Pkgcore.C06

inductive R where
  | leaf (id : Nat)
  | neg (r : R)
  | and (n : Bool) (cs : List R)
  | or (n : Bool) (cs : List R)
  | justOne (n : Bool) (cs : List R)
  | atMostOne (n : Bool) (cs : List R)
  | atom (cs : List R)
  deriving Repr, Inhabited

abbrev Clause := List R
abbrev Val := Nat → Bool

/-! ## `match` -/
mutual
/-- `x.match(pkg)`; `v` gives the result of every leaf's own `match` on that package -/
def mtch (v : Val) : R → Bool
  | .leaf i => v i
  | .neg r => !mtch v r                       -- restriction.Negate.match
  | .and n cs => andLoop v n cs               -- AndRestriction.match
  | .or n cs => orLoop v n cs                 -- OrRestriction.match
  | .justOne n cs =>                          -- JustOneRestriction.match
    if cs.isEmpty then !n                     --   if not self.restrictions: return not self.negate
    else justLoop v n false cs
  | .atMostOne n cs => amoLoop v n false cs   -- AtMostOneOfRestriction.match
  | .atom cs => andLoop v false cs            -- atom is an AndRestriction, class attribute negate = False
/-- `for rest in self.restrictions: if not rest.match(vals): return self.negate` / `return not self.negate` -/
def andLoop (v : Val) (n : Bool) : List R → Bool
  | [] => !n
  | r :: rs => if !mtch v r then n else andLoop v n rs
/-- `for rest in self.restrictions: if rest.match(vals): return not self.negate` / `return self.negate` -/
def orLoop (v : Val) (n : Bool) : List R → Bool
  | [] => n
  | r :: rs => if mtch v r then !n else orLoop v n rs
/-- the `armed` loop of `JustOneRestriction.match` -/
def justLoop (v : Val) (n : Bool) (armed : Bool) : List R → Bool
  | [] => if armed then !n else n
  | r :: rs => if mtch v r then (if armed then n else justLoop v n true rs) else justLoop v n armed rs
/-- the `armed` loop of `AtMostOneOfRestriction.match` -/
def amoLoop (v : Val) (n : Bool) (armed : Bool) : List R → Bool
  | [] => !n
  | r :: rs => if !mtch v r then amoLoop v n armed rs else (if armed then n else amoLoop v n true rs)
end

/-! ## disjunctive normal form -/

/-- `getattr(x, "dnf_solutions", None) is not None` (equivalently `iter_dnf_solutions`): true for every
`boolean.base` instance (and atoms), false for leaves and `Negate` wrappers -/
def hasDnf : R → Bool
  | .leaf _ => false
  | .neg _ => false
  | _ => true

/-- the nested generator `f(arg, *others)` of `AndRestriction.iter_dnf_solutions`:
`for node in arg: for node2 in f(*others): yield node + node2` (last level: `yield node`) -/
def cross : List (List Clause) → List Clause
  | [] => [[]]       -- not reachable from the code (`f` always gets `[hardreqs]`); neutral element
  | [d] => d
  | d :: ds => d.flatMap (fun c => (cross ds).map (fun c2 => c ++ c2))

mutual
/-- `x.dnf_solutions(full)` = `list(x.iter_dnf_solutions(full))`.  (For `leaf`/`neg`, which have no such
method, the value is what the callers substitute: the object itself as a one-literal clause.) -/
def dnf (full : Bool) : R → List Clause
  | .leaf i => [[.leaf i]]
  | .neg r => [[.neg r]]
  | .justOne n cs => [[.justOne n cs]]         -- boolean.base.dnf_solutions: [[self]]
  | .atMostOne n cs => [[.atMostOne n cs]]     -- AtMostOneOfRestriction.dnf_solutions: [[self]]
  | .atom cs =>
    if full then (if cs.isEmpty then [[]] else cross ([(andSplit full cs).1] :: (andSplit full cs).2))
    else [[.atom cs]]
  | .and true cs =>
    -- OrRestriction(*[Negate(x) for x in cs]).iter_dnf_solutions(): Negate has no iter_dnf_solutions
    if cs.isEmpty then [[]] else cs.map (fun x => [R.neg x])
  | .and false cs =>
    if cs.isEmpty then [[]]                    -- if not self.restrictions: yield []
    else cross ([(andSplit full cs).1] :: (andSplit full cs).2)
  | .or true cs =>
    -- AndRestriction(*[Negate(x) for x in cs]).iter_dnf_solutions(), then `return` (the fix):
    -- every Negate is a hard requirement, there are no optionals
    [cs.map R.neg]
  | .or false cs =>
    if cs.isEmpty then [[]]                    -- if not self.restrictions: yield []
    else dnfCat full cs
/-- the `hardreqs` / `optionals` loop of `AndRestriction.iter_dnf_solutions` -/
def andSplit (full : Bool) : List R → Clause × List (List Clause)
  | [] => ([], [])
  | x :: xs =>
    if hasDnf x then
      (match dnf full x with
       | [s] => (s ++ (andSplit full xs).1, (andSplit full xs).2)     -- len(s2) == 1: hardreqs.extend(s2[0])
       | s2 => ((andSplit full xs).1, s2 :: (andSplit full xs).2))    -- optionals.append(s2)
    else (x :: (andSplit full xs).1, (andSplit full xs).2)            -- hardreqs.append(x)
/-- the loop of `OrRestriction.iter_dnf_solutions`: `yield [x]` or `yield from x.iter_dnf_solutions(full)` -/
def dnfCat (full : Bool) : List R → List Clause
  | [] => []
  | x :: xs => (if hasDnf x then dnf full x else [[x]]) ++ dnfCat full xs
end

/-! ## conjunctive normal form -/

/-- the `dcnf` / `cnf` loop of `OrRestriction.cnf_solutions` (it uses the children's *DNF*) -/
def orSplit (full : Bool) : List R → Clause × List Clause
  | [] => ([], [])
  | x :: xs =>
    if hasDnf x then
      (match dnf full x with
       | [s] => ((orSplit full xs).1, s :: (orSplit full xs).2)       -- len(s2) == 1: cnf.extend(s2)
       | s2 => (s2.filterMap (fun y => match y with | [a] => some a | _ => none) ++ (orSplit full xs).1,
                s2.filter (fun y => match y with | [_] => false | _ => true) ++ (orSplit full xs).2))
    else (x :: (orSplit full xs).1, (orSplit full xs).2)              -- dcnf.append(x)

/-- `dcnf = [dcnf]; for andreq in cnf: dcnf = [y + [x] for x in andreq for y in dcnf]` -/
def distribute (acc : List Clause) : List Clause → List Clause
  | [] => acc
  | andreq :: rest => distribute (andreq.flatMap (fun x => acc.map (fun y => y ++ [x]))) rest

mutual
/-- `x.cnf_solutions(full)` / `list(x.iter_cnf_solutions(full))`; `none` = `NotImplementedError` -/
def cnf (full : Bool) : R → Option (List Clause)
  | .leaf i => some [[.leaf i]]
  | .neg r => some [[.neg r]]
  | .justOne n cs => some [[.justOne n cs]]
  | .atMostOne n cs => some [[.atMostOne n cs]]
  | .atom cs => if full then andCnf full cs else some [[.atom cs]]
  | .and true _ => none
  | .and false cs => andCnf full cs
  | .or true _ => none
  | .or false cs =>
    if cs.isEmpty then some []                 -- if not self.restrictions: return []
    else some (distribute [(orSplit full cs).1] (orSplit full cs).2)
/-- the loop of `AndRestriction.cnf_solutions`: `andreqs.append([x])` or `andreqs.extend(x.iter_cnf_solutions(full))` -/
def andCnf (full : Bool) : List R → Option (List Clause)
  | [] => some []
  | x :: xs =>
    match (if hasDnf x then cnf full x else some [[x]]), andCnf full xs with
    | some a, some b => some (a ++ b)
    | _, _ => none
end

end Pkgcore.C06
