/-!
# C17 model — `pkgcore.resolver.state.plan_state`, its operations and `pigeonholes.PigeonHoledSlots`

Mirror of the code *after* the four `fix:` commits recorded in `known_findings.d/C17.json`
(`vdb_filter` reference counted; `replace_op` honours `force`; a refused `replace_op` restores the
displaced package by force; `replace_op.revert` restores unconditionally; `pkg_choices` keyed by identity).

Objects (packages, blockers, choice points, forced restrictions) are natural-number identities; the
attributes the code reads from them (`pkg.key`, `pkg.slot`, `blocker.match(pkg)`) and the key a blocker is
registered under are the fields of `Univ`.  Equality of objects is identity (the harness builds objects
whose `==` is `is`).

The key of a blocker.  Every blocker operation object carries its own `key` (`blocker_base_op.__init__`:
the `key` argument of `add_blocker`, defaulting to `blocker.key`) and *all* limiter bookkeeping — `add_limiter`,
`remove_limiter`, `find_atom_matches`, in `apply` and in `revert` alike — is done under that key.  `blkKey b`
is this registration key (a function of the blocker: the resolver passes the key of the atom the blocker was
derived from).  It is in general NOT the blocker's own `.key` attribute: `insert_blockers` registers the
mangled blocker of a virtual, an `AndRestriction` that has no `.key` at all, under the key of the original
atom.  The model never mentions the own `.key`; the harness hands the code blockers whose `.key` differs
from the registration key (or is missing), so code that falls back to `blocker.key` anywhere is exposed.

Python containers:
* `slot_dict : key → [pkg]` and `limiters : key → [atom]` are flat insertion-ordered lists; the per-key
  list is the sub-list with that key (appending / filtering a flat list and then restricting to a key is
  the same as appending / filtering the per-key list; empty per-key lists are deleted by the code and are
  unobservable: every reader uses `.get(key, ())` or raises `KeyError` exactly when the list would be empty).
* `rev_blockers : choices → [(blocker, key)]` is a flat list of `(choices, blocker)` pairs (`key` is an
  attribute of the blocker); `l.remove(x)` = erase the first occurrence.
* `RefCountingSet` (`blockers_refcnt`, `forced_restrictions`, `vdb_filter`) is a list whose multiplicities
  are the reference counts: `add` appends, `remove` erases one occurrence (raises when absent), `in` is membership.
* `pkg_choices` is an association list; assignment shadows, `del` removes (raises when absent).
* a Python exception is `none`.
-/
namespace Pkgcore.C17

/-- attributes of the objects a history talks about -/
structure Univ where
  pkgKey : Nat → Nat
  pkgSlot : Nat → Nat
  /-- the key the blocker is registered under (`op.key`), see the module comment -/
  blkKey : Nat → Nat
  /-- `blocker.match(pkg)` (only ever evaluated when the keys agree) -/
  blkMatch : Nat → Nat → Bool

/-- entries of `plan_state.plan` (the operation objects with the fields their `revert` reads) -/
inductive Entry where
  | add (c p : Nat) (force : Bool)
  | hardref (r : Nat)
  | backref (c p : Nat)
  | remove (c p : Nat)
  | replace (c p : Nat) (force : Bool) (old oldc : Nat)
  | incref (c b : Nat)
  | decref (c b : Nat)
  deriving DecidableEq, Repr

/-- a conflict reported by `fill_slotting`: a limiter (blocker) or a package in the same slot -/
inductive Conf where
  | blk (b : Nat)
  | pkg (p : Nat)
  deriving DecidableEq, Repr

structure State where
  slots : List Nat := []
  limiters : List Nat := []
  choices : List (Nat × Nat) := []
  revb : List (Nat × Nat) := []
  refcnt : List Nat := []
  vdb : List Nat := []
  forced : List Nat := []
  plan : List Entry := []
  deriving DecidableEq, Repr

def init : State := {}

/-! ## PigeonHoledSlots -/

def sameSlot (U : Univ) (p x : Nat) : Bool := U.pkgKey x == U.pkgKey p && U.pkgSlot x == U.pkgSlot p

/-- `[x for x in slot_dict.get(key, ()) if x.slot == dslot]` -/
def occupants (U : Univ) (s : State) (p : Nat) : List Nat := s.slots.filter (sameSlot U p)

def limits (U : Univ) (p b : Nat) : Bool := U.blkKey b == U.pkgKey p && U.blkMatch b p

/-- `check_limiters(obj)` -/
def checkLimiters (U : Univ) (s : State) (p : Nat) : List Nat := s.limiters.filter (limits U p)

def conflicts (U : Univ) (s : State) (p : Nat) : List Conf :=
  (checkLimiters U s p).map .blk ++ (occupants U s p).map .pkg

/-- `fill_slotting(obj, force)` -/
def fillSlotting (U : Univ) (s : State) (p : Nat) (force : Bool) : State × List Conf :=
  let l := conflicts U s p
  (if l.isEmpty || force then { s with slots := s.slots ++ [p] } else s, l)

/-- `remove_slotting(obj)`: drops every entry identical to `obj`; `KeyError` when there is none -/
def removeSlotting (s : State) (p : Nat) : Option State :=
  if p ∈ s.slots then some { s with slots := s.slots.filter (· != p) } else none

/-- `get_conflicting_slot(pkg)` -/
def conflictingSlot (U : Univ) (s : State) (p : Nat) : Option Nat := (occupants U s p).head?

def matchedBy (U : Univ) (b x : Nat) : Bool := U.pkgKey x == U.blkKey b && U.blkMatch b x

/-- `find_atom_matches(atom, key)` -/
def findMatches (U : Univ) (s : State) (b : Nat) : List Nat := s.slots.filter (matchedBy U b)

/-- `add_limiter(atom, key)` -/
def addLimiter (U : Univ) (s : State) (b : Nat) : State × List Nat :=
  ({ s with limiters := s.limiters ++ [b] }, findMatches U s b)

/-- `remove_limiter(atom, key)` -/
def removeLimiter (s : State) (b : Nat) : Option State :=
  if b ∈ s.limiters then some { s with limiters := s.limiters.filter (· != b) } else none

/-! ## dictionaries and reference counted sets of `plan_state` -/

def setChoice (s : State) (p c : Nat) : State := { s with choices := (p, c) :: s.choices }

def delChoice (s : State) (p : Nat) : Option State :=
  if (s.choices.lookup p).isSome then some { s with choices := s.choices.filter (·.1 != p) } else none

def vdbRemove (s : State) (p : Nat) : Option State :=
  if p ∈ s.vdb then some { s with vdb := s.vdb.erase p } else none

def push (s : State) (e : Entry) : State := { s with plan := s.plan ++ [e] }

/-! ## blocker operations -/

/-- `incref_forward_block_op.apply` (`add_limiter` inlined: append the limiter, return `find_atom_matches`) -/
def increfApply (U : Univ) (s : State) (c b : Nat) : State × List Nat :=
  ({ push s (.incref c b) with
     limiters := if b ∈ s.refcnt then s.limiters else (addLimiter U s b).1.limiters
     revb := s.revb ++ [(c, b)]
     refcnt := s.refcnt ++ [b] },
   -- an already active blocker reports its current matches too (fix 0a3cc5d: packages can have been forced in past it)
   if b ∈ s.refcnt then findMatches U s b else (addLimiter U s b).2)

/-- `incref_forward_block_op.revert` -/
def increfRevert (s : State) (c b : Nat) : Option State :=
  if (c, b) ∈ s.revb then
    let s := { s with revb := s.revb.erase (c, b) }
    if b ∈ s.refcnt then
      let s := { s with refcnt := s.refcnt.erase b }
      if b ∈ s.refcnt then some s else removeLimiter s b
    else none
  else none

/-- `decref_forward_block_op.apply` -/
def decrefApply (s : State) (c b : Nat) : Option State :=
  let s := push s (.decref c b)
  if b ∈ s.refcnt then
    let s := { s with refcnt := s.refcnt.erase b }
    let s? := if b ∈ s.refcnt then some s else removeLimiter s b
    s?.bind fun s => if (c, b) ∈ s.revb then some { s with revb := s.revb.erase (c, b) } else none
  else none

/-- `decref_forward_block_op.revert` -/
def decrefRevert (U : Univ) (s : State) (c b : Nat) : State :=
  { s with
    revb := s.revb ++ [(c, b)]
    limiters := if b ∈ s.refcnt then s.limiters else (addLimiter U s b).1.limiters
    refcnt := s.refcnt ++ [b] }

/-- the loop of `_remove_pkg_blockers` over a copy of `rev_blockers.get(choices, ())` -/
def decrefAll (s : State) (c : Nat) : List Nat → Option State
  | [] => some s
  | b :: bs => (decrefApply s c b).bind fun s => decrefAll s c bs

def blockersOf (s : State) (c : Nat) : List Nat := (s.revb.filter (·.1 == c)).map (·.2)

/-- `plan_state._remove_pkg_blockers(choices)` -/
def removePkgBlockers (s : State) (c : Nat) : Option State := decrefAll s c (blockersOf s c)

/-! ## revert of each logged operation, `backtrack` -/

def revertEntry (U : Univ) (s : State) : Entry → Option State
  | .add _ p _ => (removeSlotting s p).bind fun s => delChoice s p
  | .hardref r => if r ∈ s.forced then some { s with forced := s.forced.erase r } else none
  | .backref _ _ => some s
  | .remove c p => vdbRemove (setChoice (fillSlotting U s p true).1 p c) p
  | .replace _ p _ old oldc =>
    (removeSlotting s p).bind fun s =>
      (delChoice (fillSlotting U s old true).1 p).bind fun s => vdbRemove (setChoice s old oldc) old
  | .incref c b => increfRevert s c b
  | .decref c b => some (decrefRevert U s c b)

def revertAll (U : Univ) (s : State) : List Entry → Option State
  | [] => some s
  | e :: es => (revertEntry U s e).bind fun s => revertAll U s es

/-- `plan_state.backtrack(state_pos)` -/
def backtrack (U : Univ) (s : State) (k : Nat) : Option State :=
  if k ≤ s.plan.length then
    (revertAll U s (s.plan.drop k).reverse).map fun s' => { s' with plan := s'.plan.take k }
  else none

/-! ## apply of each operation -/

/-- the operations a caller can construct and `apply` -/
inductive Cmd where
  | add (c p : Nat) (force : Bool)
  | hardref (r : Nat)
  | backref (c p : Nat)
  | remove (c p : Nat)
  | replace (c p : Nat) (force : Bool)
  | incref (c b : Nat)
  | decref (c b : Nat)
  deriving DecidableEq, Repr

/-- `op.apply(plan)`: the new state and the returned conflict list (`None` and `[]` are both `[]`) -/
def applyCmd (U : Univ) (s : State) : Cmd → Option (State × List Conf)
  | .add c p force =>
    let r := fillSlotting U s p force
    if !r.2.isEmpty && !force then some (r.1, r.2)
    else some (push (setChoice r.1 p c) (.add c p force), [])
  | .hardref r => some ({ push s (.hardref r) with forced := s.forced ++ [r] }, [])
  | .backref c p => some (push s (.backref c p), [])
  | .remove c p =>
    (removeSlotting s p).bind fun s =>
    (removePkgBlockers s c).bind fun s =>
    (delChoice s p).bind fun s =>
    some ({ push s (.remove c p) with vdb := s.vdb ++ [p] }, [])
  | .replace c p force =>
    let k := s.plan.length
    (conflictingSlot U s p).bind fun old =>
    (removeSlotting s old).bind fun s =>
    (s.choices.lookup old).bind fun oldc =>
    (removePkgBlockers s oldc).bind fun s =>
    let r := fillSlotting U s p force
    if !r.2.isEmpty && !force then
      (backtrack U (fillSlotting U r.1 old true).1 k).map fun s => (s, r.2)
    else
      (delChoice r.1 old).bind fun s =>
      some ({ push (setChoice s p c) (.replace c p force old oldc) with vdb := s.vdb ++ [old] }, [])
  | .incref c b => let r := increfApply U s c b; some (r.1, r.2.map .pkg)
  | .decref c b => (decrefApply s c b).map fun s => (s, [])

/-- what the caller has to respect for an operation to be undoable (the code does not check it):
* a forced `add_op` is for a package object that is not slotted yet,
* `remove_op(choices, pkg)` names the choice point the package was added with,
* `replace_op` is used on a slot holding exactly one package. -/
def applicable (U : Univ) (s : State) : Cmd → Bool
  | .add _ p force => !force || !s.slots.contains p
  | .remove c p => s.choices.lookup p == some c
  | .replace _ p _ => (occupants U s p).length == 1
  | _ => true

end Pkgcore.C17
