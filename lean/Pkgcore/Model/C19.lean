import Pkgcore.Model.C18
/-!
# C19 — crash points of a merge

The model of the code is the one of C18 (`mergeContents`, which logs every system call).  A crash point is a
prefix of that log: `crashState env pre log k` is the file system after the first `k` calls (a failing call
changes nothing), `k = 0 … log.length`.
-/
namespace Pkgcore.C19
open Pkgcore.C18

def crashState (env : Env) (pre : Fs) (log : List (Op × Option Errno)) (k : Nat) : Fs :=
  run env pre ((log.map Prod.fst).take k)

/-- all crash points of a logged run, in order -/
def crashStates (env : Env) (pre : Fs) (log : List (Op × Option Errno)) : List Fs :=
  (List.range (log.length + 1)).map (crashState env pre log)

end Pkgcore.C19
