import Pkgcore.Model.C01
/-!
# C01 — lexing of version strings (the part of `ver_cmp`/`isvalid_version_re` that `Model/C01.lean` takes as given)

`lexVer` mirrors: `parts = ver.split("_")`, `ver_parts = parts[0].split(".")`, the trailing-letter
extraction `ver_parts[-1][-1].isalpha()`, `suffix_regexp = ^(alpha|beta|rc|pre|p)(\d*)$` on every further
part, with the acceptance conditions of `isvalid_version_re` (every component a non-empty digit string).
ASCII only: Python's `\d`/`isalpha` also accept non-ASCII digits/letters and `$` accepts one trailing
newline; the correspondence generates ASCII without newlines and says so.
-/
namespace Pkgcore.C01

/-- Python `s.split(sep)` for a one-character separator -/
def splitOn (sep : Char) : List Char → List (List Char)
  | [] => [[]]
  | c :: cs =>
    if c = sep then [] :: splitOn sep cs
    else match splitOn sep cs with
      | [] => [[c]]
      | h :: t => (c :: h) :: t

/-- `sep.join(parts)` -/
def joinSep (sep : Char) : List (List Char) → List Char
  | [] => []
  | [p] => p
  | p :: q :: t => p ++ sep :: joinSep sep (q :: t)

def isAsciiAlpha (c : Char) : Bool := c.isAlpha
def allDigits (cs : List Char) : Bool := cs.all Char.isDigit

def sufNames : List Suf := [.alpha, .beta, .rc, .pre, .p]

/-- `suffix_regexp.match(part)`: the first alternative whose name is a prefix and whose rest is all digits -/
def lexSuf (part : List Char) : Option (Suf × List Char) :=
  sufNames.findSome? fun s =>
    let n := s.name.toList
    if n.isPrefixOf part ∧ allDigits (part.drop n.length) then some (s, part.drop n.length) else none

/-- split the dotted part into digit components and the optional trailing letter -/
def lexDotted (d : List Char) : Option (List (List Char) × Option Char) :=
  let cs := splitOn '.' d
  match cs.getLast? with
  | none => none
  | some last =>
    let (lastDigits, letter) : List Char × Option Char :=
      match last.getLast? with
      | some c => if isAsciiAlpha c then (last.dropLast, some c) else (last, none)
      | none => (last, none)
    let comps := cs.dropLast ++ [lastDigits]
    if comps.all (fun c => !c.isEmpty && allDigits c) then some (comps, letter) else none

def lexVer (s : List Char) : Option Ver :=
  match splitOn '_' s with
  | [] => none
  | d :: rest =>
    match lexDotted d, rest.mapM lexSuf with
    | some (comps, letter), some sufs => some ⟨comps, letter, sufs⟩
    | _, _ => none

def renderSuf (x : Suf × List Char) : List Char := x.1.name.toList ++ x.2
def renderDotted (comps : List (List Char)) (letter : Option Char) : List Char :=
  joinSep '.' comps ++ letter.toList
/-- the string a lexed version was read from -/
def render (v : Ver) : List Char := joinSep '_' (renderDotted v.comps v.letter :: v.sufs.map renderSuf)

/-- string level `ver_cmp`: lex both sides, then `verCmp` (`none` = one side is not a valid version) -/
def verCmpStr (s1 : List Char) (r1 : Rev) (s2 : List Char) (r2 : Rev) : Option Ordering :=
  match lexVer s1, lexVer s2 with
  | some v1, some v2 => some (verCmp v1 r1 v2 r2)
  | _, _ => none

end Pkgcore.C01
