import Pkgcore.Model.C02
/-!
# C04 model — `atom.match(pkg)` as written

`atom.match` is `boolean.AndRestriction.match` over `atom.restrictions` (atom.py): `PackageDep`,
`CategoryDep`, optional `RepositoryDep`, the version restriction (`restricts.VersionMatch`, or
`restricts.VersionGlobMatch` → `cpv.ver_glob_match` for `=*`), `SlotDep`/`SubSlotDep`, and the USE
restrictions built by `restricts._parse_nontransitive_use` (`StaticUseDep`, `UseDepDefault` with
`_UseDepDefaultContainment.match`, `values.ContainmentMatch.match` on sets).

Modelled after the `fix:` commits in `known_findings.d/C04.json`.  Conventions:
* versions are C01's lexed `Ver`, `ver_cmp`/`_VersionMatch.match` are C01's `verCmp`/`versionMatch`,
  `cpv.ver_hash_key` is C02's `verHashKey`;
* a USE dep token (`x`, `-x`, `x(+)`, `-x(-)`) is the lexed triple `UseDep` — the lexing in
  `_parse_nontransitive_use` is `token[-1] == ")"`, `token[-2] == "+"`, `token[:-3]`, `token[0] == "-"`;
* Python sets (`pkg.use`, `pkg.iuse_stripped`, `ContainmentMatch.vals`) are lists used through membership only;
* the package is a record of the attributes the restrictions pull; every attribute is present (a missing
  attribute makes `PackageRestriction.match` return `negate`, i.e. no match — not modelled).
Conditional USE deps (`x?`, `x=`) belong to `transitive_use_atom`, whose `restrictions` are `Conditional`s over the
*parent's* USE; they are resolved by `evaluate_conditionals` before matching and are outside this model.
-/
namespace Pkgcore.C04
open Pkgcore.C01 Pkgcore.C02

/-- one non-transitive USE dep: `flag`, `-flag`, with an optional `(+)`/`(-)` default -/
structure UseDep where
  flag : Str
  on : Bool
  dflt : Option Bool
  deriving DecidableEq, Repr

structure Atom where
  cat : Str
  pkg : Str
  vop : Option (Op × Ver × Str)
  negate : Bool                 -- negate_vers
  blocks : Bool
  strong : Bool
  slot : Option Str
  subslot : Option Str
  slotOp : Option Str
  repo : Option Str
  use : Option (List UseDep)
  deriving Repr

structure Pkg where
  cat : Str
  pkg : Str
  ver : Ver
  rev : Str                     -- text of the `Revision`
  slot : Str
  subslot : Str
  repo : Str                    -- `pkg.repo.repo_id`
  iuse : List Str               -- `iuse_stripped`
  use : List Str
  deriving Repr

/-- `values.StrExactMatch(exact).match(value)` (case sensitive, not negated) -/
def strExact (exact value : Str) : Bool := exact == value

/-! ## versions -/

/-- `cpv.ver_glob_match(glob_ver, glob_rev, ver, rev)` -/
def verGlobMatch (gv : Ver) (gr : Str) (v : Ver) (r : Str) : Bool :=
  let g := verHashKey gv gr
  let k := verHashKey v r
  if g.rev ≠ 0 then
    g.nums == k.nums && g.letter == k.letter && g.sufs == k.sufs && g.rev == k.rev
  else if g.sufs ≠ [] then
    g.nums == k.nums && g.letter == k.letter && k.sufs.take g.sufs.length == g.sufs
  else if g.letter ≠ none then
    g.nums == k.nums && g.letter == k.letter
  else
    k.nums.take g.nums.length == g.nums

/-- C01's operator table lookup for the six comparison operators; `none` for `=*` -/
def opText : Op → String
  | .lt => "<" | .le => "<=" | .eq => "=" | .glob => "=*" | .ge => ">=" | .gt => ">" | .tilde => "~"

/-- the version restriction appended by `atom.restrictions` when `fullver is not None` -/
def versionRestr (op : Op) (v : Ver) (r : Str) (negate : Bool) (p : Pkg) : Bool :=
  match op with
  | .glob => verGlobMatch v r p.ver p.rev            -- VersionGlobMatch ignores negate_vers
  | _ =>
    match opVals (opText op) with
    | some (vals, droprev) => versionMatch vals droprev negate v (some r) p.ver (some p.rev)
    | none => false                                   -- InvalidVersion; unreachable (see `opVals_some`)

/-! ## USE deps -/

/-- `values.ContainmentMatch(vals, match_all=all, negate=negate).match(val)` for a set `val` -/
def containment (vals : List Str) (all negate : Bool) (val : List Str) : Bool :=
  if all then (vals.all fun f => val.contains f) != negate
  else (vals.all fun f => !val.contains f) == negate

/-- `_UseDepDefaultContainment(if_missing, vals, negate).match((iuse_stripped, use))` -/
def useDefaultContainment (ifMissing : Bool) (vals : List Str) (negate : Bool) (iuse use : List Str) : Bool :=
  let all := !negate
  if vals.all (fun f => iuse.contains f) then containment vals all negate use
  else if ifMissing == negate then false
  else
    let reduced := vals.filter fun f => iuse.contains f
    if !reduced.isEmpty then containment reduced all negate use else true

/-- the three `[false_use, true_use]` buckets filled by the loop of `_parse_nontransitive_use` -/
def bucket (deps : List UseDep) (d : Option Bool) (on : Bool) : List Str :=
  (deps.filter fun u => u.dflt == d && u.on == on).map (·.flag)

/-- `StaticUseDep(false_use, true_use).match(pkg)`: the `AndRestriction`/single/`AlwaysTrue` value
restriction applied to `pkg.use` -/
def staticUseDep (falseUse trueUse : List Str) (p : Pkg) : Bool :=
  let v := (if falseUse.isEmpty then [] else [containment falseUse false true p.use]) ++
           (if trueUse.isEmpty then [] else [containment trueUse true false p.use])
  v.all id

/-- `UseDepDefault(if_missing, false_use, true_use).match(pkg)` on `(pkg.iuse_stripped, pkg.use)` -/
def useDepDefault (ifMissing : Bool) (falseUse trueUse : List Str) (p : Pkg) : Bool :=
  let v := (if falseUse.isEmpty then [] else [useDefaultContainment ifMissing falseUse true p.iuse p.use]) ++
           (if trueUse.isEmpty then [] else [useDefaultContainment ifMissing trueUse false p.iuse p.use])
  v.all id

/-- the restrictions returned by `_parse_nontransitive_use(self.use)`, matched in order -/
def useRestrs (deps : List UseDep) (p : Pkg) : Bool :=
  let nF := bucket deps none false
  let nT := bucket deps none true
  let offF := bucket deps (some false) false
  let offT := bucket deps (some false) true
  let onF := bucket deps (some true) false
  let onT := bucket deps (some true) true
  let r := (if nF.isEmpty && nT.isEmpty then [] else [staticUseDep nF nT p]) ++
           (if offF.isEmpty && offT.isEmpty then [] else [useDepDefault false offF offT p]) ++
           (if onF.isEmpty && onT.isEmpty then [] else [useDepDefault true onF onT p])
  r.all id

/-! ## `atom.restrictions` and `atom.match` -/

def restrictions (a : Atom) : List (Pkg → Bool) :=
  (match a.repo with | some r => [fun (p : Pkg) => strExact r p.repo] | none => []) ++
  [fun (p : Pkg) => strExact a.pkg p.pkg, fun (p : Pkg) => strExact a.cat p.cat] ++
  (match a.vop with | some (op, v, r) => [versionRestr op v r a.negate] | none => []) ++
  (match a.slot with
   | some s => (fun (p : Pkg) => strExact s p.slot) ::
       (match a.subslot with | some ss => [fun (p : Pkg) => strExact ss p.subslot] | none => [])
   | none => []) ++
  (match a.use with | some deps => [useRestrs deps] | none => [])

/-- `AndRestriction.match` with `negate = False` -/
def atomMatch (a : Atom) (p : Pkg) : Bool := (restrictions a).all fun r => r p

end Pkgcore.C04
