import Pkgcore.Generated.C24Tables
/-!
# C24 model — `pkgcore.vdb.contents.ContentsFile` (`_write`, `_iter_contents`, flush through
`snakeoil.fileutils.AtomicWriteFile`) as written, after the two `fix:` commits (only the line terminator
is stripped from a line; a `dev` entry is always constructible).

Strings are `List Char` (Python `str`; the file is UTF-8 text, the codec is trusted).  `str.split(" ")`,
`" ".join`, `posixpath.normpath`, `"%x" % n`/`rjust`, `str(int)`, `int(s)`, `int(s, 16)` are the
functions `splitOn`, `joinWith`, `normpath`, `hexPad`, `renderInt`, `parseInt`, `parseHex` below
(number parsing accepts the canonical spellings only – Python's `int` is more liberal, which matters
for hand-edited files, not for the round trip).

The second half is a small abstract file system (`Fs`, `FsOp`, `run`) shared with C27 and C28: a
routine is a list of operations, a crash point is a prefix of that list.
-/
namespace Pkgcore.C24
open Pkgcore.Generated.C24

abbrev Str := List Char

/-! ## string primitives -/

/-- `s.split(sep)` for a one character separator (keeps empty pieces, `"".split(" ") == [""]`) -/
def splitOn (sep : Char) : Str → List Str
  | [] => [[]]
  | c :: cs =>
    if c = sep then [] :: splitOn sep cs
    else match splitOn sep cs with
      | [] => [[c]]
      | h :: t => (c :: h) :: t

/-- `sep.join(pieces)` -/
def joinWith (sep : Char) : List Str → Str
  | [] => []
  | [a] => a
  | a :: b :: rest => a ++ sep :: joinWith sep (b :: rest)

/-- `posixpath.normpath` -/
def normpath (path : Str) : Str :=
  if path = [] then ['.']
  else
    let initial : Nat :=
      if path.head? = some '/' then
        (if (path.drop 1).head? = some '/' ∧ (path.drop 2).head? ≠ some '/' then 2 else 1)
      else 0
    let comps := splitOn '/' path
    let new := comps.foldl (fun (acc : List Str) comp =>
      if comp = [] ∨ comp = ['.'] then acc
      else if comp ≠ ['.', '.'] ∨ (initial = 0 ∧ acc = []) ∨ acc.getLast? = some ['.', '.'] then acc ++ [comp]
      else acc.dropLast) []
    let p := List.replicate initial '/' ++ joinWith '/' new
    if p = [] then ['.'] else p

/-- `str(i)` for an `int` -/
def renderInt (i : Int) : Str :=
  if i < 0 then '-' :: Nat.toDigits 10 i.natAbs else Nat.toDigits 10 i.toNat

def allDigits (s : Str) : Bool := !s.isEmpty && s.all Char.isDigit

/-- `int(s)` on the canonical spellings `-?[0-9]+` (and `+`) -/
def parseInt (s : Str) : Option Int :=
  match s with
  | '-' :: ds => if allDigits ds then some (-(Nat.ofDigitChars 10 ds 0 : Int)) else none
  | '+' :: ds => if allDigits ds then some (Nat.ofDigitChars 10 ds 0 : Int) else none
  | ds => if allDigits ds then some (Nat.ofDigitChars 10 ds 0 : Int) else none

def hexVal (c : Char) : Option Nat :=
  if '0' ≤ c ∧ c ≤ '9' then some (c.toNat - 48)
  else if 'a' ≤ c ∧ c ≤ 'f' then some (c.toNat - 87)
  else if 'A' ≤ c ∧ c ≤ 'F' then some (c.toNat - 55)
  else none

def hexStep (acc : Option Nat) (c : Char) : Option Nat :=
  match acc, hexVal c with
  | some a, some v => some (16 * a + v)
  | _, _ => none

/-- `int(s, 16)` on `[0-9a-fA-F]+` -/
def parseHex (s : Str) : Option Nat :=
  if s.isEmpty then none else s.foldl hexStep (some 0)

/-- `md5_handler.long2str(n)`: `("%x" % n).rjust(32, "0")` -/
def hexPad (n : Nat) : Str :=
  let d := Nat.toDigits 16 n
  List.replicate (md5StrSize - d.length) '0' ++ d

/-! ## entries, writer, reader -/

/-- what a CONTENTS line records about an fs object -/
inductive Entry
  | obj (loc : Str) (md5 : Nat) (mtime : Int)     -- fsFile: chksums["md5"], int(mtime)
  | sym (loc target : Str) (mtime : Int)          -- fsLink
  | dir (loc : Str)
  | dev (loc : Str)
  | fif (loc : Str)
  deriving DecidableEq, Repr

def Entry.loc : Entry → Str
  | .obj l _ _ => l | .sym l _ _ => l | .dir l => l | .dev l => l | .fif l => l

def tag (s : String) : Str := s.toList

/-- one iteration of the `for obj in sorted(self)` loop of `_write` (without the newline) -/
def renderLine : Entry → Str
  | .obj loc md5 mtime => joinWith ' ' [tag "obj", loc, hexPad md5, renderInt mtime]
  | .sym loc target mtime => joinWith ' ' [tag "sym", loc, tag "->", target, renderInt mtime]
  | .dir loc => tag "dir " ++ loc
  | .dev loc => tag "dev " ++ loc
  | .fif loc => tag "fif " ++ loc

/-- `sorted(self)`: fs objects order by location (code point order of `str`) -/
def insertEntry (e : Entry) : List Entry → List Entry
  | [] => [e]
  | x :: xs => if e.loc ≤ x.loc then e :: x :: xs else x :: insertEntry e xs

def sortEntries (es : List Entry) : List Entry := es.foldr insertEntry []

/-- the text `_write` hands to the output file -/
def renderFile (es : List Entry) : Str := (sortEntries es).flatMap fun e => renderLine e ++ ['\n']

/-- iteration over a text-mode file followed by `line.rstrip("\n")` and `if not line: continue`:
universal newlines make `\n`, `\r` and `\r\n` line ends -/
def splitLines : Str → List Str
  | [] => [[]]
  | c :: cs =>
    if c = '\n' ∨ c = '\r' then [] :: splitLines cs
    else match splitLines cs with
      | [] => [[c]]
      | h :: t => (c :: h) :: t

def readLines (content : Str) : List Str := (splitLines content).filter fun l => !l.isEmpty

/-- Python `s[i:j]` for `0 ≤ i`, `j` counted from the end (`s[1:-2]` is `pySlice s 1 2`) -/
def pySlice (s : List Str) (i fromEnd : Nat) : List Str := (s.take (s.length - fromEnd)).drop i

/-- `s[-k]` (`IndexError` when the list is too short) -/
def fromEnd? (s : List Str) (k : Nat) : Option Str := if s.length < k then none else s[s.length - k]?

/-- body of the `for line in …` loop of `_iter_contents`; any exception is `none` -/
def parseLine (line : Str) : Option Entry :=
  let s := splitOn ' ' line
  match s.head? with
  | none => none
  | some t =>
    if t = tag "dir" then some (.dir (normpath (joinWith ' ' (s.drop 1))))
    else if t = tag "dev" then some (.dev (normpath (joinWith ' ' (s.drop 1))))
    else if t = tag "fif" then some (.fif (normpath (joinWith ' ' (s.drop 1))))
    else if t = tag "obj" then do
      let path := joinWith ' ' (pySlice s 1 2)
      let md5 ← (fromEnd? s 2) >>= parseHex
      let mtime ← (fromEnd? s 1) >>= parseInt
      pure (.obj (normpath path) md5 mtime)
    else if t = tag "sym" then do
      let p ← s.idxOf? (tag "->")
      let mtime ← (fromEnd? s 1) >>= parseInt
      pure (.sym (normpath (joinWith ' ' ((s.take p).drop 1))) (joinWith ' ' (pySlice s (p + 1) 1)) mtime)
    else none

/-- `contentsSet.update`: `_dict[obj.location] = obj` (a later entry replaces, position kept) -/
def setAdd (d : List Entry) (e : Entry) : List Entry :=
  if d.any (·.loc == e.loc) then d.map (fun x => if x.loc == e.loc then e else x) else d ++ [e]

/-- `ContentsFile(path)`: the entries of the set, `none` if the constructor raises -/
def readContents (content : Str) : Option (List Entry) :=
  ((readLines content).mapM parseLine).map fun es => es.foldl setAdd []

/-! ## abstract file system and operation lists -/

/-- files of the directories involved: path ↦ content -/
abbrev Fs := List (Str × Str)

def Fs.read (fs : Fs) (p : Str) : Option Str := fs.lookup p
def Fs.del (fs : Fs) (p : Str) : Fs := fs.filter fun x => x.1 != p
def Fs.put (fs : Fs) (p : Str) (c : Str) : Fs := (p, c) :: fs.del p

inductive FsOp
  | creat (p : Str)                    -- open(p, "w"): create or truncate
  | write (p : Str) (data : Str)       -- data reaching the (open) file
  | close (p : Str)
  | chmod (p : Str) (mode : Nat)
  | chown (p : Str) (uid gid : Int)
  | utime (p : Str) (t : Int)
  | mkdir (p : Str)
  | rename (src dst : Str)
  | unlink (p : Str)
  deriving DecidableEq, Repr

/-- effect of one operation on the file contents (metadata-only operations change nothing here;
operations on a missing file fail without effect) -/
def step (fs : Fs) : FsOp → Fs
  | .creat p => fs.put p []
  | .write p d => match fs.read p with
    | some c => fs.put p (c ++ d)
    | none => fs
  | .rename a b => match fs.read a with
    | some c => (fs.del a).put b c
    | none => fs
  | .unlink p => fs.del p
  | _ => fs

def run (ops : List FsOp) (fs : Fs) : Fs := ops.foldl step fs

/-- `AtomicWriteFile(dir/base, perms=0o644, uid=0, gid=0)`, the writes (text reaches the temp file
in arbitrary chunks), `close()` -/
def tmpName (dir base : Str) : Str := dir ++ '/' :: (tag ".update." ++ base)
def targetName (dir base : Str) : Str := dir ++ '/' :: base

def atomicWriteOps (dir base : Str) (chunks : List Str) : List FsOp :=
  [.creat (tmpName dir base), .chmod (tmpName dir base) writePerms, .chown (tmpName dir base) rootUid rootGid]
    ++ chunks.map (.write (tmpName dir base))
    ++ [.close (tmpName dir base), .rename (tmpName dir base) (targetName dir base)]

/-- `ContentsFile.flush()` for the set `es`, the rendered text split into `chunks` -/
def flushOps (dir base : Str) (chunks : List Str) : List FsOp := atomicWriteOps dir base chunks

/-- `flush()` when something raises inside the `for obj in sorted(self)` loop (an entry that cannot be
rendered, an interrupt, a failing `write`) after the chunks `written` reached the temp file: `finally:
del outfile` makes `AtomicWriteFile` discard its temp file (close, unlink) — the target is never touched -/
def abortOps (dir base : Str) (written : List Str) : List FsOp :=
  [.creat (tmpName dir base), .chmod (tmpName dir base) writePerms, .chown (tmpName dir base) rootUid rootGid]
    ++ written.map (.write (tmpName dir base))
    ++ [.close (tmpName dir base), .unlink (tmpName dir base)]

/-! ## mutation histories on a long-lived set object -/

/-- the mutating methods of `contentsSet`/`ContentsFile` (arguments already reduced to entries/locations) -/
inductive SetOp
  | add (e : Entry)                          -- add(obj)
  | discard (loc : Str)                      -- discard(x) / remove(x) / del s[x]
  | clear
  | update (es : List Entry)                 -- update(iterable)
  | differenceUpdate (locs : List Str)       -- difference_update(other)
  | intersectionUpdate (locs : List Str)     -- intersection_update(other)
  | symDiffUpdate (es : List Entry)          -- symmetric_difference_update(other)
  deriving DecidableEq, Repr

def hasLoc (s : List Entry) (l : Str) : Bool := s.any (·.loc == l)

def applyOp (s : List Entry) : SetOp → List Entry
  | .add e => setAdd s e
  | .discard l => s.filter fun x => x.loc != l
  | .clear => []
  | .update es => es.foldl setAdd s
  | .differenceUpdate ls => s.filter fun x => !(ls.contains x.loc)
  | .intersectionUpdate ls => s.filter fun x => ls.contains x.loc
  | .symDiffUpdate es =>
    let other := es.foldl setAdd []
    (other.filter fun x => !(hasLoc s x.loc)).foldl setAdd (s.filter fun x => !(hasLoc other x.loc))

/-- the set after a history of operations -/
def applyOps (s : List Entry) (h : List SetOp) : List Entry := h.foldl applyOp s

end Pkgcore.C24
