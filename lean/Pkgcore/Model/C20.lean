import Pkgcore.Model.C18
import Pkgcore.Generated.C20Tables
/-!
# C20 — model of `unmerge_contents` and of the uninstall / replace engines

Over the abstract file system of `Model/C18` (literal paths).

* `unmergeContents` mirrors `pkgcore.fs.ops.unmerge_contents`: `unlink_if_exists` on everything that is not a
  directory *object* (contents order), then `os.rmdir` on the directory objects in reverse location order with the
  tolerated errnos.
* `liveIntersect` is `livefs.intersect` (the *live* object at every recorded location that exists),
  `uninstallPlan` / `removePlan` are the `uninstall` csets of `MergeEngine.uninstall` / `.replace`
  (`get_remove_cset`, after the `fix:` commits of C20: offset applied before the lookup; locations compared with
  their directory part resolved — the identity on literal paths) after `BaseSystemUnmergeProtection`, whose
  `_preserve_sequence` is the generated table.
-/
namespace Pkgcore.C20
open Pkgcore.C18

/-- the errnos `unmerge_contents` swallows around `os.rmdir` -/
def tolerated : Errno → Bool
  | .ENOTEMPTY | .ENOENT | .ENOTDIR | .EBUSY | .EEXIST => true
  | _ => false

/-- first loop: `unlink_if_exists(x.location)` for every non-directory object -/
def unmergeNonDirs (env : Env) : St → List Entry → St × Except Exc Unit
  | s, [] => (s, .ok ())
  | s, x :: xs =>
    match unlinkIfExists env s x.loc with
    | (s1, .ok ()) => unmergeNonDirs env s1 xs
    | (s1, .error e) => (s1, .error e)

def rmdirQuiet (env : Env) (s : St) (p : Path) : St × Except Exc Unit :=
  match s.sys env (.rmdir p) with
  | (s1, none) => (s1, .ok ())
  | (s1, some e) => if tolerated e then (s1, .ok ()) else (s1, .error (.os e))

/-- second loop: `os.rmdir` on the directory objects -/
def unmergeDirs (env : Env) : St → List Entry → St × Except Exc Unit
  | s, [] => (s, .ok ())
  | s, x :: xs =>
    match rmdirQuiet env s x.loc with
    | (s1, .ok ()) => unmergeDirs env s1 xs
    | (s1, .error e) => (s1, .error e)

/-- `l.sort(reverse=True)` -/
def sortDirsDesc (ds : List Entry) : List Entry := (sortDirs ds).reverse

/-- `unmerge_contents(cset)` continuing from state `s` -/
def unmergeFrom (env : Env) (s : St) (es : List Entry) : St × Except Exc Unit :=
  match unmergeNonDirs env s (es.filter (fun e => !e.isDir)) with
  | (s1, .error e) => (s1, .error e)
  | (s1, .ok ()) => unmergeDirs env s1 (sortDirsDesc (es.filter (·.isDir)))

def unmergeContents (env : Env) (es : List Entry) (fs : Fs) : St × Except Exc Unit :=
  unmergeFrom env ⟨fs, []⟩ es

/-! ## the engines -/

def liveKind : Kind → EKind
  | .dir => .dir
  | .file d => .reg d none
  | .sym t => .sym t
  | .fifo => .fifo

/-- `livefs.intersect(cset)`: `gen_obj(x.location)` for every location that exists (`ENOENT`/`ENOTDIR` skipped) -/
def liveIntersect (fs : Fs) (recorded : List Entry) : List Entry :=
  recorded.filterMap fun e =>
    match fs.view e.loc with
    | none => none
    | some (_, nd) => some ⟨e.loc, liveKind nd.kind, nd.mode, nd.uid, nd.gid, nd.mtime⟩

/-- `BaseSystemUnmergeProtection._preserve_sequence` below the offset (paths stored last component first) -/
def protectedPaths : List Path := Pkgcore.Generated.C20.preserveSequence.map List.reverse

/-- the `uninstall` cset of `MergeEngine.uninstall` after the protection trigger -/
def uninstallPlan (fs : Fs) (old : List Entry) : List Entry :=
  (liveIntersect fs old).filter (fun e => decide (e.loc ∉ protectedPaths))

/-- the `uninstall` cset of `MergeEngine.replace` (`get_remove_cset`) after the protection trigger;
`fs` is the file system the cset is computed on (after the merge of `new`) -/
def removePlan (fs : Fs) (old new : List Entry) : List Entry :=
  ((liveIntersect fs old).filter (fun e => decide (e.loc ∉ new.map (·.loc)))).filter
    (fun e => decide (e.loc ∉ protectedPaths))

/-! ### `get_remove_cset` with the live-fs name resolution made explicit

On a root with directory symlinks one file has several names.  `resP p` = `p` with its directory part resolved
on the live file system (`livefs._realpath_dir`), `resF p` = `p` fully resolved (`fsBase.realpath`); on literal
paths both are the identity.  `live` = the live objects at the old package's recorded locations
(`old_cset`). -/

/-- the names under which the new package's entries exist on the live file system -/
def keptNames (resP resF : Path → Path) (new : List Entry) : List Path :=
  new.flatMap fun x => resP x.loc :: (if x.isDir then [resF x.loc] else [])

/-- `get_remove_cset`: old entries that are not new entries, under no name -/
def removeCsetOf (resP resF : Path → Path) (live new : List Entry) : List Entry :=
  (live.filter (fun e => decide (e.loc ∉ new.map (·.loc)))).filter
    (fun e => decide (resP e.loc ∉ keptNames resP resF new))

/-- … after `BaseSystemUnmergeProtection` -/
def removePlanOf (resP resF : Path → Path) (live new : List Entry) : List Entry :=
  (removeCsetOf resP resF live new).filter (fun e => decide (e.loc ∉ protectedPaths))

/-- `MergeEngine.uninstall(...)`: hooks … `unmerge` … -/
def engineUninstall (env : Env) (old : List Entry) (fs : Fs) : St × Except Exc Unit :=
  unmergeContents env (uninstallPlan fs old) fs

/-- `MergeEngine.replace(...)`: `merge` the new contents, then `unmerge` what only the old package owns -/
def engineReplace (env : Env) (old new : List Entry) (fs : Fs) : St × Except Exc Unit :=
  match mergeContents env false new fs with
  | (s1, .error e) => (s1, .error e)
  | (s1, .ok ()) => unmergeFrom env s1 (removePlan s1.fs old new)

end Pkgcore.C20
