/-!
# C36 model — `pkgcore.fetch.custom.fetcher.fetch` and `pkgcore.fetch.base.fetcher._verify`

The fetch loop is a state machine over what `_verify` can observe of the file at
`distdir/filename`.  The model mirrors the code *after* the repair of the "final attempt is never
verified" defect (`fix:` commit in the repo worktree): `range(attempts)` iterations, each
`_verify` → choose command → `next(uris)` → `spawn_bash` → exit-status clean-up, followed by one
more `_verify` after the loop.

Abstractions (tied to the code by the correspondence run, which builds real files, real checksum
dictionaries and either patches `spawn_bash` or runs a real bash fetch script):

* a file is `missing` or `present size sumsOk`; `sumsOk` = "every non-size checksum of the target
  matches the content" (what `get_chksums` + the comparison loop compute);
* a target is the optional `chksums["size"]` and whether any other checksum is listed;
* the k-th `spawn_bash` call consumes the k-th URI; the fetcher's behaviour is the k-th `Outcome`
  (any file state, any exit status), so `outs.length` is the number of URIs;
* exceptions are the constructors of `Result`.
-/
namespace Pkgcore.C36

/-- what `_verify` can observe of `distdir/filename` -/
inductive File
  | missing
  | present (size : Nat) (sumsOk : Bool)
  deriving DecidableEq, Repr

/-- `target.chksums`: the `"size"` entry if any, and whether other checksum types are listed -/
structure Target where
  size : Option Nat
  other : Bool
  deriving DecidableEq, Repr

/-- `not target.chksums` -/
def Target.noChksums (t : Target) : Bool := t.size.isNone && !t.other

/-- outcomes of `_verify`: returns `None`, or raises `MissingDistfile`, `FetchFailed("file is too
small", resumable=True)`, `FetchFailed("file is empty", resumable=False)`, `ChksumFailure` -/
inductive V
  | ok | missing | tooSmall | empty | chksum
  deriving DecidableEq, Repr

/-- the checksum loop at the end of `_verify` (all non-size checksums) -/
def verifySums (t : Target) (sumsOk : Bool) : V :=
  if t.other && !sumsOk then .chksum else .ok

/-- `fetcher._verify(path, target)` with default arguments -/
def verify (t : Target) : File → V
  | .missing => .missing                      -- size handler returns -1 / `not os.path.exists`
  | .present sz ok =>
    match t.size with
    | some want =>                            -- `"size" in handlers`
      if sz = want then verifySums t ok
      else if sz < want then .tooSmall        -- resumable
      else .chksum                            -- ChksumFailure(chksum="size")
    | none =>
      if sz = 0 then .empty                   -- `not os.stat(...).st_size`, not resumable
      else verifySums t ok

/-- what one run of the external fetch command does: the file it leaves and whether it exits 0 -/
structure Outcome where
  file : File
  exit0 : Bool
  deriving DecidableEq, Repr

/-- `self.command` or `self.resume_command` -/
inductive Cmd
  | fresh | resume
  deriving DecidableEq, Repr

/-- return value / exception of `fetch()` -/
inductive Result
  | returned      -- `return path`
  | missing       -- MissingDistfile
  | tooSmall      -- FetchFailed(resumable=True)
  | empty         -- FetchFailed("file is empty")
  | chksum        -- ChksumFailure
  | outOfUris     -- FetchFailed("ran out of urls to fetch from")
  deriving DecidableEq, Repr

/-- one executed attempt -/
structure Step where
  /-- the file `_verify` looked at, at the top of the iteration -/
  seen : File
  /-- the file in place when the fetch command starts (after `os.unlink` of a non-resumable one) -/
  handed : File
  cmd : Cmd
  /-- what the fetch command did -/
  out : Outcome
  /-- the file after the exit-status clean-up (`ret != 0 and not target.chksums` ⇒ unlink) -/
  left : File
  deriving DecidableEq, Repr

structure Run where
  result : Result
  final : File
  steps : List Step
  deriving DecidableEq, Repr

/-- the exception `_verify` raises, as a `fetch()` result -/
def V.toResult : V → Result
  | .ok => .returned | .missing => .missing | .tooSmall => .tooSmall | .empty => .empty | .chksum => .chksum

/-- the file after the `except` clauses of the loop body: a non-resumable (empty) file is unlinked -/
def handedOf (v : V) (f : File) : File := if v = .empty then .missing else f

/-- the command chosen by the `except` clauses: resume only for a resumable `FetchFailed` -/
def cmdOf (v : V) : Cmd := if v = .tooSmall then .resume else .fresh

/-- the exit-status clean-up after `spawn_bash` -/
def leftOf (t : Target) (o : Outcome) : File := if !o.exit0 && t.noChksums then .missing else o.file

/-- `fetcher.fetch(target)` with `attempts = n`, the file initially at `path`, and one outcome per URI -/
def fetch (t : Target) : Nat → File → List Outcome → Run
  | 0, f, _ => ⟨(verify t f).toResult, f, []⟩            -- the verification after the loop
  | n + 1, f, outs =>
    match verify t f with
    | .ok => ⟨.returned, f, []⟩
    | .chksum => ⟨.chksum, f, []⟩                          -- `except errors.ChksumFailure: raise`
    | v =>
      match outs with
      | [] => ⟨.outOfUris, handedOf v f, []⟩               -- `next(uris)` raised StopIteration
      | o :: outs' =>
        let r := fetch t n (leftOf t o) outs'
        ⟨r.result, r.final, ⟨f, handedOf v f, cmdOf v, o, leftOf t o⟩ :: r.steps⟩

/-- result of the loop *before* the repair, kept only to state the defect (`unfixed_loop_counterexample`):
`last_exc` starts as a `RuntimeError` (`unknown`), is overwritten by each failed verification, and is
raised after the last run without looking at the file again -/
inductive OldResult
  | returned | missing | tooSmall | empty | chksum | outOfUris | unknown
  deriving DecidableEq, Repr

def V.toOld : V → OldResult
  | .ok => .returned | .missing => .missing | .tooSmall => .tooSmall | .empty => .empty | .chksum => .chksum

def fetchUnfixed (t : Target) : Nat → File → OldResult → List Outcome → OldResult × File
  | 0, f, lastExc, _ => (lastExc, f)
  | n + 1, f, _, outs =>
    match verify t f with
    | .ok => (.returned, f)
    | .chksum => (.chksum, f)
    | v =>
      match outs with
      | [] => (.outOfUris, handedOf v f)
      | o :: outs' => fetchUnfixed t n (leftOf t o) v.toOld outs'

/-- the value `spawn_bash` returns for one run → the model's `exit0` (the code tests `ret != 0`): an exit code
0..255, or `signal <<< 8` (`(0x80 ||| signal) <<< 8` with a core dump) for a command killed by a signal
(snakeoil `process_exit_code`) — non-zero although its low byte is 0 -/
def Outcome.ofStatus (f : File) (ret : Nat) : Outcome := ⟨f, ret == 0⟩

/-- one `fetch()` call on a long-lived fetcher object: the file put at the path from outside before the call
(`none`: whatever the previous call left stays), the target — the same file name may come with other checksums —,
`self.attempts`, and what the fetch command does for each URI -/
structure Request where
  pre : Option File
  t : Target
  n : Nat
  outs : List Outcome

/-- several `fetch()` calls on ONE fetcher object and distdir for one file name: each call starts from the file
the previous one left (or from `pre`); the object carries nothing else from one call to the next -/
def fetchSeq : File → List Request → List Run
  | _, [] => []
  | f, r :: rs => fetch r.t r.n (r.pre.getD f) r.outs :: fetchSeq (fetch r.t r.n (r.pre.getD f) r.outs).final rs

end Pkgcore.C36
