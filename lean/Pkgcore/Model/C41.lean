/-!
# C41 model — `pkgcore.util.thread_pool.map_async` as a transition system
(after the `fix:` commit: at least one worker is started when `threads <= 0`)

One producer (the calling thread) and `n` workers share a FIFO queue (`queue.Queue`, unbounded) and a result deque.
The producer starts the workers, puts every item, then `n` sentinels, then joins.  A worker runs
`functor(iter_queue(...))`: it repeatedly takes the head of the queue; an item is handed to the functor body, a
sentinel ends the iteration.  The functor is abstract: `f item` are the results it yields while handling `item`
(generator style, `results.extend`), `fin w handled` is the value it returns at the end, if any (`results.append`).

Atomic steps (the granularity CPython's `queue.Queue` mutex and `deque.append` give): one `put`, one `get`, finishing
one item, leaving after the sentinel.  Every interleaving of these steps is a run; `Step` is the labelled transition
relation and `apply` its executable form, used to validate event traces recorded from the real code.
Outside the model (assumptions of the property): the functor does not raise and exhausts its iterator; the input
iterable does not raise (so the kill event stays clear).
-/
namespace Pkgcore.C41

/-- `parallelism`: at least one thread, clamped to the number of items when the iterable has a length -/
def parallelism (len : Option Nat) (threads : Int) : Nat :=
  let p : Int := max threads 1
  match len with
  | some l => (max (min (l : Int) p) 0).toNat
  | none => p.toNat

inductive QItem (α : Type)
  | item (x : α)
  | sentinel
  deriving DecidableEq, Repr

inductive WState (α : Type)
  | idle                 -- between two `qlist.get()` calls (or not yet started)
  | busy (x : α)         -- the functor is handling `x`
  | done                 -- got the sentinel, returned
  deriving DecidableEq, Repr

structure State (α β : Type) where
  remaining : List α             -- items the producer has not put yet
  sentinelsLeft : Nat            -- sentinels the producer has not put yet
  queue : List (QItem α)         -- head = next element `get` returns
  workers : List (WState α)
  handled : List (List α)        -- per worker, the items it finished, in order
  results : List β               -- the shared `results` deque
  deriving Repr

inductive Event (α : Type)
  | put                        -- the producer puts the next item or sentinel
  | get (w : Nat)              -- worker `w` takes the head of the queue
  | finish (w : Nat)           -- worker `w` finishes the item it is handling
  deriving DecidableEq, Repr

def init {α β : Type} (items : List α) (n : Nat) : State α β :=
  ⟨items, n, [], List.replicate n .idle, List.replicate n [], []⟩

/-- the executable transition function: `none` when the event is not enabled -/
def apply {α β : Type} (f : α → List β) (fin : Nat → List α → Option β) (s : State α β) : Event α → Option (State α β)
  | .put =>
    match s.remaining with
    | x :: rest => some { s with remaining := rest, queue := s.queue ++ [.item x] }
    | [] =>
      match s.sentinelsLeft with
      | k + 1 => some { s with sentinelsLeft := k, queue := s.queue ++ [.sentinel] }
      | 0 => none
  | .get w =>
    match s.workers[w]?, s.queue with
    | some .idle, .item x :: q => some { s with queue := q, workers := s.workers.set w (.busy x) }
    | some .idle, .sentinel :: q =>
      some { s with queue := q, workers := s.workers.set w .done,
                    results := s.results ++ (fin w (s.handled.getD w [])).toList }
    | _, _ => none
  | .finish w =>
    match s.workers[w]? with
    | some (.busy x) =>
      some { s with workers := s.workers.set w .idle,
                    handled := s.handled.set w (s.handled.getD w [] ++ [x]),
                    results := s.results ++ f x }
    | _ => none

/-- one atomic step of some thread -/
def Step {α β : Type} (f : α → List β) (fin : Nat → List α → Option β) (s s' : State α β) : Prop :=
  ∃ e, apply f fin s e = some s'

/-- reachable by some interleaving -/
inductive Reachable {α β : Type} (f : α → List β) (fin : Nat → List α → Option β) (items : List α) (n : Nat) :
    State α β → Prop
  | start : Reachable f fin items n (init items n)
  | step {s s'} : Reachable f fin items n s → Step f fin s s' → Reachable f fin items n s'

/-- `map_async` returns: everything was put and every thread has been joined -/
def Terminal {α β : Type} (s : State α β) : Prop :=
  s.remaining = [] ∧ s.sentinelsLeft = 0 ∧ ∀ w ∈ s.workers, w = .done

/-- replay a recorded trace -/
def replay {α β : Type} (f : α → List β) (fin : Nat → List α → Option β) (s : State α β) : List (Event α) → Option (State α β)
  | [] => some s
  | e :: es => match apply f fin s e with
    | some s' => replay f fin s' es
    | none => none

end Pkgcore.C41
