/-!
# C41 model — `pkgcore.util.thread_pool.map_async` as a transition system
(after the `fix:` commit: at least one worker is started when `threads <= 0`)

One producer (the calling thread) and `n` workers share a FIFO queue (`queue.Queue`, unbounded) and a result deque.
The producer starts the workers, puts every item, then `n` sentinels, then joins.  A worker runs
`functor(iter_queue(...))`: it repeatedly takes the head of the queue; an item is handed to the functor body, a
sentinel ends the iteration.  The functor is abstract: `f item` are the results it yields while handling `item`
(generator style, `results.extend`), `fin w handled` is the value it returns at the end, if any (`results.append`).

Atomic steps (the granularity CPython's `queue.Queue` mutex and `deque.append` give): one `put`, one `get`, finishing
one item, leaving after the sentinel.  Every interleaving of these steps is a run; `Step` is the labelled transition
relation and `apply` its executable form, used to validate event traces recorded from the real code.
Outside the model (assumptions of the property): the functor does not raise and exhausts its iterator.  Input
iterables that raise (the kill event) and calls made one after the other are modelled in the second half of this file
(`XState`, `SessionReach`); `regen_repository`'s use of the map at the end (`regenF`).
-/
namespace Pkgcore.C41

/-- `parallelism`: at least one thread, clamped to the number of items when the iterable has a length -/
def parallelism (len : Option Nat) (threads : Int) : Nat :=
  let p : Int := max threads 1
  match len with
  | some l => (max (min (l : Int) p) 0).toNat
  | none => p.toNat

inductive QItem (α : Type)
  | item (x : α)
  | sentinel
  deriving DecidableEq, Repr

inductive WState (α : Type)
  | idle                 -- between two `qlist.get()` calls (or not yet started)
  | busy (x : α)         -- the functor is handling `x`
  | done                 -- got the sentinel, returned
  deriving DecidableEq, Repr

structure State (α β : Type) where
  remaining : List α             -- items the producer has not put yet
  sentinelsLeft : Nat            -- sentinels the producer has not put yet
  queue : List (QItem α)         -- head = next element `get` returns
  workers : List (WState α)
  handled : List (List α)        -- per worker, the items it finished, in order
  results : List β               -- the shared `results` deque
  deriving Repr

inductive Event (α : Type)
  | put                        -- the producer puts the next item or sentinel
  | get (w : Nat)              -- worker `w` takes the head of the queue
  | finish (w : Nat)           -- worker `w` finishes the item it is handling
  deriving DecidableEq, Repr

def init {α β : Type} (items : List α) (n : Nat) : State α β :=
  ⟨items, n, [], List.replicate n .idle, List.replicate n [], []⟩

/-- the executable transition function: `none` when the event is not enabled -/
def apply {α β : Type} (f : α → List β) (fin : Nat → List α → Option β) (s : State α β) : Event α → Option (State α β)
  | .put =>
    match s.remaining with
    | x :: rest => some { s with remaining := rest, queue := s.queue ++ [.item x] }
    | [] =>
      match s.sentinelsLeft with
      | k + 1 => some { s with sentinelsLeft := k, queue := s.queue ++ [.sentinel] }
      | 0 => none
  | .get w =>
    match s.workers[w]?, s.queue with
    | some .idle, .item x :: q => some { s with queue := q, workers := s.workers.set w (.busy x) }
    | some .idle, .sentinel :: q =>
      some { s with queue := q, workers := s.workers.set w .done,
                    results := s.results ++ (fin w (s.handled.getD w [])).toList }
    | _, _ => none
  | .finish w =>
    match s.workers[w]? with
    | some (.busy x) =>
      some { s with workers := s.workers.set w .idle,
                    handled := s.handled.set w (s.handled.getD w [] ++ [x]),
                    results := s.results ++ f x }
    | _ => none

/-- one atomic step of some thread -/
def Step {α β : Type} (f : α → List β) (fin : Nat → List α → Option β) (s s' : State α β) : Prop :=
  ∃ e, apply f fin s e = some s'

/-- reachable by some interleaving -/
inductive Reachable {α β : Type} (f : α → List β) (fin : Nat → List α → Option β) (items : List α) (n : Nat) :
    State α β → Prop
  | start : Reachable f fin items n (init items n)
  | step {s s'} : Reachable f fin items n s → Step f fin s s' → Reachable f fin items n s'

/-- `map_async` returns: everything was put and every thread has been joined -/
def Terminal {α β : Type} (s : State α β) : Prop :=
  s.remaining = [] ∧ s.sentinelsLeft = 0 ∧ ∀ w ∈ s.workers, w = .done

/-- replay a recorded trace -/
def replay {α β : Type} (f : α → List β) (fin : Nat → List α → Option β) (s : State α β) : List (Event α) → Option (State α β)
  | [] => some s
  | e :: es => match apply f fin s e with
    | some s' => replay f fin s' es
    | none => none

/-! ## The kill event: input iterables that raise, and calls one after the other

`kill = threading.Event(); kill.clear()` is created inside every call.  When feeding the queue raises (the input
iterable raises at some position), `map_async` sets it, still posts the `n` sentinels, joins and re-raises.  A worker
tests the event before every `qlist.get()`; a worker that finds it set leaves without taking anything.  Test and `get`
are two steps of the real thread, so a worker that tested just before the event was set still takes one element: the
model therefore leaves `get` enabled whatever the event says (an over-approximation — every real schedule is a run of
the model) and adds `quit`, enabled only once the event is set. -/

structure XState (α β : Type) where
  base : State α β
  kill : Bool                    -- the call's own kill event
  dropped : List α               -- items the input iterable never delivered (it raised first)
  deriving Repr

inductive XEvent (α : Type)
  | base (e : Event α)
  | raise                        -- the input iterable raises: `kill.set()`, nothing more is fed
  | quit (w : Nat)               -- worker `w`, between two items, finds the kill event set and returns
  deriving DecidableEq, Repr

/-- every call starts with a fresh, clear event -/
def xinit {α β : Type} (items : List α) (n : Nat) : XState α β := ⟨init items n, false, []⟩

def xapply {α β : Type} (f : α → List β) (fin : Nat → List α → Option β) (xs : XState α β) : XEvent α → Option (XState α β)
  | .base e => (apply f fin xs.base e).map fun b => { xs with base := b }
  | .raise =>
    -- while feeding, i.e. before the first sentinel is posted; at most once
    if xs.kill = false ∧ xs.base.sentinelsLeft = xs.base.workers.length then
      some { base := { xs.base with remaining := [] }, kill := true, dropped := xs.base.remaining }
    else none
  | .quit w =>
    match xs.kill, xs.base.workers[w]? with
    | true, some .idle =>
      some { xs with base := { xs.base with workers := xs.base.workers.set w .done,
                                            results := xs.base.results ++ (fin w (xs.base.handled.getD w [])).toList } }
    | _, _ => none

def XStep {α β : Type} (f : α → List β) (fin : Nat → List α → Option β) (xs xs' : XState α β) : Prop :=
  ∃ e, xapply f fin xs e = some xs'

inductive XReachable {α β : Type} (f : α → List β) (fin : Nat → List α → Option β) (items : List α) (n : Nat) :
    XState α β → Prop
  | start : XReachable f fin items n (xinit items n)
  | step {xs xs'} : XReachable f fin items n xs → XStep f fin xs xs' → XReachable f fin items n xs'

/-- the call is over (it returns, or re-raises the iterable's exception when `kill` is set) -/
def XTerminal {α β : Type} (xs : XState α β) : Prop := Terminal xs.base

def xreplay {α β : Type} (f : α → List β) (fin : Nat → List α → Option β) (xs : XState α β) : List (XEvent α) → Option (XState α β)
  | [] => some xs
  | e :: es => match xapply f fin xs e with
    | some xs' => xreplay f fin xs' es
    | none => none

/-- one call of `map_async`: its input and the number of threads it starts -/
structure Call (α : Type) where
  items : List α
  n : Nat

/-- a process making calls one after the other: `SessionReach hist c xs` — after the calls `hist` have ended (each in
any way: returned, or failed because its iterable raised) the call `c` is in state `xs`.  The next call starts from
`xinit`: queue, result deque and kill event are locals of `map_async`, nothing outlives a call. -/
inductive SessionReach {α β : Type} (f : α → List β) (fin : Nat → List α → Option β) :
    List (Call α) → Call α → XState α β → Prop
  | first (c : Call α) : SessionReach f fin [] c (xinit c.items c.n)
  | step {hist c xs xs'} : SessionReach f fin hist c xs → XStep f fin xs xs' → SessionReach f fin hist c xs'
  | next {hist c xs} (c' : Call α) : SessionReach f fin hist c xs → XTerminal xs →
      SessionReach f fin (hist ++ [c]) c' (xinit c'.items c'.n)

/-! ## `regen_repository`

`regen_repository(repo, pkgs, observer, threads)` hands `pkgs` itself — unchanged, one package per queue element — to
`map_async` with `regen_iter` as the worker function: per package it calls the repo's regen helper and yields
`(pkg, exception)` when the helper raised anything but a `MetadataException`; `regen_repository` yields the result
deque.  `outcome pkg` is that exception, if any. -/

def regenF {α ε : Type} (outcome : α → Option ε) (pkg : α) : List (α × ε) :=
  match outcome pkg with
  | some e => [(pkg, e)]
  | none => []

end Pkgcore.C41
