import Pkgcore.Generated.C39Tables
/-!
# C39 model — `pkgcore.bugzilla.changes.ListChange` and `BugUpdate.to_wire` as written

`ListChange` is the frozen dataclass `(add, remove, replace)`; the constructor runs
`__post_init__`, which refuses (raises `BugzillaUsageError`) when `replace` is combined with
`add`/`remove` or when a value is both added and removed.  Refusal is `Option.none`.

`ListChange.or` mirrors `__or__` *after* the repair of the defect found in the pinned tree
(`setting(x) | adding(a)` dropped the set): three branches, the right operand is a set / the left
operand is a set / neither is.  Every branch that builds a new `ListChange` goes through the
constructor (`mk?`), exactly like the Python code.

Values are an arbitrary type `α` with decidable equality (Python: `str` or `BugId`);
`to_wire` renders them with `str`, a parameter here.

`BugUpdate.toWire` mirrors `BugUpdate.to_wire`: an insertion-ordered dict is an association list
built in the order of the `if` statements.  Scalars that the code renders with CPython/other
classes (`datetime.date.isoformat`, `str(PackageList)`, `str(StrEnum)`) reach the model already
rendered (they are opaque strings for this property).
-/
namespace Pkgcore.C39

/-- the dataclass, before `__post_init__` -/
structure ListChange (α : Type) where
  add : List α := []
  remove : List α := []
  replace : Option (List α) := none
  deriving DecidableEq, Repr

variable {α β : Type} [DecidableEq α] [DecidableEq β]

/-- `__post_init__` passes (no `BugzillaUsageError`) -/
def ListChange.valid (c : ListChange α) : Bool :=
  -- if self.replace is not None and (self.add or self.remove): raise
  !(c.replace.isSome && (!c.add.isEmpty || !c.remove.isEmpty))
  -- if overlap := frozenset(self.add) & frozenset(self.remove): raise
  && !(c.add.any (fun x => c.remove.contains x))

/-- the constructor `ListChange(add=…, remove=…, replace=…)` including `__post_init__` -/
def ListChange.mk? (add remove : List α) (replace : Option (List α)) : Option (ListChange α) :=
  let c : ListChange α := ⟨add, remove, replace⟩
  if c.valid then some c else none

/-- `__bool__` -/
def ListChange.truthy (c : ListChange α) : Bool :=
  !c.add.isEmpty || !c.remove.isEmpty || c.replace.isSome

/-- `__or__` (as repaired); `none` = the constructor raised `BugzillaUsageError` -/
def ListChange.or (a b : ListChange α) : Option (ListChange α) :=
  match b.replace with
  | some _ => some b                                     -- if other.replace is not None: return other
  | none =>
    match a.replace with
    | some r =>                                          -- if self.replace is not None:
      let kept := r.filter (fun x => !b.remove.contains x)
      ListChange.mk? [] [] (some (kept ++ b.add.filter (fun x => !kept.contains x)))
    | none =>
      ListChange.mk? (a.add ++ b.add.filter (fun x => !a.add.contains x))
                     (a.remove ++ b.remove.filter (fun x => !a.remove.contains x)) none

/-- `RawListChange`: a dict with optional keys `set`, `add`, `remove` -/
structure RawListChange (β : Type) where
  set : Option (List β) := none
  add : Option (List β) := none
  remove : Option (List β) := none
  deriving DecidableEq, Repr

/-- `ListChange.to_wire` -/
def ListChange.toWire (str : α → β) (c : ListChange α) : RawListChange β :=
  match c.replace with
  | some r => { set := some (r.map str) }
  | none =>
    { add := if c.add.isEmpty then none else some (c.add.map str),
      remove := if c.remove.isEmpty then none else some (c.remove.map str) }

/-! ## BugUpdate -/

/-- `FlagChange` (status already a `FlagStatus` value string) -/
structure FlagChange where
  name : String
  status : String
  requestee : Option String
  deriving DecidableEq, Repr

/-- `NewComment` -/
structure NewComment where
  body : String
  isPrivate : Bool
  deriving DecidableEq, Repr

/-- the dataclass `BugUpdate`; every field defaults to "leave the bug alone" -/
structure BugUpdate where
  status : Option String := none
  resolution : Option String := none
  dupeOf : Option Nat := none
  summary : Option String := none
  assignedTo : Option String := none
  whiteboard : Option String := none
  deadline : Option String := none           -- `datetime.date`, carried as its `isoformat()`
  cc : ListChange String := {}
  keywords : ListChange String := {}
  blocks : ListChange String := {}           -- `ListChange[BugId]`, values carried as `str(id)`
  dependsOn : ListChange String := {}
  seeAlso : ListChange String := {}
  groups : ListChange String := {}
  flags : List FlagChange := []
  comment : Option NewComment := none
  packageList : Option String := none        -- `PackageList`, carried as `str(package_list)`
  runtimeTestingRequired : Option String := none
  deriving DecidableEq, Repr

/-- `BugUpdate.__post_init__` passes -/
def BugUpdate.valid (u : BugUpdate) : Bool :=
  -- if self.resolution is not None and self.status is None: raise
  !(u.resolution.isSome && u.status.isNone)
  -- if self.status is Status.RESOLVED and self.resolution is None: raise
  && !(u.status == some Generated.C39.statusResolved && u.resolution.isNone)
  -- if (self.resolution is Resolution.DUPLICATE) != (self.dupe_of is not None): raise
  && ((u.resolution == some Generated.C39.resolutionDuplicate) == u.dupeOf.isSome)

/-- JSON values occurring in a `RawBugUpdate` -/
inductive WireVal
  | str (s : String)
  | nat (n : Nat)
  | ids (l : List Nat)
  | change (c : RawListChange String)
  | flags (l : List (List (String × String)))
  | comment (body : String) (isPrivate : Option Bool)
  deriving DecidableEq, Repr

/-- `FlagChange.to_wire` (an ordered dict of strings) -/
def FlagChange.toWire (f : FlagChange) : List (String × String) :=
  [("name", f.name), ("status", f.status)] ++
    (match f.requestee with | some r => [("requestee", r)] | none => [])

/-- `NewComment.to_wire` -/
def NewComment.toWire (c : NewComment) : WireVal :=
  .comment c.body (if c.isPrivate then some true else none)

/-- `if x is not None: wire[k] = f(x)` -/
def optEntry {γ : Type} (k : String) (x : Option γ) (f : γ → WireVal) : List (String × WireVal) :=
  match x with
  | some v => [(k, f v)]
  | none => []

/-- one turn of `for name in ("cc", …): if change := getattr(self, name): wire[name] = change.to_wire()` -/
def changeEntry (k : String) (c : ListChange String) : List (String × WireVal) :=
  if c.truthy then [(k, .change (c.toWire id))] else []

/-- `BugUpdate.to_wire(ids)`; `none` = `BugzillaUsageError("an update needs at least one bug id")` -/
def BugUpdate.toWire (u : BugUpdate) (ids : List Nat) : Option (List (String × WireVal)) :=
  if ids.isEmpty then none
  else some (
    [("ids", .ids ids)]
    ++ optEntry "status" u.status .str
    ++ optEntry "resolution" u.resolution .str
    ++ optEntry "dupe_of" u.dupeOf .nat
    ++ optEntry "summary" u.summary .str
    ++ optEntry "assigned_to" u.assignedTo .str
    ++ optEntry "whiteboard" u.whiteboard .str
    ++ optEntry "deadline" u.deadline .str
    ++ changeEntry "cc" u.cc
    ++ changeEntry "keywords" u.keywords
    ++ changeEntry "blocks" u.blocks
    ++ changeEntry "depends_on" u.dependsOn
    ++ changeEntry "see_also" u.seeAlso
    ++ changeEntry "groups" u.groups
    ++ (if u.flags.isEmpty then [] else [("flags", .flags (u.flags.map FlagChange.toWire))])
    ++ optEntry "comment" u.comment NewComment.toWire
    ++ optEntry "cf_stabilisation_atoms" u.packageList .str
    ++ optEntry "cf_runtime_testing_required" u.runtimeTestingRequired .str)

end Pkgcore.C39
