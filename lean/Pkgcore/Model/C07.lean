import Pkgcore.Model.C01
import Pkgcore.Spec.C02
import Pkgcore.Model.C04
/-!
# C07 model — `__eq__`, `__hash__` and `match` of the restriction classes, as written (after the `fix:` commits)

One inductive `Restr` has a constructor per class (or family of classes sharing their `__eq__`/`__hash__`):

* `values.py`: `StrExactMatch`, `StrGlobMatch`, `StrRegex` (`_HashedGenericEquality`: `_hash` is the first compared
  attribute and only exists once the object has been hashed — field `hashed`), `ContainmentMatch` (sets `_hash` in
  `__init__`), `FlatteningRestriction`, `FunctionRestriction`, `StrConversion`;
* `ebuild/restricts.py`: `_VersionMatch` (`_convert_ops`, revision compared as `Revision`), `_VersionGlobMatch`
  (`cpv.ver_glob_match`, taken from the C04 model), `_UseDepDefaultContainment` (`match_all = not negate`);
* `packages.py`: `PackageRestriction` and its subclasses (class tag `cls`; `VersionMatch.match` bypasses the attribute
  and the wrapper's `negate`), `PackageRestrictionMulti`, `Conditional`;
* `boolean.py`: the four node classes and `KeyedAndRestriction` (`__attr_comparison__ = (__class__, negate, type, restrictions)`);
* `ebuild/atom.py`: atoms — `__eq__` is `__cmp__(other) == 0` and `_hash` the canonical tuple, both taken from the C02
  model (`C02.Atom`, `C02.atomEq`, `C02.atomHashKey`: version compared by PMS value, `!`/`!!`, slot, sub-slot, slot
  operator, sorted USE deps and repository compared);
* `ebuild/conditionals.py`: `DepSet` (`set(self.restrictions) == set(other.restrictions)`);
* objects with identity equality (`AlwaysBool`, `Negate`, `AnyMatch`, `EqualityMatch`): `obj oid`.

`eqv` is Python's `==` on two such objects, `hashKey` the value whose (tuple / frozenset / str / int) hash `__hash__`
returns, `mtch` is `match`.  Primitives that are not modelled (case folding, `re`, user functions, `str()`,
`iflatten_instance`, the match of identity objects) are fields of `Env`, and so is the match of atoms *as a function of
their canonical form* (`C02.Spec.atomCanon`: `atom.match` itself is C04's subject, and that C04's `atomMatch` is
such a function is proved in `Props/C07.lean`: `atom_match_depends_only_on_canon`, `atom_match_factors_through_canon`):
the theorems hold for every environment.  Boolean nodes are evaluated by their propositional reading, which C06 (`match_eq_eval`) proves equal to
the loops of `boolean.py`.
-/
namespace Pkgcore.C07
open Pkgcore.C01 (Ver Rev)

abbrev Str := List Char

/-- what is handed to `match` -/
inductive Value where
  | str (s : Str)
  | strs (xs : List Str)                          -- an iterable of strings (`use`, `iuse_stripped`, …)
  | tuple (xs : List Value)                       -- what `PackageRestrictionMulti` pulls
  | pkg (fields : List (Str × Value)) (ver : Option (Ver × List Char))
      -- a package: attributes, and `(version, revision)` with the revision a `Revision` object (its text);
      -- `none` = unversioned (`pkg.version is None`)
  | other (id : Nat)
  deriving Inhabited

/-- the boolean node classes: And, Or, JustOne, AtMostOne, KeyedAnd -/
inductive Kind | and | or | one | amo | keyedAnd
  deriving DecidableEq, Repr, Inhabited

inductive Restr where
  | strExact (exact : Str) (caseSensitive negate hashed : Bool)
  | strGlob (glob : Str) (isPrefix negate ignoreCase hashed : Bool)
  | strRegex (regex : Str) (negate ignoreCase ismatch hashed : Bool)
  | contain (vals : List Str) (all negate : Bool)
  | useDefault (ifMissing : Bool) (vals : List Str) (negate : Bool)
  | flatten (dontIter : Nat) (child : Restr) (negate : Bool)
  | func (fid : Nat) (negate : Bool)
  | strConv (child : Restr)
  | version (vals : List Int) (droprev negate : Bool) (ver : Ver) (rev : Rev)
  | verGlob (ver : Ver) (rev : Rev)
  | obj (oid : Nat)
  | pkgRestr (cls : Nat) (multi : Bool) (attrs : List (List Str)) (negate : Bool) (child : Restr)
  | conditional (attr : List Str) (negate : Bool) (child : Restr) (payload : List Restr)
  | bool (kind : Kind) (ntype : Nat) (negate : Bool) (cs : List Restr)
  | atom (a : Pkgcore.C02.Atom)
  | depset (cs : List Restr)
  deriving Inhabited

/-- class tags of `restricts.VersionMatch` / `restricts.VersionGlobMatch` (their `match` is `self.restriction.match(pkg)`) -/
def clsVersionMatch : Nat := 1
def clsVersionGlobMatch : Nat := 11

/-! ## equality -/

/-- `Revision.__eq__` / `None`: revisions compare as integers, `None == Revision(x)` iff `x` is revision 0 -/
def revInt : Rev → Nat
  | none => 0
  | some ds => Pkgcore.C01.natOfDigits ds

/-- `_VersionMatch._convert_ops` (after the fix: no special case for `~`) -/
def convertOps (negate : Bool) (vals : List Int) : List Int :=
  if negate then [-1, 0, 1].filter (fun c => !vals.contains c) else vals

mutual
/-- `a == b` -/
def eqv : Restr → Restr → Bool
  | .strExact e c n h, .strExact e' c' n' h' => h == h' && e == e' && c == c' && n == n'
  | .strGlob g p n i h, .strGlob g' p' n' i' h' => h == h' && g == g' && p == p' && n == n' && i == i'
  | .strRegex r n i m h, .strRegex r' n' i' m' h' => h == h' && r == r' && n == n' && i == i' && m == m'
  | .contain v a n, .contain v' a' n' =>
    -- `_hash` (always set, a function of the rest), then `vals` (frozensets), `all`, `negate`
    v.all (fun x => v'.contains x) && v'.all (fun x => v.contains x) && a == a' && n == n'
  | .useDefault m v a, .useDefault m' v' a' =>
    v.all (fun x => v'.contains x) && v'.all (fun x => v.contains x) && a == a' && m == m'
  | .flatten d c n, .flatten d' c' n' => d == d' && eqv c c' && n == n'
  | .func f n, .func f' n' => f == f' && n == n'
  | .strConv c, .strConv c' => eqv c c'
  | .version vals d n ver rev, .version vals' d' n' ver' rev' =>
    d == d' && ver == ver' && revInt rev == revInt rev' && rev.isNone == rev'.isNone
      && convertOps n vals == convertOps n' vals'
  | .verGlob ver rev, .verGlob ver' rev' => ver == ver' && revInt rev == revInt rev'      -- GenericEquality on (ver, rev)
  | .obj i, .obj j => i == j
  | .pkgRestr k m ats n c, .pkgRestr k' m' ats' n' c' => k == k' && n == n' && m == m' && ats == ats' && eqv c c'
  | .conditional ats n c p, .conditional ats' n' c' p' => n == n' && ats == ats' && eqv c c' && eqvList p p'
  | .bool k t n cs, .bool k' t' n' cs' => k == k' && n == n' && t == t' && eqvList cs cs'
  | .atom a, .atom b => Pkgcore.C02.atomEq a b == some true      -- `self.__cmp__(other) == 0`
  | .depset cs, .depset cs' => subsetL cs cs' && cs'.all (fun y => existsL cs y)
  | _, _ => false
termination_by structural a => a
/-- tuple equality -/
def eqvList : List Restr → List Restr → Bool
  | [], [] => true
  | a :: as, b :: bs => eqv a b && eqvList as bs
  | _, _ => false
termination_by structural a => a
/-- every member of the first has an equal in the second -/
def subsetL : List Restr → List Restr → Bool
  | [], _ => true
  | a :: as, bs => bs.any (fun y => eqv a y) && subsetL as bs
termination_by structural a => a
/-- some member of the first equals `y` -/
def existsL : List Restr → Restr → Bool
  | [], _ => false
  | a :: as, y => eqv a y || existsL as y
termination_by structural a => a
end

/-! ## hashing -/

/-- the value that gets hashed: Python's `hash` of a str / int / bool / tuple / frozenset is a function of this
tree (for tuples: of the members' hashes in order; for frozensets: of the set of members' hashes) -/
inductive HK where
  | s (x : Str)
  | b (x : Bool)
  | n (x : Int)
  | id (oid : Nat)          -- identity hash / hash of an opaque object (class, function, type)
  | tup (xs : List HK)
  | fset (xs : List HK)
  | v (x : Ver)             -- the version string (lexing is injective on valid versions)
  deriving Inhabited

def hkOpt {α : Type} (f : α → HK) : Option α → HK
  | none => .tup []
  | some x => .tup [f x]

/-- the tuple `cpv.ver_hash_key` returns -/
def hkVKey (k : Pkgcore.C02.VKey) : HK :=
  .tup [.tup (k.nums.map fun c => match c with | .int n => .n n | .str s => .s s),
        hkOpt (fun c => .s [c]) k.letter,
        .tup (k.sufs.map fun x => .tup [.s x.1.name.toList, .n x.2]),
        .n k.rev]

/-- the tuple hashed into `atom._hash` (C02 `atomHashKey`) as a hash key tree -/
def encAtomKey :
    Str × Str × Str × Option Pkgcore.C02.VKey × Bool × Bool × Str × Str × Str × Option (List Str) × Option Str → HK
  | (cat, pkg, op, vk, blocks, strong, slot, subslot, slotOp, use, repo) =>
    .tup [.s cat, .s pkg, .s op, hkOpt hkVKey vk, .b blocks, .b strong, .s slot, .s subslot, .s slotOp,
          hkOpt (fun u => .tup (u.map .s)) use, hkOpt .s repo]

mutual
def hashKey : Restr → HK
  | .strExact e c n _ => .tup [.s e, .b c, .b n]                    -- tuple(attrs of __attr_comparison__ except _hash)
  | .strGlob g p n i _ => .tup [.s g, .b p, .b n, .b i]
  | .strRegex r n i m _ => .tup [.s r, .b n, .b i, .b m]
  | .contain v a n => .tup [.b a, .b n, .fset (v.map .s)]             -- hash((self.all, self.negate, self.vals))
  | .useDefault _ v n => .tup [.b (!n), .b n, .fset (v.map .s)]       -- inherited; `all` is `not negate`
  | .flatten d c n => .tup [.id d, hashKey c, .b n]
  | .func f n => .tup [.id f, .b n]
  | .strConv c => .tup [hashKey c]
  | .version vals d n ver rev =>                                      -- (droprev, ver, int(rev) or 0, _convert_ops(self))
    .tup [.b d, .v ver, .n (revInt rev), .tup ((convertOps n vals).map .n)]
  | .verGlob ver rev => .tup [.v ver, .n (revInt rev)]               -- (ver, int(rev) or 0)
  | .obj i => .id i
  | .pkgRestr _ _ ats n c => .tup [.b n, .tup (ats.map fun p => .tup (p.map .s)), hashKey c]   -- (negate, attrs, restriction)
  | .conditional ats n c p => .tup [.tup (ats.map .s), .b n, hashKey c, .tup (hashKeys p)]
  | .bool k t n cs => .tup [.id (match k with | .and => 0 | .or => 1 | .one => 2 | .amo => 3 | .keyedAnd => 4),
                            .b n, .n t, .tup (hashKeys cs)]           -- (__class__, negate, type, restrictions)
  | .atom a => encAtomKey (Pkgcore.C02.atomHashKey a)
  | .depset cs => .fset (hashKeys cs)                                 -- hash(frozenset(self.restrictions))
def hashKeys : List Restr → List HK
  | [] => []
  | c :: cs => hashKey c :: hashKeys cs
end

/-! ## match -/

/-- the canonical form of an atom (C02): what distinguishes atoms, versions by their PMS value -/
abbrev AtomCanon :=
  Str × Str × Str × Option Pkgcore.C01.Key × Bool × Bool × Bool × Str × Str × Str × Option (List Str) × Option Str

/-- the primitives the model does not look into -/
structure Env where
  lower : Str → Str
  re : Str → Bool → Bool → Str → Bool          -- regex, IGNORECASE?, re.match (vs search)?, subject
  toStr : Value → Str                          -- `str(value)`
  fn : Nat → Value → Bool                      -- the callables of FunctionRestriction
  objMatch : Nat → Value → Bool                -- match of identity-equality objects
  atomMatch : AtomCanon → Value → Bool         -- atom.match as a function of the atom's canonical form
  flat : Nat → Value → Value                   -- iflatten_instance(val, dont_iter)

def isInfix (a b : Str) : Bool := (List.range (b.length + 1)).any fun i => (b.drop i).take a.length == a

/-- dotted attribute lookup (`attrgetter("a.b")`); `none` = AttributeError -/
def pull : List Str → Value → Option Value
  | [], v => some v
  | a :: rest, .pkg fields _ => match fields.lookup a with
    | some v => pull rest v
    | none => none
  | _ :: _, _ => none

def pullAll (attrs : List (List Str)) (v : Value) : Option (List Value) := attrs.mapM (fun a => pull a v)

/-- `ContainmentMatch.match(val, _values_override=vals)` on a string or an iterable of strings -/
def containMatch (vals : List Str) (all negate : Bool) : Value → Bool
  | .str s => if vals.any (fun f => isInfix f s) then !negate else negate
  | .strs xs => if all then (vals.all fun v => xs.contains v) != negate
                else (vals.all fun v => !xs.contains v) == negate
  | _ => negate

mutual
def mtch (env : Env) : Restr → Value → Bool
  | .strExact e c n _, x =>
    let s := env.toStr x
    (if c then e == s else e == env.lower s) != n
  | .strGlob g p n i _, x =>
    let s := if i then env.lower (env.toStr x) else env.toStr x
    (if p then g.isPrefixOf s else g.isSuffixOf s) != n
  | .strRegex r n i m _, x => env.re r i m (env.toStr x) != n
  | .contain v a n, x => containMatch v a n x
  | .useDefault m v n, x =>
    match x with
    | .tuple [.strs iuse, .strs use] =>
      if v.all (fun f => iuse.contains f) then containMatch v (!n) n (.strs use)
      else if m == n then false
      else
        let reduced := v.filter fun f => iuse.contains f
        if reduced.isEmpty then true else containMatch reduced (!n) n (.strs use)
    | _ => false
  | .flatten d c n, x => mtch env c (env.flat d x) != n
  | .func f n, x => env.fn f x != n
  | .strConv c, x => mtch env c (.str (env.toStr x))
  | .version vals d n ver rev, x =>
    match x with
    | .pkg _ (some (pv, pr)) => Pkgcore.C01.versionMatch vals d n ver rev pv (some pr)
    | _ => false                                                    -- pkg.version is None
  | .verGlob ver rev, x =>
    match x with
    | .pkg _ (some (pv, pr)) => Pkgcore.C04.verGlobMatch ver (rev.getD []) pv pr   -- cpv.ver_glob_match(ver, rev, …)
    | _ => false                                                    -- pkg.version is None
  | .obj i, x => env.objMatch i x
  | .pkgRestr k multi ats n c, x =>
    if k == clsVersionMatch || k == clsVersionGlobMatch then mtch env c x   -- (Version|VersionGlob)Match.match: self.restriction.match(pkg)
    else if multi then
      match pullAll ats x with
      | none => n                                                   -- sentinel: return self.negate
      | some vs => mtch env c (.tuple vs) != n
    else
      match ats with
      | [a] => (match pull a x with
        | none => n
        | some v => mtch env c v != n)
      | _ => n
  | .conditional ats n c _, x =>
    match pull ats x with
    | none => n
    | some v => mtch env c v != n
  | .bool k _ n cs, x =>
    match k with
    | .and | .keyedAnd => allM env cs x != n
    | .or => anyM env cs x != n
    | .one => (cs.isEmpty || countM env cs x == 1) != n
    | .amo => decide (countM env cs x ≤ 1) != n
  | .atom a, x => env.atomMatch (Pkgcore.C02.Spec.atomCanon a) x
  | .depset cs, x => allM env cs x        -- a DepSet has no `match`; its meaning is the conjunction of its members
def allM (env : Env) : List Restr → Value → Bool
  | [], _ => true
  | c :: cs, x => mtch env c x && allM env cs x
def anyM (env : Env) : List Restr → Value → Bool
  | [], _ => false
  | c :: cs, x => mtch env c x || anyM env cs x
def countM (env : Env) : List Restr → Value → Nat
  | [], _ => 0
  | c :: cs, x => (if mtch env c x then 1 else 0) + countM env cs x
end

/-! ## building a boolean node step by step (`finalize=False`, `add_restriction`, `finalize`)

The state of a node under construction is its `restrictions` (a list until finalized, then a tuple), and the `_hash`
slot filled by `cached_hash`.  `__hash__` raises `TypeError` ("isn't finalized") while `restrictions` is a list, so the
slot can only be filled once the children are final; `add_restriction` raises `TypeError` on a finalized node (a tuple
has no `extend`) and when called without arguments. -/
structure Builder where
  cs : List Restr
  finalized : Bool
  cached : Option HK

inductive BOp where
  | hash                       -- hash(node): dict key, set member, argument of an instance-cached parent, …
  | add (rs : List Restr)      -- node.add_restriction(*rs)
  | finalize                   -- node.finalize()

/-- one call; the `Bool` is `false` when the call raises `TypeError` (the node is then unchanged) -/
def bstep (k : Kind) (t : Nat) (n : Bool) (b : Builder) : BOp → Builder × Bool
  | .hash =>
    match b.cached with
    | some _ => (b, true)                                             -- cached_hash: the stored value
    | none =>
      if b.finalized then ({ b with cached := some (hashKey (.bool k t n b.cs)) }, true)
      else (b, false)                                                 -- TypeError: isn't finalized
  | .add rs =>
    if rs.isEmpty then (b, false)                                     -- TypeError: need at least one restriction
    else if b.finalized then (b, false)                               -- TypeError: is finalized
    else ({ b with cs := b.cs ++ rs }, true)
  | .finalize => ({ b with finalized := true }, true)

def brun (k : Kind) (t : Nat) (n : Bool) : Builder → List BOp → Builder
  | b, [] => b
  | b, op :: ops => brun k t n (bstep k t n b op).1 ops

/-! ## the instance caches (`snakeoil.caching.WeakInstMeta`)

Almost every restriction class is instance cached: `cls(*args, **kw)` looks `(args, kw)` up in the class's weak
dictionary of alive instances — a dict lookup, i.e. by hash and `==` of the arguments, children included — and hands
out the stored instance instead of building a new one.  The composite classes build their inner trees that way
(`StaticUseDep` / `UseDepDefault`: `values.AndRestriction(*containments)`; atoms: their whole restriction tuple), so what
an object is made of depends on which other restrictions happen to be alive when it is built.

`cachedBuild` rebuilds a description bottom-up through such caches.  The caches are abstract: a state `σ` and a
function `step` that is asked once per constructor call with the instance that would be built and answers with an
alive instance to hand out instead (or `none`: build) and the next state (instances registered, weak references
gone, …).  The only thing known about a hit is what the dict lookup guarantees — see `Props`. -/

/-- one constructor call: whatever the cache hands out, else the fresh instance -/
def pick {σ : Type} (step : σ → Restr → Option Restr × σ) (s : σ) (fresh : Restr) : Restr × σ :=
  ((step s fresh).1.getD fresh, (step s fresh).2)

mutual
def cachedBuild {σ : Type} (step : σ → Restr → Option Restr × σ) : σ → Restr → Restr × σ
  | s, .flatten d c n => pick step (cachedBuild step s c).2 (.flatten d (cachedBuild step s c).1 n)
  | s, .strConv c => ((.strConv (cachedBuild step s c).1), (cachedBuild step s c).2)      -- not a cached class
  | s, .pkgRestr k m ats n c => pick step (cachedBuild step s c).2 (.pkgRestr k m ats n (cachedBuild step s c).1)
  | s, .conditional ats n c p =>
    pick step (cachedBuildL step (cachedBuild step s c).2 p).2
      (.conditional ats n (cachedBuild step s c).1 (cachedBuildL step (cachedBuild step s c).2 p).1)
  | s, .bool k t n cs => pick step (cachedBuildL step s cs).2 (.bool k t n (cachedBuildL step s cs).1)
  | s, .depset cs => (.depset (cachedBuildL step s cs).1, (cachedBuildL step s cs).2)     -- DepSet itself is not cached
  | s, .strExact e c n h => pick step s (.strExact e c n h)
  | s, .strGlob g p n i h => pick step s (.strGlob g p n i h)
  | s, .strRegex r n i m h => pick step s (.strRegex r n i m h)
  | s, .contain v a n => pick step s (.contain v a n)
  | s, .useDefault m v n => (.useDefault m v n, s)                                          -- `caching=False`
  | s, .func f n => pick step s (.func f n)
  | s, .version vals d n ver rev => pick step s (.version vals d n ver rev)
  | s, .verGlob ver rev => pick step s (.verGlob ver rev)
  | s, .obj i => pick step s (.obj i)
  | s, .atom a => pick step s (.atom a)
termination_by structural _ r => r
def cachedBuildL {σ : Type} (step : σ → Restr → Option Restr × σ) : σ → List Restr → List Restr × σ
  | s, [] => ([], s)
  | s, c :: cs =>
    ((cachedBuild step s c).1 :: (cachedBuildL step (cachedBuild step s c).2 cs).1,
     (cachedBuildL step (cachedBuild step s c).2 cs).2)
termination_by structural _ cs => cs
end

end Pkgcore.C07
