import Pkgcore.Model.C01
/-!
# C07 model — `__eq__`, `__hash__` and `match` of the restriction classes, as written (after the `fix:` commits)

One inductive `Restr` has a constructor per class (or family of classes sharing their `__eq__`/`__hash__`):

* `values.py`: `StrExactMatch`, `StrGlobMatch`, `StrRegex` (`_HashedGenericEquality`: `_hash` is the first compared
  attribute and only exists once the object has been hashed — field `hashed`), `ContainmentMatch` (sets `_hash` in
  `__init__`), `FlatteningRestriction`, `FunctionRestriction`, `StrConversion`;
* `ebuild/restricts.py`: `_VersionMatch` (`_convert_ops`, revision compared as `Revision`), `_UseDepDefaultContainment`;
* `packages.py`: `PackageRestriction` and its subclasses (class tag `cls`; `VersionMatch.match` bypasses the attribute
  and the wrapper's `negate`), `PackageRestrictionMulti`, `Conditional`;
* `boolean.py`: the four node classes and `KeyedAndRestriction` (`__attr_comparison__ = (__class__, negate, type, restrictions)`);
* `ebuild/atom.py`: atoms (`GenericEquality` over the parsed attributes, rendered to strings by the harness);
* `ebuild/conditionals.py`: `DepSet` (`set(self.restrictions) == set(other.restrictions)`);
* objects with identity equality (`AlwaysBool`, `Negate`, `AnyMatch`, `EqualityMatch`): `obj oid`.

`eqv` is Python's `==` on two such objects, `hashKey` the value whose (tuple / frozenset / str / int) hash `__hash__`
returns, `mtch` is `match`.  Primitives that are not modelled (case folding, `re`, user functions, `str()`,
`iflatten_instance`, the match of identity objects and of atoms) are fields of `Env`: the theorems hold for every
environment.  Boolean nodes are evaluated by their propositional reading, which C06 (`match_eq_eval`) proves equal to
the loops of `boolean.py`.
-/
namespace Pkgcore.C07
open Pkgcore.C01 (Ver Rev)

abbrev Str := List Char

/-- what is handed to `match` -/
inductive Value where
  | str (s : Str)
  | strs (xs : List Str)                          -- an iterable of strings (`use`, `iuse_stripped`, …)
  | tuple (xs : List Value)                       -- what `PackageRestrictionMulti` pulls
  | pkg (fields : List (Str × Value)) (ver : Option (Ver × List Char))
      -- a package: attributes, and `(version, revision)` with the revision a `Revision` object (its text);
      -- `none` = unversioned (`pkg.version is None`)
  | other (id : Nat)
  deriving Inhabited

/-- the boolean node classes: And, Or, JustOne, AtMostOne, KeyedAnd -/
inductive Kind | and | or | one | amo | keyedAnd
  deriving DecidableEq, Repr, Inhabited

inductive Restr where
  | strExact (exact : Str) (caseSensitive negate hashed : Bool)
  | strGlob (glob : Str) (isPrefix negate ignoreCase hashed : Bool)
  | strRegex (regex : Str) (negate ignoreCase ismatch hashed : Bool)
  | contain (vals : List Str) (all negate : Bool)
  | useDefault (ifMissing : Bool) (vals : List Str) (negate : Bool)
  | flatten (dontIter : Nat) (child : Restr) (negate : Bool)
  | func (fid : Nat) (negate : Bool)
  | strConv (child : Restr)
  | version (vals : List Int) (droprev negate : Bool) (ver : Ver) (rev : Rev)
  | obj (oid : Nat)
  | pkgRestr (cls : Nat) (multi : Bool) (attrs : List (List Str)) (negate : Bool) (child : Restr)
  | conditional (attr : List Str) (negate : Bool) (child : Restr) (payload : List Restr)
  | bool (kind : Kind) (ntype : Nat) (negate : Bool) (cs : List Restr)
  | atom (key : List Str) (strong : Bool)
  | depset (cs : List Restr)
  deriving Inhabited

/-- class tag of `restricts.VersionMatch` (its `match` is `self.restriction.match(pkg)`) -/
def clsVersionMatch : Nat := 1

/-! ## equality -/

/-- `Revision.__eq__` / `None`: revisions compare as integers, `None == Revision(x)` iff `x` is revision 0 -/
def revInt : Rev → Nat
  | none => 0
  | some ds => Pkgcore.C01.natOfDigits ds

/-- `_VersionMatch._convert_ops` (after the fix: no special case for `~`) -/
def convertOps (negate : Bool) (vals : List Int) : List Int :=
  if negate then [-1, 0, 1].filter (fun c => !vals.contains c) else vals

mutual
/-- `a == b` -/
def eqv : Restr → Restr → Bool
  | .strExact e c n h, .strExact e' c' n' h' => h == h' && e == e' && c == c' && n == n'
  | .strGlob g p n i h, .strGlob g' p' n' i' h' => h == h' && g == g' && p == p' && n == n' && i == i'
  | .strRegex r n i m h, .strRegex r' n' i' m' h' => h == h' && r == r' && n == n' && i == i' && m == m'
  | .contain v a n, .contain v' a' n' =>
    -- `_hash` (always set, a function of the rest), then `vals` (frozensets), `all`, `negate`
    v.all (fun x => v'.contains x) && v'.all (fun x => v.contains x) && a == a' && n == n'
  | .useDefault m v a, .useDefault m' v' a' =>
    v.all (fun x => v'.contains x) && v'.all (fun x => v.contains x) && a == a' && m == m'
  | .flatten d c n, .flatten d' c' n' => d == d' && eqv c c' && n == n'
  | .func f n, .func f' n' => f == f' && n == n'
  | .strConv c, .strConv c' => eqv c c'
  | .version vals d n ver rev, .version vals' d' n' ver' rev' =>
    d == d' && ver == ver' && revInt rev == revInt rev' && rev.isNone == rev'.isNone
      && convertOps n vals == convertOps n' vals'
  | .obj i, .obj j => i == j
  | .pkgRestr k m ats n c, .pkgRestr k' m' ats' n' c' => k == k' && n == n' && m == m' && ats == ats' && eqv c c'
  | .conditional ats n c p, .conditional ats' n' c' p' => n == n' && ats == ats' && eqv c c' && eqvList p p'
  | .bool k t n cs, .bool k' t' n' cs' => k == k' && n == n' && t == t' && eqvList cs cs'
  | .atom k _, .atom k' _ => k == k'
  | .depset cs, .depset cs' => subsetL cs cs' && cs'.all (fun y => existsL cs y)
  | _, _ => false
termination_by structural a => a
/-- tuple equality -/
def eqvList : List Restr → List Restr → Bool
  | [], [] => true
  | a :: as, b :: bs => eqv a b && eqvList as bs
  | _, _ => false
termination_by structural a => a
/-- every member of the first has an equal in the second -/
def subsetL : List Restr → List Restr → Bool
  | [], _ => true
  | a :: as, bs => bs.any (fun y => eqv a y) && subsetL as bs
termination_by structural a => a
/-- some member of the first equals `y` -/
def existsL : List Restr → Restr → Bool
  | [], _ => false
  | a :: as, y => eqv a y || existsL as y
termination_by structural a => a
end

/-! ## hashing -/

/-- the value that gets hashed: Python's `hash` of a str / int / bool / tuple / frozenset is a function of this
tree (for tuples: of the members' hashes in order; for frozensets: of the set of members' hashes) -/
inductive HK where
  | s (x : Str)
  | b (x : Bool)
  | n (x : Int)
  | id (oid : Nat)          -- identity hash / hash of an opaque object (class, function, type)
  | tup (xs : List HK)
  | fset (xs : List HK)
  | v (x : Ver)             -- the version string (lexing is injective on valid versions)
  deriving Inhabited

mutual
def hashKey : Restr → HK
  | .strExact e c n _ => .tup [.s e, .b c, .b n]                    -- tuple(attrs of __attr_comparison__ except _hash)
  | .strGlob g p n i _ => .tup [.s g, .b p, .b n, .b i]
  | .strRegex r n i m _ => .tup [.s r, .b n, .b i, .b m]
  | .contain v a n => .tup [.b a, .b n, .fset (v.map .s)]             -- hash((self.all, self.negate, self.vals))
  | .useDefault _ v n => .tup [.b true, .b n, .fset (v.map .s)]       -- inherited; `all` is always True
  | .flatten d c n => .tup [.id d, hashKey c, .b n]
  | .func f n => .tup [.id f, .b n]
  | .strConv c => .tup [hashKey c]
  | .version vals d n ver rev =>                                      -- (droprev, ver, int(rev) or 0, _convert_ops(self))
    .tup [.b d, .v ver, .n (revInt rev), .tup ((convertOps n vals).map .n)]
  | .obj i => .id i
  | .pkgRestr _ _ ats n c => .tup [.b n, .tup (ats.map fun p => .tup (p.map .s)), hashKey c]   -- (negate, attrs, restriction)
  | .conditional ats n c p => .tup [.tup (ats.map .s), .b n, hashKey c, .tup (hashKeys p)]
  | .bool k t n cs => .tup [.id (match k with | .and => 0 | .or => 1 | .one => 2 | .amo => 3 | .keyedAnd => 4),
                            .b n, .n t, .tup (hashKeys cs)]           -- (__class__, negate, type, restrictions)
  | .atom k _ => .tup (k.map .s)
  | .depset cs => .fset (hashKeys cs)                                 -- hash(frozenset(self.restrictions))
def hashKeys : List Restr → List HK
  | [] => []
  | c :: cs => hashKey c :: hashKeys cs
end

/-! ## match -/

/-- the primitives the model does not look into -/
structure Env where
  lower : Str → Str
  re : Str → Bool → Bool → Str → Bool          -- regex, IGNORECASE?, re.match (vs search)?, subject
  toStr : Value → Str                          -- `str(value)`
  fn : Nat → Value → Bool                      -- the callables of FunctionRestriction
  objMatch : Nat → Value → Bool                -- match of identity-equality objects
  atomMatch : List Str → Value → Bool          -- atom.match as a function of the compared attributes
  flat : Nat → Value → Value                   -- iflatten_instance(val, dont_iter)

def isInfix (a b : Str) : Bool := (List.range (b.length + 1)).any fun i => (b.drop i).take a.length == a

/-- dotted attribute lookup (`attrgetter("a.b")`); `none` = AttributeError -/
def pull : List Str → Value → Option Value
  | [], v => some v
  | a :: rest, .pkg fields _ => match fields.lookup a with
    | some v => pull rest v
    | none => none
  | _ :: _, _ => none

def pullAll (attrs : List (List Str)) (v : Value) : Option (List Value) := attrs.mapM (fun a => pull a v)

/-- `ContainmentMatch.match(val, _values_override=vals)` on a string or an iterable of strings -/
def containMatch (vals : List Str) (all negate : Bool) : Value → Bool
  | .str s => if vals.any (fun f => isInfix f s) then !negate else negate
  | .strs xs => if all then (vals.all fun v => xs.contains v) != negate
                else (vals.all fun v => !xs.contains v) == negate
  | _ => negate

mutual
def mtch (env : Env) : Restr → Value → Bool
  | .strExact e c n _, x =>
    let s := env.toStr x
    (if c then e == s else e == env.lower s) != n
  | .strGlob g p n i _, x =>
    let s := if i then env.lower (env.toStr x) else env.toStr x
    (if p then g.isPrefixOf s else g.isSuffixOf s) != n
  | .strRegex r n i m _, x => env.re r i m (env.toStr x) != n
  | .contain v a n, x => containMatch v a n x
  | .useDefault m v n, x =>
    match x with
    | .tuple [.strs iuse, .strs use] =>
      if v.all (fun f => iuse.contains f) then containMatch v true n (.strs use)
      else if m == n then false
      else
        let reduced := v.filter fun f => iuse.contains f
        if reduced.isEmpty then true else containMatch reduced true n (.strs use)
    | _ => false
  | .flatten d c n, x => mtch env c (env.flat d x) != n
  | .func f n, x => env.fn f x != n
  | .strConv c, x => mtch env c (.str (env.toStr x))
  | .version vals d n ver rev, x =>
    match x with
    | .pkg _ (some (pv, pr)) => Pkgcore.C01.versionMatch vals d n ver rev pv (some pr)
    | _ => false                                                    -- pkg.version is None
  | .obj i, x => env.objMatch i x
  | .pkgRestr k multi ats n c, x =>
    if k == clsVersionMatch then mtch env c x                       -- VersionMatch.match: self.restriction.match(pkg)
    else if multi then
      match pullAll ats x with
      | none => n                                                   -- sentinel: return self.negate
      | some vs => mtch env c (.tuple vs) != n
    else
      match ats with
      | [a] => (match pull a x with
        | none => n
        | some v => mtch env c v != n)
      | _ => n
  | .conditional ats n c _, x =>
    match pull ats x with
    | none => n
    | some v => mtch env c v != n
  | .bool k _ n cs, x =>
    match k with
    | .and | .keyedAnd => allM env cs x != n
    | .or => anyM env cs x != n
    | .one => (cs.isEmpty || countM env cs x == 1) != n
    | .amo => decide (countM env cs x ≤ 1) != n
  | .atom k _, x => env.atomMatch k x
  | .depset cs, x => allM env cs x        -- a DepSet has no `match`; its meaning is the conjunction of its members
def allM (env : Env) : List Restr → Value → Bool
  | [], _ => true
  | c :: cs, x => mtch env c x && allM env cs x
def anyM (env : Env) : List Restr → Value → Bool
  | [], _ => false
  | c :: cs, x => mtch env c x || anyM env cs x
def countM (env : Env) : List Restr → Value → Nat
  | [], _ => 0
  | c :: cs, x => (if mtch env c x then 1 else 0) + countM env cs x
end

end Pkgcore.C07
