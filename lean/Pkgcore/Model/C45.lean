import Pkgcore.Model.C01
import Pkgcore.Generated.C45Tables
/-!
# C45 model — `pkgcore.pkgsets.glsa.GlsaDirSet.generate_restrict_from_range` and
`generate_intersects_from_pkg_node` as written (after the `fix:` commits: negated globs, slot for every kind of
range, `rle` on a revision-less version with an explicit revision).

XML parsing (lxml) and version lexing are glue: a `<vulnerable>`/`<unaffected>` node arrives as `RangeNode` — the
stripped `range` and `slot` attributes and, for the text, whether it ends in `*` and what
`cpv.VersionedCPV("cat/pkg-" + base)` makes of the rest (`fullver`, the lexed `version`, the digits of `revision`;
`none` = InvalidCPV).  The correspondence run renders the nodes to XML files and reads them with the real
`GlsaDirSet`.  Exceptions (`ValueError` …) are `Except.error ()`: `iter_vulnerabilities` logs them and skips the
package entry.  The entry name is a plain `category/package`, matched by key (`atom(name).match`).
-/
namespace Pkgcore.C45
open Pkgcore.C01 (Ver)

abbrev Str := List Char

structure VerText where
  glob : Bool                         -- the text ends with `*`
  parsed : Option (Str × Ver × Str)   -- base.fullver, base.version (lexed), digits of base.revision
  deriving Repr

structure RangeNode where
  op : Str                 -- node.get("range").strip()
  slot : Str               -- node.get("slot", "").strip()
  text : Option VerText    -- `none`: node.text is None
  deriving Repr

/-- the restrictions built for one range -/
inductive VR
  | vmatch (op : Str) (v : Ver) (rev : Option Str)   -- atom_restricts.VersionMatch(op, version, rev=rev)
  | pfx (fullver : Str)                              -- PackageRestriction("fullver", StrGlobMatch(fullver))
  | slot (s : Str)                                   -- atom_restricts.SlotDep(slot)
  deriving DecidableEq, Repr

/-- `packages.AndRestriction(*parts, negate=negate)` -/
structure RangeR where
  parts : List VR
  negate : Bool
  deriving DecidableEq, Repr

structure Pkg where
  key : Str             -- category/package
  fullver : Str
  ver : Ver
  rev : Str             -- digits of the revision, `""` when there is none
  slot : Str
  keywords : List Str
  deriving Repr

/-- `self.op_translate[key]` (generated table) -/
def opTranslate (key : Str) : Option Str :=
  (Generated.C45.opTranslate.lookup (String.ofList key)).map String.toList

/-- `op.lstrip("r")` -/
def lstripR (s : Str) : Str := s.dropWhile (· = 'r')

/-- `generate_restrict_from_range(node, negate)` -/
def restrictFromRange (n : RangeNode) (negate : Bool) : Except Unit RangeR :=
  match opTranslate (lstripR n.op) with
  | none => .error ()                                   -- unknown operator
  | some restrict =>
    match n.text with
    | none => .error ()                                 -- node missing version
    | some t =>
      match t.parsed with
      | none => .error ()                               -- InvalidCPV
      | some (fullver, v, rev) =>
        let slotPart : List VR := if n.slot = [] then [] else [.slot n.slot]
        if t.glob then
          if n.op ≠ "eq".toList then .error ()          -- glob cannot be used with other ops
          else .ok ⟨[.pfx fullver] ++ slotPart, negate⟩
        else if (n.op = "rlt".toList ∨ n.op = "rle".toList ∨ n.op = "rge".toList) ∧ rev = [] then
          if n.op = "rlt".toList then .error ()         -- guaranteed empty set
          else if n.op = "rle".toList then .ok ⟨[.vmatch ['='] v (some rev)] ++ slotPart, negate⟩
          else .ok ⟨[.vmatch ['~'] v none] ++ slotPart, negate⟩
        else
          let tilde : List VR := if n.op.head? = some 'r' then [.vmatch ['~'] v none] else []
          .ok ⟨tilde ++ [.vmatch restrict v (some rev)] ++ slotPart, negate⟩

def VR.eval (p : Pkg) : VR → Bool
  | .vmatch op v rev =>
    match C01.opVals (String.ofList op) with
    | some (vals, droprev) => C01.versionMatch vals droprev false v rev p.ver (some p.rev)
    | none => false
  | .pfx fullver => fullver.isPrefixOf p.fullver        -- str(value).startswith(glob)
  | .slot s => p.slot = s

def RangeR.eval (p : Pkg) (r : RangeR) : Bool := (r.parts.all (VR.eval p)) != r.negate

/-- an `<affected><package>` node -/
structure PkgNode where
  name : Str
  nameOk : Bool                  -- `atom.atom(name)` parses
  arch : Option (List Str)       -- `arch` attribute, stripped and split; `none` = no attribute
  vulnerable : List RangeNode
  unaffected : List RangeNode
  deriving Repr

/-- what `generate_intersects_from_pkg_node` returns, flattened -/
structure Advisory where
  vuln : List RangeR             -- OrRestriction(*vuln_list) (or the single element)
  arch : Option (List Str)       -- ContainmentMatch(arch, match_all=False) on `keywords`
  invuln : List RangeR           -- the negated unaffected ranges
  deriving Repr

def archFilter : Option (List Str) → Option (List Str)
  | none => none
  | some l => if l = [] ∨ ['*'] ∈ l then none else some l

/-- `generate_intersects_from_pkg_node`; `.ok none` = `return None` (no vulnerable node) -/
def fromPkgNode (n : PkgNode) : Except Unit (Option Advisory) :=
  if n.vulnerable = [] then .ok none
  else
    match n.vulnerable.mapM (restrictFromRange · false) with
    | .error e => .error e
    | .ok vulnList =>
      match n.unaffected.mapM (restrictFromRange · true) with
      | .error e => .error e
      | .ok inv => .ok (some ⟨vulnList, archFilter n.arch, inv.filter (fun x => x ∉ vulnList)⟩)

/-- `PackageRestriction("keywords", ContainmentMatch(arch, match_all=False))` when arches are named -/
def archOk (arch : Option (List Str)) (p : Pkg) : Bool :=
  match arch with
  | none => true
  | some l => l.any (· ∈ p.keywords)

def Advisory.eval (a : Advisory) (p : Pkg) : Bool :=
  a.vuln.any (RangeR.eval p) && archOk a.arch p && a.invuln.all (RangeR.eval p)

/-- one iteration of `iter_vulnerabilities` + `__iter__`: `none` = nothing yielded for this package node, otherwise
what `KeyedAndRestriction(pkgatom, vuln).match(pkg)` gives -/
def entryMatch (n : PkgNode) (p : Pkg) : Option Bool :=
  match fromPkgNode n with
  | .error _ => none
  | .ok none => none
  | .ok (some a) => if n.nameOk then some (decide (p.key = n.name) && a.eval p) else none

/-- what one `GlsaDirSet` object yields, in order, for a directory of advisory files (each a list of `<package>`
nodes), evaluated on `p`: `iter_vulnerabilities` walks the files, then the nodes, and builds every restriction from
its node alone — the object keeps nothing between nodes, files or iterations -/
def dirMatch (files : List (List PkgNode)) (p : Pkg) : List Bool :=
  files.flatMap fun nodes => nodes.filterMap fun n => entryMatch n p

end Pkgcore.C45
