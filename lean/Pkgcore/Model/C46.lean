/-!
# C46 model — the set algebra of `pclean dist` (`_dist_validate_args`), the file filters and `_remove`, as written
(after the `fix:` commit: `--exists` collects the distfiles of every ebuild also when targets are given).

Abstracted, and instantiated by the correspondence run from the real code:
* which repository packages the target restriction / the exclusion restriction match (`targeted`, `excluded`);
* which files of the distdir the file-name patterns guessed from the targeted packages select (`selected`) — obtained
  by running the real function once with every exclusion switched off;
* `os.stat` of each file (`mtime`, `size`), the `--modified` / `--size` thresholds after `parse_time`/`parse_size`.
Python sets are lists compared by membership; the removal order is `sorted(...)`.
-/
namespace Pkgcore.C46

structure FileInfo where
  name : String
  mtime : Nat
  size : Nat
  deriving Repr

structure RepoPkg where
  distfiles : List String        -- getattr(pkg, "_raw_pkg", pkg).distfiles, flattened
  fetchRestricted : Bool         -- "fetch" in pkg.restrict
  targeted : Bool                -- namespace.restrict matches it
  excluded : Bool                -- namespace.exclude_restrict matches it
  broken : Bool                  -- evaluating `.distfiles` raises MetadataException (unparsable SRC_URI); `distfiles`
                                 -- is then what the ebuild means to fetch and is never seen by the code
  deriving Repr

structure Opts where
  excludeInstalled : Bool
  excludeExists : Bool
  excludeFetchRestricted : Bool
  hasRestrict : Bool             -- bool(namespace.restrict)
  hasExclude : Bool              -- bool(namespace.exclude_restrict)
  modified : Option Nat          -- keep files with st_mtime >= this
  size : Option Nat              -- keep files with st_size >= this
  deriving Repr

structure Input where
  files : List FileInfo          -- listdir_files(distdir) with their stat
  selected : List String         -- files matched by the guessed file-name patterns (only read when hasRestrict)
  installed : List (List String) -- pkg.distfiles of every installed package
  repo : List RepoPkg
  opts : Opts
  deriving Repr

def names (i : Input) : List String := i.files.map (·.name)

def installedDist (i : Input) : List String :=
  if i.opts.excludeInstalled then i.installed.flatten else []

/-- `for pkg in repo:` runs when `--fetch-restricted` or `--exists` is given -/
def scans (i : Input) : Bool := i.opts.excludeFetchRestricted || i.opts.excludeExists

def existsDist (i : Input) : List String :=
  (if scans i then (i.repo.map (·.distfiles)).flatten else []) ++
  (if i.opts.hasRestrict && i.opts.excludeExists then ((i.repo.filter (·.targeted)).map (·.distfiles)).flatten else [])

def restrictedDist (i : Input) : List String :=
  if scans i then ((i.repo.filter (·.fetchRestricted)).map (·.distfiles)).flatten else []

def excludesDist (i : Input) : List String :=
  if i.opts.hasExclude then ((i.repo.filter (·.excluded)).map (·.distfiles)).flatten else []

/-- `saving_files = installed_dist | exists_dist | excludes_dist | restricted_dist` -/
def saving (i : Input) : List String := installedDist i ++ existsDist i ++ excludesDist i ++ restrictedDist i

/-- `target_files` before the saving files are taken out: without a target restriction every file of the distdir; with
one, the files its patterns select — and nothing at all when the restriction matches no package (`if target_dist:`) -/
def targetFiles (i : Input) : List String :=
  if i.opts.hasRestrict then (if i.repo.any (·.targeted) then i.selected else []) else names i

/-- `namespace.file_filters.run` -/
def passes (i : Input) (f : String) : Bool :=
  match i.files.find? (·.name = f) with
  | none => false
  | some fi =>
    (match i.opts.modified with | some t => decide (fi.mtime < t) | none => true) &&
    (match i.opts.size with | some s => decide (fi.size < s) | none => true)

/-- the paths handed to `os.remove`, in order:
`filter(file_filters.run, sorted(all_dist_files ∩ (target_files − saving_files)))` -/
def removed (i : Input) : List String :=
  (((names i).eraseDups.filter (fun f => (targetFiles i).contains f && !(saving i).contains f)).mergeSort (· ≤ ·)).filter (passes i)

/-- the distdir after `_remove` ran (every `os.remove` succeeding) -/
def left (i : Input) : List String := (names i).filter (fun f => !(removed i).contains f)

/-! ## Packages whose metadata cannot be read

`.distfiles` of a package with an unparsable SRC_URI raises `MetadataException`; `_dist_validate_args` has no handler,
so the exception leaves the function (argument parsing fails) and `_remove` is never reached.  The attribute is
evaluated for every package of the repository when `--exists` / `--fetch-restricted` is given, for the packages the
exclusion restriction matches, and for the packages the target restriction matches. -/

/-- one of the three loops evaluates `pkg.distfiles` -/
def touched (i : Input) (p : RepoPkg) : Bool :=
  scans i || (i.opts.hasExclude && p.excluded) || (i.opts.hasRestrict && p.targeted)

/-- `_dist_validate_args` raises `MetadataException` -/
def aborts (i : Input) : Bool := i.repo.any (fun p => p.broken && touched i p)

/-- what `pclean dist` hands to `os.remove`: `none` when argument validation raised (nothing is removed) -/
def run (i : Input) : Option (List String) := if aborts i then none else some (removed i)

/-- the distdir after the command -/
def leftAfter (i : Input) : List String :=
  match run i with
  | none => names i
  | some r => (names i).filter (fun f => !r.contains f)

/-- the same scenario with the unreadable `distfiles` blanked: what the code can actually see -/
def visible (i : Input) : Input :=
  { i with repo := i.repo.map (fun p => if p.broken then { p with distfiles := [] } else p) }

end Pkgcore.C46
