import Pkgcore.Model.C10
/-!
# C10 solver model — `snakeoil.constraints.Problem` as written

A faithful, executable model of `/venv/lib/python3.12/site-packages/snakeoil/constraints.py` (the backtracking solver
`find_constraint_satisfaction` hands the compiled REQUIRED_USE constraints to).  It replaces the *contract* of
`Pkgcore.C10.solve` (cartesian product of the domains filtered by the constraints).

What mirrors what:

* `Dom` is `_Domain`: the visible list (`list` itself), the `_hidden` stack and the `_states` stack; `hideValue`,
  `pushState`, `popState` are the three methods, statement by statement.  Note that `pop_state` re-appends the hidden
  values **at the end** of the list — a value that was hidden and restored moves behind the values that stayed, which
  changes the order in which that domain is enumerated later.  The model keeps that.
* `Store` is `self.variables` (a dict: an association list in insertion order, read with `lookup`).
* `Constraint` is one `(constraint, variables)` pair of `add_constraint`: `scope` the variables (a `frozenset`: a
  duplicate-free list, iteration order immaterial — see `check`), `pred` the callable.  The callable receives keyword
  arguments for exactly the variables of the scope: the model hands it the lookup function `known scope assignments`,
  which is `none` outside the scope.
* `vconstraints[v]` is not stored: it is `cons.filter (v ∈ ·.scope)` (`vcons`), the constraints that mention `v` in
  the order they were added, which is what the incrementally maintained dict of lists holds.
* `check` is `__check`: no unassigned variable in the scope ⇒ call the constraint; exactly one ⇒ forward checking
  (collect the values of that variable's visible domain that violate the constraint, hide them, answer whether the
  domain is still non-empty); two or more ⇒ `True`.  (The Python loop over the frozenset returns `True` as soon as it
  sees a second unassigned name; which name it sees first does not matter.)
* `checkAll` is the short-circuiting `all(self.__check(…) for … in self.vconstraints[variable])`.
* `selectVar` is the `min((degrees[name], len(domain), name) …)` over the unassigned names (degrees are negated
  constraint counts, so: most constraints first, then fewest visible values, then smallest name).
* `solveRec`/`tryValues` are `__solve`.  The Python text is an iterative loop with an explicit `queue` of
  `(variable, values, push_domains)` frames; it is the usual flattening of the recursion
  "pick a variable; `values = domain[:]`; for `value = values.pop()` (i.e. from the END of the list):
  assign, `push_state` on the domains of the other unassigned variables, run the checks, if they pass search deeper,
  `pop_state` on the same domains; afterwards un-assign".  A frame is appended to `queue` exactly when the checks pass
  (= the recursive call) and popped — followed by the `pop_state` loop — exactly when the deeper search is exhausted
  (= the return); a failing check pops the states at once.  Mutation is value passing: every function returns the
  store it leaves behind.  Recursion is on fuel = the number of variables (one variable is assigned per level).
* `preprocess`/`solve` are `__iter__`: constraints over a single variable filter that variable's domain once (with
  `list.remove`, first occurrence) and are dropped; an empty domain ⇒ no solutions; otherwise the search.
  A yielded solution is `assignments.copy()`, a dict: the model yields the association list (latest assignment first);
  only its `lookup` is meaningful.

Not reachable in Python and therefore arbitrary in the model: `pop_state` on an empty `_states` (IndexError; pushes and
pops are balanced), a variable of a scope that was never added (`add_constraint` asserts), removing an absent value.
-/
namespace Pkgcore.C10.Solver

/-- `_Domain` -/
structure Dom (Val : Type) where
  vis : List Val
  hidden : List Val := []
  states : List Nat := []
  deriving Repr

variable {Var Val : Type} [DecidableEq Var] [DecidableEq Val]

/-- `hide_value`: `super().remove(value); self._hidden.append(value)` -/
def Dom.hideValue (d : Dom Val) (v : Val) : Dom Val :=
  { d with vis := d.vis.erase v, hidden := d.hidden ++ [v] }

/-- `push_state`: `self._states.append(len(self))` -/
def Dom.pushState (d : Dom Val) : Dom Val := { d with states := d.vis.length :: d.states }

/-- `pop_state`: `if diff := self._states.pop() - len(self): self.extend(self._hidden[-diff:]); del self._hidden[-diff:]` -/
def Dom.popState (d : Dom Val) : Dom Val :=
  match d.states with
  | [] => d
  | s :: rest =>
    let diff := s - d.vis.length
    if diff = 0 then { d with states := rest }
    else { vis := d.vis ++ d.hidden.drop (d.hidden.length - diff),
           hidden := d.hidden.take (d.hidden.length - diff), states := rest }

/-- one `add_constraint(constraint, variables)` -/
structure Constraint (Var Val : Type) where
  scope : List Var
  pred : (Var → Option Val) → Bool

/-- `self.variables` -/
abbrev Store (Var Val : Type) := List (Var × Dom Val)
/-- `assignments` -/
abbrev Asg (Var Val : Type) := List (Var × Val)

/-- `assignments[x]` / `x in assignments` -/
def getVal (s : Asg Var Val) (x : Var) : Option Val := s.lookup x

/-- the keyword arguments a constraint over `scope` is called with under the assignments `asg` -/
def known (scope : List Var) (asg : Asg Var Val) : Var → Option Val :=
  fun x => if x ∈ scope then asg.lookup x else none

/-- `name not in assignments` -/
def unassigned (asg : Asg Var Val) (x : Var) : Bool := (asg.lookup x).isNone

/-- apply `f` to the domain of every variable that satisfies `p` (the `for domain in push_domains` loops) -/
def upd (p : Var → Bool) (f : Dom Val → Dom Val) (st : Store Var Val) : Store Var Val :=
  st.map fun e => if p e.1 then (e.1, f e.2) else e

/-- apply `f` to `self.variables[y]` -/
def modify (y : Var) (f : Dom Val → Dom Val) : Store Var Val → Store Var Val
  | [] => []
  | (k, d) :: rest => if k = y then (k, f d) :: rest else (k, d) :: modify y f rest

/-- `__check(constraint, variables, assignments)` -/
def check (c : Constraint Var Val) (asg : Asg Var Val) (st : Store Var Val) : Bool × Store Var Val :=
  match c.scope.filter (unassigned asg) with
  | [] => (c.pred (known c.scope asg), st)
  | [y] =>
    match st.lookup y with
    | none => (true, st)
    | some d =>
      if d.vis.isEmpty then (true, st) else
      let hidden := d.vis.filter fun w => !c.pred (known c.scope ((y, w) :: asg))
      if hidden.isEmpty then (true, st) else
      (!(hidden.foldl Dom.hideValue d).vis.isEmpty, modify y (fun e => hidden.foldl Dom.hideValue e) st)
  | _ => (true, st)

/-- `all(self.__check(c, vars, assignments) for c, vars in …)` — stops at the first failure -/
def checkAll (asg : Asg Var Val) : List (Constraint Var Val) → Store Var Val → Bool × Store Var Val
  | [], st => (true, st)
  | c :: cs, st =>
    match check c asg st with
    | (false, st') => (false, st')
    | (true, st') => checkAll asg cs st'

/-- `self.vconstraints[v]` -/
def vcons (cons : List (Constraint Var Val)) (v : Var) : List (Constraint Var Val) :=
  cons.filter fun c => c.scope.contains v

/-- Python's `<` on the tuples `(degrees[name], len(domain), name)` with `degrees[name] = -len(vconstraints[name])`;
the triples here carry the un-negated constraint count -/
def tupleLt (lt : Var → Var → Bool) (a b : Nat × Nat × Var) : Bool :=
  decide (b.1 < a.1) || (a.1 == b.1 && (decide (a.2.1 < b.2.1) || (a.2.1 == b.2.1 && lt a.2.2 b.2.2)))

/-- `min(((degrees[name], len(domain), name) for name, domain in self.variables.items() if name not in assignments),
default=None)`, third component -/
def selectVar (lt : Var → Var → Bool) (cons : List (Constraint Var Val)) (asg : Asg Var Val) (st : Store Var Val) :
    Option Var :=
  match st.filterMap fun e => if unassigned asg e.1 then some ((vcons cons e.1).length, e.2.vis.length, e.1) else none with
  | [] => none
  | c :: cs => some (cs.foldl (fun best x => if tupleLt lt x best then x else best) c).2.2

/-- one round of the inner loop of `__solve`: `assignments[variable] = values.pop()`, `push_state` on the domains of the
other unassigned variables, the checks, the deeper search when they pass, `pop_state` on the same domains -/
def tryOne (rec : Store Var Val → Asg Var Val → List (Asg Var Val) × Store Var Val)
    (cons : List (Constraint Var Val)) (var : Var) (asg : Asg Var Val) (v : Val) (st : Store Var Val) :
    List (Asg Var Val) × Store Var Val :=
  let asg' := (var, v) :: asg                                              -- assignments[variable] = values.pop()
  let push := fun x => x != var && unassigned asg x                        -- push_domains
  let r := checkAll asg' (vcons cons var) (upd push Dom.pushState st)
  let deeper := if r.1 then rec r.2 asg' else ([], r.2)
  (deeper.1, upd push Dom.popState deeper.2)

/-- the loop over `values` of one frame: `values` is listed in the order the values are tried -/
def tryValues (rec : Store Var Val → Asg Var Val → List (Asg Var Val) × Store Var Val)
    (cons : List (Constraint Var Val)) (var : Var) (asg : Asg Var Val) :
    List Val → Store Var Val → List (Asg Var Val) × Store Var Val
  | [], st => ([], st)
  | v :: vs, st =>
    let one := tryOne rec cons var asg v st
    let later := tryValues rec cons var asg vs one.2
    (one.1 ++ later.1, later.2)

/-- `__solve` -/
def solveRec (lt : Var → Var → Bool) (cons : List (Constraint Var Val)) :
    Nat → Store Var Val → Asg Var Val → List (Asg Var Val) × Store Var Val
  | 0, st, asg =>
    match selectVar lt cons asg st with
    | none => ([asg], st)
    | some _ => ([], st)
  | fuel + 1, st, asg =>
    match selectVar lt cons asg st with
    | none => ([asg], st)                                                  -- yield assignments.copy()
    | some var =>
      match st.lookup var with
      | none => ([], st)
      | some d => tryValues (solveRec lt cons fuel) cons var asg d.vis.reverse st   -- values = domain[:]; values.pop()

/-- a problem as built by `add_variable` / `add_constraint` (in call order); `lt` is `<` on variable names -/
structure Problem (Var Val : Type) where
  vars : List (Var × List Val)
  cons : List (Constraint Var Val)
  lt : Var → Var → Bool

/-- the values of a domain that violate a one-variable constraint -/
def unaryBad (c : Constraint Var Val) (x : Var) (w : Val) : Bool := !c.pred (known c.scope [(x, w)])

/-- the first loop of `__iter__`: one-variable constraints filter the domain and are dropped -/
def preprocess : List (Constraint Var Val) → Store Var Val → List (Constraint Var Val) × Store Var Val
  | [], st => ([], st)
  | c :: cs, st =>
    match c.scope with
    | [x] =>
      preprocess cs (modify x (fun d => { d with vis := (d.vis.filter (unaryBad c x)).foldl List.erase d.vis }) st)
    | _ => let r := preprocess cs st; (c :: r.1, r.2)

def initStore (vars : List (Var × List Val)) : Store Var Val := vars.map fun e => (e.1, { vis := e.2 })

/-- `list(iter(problem))` -/
def solve (P : Problem Var Val) : List (Asg Var Val) :=
  let r := preprocess P.cons (initStore P.vars)
  if r.2.any (fun e => e.2.vis.isEmpty) then [] else
  (solveRec P.lt r.1 r.2.length r.2 []).1

end Pkgcore.C10.Solver

/-! ## `find_constraint_satisfaction` on the solver model -/
namespace Pkgcore.C10
open Pkgcore.C09

/-- the `frozenset` of variables `__to_multiple_constraint` yields next to the constraint: the flags of the enclosing
conditions and `iter_flags` of the rule -/
def MC.flags (c : MC) : List Tok := dedup (c.conds.map (·.2) ++ flagsOf c.body)

/-- `__wrapper(constraint_func)`: `constraint_func(frozenset(k for k, v in kwargs.items() if v))` -/
def MC.toConstraint (c : MC) : Solver.Constraint Tok Bool :=
  { scope := c.flags, pred := fun kw => c.eval (c.flags.filter fun x => kw x == some true) }

/-- Python's `<` on `str` (code points, a proper prefix is smaller) -/
def ltTok : List Char → List Char → Bool
  | [], [] => false
  | [], _ :: _ => true
  | _ :: _, [] => false
  | a :: as, b :: bs => decide (a.toNat < b.toNat) || (a == b && ltTok as bs)

/-- the `Problem` `find_constraint_satisfaction` builds.  (The order of `self.variables` is the iteration order of
Python sets and not determined; the solver only takes a `min` over triples ending in the — unique — name and loops
over all domains, so the order is immaterial; the model lists the variables as `variables` does.) -/
def problem (inp : Inputs) (ts : List Dep) : Solver.Problem Tok Bool :=
  { vars := (variables inp ts).map fun v => (v, domainOf inp v), cons := (compiled ts).map MC.toConstraint, lt := ltTok }

/-- a yielded dict, listed along `vars` -/
def render (vars : List Tok) (s : Solver.Asg Tok Bool) : List (Tok × Bool) := vars.map fun v => (v, (Solver.getVal s v).getD false)

/-- `list(find_constraint_satisfaction(restricts, iuse, force_true, force_false, prefer_true))` with the real solver's
search modelled: the solutions in the order they are yielded -/
def solveFaithful (inp : Inputs) (ts : List Dep) : List (List (Tok × Bool)) :=
  (Solver.solve (problem inp ts)).map (render (variables inp ts))

end Pkgcore.C10
