import Lean.Data.Json
/-! Line protocol shared by all drivers: one JSON object per line in, one JSON value per line out. -/
namespace Pkgcore.Proto
open Lean

abbrev Handler := String → Json → Option Json

def getStr (j : Json) (k : String) : Option String := (j.getObjValAs? String k).toOption
def getNat (j : Json) (k : String) : Option Nat := (j.getObjValAs? Nat k).toOption
def getInt (j : Json) (k : String) : Option Int := (j.getObjValAs? Int k).toOption
def getBool (j : Json) (k : String) : Option Bool := (j.getObjValAs? Bool k).toOption
def getArr (j : Json) (k : String) : Option (List Json) :=
  match j.getObjVal? k with
  | .ok (.arr a) => some a.toList
  | _ => none
def getStrs (j : Json) (k : String) : Option (List String) := do
  let a ← getArr j k
  a.mapM fun x => match x with | .str s => some s | _ => none
def chars (j : Json) (k : String) : Option (List Char) := (getStr j k).map String.toList

def ofChars (cs : List Char) : Json := .str (String.ofList cs)
def ofStrs (l : List (List Char)) : Json := .arr (l.map ofChars).toArray
end Pkgcore.Proto
