import Pkgcore.Model.C14
/-!
# C14 specification — a configured package view with no memory besides its USE set

Written from the property text: *every USE-dependent attribute read equals the raw attribute evaluated under
the package's current USE set; a refused request leaves the USE set as it was.*

The reference object therefore consists of the change-limited USE set alone (snakeoil's `LimitedChangeSet`,
an external component whose per-key `add`/`remove`/`rollback`/`commit` the property takes as given):
a read is *always* computed from the current set (there is no cache and no generation counter), and a request
is atomic — either every flag is applied, or the request is refused and the set is literally the one before.
-/
namespace Pkgcore.C14.Spec
open Pkgcore.C14

variable {α : Type} [DecidableEq α] {β : Type}

/-- the value of any wrapped attribute: computed from the current USE set -/
def readValue (u : LCS α) : List α := u.new

/-- apply all flags or none: `some u'` when every `add` is accepted -/
def enableAll (locked : α → Bool) : LCS α → List α → Option (LCS α)
  | u, [] => some u
  | u, v :: vs =>
    match LCS.add locked u v with
    | .ok u' => enableAll locked u' vs
    | _ => none

/-- apply all flags or none; a flag that is already off and cannot change needs nothing -/
def disableAll (locked : α → Bool) : LCS α → List α → Option (LCS α)
  | u, [] => some u
  | u, v :: vs =>
    match LCS.remove locked u v with
    | .ok u' => disableAll locked u' vs
    | .keyError => disableAll locked u vs
    | .unchangable => none

/-- one operation of the reference object -/
def step (locked : α → Bool) (u : LCS α) : Op α β → LCS α × Out α
  | .enable vals =>
    match enableAll locked u vals with
    | some u' => (u', .bool true)
    | none => (u, .bool false)            -- refused: the set is as it was
  | .disable vals =>
    match disableAll locked u vals with
    | some u' => (u', .bool true)
    | none => (u, .bool false)            -- refused: the set is as it was
  | .rollback point =>
    match u.rollback point with
    | none => (u, .typeError)
    | some u' => (u', .unit)
  | .commit => (u.commit, .unit)
  | .read _ => (u, .value (readValue u))  -- always the current set
  | .refusedWrapped => (u, .bool false)
  | .readFail _ => (u, .raised)           -- the raw attribute has no value: neither has the view; nothing changes

def run (locked : α → Bool) : LCS α → List (Op α β) → LCS α × List (Out α)
  | u, [] => (u, [])
  | u, op :: ops =>
    let (u1, o) := step locked u op
    let (u2, os) := run locked u1 ops
    (u2, o :: os)

/-- two change sets denote the same set with the same pending changes -/
def Same (u w : LCS α) : Prop :=
  (∀ f, f ∈ u.new ↔ f ∈ w.new) ∧ (∀ f, f ∈ u.changed ↔ f ∈ w.changed) ∧ u.log = w.log

end Pkgcore.C14.Spec
