import Pkgcore.Model.C15
/-!
# C15 specification — what a successful resolution has to deliver

Written from the property text, without reference to how the checker walks the plan: the set of packages
*present* after the plan is described by membership of operations in the plan (not by executing it), and the four
requirements quantify over that set.
-/
namespace Pkgcore.C15

/-- the plan displaces the installed package `i` -/
def Displaced (plan : List Op) (i : Nat) : Prop := (∃ n, Op.replace i n ∈ plan) ∨ Op.remove i ∈ plan

/-- the plan puts package `i` in place (`add`, or the new side of a `replace`) -/
def Builds (plan : List Op) (i : Nat) : Prop := Op.add i ∈ plan ∨ ∃ o, Op.replace o i ∈ plan

/-- a package the plan merges: a source (non-installed) package it puts in place -/
def Merged (U : List Pkg) (plan : List Op) (p : Pkg) : Prop := p ∈ U ∧ p.livefs = false ∧ Builds plan p.id

/-- "the plan together with the installed packages it keeps" -/
def Present (U : List Pkg) (plan : List Op) (p : Pkg) : Prop :=
  (p ∈ U ∧ p.livefs = true ∧ ¬ Displaced plan p.id) ∨ Merged U plan p

/-- an alternative of a dependency clause of `p` holds in the resulting system: a plain atom needs a present
package matching it, a blocker needs that no *other* present package matches it -/
def Satisfied (U : List Pkg) (plan : List Op) (p : Pkg) (a : Atom) : Prop :=
  if a.blocks then ∀ q, Present U plan q → q.id ≠ p.id → atomMatch a q = false
  else ∃ q, Present U plan q ∧ atomMatch a q = true

structure Good (U : List Pkg) (targets : List Atom) (plan : List Op) : Prop where
  /-- a package matching each target -/
  targetsMet : ∀ t ∈ targets, ∃ p, Present U plan p ∧ atomMatch t p = true
  /-- at least one alternative of every clause of every dependency class of every merged package -/
  closed : ∀ p, Merged U plan p → ∀ cls ∈ p.deps, ∀ cl ∈ cls, ∃ a ∈ cl, Satisfied U plan p a
  /-- at most one package per name and slot -/
  slotConsistent : ∀ p q, Present U plan p → Present U plan q → p.key = q.key → p.slot = q.slot → p = q
  /-- no present package is matched by a (mandatory) blocker of another merged package -/
  blockerFree : ∀ p, Merged U plan p → ∀ cls ∈ p.deps, ∀ a, [a] ∈ cls → a.blocks = true →
    ∀ q, Present U plan q → q.id ≠ p.id → atomMatch a q = false

end Pkgcore.C15
