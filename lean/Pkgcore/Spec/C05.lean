import Pkgcore.Model.C05
import Pkgcore.Spec.C04
/-!
# C05 specification

*"Whether two atoms intersect does not depend on argument order.  Whenever some package matches both atoms
they are reported as intersecting, and whenever they are reported as intersecting a package matching both can be
constructed from their versions."*

"Matches" is C04's PMS semantics `matchSpec`.  Packages range over **all** valid packages: any well-formed
version of any length, any revision, any slot/sub-slot/repository, any IUSE and USE ⊆ IUSE.  The witness is
an explicit function of the two atoms (`witness`), built from their versions by the perturbations the
implementation reasons about: the version itself, the version with `_alpha` appended (something smaller),
the version at a higher revision (something greater).
-/
namespace Pkgcore.C05.Spec
open Pkgcore.C01 Pkgcore.C04 Pkgcore.C05
open Pkgcore.C02 (Op Str)

/-- a valid package: well-formed version; enabled flags are flags of the package -/
def PkgOk (p : Pkg) : Prop := C04.Spec.Pkg.WF p ∧ ∀ f, p.use.contains f = true → p.iuse.contains f = true

/-- some package matches both atoms -/
def Intersect (a b : Atom) : Prop := ∃ p, PkgOk p ∧ C04.Spec.matchSpec a p = true ∧ C04.Spec.matchSpec b p = true

/-! ## the witness -/

/-- something smaller than `v-r`: `v_alpha` -/
def below (v : Ver) : Ver × Str := ({ v with sufs := v.sufs ++ [(Suf.alpha, [])] }, [])
/-- something greater than `v-r` with the same version: `v-r(r+1)` -/
def above (v : Ver) (r : Str) : Ver × Str := (v, Nat.toDigits 10 (natOfDigits r + 1))

/-- a version satisfying a single constraint -/
def ownWitness : VC → Ver × Str
  | (.lt, v, _) => below v
  | (.gt, v, r) => above v r
  | (_, v, r) => (v, r)

/-- witness for a range `rg` against `ot` (mirrors the cases of `rangedVs`) -/
def rangedWitness (rg ot : VC) : Ver × Str :=
  let (ro, rv, rr) := rg
  let (oo, ov, orv) := ot
  if isRanged oo then
    if !isStrict ro then (rv, rr)                 -- a closed end point lies in both
    else if !isStrict oo then (ov, orv)
    else if isGtOp ro then above rv rr            -- both strict: just above the lower bound
    else above ov orv
  else if oo = .tilde then
    if vMatch ro rv rr ov orv then (ov, orv) else above ov rr
  else
    if vMatch ro rv rr ov orv then (ov, orv)
    else if isLtOp ro then below rv else above rv rr

def vWitness (a b : VC) : Ver × Str :=
  let (oa, va, ra) := a
  let (ob, vb, rb) := b
  if isLtOp oa && isLtOp ob then
    (if verCmp va (some ra) vb (some rb) == .gt then below vb else below va)       -- below the smaller bound
  else if isGtOp oa && isGtOp ob then
    (if verCmp va (some ra) vb (some rb) == .lt then above vb rb else above va ra) -- above the greater bound
  else if oa = .eq then (va, ra)
  else if ob = .eq then (vb, rb)
  else if oa = .tilde ∧ ob = .tilde then (va, ra)
  else if oa = .glob ∧ ob = .glob then (if verGlobMatch vb rb va ra then (va, ra) else (vb, rb))
  else if oa = .glob ∧ ob = .tilde then (vb, ra)
  else if ob = .glob ∧ oa = .tilde then (va, rb)
  else if isRanged oa then rangedWitness a b
  else rangedWitness b a

def pick (x y : Option Str) : Str := (x <|> y).getD ['0']

/-- the state chosen for a flag: enabled if allowed, else disabled if allowed, else missing -/
def flags (deps : List UseDep) : List Str := deps.map (·.flag)
def witnessIuse (deps : List UseDep) : List Str :=
  (flags deps).filter fun f => (statesFor deps f).on || (statesFor deps f).off
def witnessUse (deps : List UseDep) : List Str :=
  (flags deps).filter fun f => (statesFor deps f).on

/-- the package claimed to match both atoms whenever `intersects a b` -/
def witness (a b : Atom) : Pkg :=
  let vr : Ver × Str :=
    match a.vop, b.vop with
    | some x, some y => vWitness x y
    | some x, none => ownWitness x
    | none, some y => ownWitness y
    | none, none => (⟨[['0']], none, []⟩, [])
  let deps := useList a ++ useList b
  { cat := a.cat, pkg := a.pkg, ver := vr.1, rev := vr.2,
    slot := pick a.slot b.slot, subslot := pick a.subslot b.subslot, repo := pick a.repo b.repo,
    iuse := witnessIuse deps, use := witnessUse deps }

/-- atoms as `atom.__init__` builds them (C04): valid version, sub-slot only with a slot; the version
restriction is not negated; a `~` atom carries no revision ("~ … cannot be combined with a revision") -/
def AtomOk (a : Atom) : Prop :=
  C04.Spec.Atom.WF a ∧ a.negate = false ∧ ∀ v r, a.vop = some (Op.tilde, v, r) → natOfDigits r = 0

end Pkgcore.C05.Spec
