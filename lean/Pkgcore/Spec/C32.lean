import Pkgcore.Model.C32
/-!
# C32 specification — "every helper request gets exactly one single-line status reply whose status is success
exactly when the requested action succeeded (nonfatal: failure code and message are returned, otherwise the
build fails); the channel stays synchronised for the next request"
-/
namespace Pkgcore.C32.Spec
open Pkgcore.C32
open Pkgcore.C31 (Str)

/-- did the requested action succeed (a helper returning an explicit `(code, response)` reports its own code) -/
def succeeded : Outcome → Bool
  | .ok (.tuple c _) => c == 0
  | .ok _ => true
  | .cmdError _ _ => false
  | .otherError => false

/-- failures carry a non-zero code (every `raise IpcCommandError(…)` site: default 1, or a non-zero exit status) -/
def CodeOk : Outcome → Prop
  | .cmdError c _ => c ≠ 0
  | _ => True

/-- after reading `s` with `read` (no `-r`), is a backslash still waiting for its character? -/
def escState : Bool → Str → Bool
  | p, [] => p
  | true, _ :: cs => escState false cs
  | false, c :: cs => escState (c == '\\') cs

def escOpen (s : Str) : Bool := escState false s

/-- what `read` (no `-r`) makes of a line without line breaks: backslashes quote the next character -/
def unescAux : Bool → Str → Str
  | _, [] => []
  | true, c :: cs => c :: unescAux false cs
  | false, c :: cs => if c = '\\' then unescAux true cs else c :: unescAux false cs

def unesc (s : Str) : Str := unescAux false s

/-- a reply the daemon's single `read` consumes exactly: one line, no dangling backslash -/
def Clean (l : Str) : Prop := '\n' ∉ l ∧ escOpen l = false

/-- the message of an outcome (what ends up after the status in the reply) -/
def messageOf : Outcome → Str
  | .ok (.str s) => s
  | .ok (.tuple _ r) => r
  | .cmdError _ m => m
  | _ => []

/-- read `n` replies one after the other -/
def readReplies : Nat → Str → Option (List Bool × Str)
  | 0, pipe => some ([], pipe)
  | n + 1, pipe =>
    match daemonReadsReply pipe with
    | some (ok, rest) =>
      match readReplies n rest with
      | some (oks, rest') => some (ok :: oks, rest')
      | none => none
    | none => none

/-- the requested directories were all made (and given their attributes when the request asks for some): every
os-level step of every directory went through -/
def dirsDone (withOpts : Bool) (steps : List DirStep) : Bool :=
  steps.all fun s => s.mkdir.isNone && (!withOpts || s.attrs.isNone)

/-- the six lines `__ebd_ipc_cmd` writes for a request -/
def requestLines (nr : Str × Request) : List Str :=
  [nr.1, nr.2.nonfatal, nr.2.cwd, nr.2.phase, nr.2.options, nr.2.args]

end Pkgcore.C32.Spec
