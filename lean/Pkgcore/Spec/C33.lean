import Pkgcore.Model.C33
/-!
# C33 specification — what PMS prescribes for the install helpers

Written from the property text / PMS 12.3.3, independently of the structure of `ebd_ipc.py`:

* `resolve` — lexical resolution of an absolute path (what a relative symlink "resolves to");
* the PMS feature table per EAPI (`pms*`);
* `prescribed` — per helper, the *entries* that must exist in the image afterwards (a declarative
  enumeration: destination directory, one entry per argument, a depth-first listing of a recursively
  installed tree, `lang/manN/name` from the dot-separated parts of a man page name, …) or a rejection;
* `imageE` — the image that results from a list of entries (ancestors are directories, later entries win).
-/
namespace Pkgcore.C33.Spec
open Pkgcore.C33

/-! ## lexical path resolution -/

def step (stack : List Str) (c : Str) : List Str :=
  if c = [] ∨ c = ['.'] then stack
  else if c = ['.', '.'] then stack.dropLast
  else stack ++ [c]

/-- the directory components an absolute path names, resolving `.` and `..` lexically from the root -/
def resolve (p : Str) : List Str := (splitOn '/' p).foldl step []

/-! ## PMS feature table -/

/-- doman language support (`-i18n=`, `foo.lang.N`): EAPI 2 and later -/
def pmsDomanLanguages (eapi : Nat) : Bool := decide (eapi ≥ 2)
/-- `-i18n` takes precedence over the file name language: EAPI 4 and later -/
def pmsDomanI18nPrecedence (eapi : Nat) : Bool := decide (eapi ≥ 4)
/-- `dodoc -r`: EAPI 4 and later -/
def pmsDodocRecursive (eapi : Nat) : Bool := decide (eapi ≥ 4)
/-- `dosym -r`: EAPI 8 and later -/
def pmsDosymRelative (eapi : Nat) : Bool := decide (eapi ≥ 8)

/-! ## entries -/

inductive Entry
  | dir (p : Path) (mode : Option Attr)             -- a directory "as if by dodir"; mode/owner applied when given
  | file (p : Path) (mode : Option Attr) (id : Nat) -- a copy of source file `id`, with the requested mode/owner
  | link (p : Path) (text : Str) (own : Option Attr) -- a symbolic link (owner as requested)
  | newlink (p : Path) (text : Str)                 -- a symbolic link at a path that must be free
  | hard (src p : Path)                             -- a hard link to the image entry `src`
  | keep (p : Path)                                 -- an empty file
  deriving DecidableEq, Repr

def Entry.path : Entry → Path
  | .dir p _ | .file p _ _ | .link p _ _ | .newlink p _ | .hard _ p | .keep p => p

/-- last `/`-separated component -/
def lastComp (s : Str) : Str := (splitOn '/' s).getLast?.getD []

def under (c : Ctx) (rel : Path) : Path := toPath c.dest ++ rel

/-- the entry for installing one source object at image path `p` (`none`: not installable) -/
def leaf (c : Ctx) (p : Path) : Src → Option Entry
  | .file id => some (.file p c.insMode id)
  | .link text .toFile => some (.link p text c.insMode)
  | .link text .toDir => some (.link p text c.insMode)
  | _ => none

/-- argument checks common to all helpers that take source paths -/
def argsOk (ts : List Target) : Except Rej Unit :=
  if ts = [] then .error .noTargets
  else if ts.any (fun t => match t.node with | .missing => true | _ => false) then .error .nonexistent
  else .ok ()

/-- every listed argument installed under its own name below `--dest` -/
def byName (c : Ctx) (ts : List Target) : Except Rej (List Entry) :=
  ts.mapM fun t =>
    match t.node with
    | .dir _ => .error .copyFailed
    | n => match leaf c (under c (toPath (lastComp t.arg))) n with
      | some e => .ok e
      | none => .error .cannotStat

mutual
/-- depth-first listing of a source tree installed at image path `p` (directories as if by dodir) -/
def tree (c : Ctx) (p : Path) : Src → Except Rej (List Entry)
  | .dir kids => do
    let below ← treeKids c p kids
    pure (Entry.dir p c.dirMode :: below)
  | .file id => pure [.file p c.insMode id]
  | .link text .toFile => pure [.link p text c.insMode]
  | .link text .toDir => pure [.newlink p text]
  | .link _ .broken => .error .cannotStat
  | .missing => pure []
def treeKids (c : Ctx) (p : Path) : List (Str × Src) → Except Rej (List Entry)
  | [] => pure []
  | (n, s) :: rest => do
    let a ← tree c (p ++ [n]) s
    let r ← treeKids c p rest
    pure (a ++ r)
end

/-- last non-empty component of a directory argument -/
def lastName (arg : Str) : Path := (toPath arg).getLast?.toList

/-- name under which a directory argument is installed: its last non-empty component (`dir`, `dir/`, `./dir`, `a//dir//`);
the component `.` names the directory before it, not an entry of it: `dir/.` (and `.`) install the *contents* of the
directory directly under the destination, without a `dir/` level -/
def dirName (arg : Str) : Path := if lastName arg = [['.']] then [] else lastName arg

def trees (c : Ctx) : List Target → Except Rej (List Entry)
  | [] => pure []
  | t :: rest =>
    match t.node with
    | .dir _ => do
      let a ← tree c (under c (dirName t.arg)) t.node
      let r ← trees c rest
      pure (a ++ r)
    | _ => .error .unmodelled

/-! ### doman: `foo.N` → `manN/foo.N`; `foo.lang.N` → `lang/manN/foo.N` -/

/-- a valid section: `[0-9n]` optionally followed by `f`, `p` or `pm` -/
def validSection : Str → Bool
  | d :: suf => (d.isDigit || d = 'n') && (suf = [] || suf = ['f'] || suf = ['p'] || suf = ['p', 'm'])
  | [] => false

/-- a name has a proper stem when something other than dots precedes its last dot -/
def hasStem (parts : List Str) : Bool := parts.dropLast.any (· ≠ [])

/-- the section of a page name given as its dot-separated parts; one compression suffix is looked through -/
def sectionOf (m : ManCtx) (parts : List Str) : Str :=
  if !hasStem parts then []
  else
    let last := parts.getLast?.getD []
    if isArchiveExt m ('.' :: last) then
      (if hasStem parts.dropLast then parts.dropLast.getLast?.getD [] else [])
    else last

/-- `foo.lang.N`: `(foo, lang, N)` when the last two parts are a language code and a word -/
def langOf (parts : List Str) : Option (Str × Str × Str) :=
  if parts.length < 3 then none
  else
    let n := parts.getLast?.getD []
    let l := parts.dropLast.getLast?.getD []
    let foo := joinWith '.' parts.dropLast.dropLast
    if n ≠ [] ∧ n.all isWord ∧ isLang l ∧ foo ≠ [] then some (foo, l, n) else none

/-- destination `(directory below /usr/share/man, file name)` of a man page called `b` -/
def manDest (m : ManCtx) (b : Str) : Option (Str × Str) :=
  let parts := splitOn '.' b
  let sec := sectionOf m parts
  if !validSection sec then none
  else
    let manN := "man".toList ++ sec
    let viaOption := (pjoin m.i18n manN, b)
    if m.override ∧ m.i18n ≠ [] then some viaOption
    else if m.detect then
      match langOf parts with
      | some (foo, l, n) => some (pjoin l manN, foo ++ '.' :: n)
      | none => if m.i18n ≠ [] then some viaOption else some (manN, b)
    else some (manN, b)

def manEntries (c : Ctx) (m : ManCtx) : List Target → Except Rej (List Entry)
  | [] => pure []
  | t :: rest =>
    match manDest m (lastComp t.arg) with
    | none => .error .invalidManPage
    | some (d, name) =>
      match t.node with
      | .dir _ => .error .copyFailed
      | n =>
        match leaf c (under c (toPath d ++ toPath name)) n with
        | none => .error .cannotStat
        | some e => do
          let r ← manEntries c m rest
          pure (Entry.dir (under c (toPath d)) c.dirMode :: e :: r)

/-- the part of a name before its extension -/
def stemOf (b : Str) : Str :=
  let parts := splitOn '.' b
  if hasStem parts then joinWith '.' parts.dropLast else b

def moEntries (c : Ctx) (pn : Str) : List Target → Except Rej (List Entry)
  | [] => pure []
  | t :: rest =>
    let d := toPath (stemOf (lastComp t.arg)) ++ ["LC_MESSAGES".toList]
    match t.node with
    | .dir _ => .error .copyFailed
    | n =>
      match leaf c (under c (d ++ toPath (pn ++ ".mo".toList))) n with
      | none => .error .cannotStat
      | some e => do
        let r ← moEntries c pn rest
        pure (Entry.dir (under c d) c.dirMode :: e :: r)

/-! ### the helpers -/

def isDirArg (t : Target) : Bool := t.isDir

def withDest (c : Ctx) (ts : List Target) (body : Except Rej (List Entry)) : Except Rej (List Entry) := do
  argsOk ts
  let es ← body
  pure (Entry.dir (toPath c.dest) none :: es)

/-- files by name, directories only with `-r` (`recursiveOk`) -/
def filesAndTrees (c : Ctx) (recursiveOk : Bool) (ts : List Target) (keepFile : Target → Bool)
    (keepDir : Target → Bool) : Except Rej (List Entry) := do
  let dirs := ts.filter isDirArg
  if dirs ≠ [] ∧ !recursiveOk then .error .isDirectory
  else
    let ds ← trees c (dirs.filter keepDir)
    let fs ← byName c ((ts.filter (!isDirArg ·)).filter keepFile)
    pure (ds ++ fs)

def prescribed (h : Helper) (c : Ctx) (ts : List Target) : Except Rej (List Entry) :=
  match h with
  | .basenameInstall => withDest c ts (byName c ts)
  | .doins r => withDest c ts (filesAndTrees c r ts (fun _ => true) (fun _ => true))
  | .dodoc allow r => withDest c ts (filesAndTrees c (r && allow) ts (fun _ => true) (fun _ => true))
  | .dohtml o =>
    let c' := { c with dest := pjoin c.dest (lstripSlash o.docPrefix) }
    let exts := (if o.aExts = [] then Generated.C33.dohtmlDefaultExts.map String.toList else o.aExts) ++ o.AExts
    let okFile := fun (t : Target) =>
      let b := lastComp t.arg
      let parts := splitOn '.' b
      (hasStem parts && exts.contains (parts.getLast?.getD [])) || (!hasStem parts && exts.contains []) || o.fFiles.contains b
    withDest c' ts (filesAndTrees c' o.recursive ts okFile (fun d => !o.xDirs.contains d.arg))
  | .doman m => withDest c ts (manEntries c m ts)
  | .domo pn => withDest c ts (moEntries c pn ts)

def dodirEntries (c : Ctx) (ds : List Str) : Except Rej (List Entry) :=
  if ds = [] then .error .noTargets else pure (ds.map fun d => Entry.dir (under c (toPath d)) c.dirMode)

def keepdirEntries (c : Ctx) (category pn slot : Str) (ds : List Str) : Except Rej (List Entry) :=
  if ds = [] then .error .noTargets
  else
    let name := ".keep_".toList ++ category ++ ['_'] ++ pn ++ ['-'] ++ slot
    pure (ds.map (fun d => Entry.dir (under c (toPath d)) c.dirMode)
      ++ ds.map (fun d => Entry.keep (toPath d ++ toPath name)))

/-- the directory part of a link name, when it has one -/
def parentEntry (c : Ctx) (target : Str) : List Entry :=
  if target.contains '/' then [Entry.dir (under c (toPath target).dropLast) c.dirMode] else []

/-- a link name is missing when the name ends in a slash or names an existing directory of the image -/
def dosymEntries (c : Ctx) (fs : Fs) (relAllowed relative : Bool) (source target : Str) : Except Rej (List Entry) :=
  if target.getLast? = some '/' ∨ fs.isDir (toPath target) then .error .missingLinkName
  else if relative ∧ !relAllowed then .error .relNotPermitted
  else if relative ∧ !isAbs source then .error .relNeedsAbs
  else
    let text := if relative then relativeDosymTarget source target else source
    pure (parentEntry c target ++ [Entry.link (toPath target) text none])

def dohardEntries (c : Ctx) (source target : Str) : Except Rej (List Entry) :=
  if target.getLast? = some '/' then .error .missingLinkName else
  pure (parentEntry c target ++ [Entry.hard (toPath source) (toPath target)])

/-! ## the image a list of entries describes -/

/-- every non-root prefix of `p` that is still free becomes a directory -/
def ensureDirs (u : Umask) (fs : Fs) (p : Path) : Fs :=
  fun q =>
    match fs q with          -- (looked up once: the image is a chain of closures)
    | some n => some n
    | none => if q ≠ [] ∧ q.isPrefixOf p then some (.dir u.dirMode) else none

/-- the image with one more entry.  (Wrapped in `Except` — always `.ok` — so that the look-ups happen once, when
the entry is placed, and not again at every later query of the resulting function.) -/
def place (u : Umask) (fs : Fs) : Entry → Except Rej Fs
  | .dir p mode =>
    let fs' := ensureDirs u fs p
    match mode, fs' p with
    | some a, some (.dir q) => .ok (fs'.set p (.dir (a.over q)))
    | _, _ => .ok fs'
  | .file p mode id => .ok (fs.set p (.file ((mode.map (·.over u.fileMode)).getD u.fileMode) id))
  | .link p text own =>
    let q := (own.map (·.over u.fileMode)).getD u.fileMode
    .ok (fs.set p (.link text q.uid q.gid))
  | .newlink p text => .ok (fs.set p (.link text u.fileMode.uid u.fileMode.gid))
  | .hard src p => match fs src with | some n => .ok (fs.set p n) | none => .ok fs
  | .keep p => match fs p with | some (.file m _) => .ok (fs.set p (.file m 0)) | _ => .ok (fs.set p (.file u.fileMode 0))

/-- an entry cannot be placed: a non-directory would have to be a directory or vice versa
(`unmodelled`: a symbolic link would have to be followed) -/
def blocked (fs : Fs) (e : Entry) : Option Rej :=
  let p := e.path
  let anc := (List.range p.length).map (p.take ·)          -- proper prefixes
  if dotted p || (match e with | .hard src _ => dotted src | _ => false) then some .unmodelled
  else if anc.any (isLinkAt fs) then some .unmodelled
  else if anc.any (isFileAt fs) then some .oserror
  else match e with
    | .dir _ _ => if isLinkAt fs p then some .unmodelled else if isFileAt fs p then some .oserror else none
    | .file _ _ _ | .link _ _ _ =>
      if p = [] ∨ fs.isDir p ∨ !fs.isDir p.dropLast then some .oserror else none
    | .newlink _ _ => if p = [] ∨ fs p ≠ none ∨ !fs.isDir p.dropLast then some .oserror else none
    | .hard src _ =>
      if isLinkAt fs src then some .unmodelled
      else if !isFileAt fs src ∨ src = p ∨ p = [] ∨ fs.isDir p ∨ !fs.isDir p.dropLast then some .oserror else none
    | .keep _ =>
      if isLinkAt fs p then some .unmodelled
      else if p = [] ∨ fs.isDir p ∨ !fs.isDir p.dropLast then some .oserror else none

/-- the image after a request, or the reason it cannot be carried out -/
def imageE (u : Umask) (fs : Fs) : List Entry → Except Rej Fs
  | [] => .ok fs
  | e :: es =>
    match blocked fs e with
    | some r => .error r
    | none =>
      match place u fs e with
      | .ok fs' => imageE u fs' es
      | .error r => .error r

end Pkgcore.C33.Spec
