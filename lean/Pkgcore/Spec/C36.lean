import Pkgcore.Model.C36
/-!
# C36 specification — written from the property text

"a fetch returns a path only if the file there has the expected size and every required checksum
(`Verified`), and it does return one whenever some attempt leaves such a file (`Acceptable`).
Resumable partial files are kept for the resume command (`Partial`) and a file with a wrong
checksum is never reported as fetched (`Wrong`)."
-/
namespace Pkgcore.C36.Spec
open Pkgcore.C36

/-- the file has the expected size (when one is stated) and every listed checksum -/
def Verified (t : Target) : File → Bool
  | .missing => false
  | .present sz ok => (t.size.isNone || t.size == some sz) && (!t.other || ok)

def File.nonEmpty : File → Bool
  | .missing => false
  | .present sz _ => sz != 0

/-- an attempt "leaves such a file": the file is verified; when no size is stated there must be
something in it; when nothing at all is stated the only evidence is the fetcher's exit status -/
def Acceptable (t : Target) (o : Outcome) : Bool :=
  Verified t o.file && (t.size.isSome || File.nonEmpty o.file) && (!t.noChksums || o.exit0)

/-- a complete-or-longer download that contradicts the stated size or a stated checksum -/
def Wrong (t : Target) : File → Bool
  | .missing => false
  | .present sz ok =>
    match t.size with
    | some want => decide (want < sz) || (sz == want && t.other && !ok)
    | none => sz != 0 && t.other && !ok

/-- a resumable partial download: a size is stated and the file is shorter -/
def Partial (t : Target) : File → Bool
  | .missing => false
  | .present sz _ => match t.size with | some want => decide (sz < want) | none => false

/-- reference semantics of a whole fetch over the states the file goes through
(the initial file, then what each fetcher run leaves): the first state that is acceptable wins,
unless a wrong file is met first (the fetch is abandoned there, never reporting it). -/
def firstDecisive (t : Target) : List Outcome → Bool
  | [] => false
  | o :: rest => if Acceptable t o then true else if Wrong t o.file then false else firstDecisive t rest

/-- with `n` attempts and one outcome per URI the fetch inspects the initial file and the results of the
first `min n outs.length` runs -/
def specReturns (t : Target) (n : Nat) (f0 : File) (outs : List Outcome) : Bool :=
  firstDecisive t (⟨f0, true⟩ :: outs.take n)

end Pkgcore.C36.Spec
