import Pkgcore.Model.C12
/-!
# C12 specification — incremental semantics, written per flag

"Processing the tokens left to right" means: for every flag the *last* token that says anything about it
decides, and if no token does, the flag keeps its initial state.  A token says something about flag `f` when it
is `f` (on), `-f` (off) or `-*` (off).  For ACCEPT_LICENSE a token also speaks about `l` when it is a group
`@g` / `-@g` containing `l`, or `*` and `l` is a known license.
-/
namespace Pkgcore.C12.Spec
open Pkgcore.C12

/-- a flag name: non-empty and not a negation -/
def isFlag (f : Tok) : Bool := !f.isEmpty && f.head? != some '-'

def clearTok : Tok := ['-', '*']

/-- what token `t` says about flag `f` -/
def effect (f t : Tok) : Option Bool :=
  if t = f then some true else if t = '-' :: f then some false else if t = clearTok then some false else none

/-- the verdict of the last token that says anything about `f` -/
def lastEffect (f : Tok) : List Tok → Option Bool
  | [] => none
  | t :: ts => (lastEffect f ts).orElse fun _ => effect f t

/-- is `f` on after the tokens, starting from `orig` -/
def holds (f : Tok) (toks : List Tok) (orig : TSet) : Bool := (lastEffect f toks).getD (orig.contains f)

/-- no empty token and no bare `-` -/
def wellFormed (toks : List Tok) : Bool := toks.all fun t => !t.isEmpty && t != ['-']

/-- the condensed set read back: what it removes first, then what it adds -/
def negsFirst (c : List Tok) : List Tok := c.filter (·.head? == some '-') ++ c.filter (·.head? != some '-')

/-! ### licenses -/

/-- what token `t` says about license `l` -/
def licEffect (licenses : List Tok) (groups : List (Tok × List Tok)) (l t : Tok) : Option Bool :=
  if t.head? = some '-' then
    (if t.tail = star then some false
     else if t.tail.head? = some '@' then (if (groupGet groups t.tail.tail).contains l then some false else none)
     else if t.tail = l then some false else none)
  else if t.head? = some '@' then (if (groupGet groups t.tail).contains l then some true else none)
  else if t = star then (if licenses.contains l then some true else none)
  else if t = l then some true else none

def lastLicEffect (licenses : List Tok) (groups : List (Tok × List Tok)) (l : Tok) : List Tok → Option Bool
  | [] => none
  | t :: ts => (lastLicEffect licenses groups l ts).orElse fun _ => licEffect licenses groups l t

/-- no empty token, no bare `-`, `-@`, `@` -/
def wellFormedLic (toks : List Tok) : Bool :=
  toks.all fun t => !t.isEmpty && t != ['-'] && t != ['-', '@'] && t != ['@']

/-- two results are the same set of flags (or the same error) -/
def sameFlags : Except Err TSet → Except Err TSet → Prop
  | .ok a, .ok b => ∀ f, isFlag f = true → (f ∈ a ↔ f ∈ b)
  | .error e, .error e' => e = e'
  | _, _ => False

end Pkgcore.C12.Spec
