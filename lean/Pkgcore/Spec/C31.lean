import Pkgcore.Model.C31
/-!
# C31 specification — "the daemon's shell ends up with exactly those values, exported unless marked
non-exported, inline or through a file; afterwards the command channel is still synchronised"

Written from the property text, independent of how the text of the transfer is produced: a store of shell
variables, the effect of an executed assignment on it, and the variables the environment mapping asks for.
-/
namespace Pkgcore.C31.Spec
open Pkgcore.C31

/-- a value as the daemon (C locale, byte strings) must hold it -/
def valBytes : Val → Val
  | .scalar v => .scalar (utf8 v)
  | .array vs => .array (vs.map utf8)

/-- a shell variable: value and export attribute -/
structure Var where
  val : Val
  exported : Bool
  deriving DecidableEq, Repr

/-- the daemon's variables -/
abbrev Store := Str → Option Var

/-- bash: an assignment replaces the value; `export` sets the export attribute, a plain assignment leaves
whatever attribute the name already had -/
def Store.assign (st : Store) (a : Assign) : Store := fun k =>
  if k = a.key then
    some ⟨a.val, a.exported || (match st k with | some v => v.exported | none => false)⟩
  else st k

def Store.run (st : Store) (as : List Assign) : Store := as.foldl Store.assign st

/-- names listed (whitespace separated) under the marker key are "marked non-exported" -/
def markedNonexported (env : List (Str × Val)) (k : Str) : Bool :=
  match env.lookup marker with
  | some (.scalar v) => (splitWs v).contains k
  | _ => false

/-- the variable the mapping asks for under name `k` (`none`: the transfer must not touch `k`):
every entry except the marker itself and the daemon's readonly names -/
def wanted (ro : List Str) (env : List (Str × Val)) (k : Str) : Option Var :=
  if k = marker ∨ k ∈ ro then none
  else match env.lookup k with
    | some v => some ⟨valBytes v, !markedNonexported env k⟩
    | none => none

/-- "arrives exactly": every wanted variable is there with its value and attribute, nothing else changed -/
def Arrives (ro : List Str) (env : List (Str × Val)) (before after : Store) : Prop :=
  ∀ k, after k = match wanted ro env k with
    | some v => some v
    | none => before k

/-- valid shell variable name -/
def ValidName (k : Str) : Prop :=
  (∃ c cs, k = c :: cs ∧ isNameStart c = true) ∧ ∀ c ∈ k, isNameChar c = true

/-- text without NUL -/
def NoNul (v : Str) : Prop := '\x00' ∉ v

def ValOk : Val → Prop
  | .scalar v => NoNul v
  | .array vs => ∀ v ∈ vs, NoNul v

/-- an environment mapping in the property's domain: distinct valid names, NUL-free values, and the marker
entry (if present) is a string -/
structure EnvOk (env : List (Str × Val)) : Prop where
  names : ∀ kv ∈ env, ValidName kv.1
  distinct : (env.map (·.1)).Nodup
  values : ∀ kv ∈ env, ValOk kv.2
  marker_str : ∀ vs, env.lookup marker ≠ some (.array vs)

/-- the daemon's `start_receiving_env` step as a whole: read the header line, obtain the text (inline bytes or
file), `eval`/`source` it; result = new variable store and what is left unread in the command pipe
(`none`: the transfer failed or left the modelled fragment) -/
def daemonReceive (fs : Str → Option Str) (st : Store) (chan : Str) : Option (Store × Str) :=
  match recvEnv fs chan with
  | some (text, rest) =>
    match evalScript text with
    | some asg => some (st.run asg, rest)
    | none => none
  | none => none

/-- the depend-like commands (`gen_metadata N`, `gen_ebuild_env N`) receive their environment the same way -/
def daemonReceiveDepend (st : Store) (chan : Str) : Option (Str × Store × Str) :=
  match recvDepend chan with
  | some (cmd, text, rest) =>
    match evalScript text with
    | some asg => some (cmd, st.run asg, rest)
    | none => none
  | none => none

/-- bash scoping of the receive step: the daemon evaluates the text inside one of its functions; `frame` = the
names that function (and the functions it was called from) have declared `local` at that moment.  An assignment to
such a name changes the function's local variable, which is gone once the function returns (and is not what an
ebuild phase started later sees under that name); all other assignments reach the shell's variables. -/
def Store.runIn (frame : List Str) (st : Store) (as : List Assign) : Store :=
  st.run (as.filter fun a => !frame.contains a.key)

/-- a path the `read` builtin hands over unchanged (bytes): non-empty, one line, no backslash, no trailing blank -/
def PathOk (pb : Str) : Prop :=
  pb ≠ [] ∧ '\n' ∉ pb ∧ '\\' ∉ pb ∧ pb.getLast?.any isBlank = false

/-- the names the transfer is about are not already exported in the daemon (a plain assignment keeps an
existing export attribute) -/
def Fresh (ro : List Str) (env : List (Str × Val)) (st : Store) : Prop :=
  ∀ k v, st k = some v → (wanted ro env k).isSome = true → v.exported = false

end Pkgcore.C31.Spec
