import Pkgcore.Model.C09
/-!
# C09 specification — what a dependency structure *means*, written from the property text and PMS 8.2

Two readings of a structure under a flag set `F` (which USE flags are on) and an element valuation `T`
(which elements — atoms, licenses, files, flags — are "present"):

* `satPMS` — the literal PMS 8.2 reading, two-valued: a use-conditional group whose condition is not met
  *is not a member* of the any-of / exactly-one-of / at-most-one-of group it is an immediate child of
  (and demands nothing inside an all-of group); an empty any-of / exactly-one-of / at-most-one-of group
  counts as matched.
* `satAbs` — the "absent" reading (three-valued): a node may be *absent* (`none`); an unmet conditional is
  absent, and an all-of / any-of group or a met conditional *all of whose members are absent* is absent
  itself.  An absent node is not a member of its parent; at the top level (an all-of) absent = satisfied,
  which is the property's "an any-of group emptied by conditionals counting as satisfied".
  `^^`/`??` groups are never absent (emptied, they count as matched).

The two readings coincide on `Tame` structures (`absent_eq_pms_of_tame`): they differ only when a group that
can be emptied is nested *directly* inside `||`, `^^` or `??`.

Neither reading looks at how `evaluate_conditionals` is organised (parent classes, collapsing, wiping).
-/
namespace Pkgcore.C09.Spec
open Pkgcore.C09

/-- which elements are present: element text and optional rename ↦ Bool -/
abbrev Present := Tok → Option Tok → Bool

/-- truth of a group given the truth values of its members -/
def judge : Kind → List Bool → Bool
  | .and, m => m.all id
  | .or, m => m.isEmpty || m.any id
  | .justOne, m => m.isEmpty || m.count true == 1
  | .atMostOne, m => decide (m.count true ≤ 1)

mutual
/-- PMS 8.2 reading -/
def satPMS (F : Tok → Bool) (T : Present) : Dep → Bool
  | .leaf k r => T k r
  | .cond n f cs => if F f != n then allPMS F T cs else true
  | .grp kind cs => judge kind (membersPMS F T cs)
def allPMS (F : Tok → Bool) (T : Present) : List Dep → Bool
  | [] => true
  | c :: cs => satPMS F T c && allPMS F T cs
/-- truth values of the members of a group: immediate children, except use-conditionals that are not enabled -/
def membersPMS (F : Tok → Bool) (T : Present) : List Dep → List Bool
  | [] => []
  | .cond n f ps :: cs => (if F f != n then [allPMS F T ps] else []) ++ membersPMS F T cs
  | .leaf k r :: cs => T k r :: membersPMS F T cs
  | .grp kind ps :: cs => judge kind (membersPMS F T ps) :: membersPMS F T cs
end

/-- groups that are absent when all their members are: all-of and any-of -/
def wipes : Kind → Bool
  | .and => true | .or => true | .justOne => false | .atMostOne => false

mutual
/-- absent reading: `none` = not there -/
def satAbs (F : Tok → Bool) (T : Present) : Dep → Option Bool
  | .leaf k r => some (T k r)
  | .cond n f cs =>
    if F f != n then
      (let m := membersAbs F T cs; if m.isEmpty then none else some (m.all id))
    else none
  | .grp kind cs =>
    let m := membersAbs F T cs
    if m.isEmpty && wipes kind then none else some (judge kind m)
def membersAbs (F : Tok → Bool) (T : Present) : List Dep → List Bool
  | [] => []
  | c :: cs => (satAbs F T c).toList ++ membersAbs F T cs
end

/-- a whole dependency string is an all-of; absent = satisfied -/
def satTopAbs (F : Tok → Bool) (T : Present) (ts : List Dep) : Bool := (membersAbs F T ts).all id

def satTopPMS (F : Tok → Bool) (T : Present) (ts : List Dep) : Bool := allPMS F T ts

mutual
/-- can never be absent, whatever the flags: has an element that is reachable without passing a conditional,
or is a `^^`/`??` group -/
def solid : Dep → Bool
  | .leaf _ _ => true
  | .cond _ _ _ => false
  | .grp kind cs => !wipes kind || solidAny cs
def solidAny : List Dep → Bool
  | [] => false
  | c :: cs => solid c || solidAny cs
end

/-- may be a child of `||`/`^^`/`??` without the two readings drifting apart: solid, or a conditional with a solid payload member -/
def memberOk : Dep → Bool
  | .cond _ _ ps => solidAny ps
  | t => solid t

mutual
/-- every child of every `||`/`^^`/`??` group is `memberOk` -/
def tame : Dep → Bool
  | .leaf _ _ => true
  | .cond _ _ cs => tameL cs
  | .grp kind cs => tameL cs && (kind == .and || membersOk cs)
def tameL : List Dep → Bool
  | [] => true
  | c :: cs => tame c && tameL cs
def membersOk : List Dep → Bool
  | [] => true
  | c :: cs => memberOk c && membersOk cs
end

mutual
/-- the raw grammar tree ↦ what the parser builds: a single-child and/or group is its child -/
def collapse : Dep → Dep
  | .leaf k r => .leaf k r
  | .cond n f cs => .cond n f (collapseL cs)
  | .grp kind cs =>
    match collapseL cs with
    | [x] => if collapsible kind then x else .grp kind [x]
    | l => .grp kind l
def collapseL : List Dep → List Dep
  | [] => []
  | c :: cs => collapse c :: collapseL cs
end

/-- nesting depth after reading the tokens (`none` = a `)` without its `(`) -/
def depthAfter : List Tok → Nat → Option Nat
  | [], d => some d
  | k :: rest, d =>
    if k = tkOpen then depthAfter rest (d + 1)
    else if k = tkClose then (match d with | 0 => none | d' + 1 => depthAfter rest d')
    else depthAfter rest d

/-- parentheses are balanced -/
def balanced (toks : List Tok) : Bool := depthAfter toks 0 == some 0

/-! ### the grammar -/

/-- the operator table names each group class by the text `stringify_boolean` prints for it -/
def OpsStd (ops : Ops) : Prop :=
  ∀ k op, ops.lookup k = some op → ∃ kind : Kind, k = kind.sym ∧ (op = .invalid ∨ op = .node kind)

/-- a token that the parser takes for an element -/
def elemTok (ops : Ops) (ren : Bool) (k : Tok) : Bool :=
  k != tkClose && k != tkOpen && !isOpener ops k && !k.contains '|' && (!ren || k != tkArrow)

mutual
/-- raw grammar trees (groups may have a single child or repeat their parent's kind): every group non-empty,
group kinds known to the operator table, conditional tokens not operators, elements accepted by `element_func`,
renames only where allowed and onto plain tokens -/
def wf (ops : Ops) (ren : Bool) (okEl : Tok → Option Tok → Bool) : Dep → Bool
  | .leaf k none => elemTok ops ren k && okEl k none
  | .leaf k (some r) => ren && elemTok ops ren k && plainTok ops r && okEl k (some r)
  | .grp kind cs => (ops.lookup kind.sym == some (.node kind)) && !cs.isEmpty && wfL ops ren okEl cs
  | .cond n f cs =>
    (ops.lookup (condTok n f)).isNone && (n || f.head? != some '!') && !cs.isEmpty && wfL ops ren okEl cs
def wfL (ops : Ops) (ren : Bool) (okEl : Tok → Option Tok → Bool) : List Dep → Bool
  | [] => true
  | c :: cs => wf ops ren okEl c && wfL ops ren okEl cs
end

/-- every conditional / operator token is immediately followed by `(` -/
def openersFollowed (ops : Ops) : List Tok → Bool
  | [] => true
  | [k] => !isOpener ops k
  | k :: k2 :: rest => (!isOpener ops k || k2 == tkOpen) && openersFollowed ops (k2 :: rest)

/-- no `(` is immediately followed by `)` -/
def noEmptyGroup : List Tok → Bool
  | [] => true
  | [_] => true
  | k :: k2 :: rest => !(k == tkOpen && k2 == tkClose) && noEmptyGroup (k2 :: rest)

end Pkgcore.C09.Spec
