import Pkgcore.Model.C45
import Pkgcore.Spec.C01
/-!
# C45 specification — a reference evaluator of the GLSA format, written from the property text

A package is affected by a `<package>` entry iff its name is the entry's, its version and slot satisfy at least one
`<vulnerable>` range and no `<unaffected>` range, and — when the entry names arches — it carries one of them.
Ranges: `lt le eq ge gt` compare full versions (PMS order, C01); `rlt rle rge rgt` compare the revisions of packages
with the same version; `eq` with a trailing `*` is a prefix of the version that ends at a component boundary; a
`slot` attribute limits the range to that slot.  An entry with a malformed range is not evaluated at all.
-/
namespace Pkgcore.C45.Spec
open Pkgcore.C45
open Pkgcore.C01 (Ver natOfDigits)

inductive Cmp | lt | le | eq | ge | gt
  deriving DecidableEq, Repr

def Cmp.holds : Cmp → Ordering → Bool
  | .lt, o => o == .lt
  | .le, o => o != .gt
  | .eq, o => o == .eq
  | .ge, o => o != .lt
  | .gt, o => o == .gt

/-- the nine range operators: (revision form?, comparison) -/
def parseOp (s : Str) : Option (Bool × Cmp) :=
  if s = "lt".toList then some (false, .lt) else if s = "le".toList then some (false, .le)
  else if s = "eq".toList then some (false, .eq) else if s = "ge".toList then some (false, .ge)
  else if s = "gt".toList then some (false, .gt) else if s = "rlt".toList then some (true, .lt)
  else if s = "rle".toList then some (true, .le) else if s = "rge".toList then some (true, .ge)
  else if s = "rgt".toList then some (true, .gt) else none

/-- the prefix `b` of `s` ends where a version component ends: at the end, before one of `. _ -`, or at a
digit / non-digit transition (`1.2*` covers `1.2`, `1.2.3`, `1.2_p1`, `1.2-r1`, `1.2a`, not `1.20`) -/
def boundary (b rest : Str) : Bool :=
  match rest with
  | [] => true
  | c :: _ => c = '.' || c = '_' || c = '-' || ((b.getLast?.map Char.isDigit).getD false != c.isDigit)

def compPrefix (b s : Str) : Bool := b.isPrefixOf s && boundary b (s.drop b.length)

/-- a well-formed range: known operator, a valid version, `*` only with `eq`, and not `rlt` of revision 0 -/
def rangeValid (n : RangeNode) : Bool :=
  match parseOp n.op, n.text with
  | some (r, c), some t =>
    match t.parsed with
    | none => false
    | some (_, _, rev) =>
      if t.glob then n.op = "eq".toList
      else !(r && c == .lt && rev.isEmpty)
  | _, _ => false

/-- does the package lie in a (well-formed) range? `loose` = plain string prefix for globs -/
def rangeHolds (loose : Bool) (n : RangeNode) (p : Pkg) : Bool :=
  match parseOp n.op, n.text with
  | some (r, c), some t =>
    match t.parsed with
    | none => false
    | some (fullver, v, rev) =>
      (if t.glob then (if loose then fullver.isPrefixOf p.fullver else compPrefix fullver p.fullver)
       else if r then
         C01.Spec.pmsCmp p.ver none v none == .eq && c.holds (compare (natOfDigits p.rev) (natOfDigits rev))
       else c.holds (C01.Spec.pmsCmp p.ver (some p.rev) v (some rev))) &&
      (n.slot.isEmpty || p.slot = n.slot)
  | _, _ => false

/-- the entry names no arches (no attribute, empty, or `*` among them) or the package carries one of them -/
def archHolds (arch : Option (List Str)) (p : Pkg) : Bool :=
  match arch with
  | none => true
  | some l => if l.isEmpty || l.contains ['*'] then true else l.any (p.keywords.contains ·)

/-- `none`: the entry yields nothing (no vulnerable range, malformed range, unparsable name) -/
def affected (loose : Bool) (n : PkgNode) (p : Pkg) : Option Bool :=
  if n.vulnerable.isEmpty then none
  else if !(n.vulnerable.all rangeValid && n.unaffected.all rangeValid && n.nameOk) then none
  else some (
    decide (p.key = n.name) &&
    n.vulnerable.any (rangeHolds loose · p) &&
    archHolds n.arch p &&
    !(n.unaffected.any (rangeHolds loose · p)))

end Pkgcore.C45.Spec
