import Pkgcore.Model.C38
/-!
# C38 specification — what "touches only the lines it must" means

Written from the property text.

* A *keyword token* (`Tok`) is a non-empty string without whitespace that does not start with `#`
  (such a token can be written after a space without starting a comment).
* The *layout* of a package line is: leading whitespace, the package spec, then for each keyword the
  whitespace in front of it and the keyword, then trailing whitespace, then the comment (from its `#`), then the
  line ending.  Rewriting the keywords of a line must produce the line whose layout has the same leading
  whitespace, spec, first separator (a single space if the line had no keywords), trailing whitespace, comment
  and line ending, and the new keywords separated by single spaces (`rewrittenItems`).
* Sentinel semantics per keyword (`expandOne`): `*` ↦ the suggestions (or `-` when there are none), `^` ↦ the
  expanded keywords of the previous package line, anything else ↦ itself.
-/
namespace Pkgcore.C38.Spec
open Pkgcore.C38

/-- a token that can stand as a keyword (or spec) on a line -/
def Tok (t : Str) : Prop := t ≠ [] ∧ (∀ c ∈ t, isSpace c = false) ∧ t.head? ≠ some '#'

/-- all characters are whitespace -/
def Blank (s : Str) : Prop := ∀ c ∈ s, isSpace c = true

/-- the keyword part of the layout after a rewrite: first separator `sep`, then single spaces -/
def kwItems (sep : Str) : List Str → List (Str × Str)
  | [] => []
  | k :: ks => (sep, k) :: ks.map fun k' => ([' '], k')

/-- the layout a rewritten line must have, given the layout `s` of the part before the comment -/
def rewrittenItems (s : Segs) (keywords : List Str) : Segs :=
  match s.items with
  | [] => s
  | [(ws0, t0)] => ⟨(ws0, t0) :: kwItems [' '] keywords, s.trail⟩
  | (ws0, t0) :: (ws1, _) :: _ =>
    match keywords with
    | [] => ⟨[(ws0, t0)], ws1 ++ s.trail⟩          -- nothing left to separate: the separator becomes trailing space
    | _ => ⟨(ws0, t0) :: kwItems ws1 keywords, s.trail⟩

/-- a keyword is a sentinel that `expand` resolves -/
def isSentinel (k : Str) : Bool := k = ALL || k = SAME

/-- what one keyword expands to -/
def expandOne (suggested : List Str) (previous : List Str) (k : Str) : List Str :=
  if k = ALL then (if suggested.isEmpty then [NO] else suggested)
  else if k = SAME then previous
  else [k]

end Pkgcore.C38.Spec
