import Pkgcore.Model.C16
import Pkgcore.Spec.C01
/-!
# C16 specification — the order in which candidates have to be offered

From the property text: *highest version first, the installed instance first among equal versions* (upgrade);
*installed matches before anything else* (minimal install).  Versions are compared with the PMS algorithm (C01's
specification `pmsCmp`), not with the code's `ver_cmp`.
-/
namespace Pkgcore.C16
open Pkgcore.C01 Pkgcore.C01.Spec

def pms (x y : Cand) : Ordering := pmsCmp x.ver (some x.rev) y.ver (some y.rev)

/-- `x` may be offered before `y` by the upgrade policy -/
def Before (x y : Cand) : Prop := pms x y = .gt ∨ (pms x y = .eq ∧ (y.livefs = true → x.livefs = true))

/-- the whole stream respects the policy -/
def UpgradeOrdered (l : List Cand) : Prop := l.Pairwise Before

/-- what `isvalid_version_re` guarantees about the lexed version -/
def CandWF (c : Cand) : Prop := WF c.ver

/-- repositories are homogeneous: all packages of a repo share `repo.livefs` -/
def RepoOk (r : Repo) : Prop := ∀ x ∈ r, ∀ y ∈ r, x.livefs = y.livefs

end Pkgcore.C16
