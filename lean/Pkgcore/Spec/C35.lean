import Pkgcore.Model.C35
/-!
# C35 specification — "the two sides are never both waiting to read, every request is matched with its own reply,
an unknown command ends the session with an error instead of being misread"
-/
namespace Pkgcore.C35.Spec
open Pkgcore.C35

/-- Python is blocked in a read (`expect`/`_consume_async_expects`/`generic_handler`) on an empty channel -/
def PWaiting (g : G) : Prop :=
  g.st = .live ∧ g.d = [] ∧ ((∃ ops, g.ops = .drain :: ops ∧ g.out ≠ []) ∨ ∃ ops, g.ops = .handler :: ops)

/-- the daemon is blocked in a read on an empty channel -/
def BWaiting (g : G) : Prop := g.c = [] ∧ (g.b = .main ∨ g.b = .setup ∨ ∃ k, g.b = .wait k)

/-- the daemon has gone away (died or shut down): it will never write again -/
def BGone (g : G) : Prop := g.b = .dead ∨ g.b = .exited

/-- Python reads, while expectations are outstanding, a line that is neither the expected reply nor a death notice -/
def PMisread (g : G) : Prop :=
  g.st = .live ∧ ∃ o ops r out m d, g.ops = o :: ops ∧ (o = .drain ∨ o = .handler) ∧ g.out = r :: out ∧ g.d = m :: d ∧
    m ≠ .reply r ∧ m ≠ .death

/-- `generic_handler` reads something that is not a request, a notice, `phases` or a death notice -/
def PUnhandled (g : G) : Prop :=
  g.st = .live ∧ ∃ ops m d, g.ops = .handler :: ops ∧ g.out = [] ∧ g.d = m :: d ∧ (m = .junk ∨ ∃ r, m = .reply r)

/-- the daemon reads a command its current loop does not know -/
def BUnknown (g : G) : Prop :=
  alive g.b = true ∧ g.b ≠ .running ∧ ∃ x cs, g.c = x :: cs ∧ trans g.b x = none

end Pkgcore.C35.Spec
