import Pkgcore.Model.C07
/-!
# C07 specification — what "interchangeable" means

* two restrictions are *match-equivalent* when they give the same answer on every value, in every environment;
* their hashes are equal when their hash keys are equal up to `hkEq`: component-wise for tuples, as sets for
  frozensets (CPython's `hash` of a tuple is a function of its members' hashes in order, that of a frozenset a
  function of the set of its members' hashes, that of a str / int / bool of its value);
* a restriction-keyed cache is a Python `dict`: a lookup returns the value stored under the first key with the same
  hash that compares equal.
-/
namespace Pkgcore.C07.Spec
open Pkgcore.C07

/-- same `match` result on every value in every environment -/
def SameMatch (a b : Restr) : Prop := ∀ (env : Env) (x : Value), mtch env a x = mtch env b x

mutual
/-- equality of hash keys -/
def hkEq : HK → HK → Bool
  | .s x, .s y => x == y
  | .b x, .b y => x == y
  | .n x, .n y => x == y
  | .id x, .id y => x == y
  | .v x, .v y => x == y
  | .tup xs, .tup ys => hkEqList xs ys
  | .fset xs, .fset ys => hkSub xs ys && ys.all (fun y => hkEx xs y)
  | _, _ => false
termination_by structural a => a
def hkEqList : List HK → List HK → Bool
  | [], [] => true
  | a :: as, b :: bs => hkEq a b && hkEqList as bs
  | _, _ => false
termination_by structural a => a
def hkSub : List HK → List HK → Bool
  | [], _ => true
  | a :: as, bs => bs.any (fun y => hkEq a y) && hkSub as bs
termination_by structural a => a
def hkEx : List HK → HK → Bool
  | [], _ => false
  | a :: as, y => hkEq a y || hkEx as y
termination_by structural a => a
end

/-- the operator sets `_VersionMatch` can hold: the values of the generated `_convert_str2op` (`~` stores `(0,)`) -/
def opTable : List (List Int) := Pkgcore.Generated.C01.str2op.map Prod.snd

/-- a version string `isvalid_version_re` accepts, as a decidable check (implies C01's `WF`) -/
def verOkB (v : Pkgcore.C01.Ver) : Bool :=
  !v.comps.isEmpty && v.comps.all fun c => !c.isEmpty && c.all Char.isDigit

/-- the version of an atom (if it has one) is valid -/
def atomOkB (a : Pkgcore.C02.Atom) : Bool :=
  match a.vop with
  | none => true
  | some (_, v, _) => verOkB v

/-- a written slot / sub-slot is never the empty string (`atom.__init__` raises `MalformedAtom`: "Empty slot targets
aren't allowed"); an absent one is `None`.  Needed where the canonical form (`v or ""`) is read back. -/
def slotPartsOkB (a : Pkgcore.C02.Atom) : Bool := a.slot != some [] && a.subslot != some []

mutual
/-- well-formed: every version node holds an operator set of the table, every atom a valid version -/
def wf : Restr → Bool
  | .version vals _ _ _ _ => opTable.contains vals
  | .atom a => atomOkB a
  | .flatten _ c _ => wf c
  | .strConv c => wf c
  | .pkgRestr _ _ _ _ c => wf c
  | .conditional _ _ c p => wf c && wfL p
  | .bool _ _ _ cs => wfL cs
  | .depset cs => wfL cs
  | _ => true
def wfL : List Restr → Bool
  | [] => true
  | c :: cs => wf c && wfL cs
end

/-- `dict.get(k)` on a restriction-keyed dict, given the hash function `H` on hash keys: the value stored under
the first key whose hash equals that of `k` and that compares equal to `k` -/
def lookup {V : Type} (H : HK → Int) : List (Restr × V) → Restr → Option V
  | [], _ => none
  | (k', v) :: rest, k => if H (hashKey k') == H (hashKey k) && eqv k' k then some v else lookup H rest k

/-- the alive instances of a class family (only well-formed restrictions can be constructed) -/
abbrev Alive := {l : List Restr // ∀ r ∈ l, wf r = true}

/-- the instance cache of `WeakInstMeta` as a concrete state: the alive instances.  A constructor call is a dict lookup
(equal hash, `==`) of the would-be instance among them; a miss registers the new instance.  (Weak references that die
only make the list shorter; the theorems hold for every list.) -/
def aliveStep (H : HK → Int) (alive : Alive) (fresh : Restr) : Option Restr × Alive :=
  match lookup H (alive.val.map fun r => (r, r)) fresh with
  | some v => (some v, alive)
  | none =>
    (none, if h : wf fresh = true then
        ⟨fresh :: alive.val, fun r hr => by
          rcases List.mem_cons.mp hr with rfl | hr
          · exact h
          · exact alive.property r hr⟩
      else alive)

/-- what a cache policy may do: hand out only well-formed instances that compare equal to the one asked for -/
def HitsEqual {σ : Type} (step : σ → Restr → Option Restr × σ) : Prop :=
  ∀ s k v, (step s k).1 = some v → wf v = true ∧ eqv v k = true

end Pkgcore.C07.Spec
