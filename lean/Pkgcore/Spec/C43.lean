import Pkgcore.Model.C43
/-!
# C43 specification — nearest definition in breadth-first inheritance order

Written from the property text, independently of the loop in `_get_inherited_sections`:

* the sections called `n` are those of all config sources, **latest source first** (`stackOf`);
* a node of the inheritance graph is a section together with the earlier-source sections of the same name still
  below it (`Entry`); its children are, for each name of its `inherit` list in order, the latest section of that
  name — or, for its own name (self-inherit), the next earlier section of the same name (`target`, `kids`);
* breadth-first order = the root, then all its children left to right, then all their children, … (`upTo`:
  level after level until a level is empty);
* the collapsed value of a key is the value in the first node of that order that sets it (`value`);
* `Missing` (some reachable node names a target that does not exist) and `Cyclic` (some reachable node reaches
  itself) are the error conditions.

Everything is parametrised by the stack function so that the same definitions can be instantiated with the
model's lookup table.
-/
namespace Pkgcore.C43.Spec
open Pkgcore.C43

/-- all sections named `n`: later config sources override (come before) earlier ones -/
def stackOf (sources : List Source) (n : Name) : List Sec :=
  sources.reverse.filterMap (fun src => src.lookup n)

variable (stk : Name → List Sec)

def inherits (e : Entry) : List Name := e.conf.inherit.getD []

/-- the node an inherit name refers to, if it exists -/
def target (e : Entry) (i : Name) : Option Entry :=
  if i = e.name then
    match e.rest with
    | [] => none
    | c :: r => some ⟨i, c, r⟩
  else
    match stk i with
    | [] => none
    | c :: r => some ⟨i, c, r⟩

def kids (e : Entry) : List Entry := (inherits e).filterMap (target stk e)

/-- some inherit name of `e` has no target -/
def dangling (e : Entry) : Bool := (inherits e).any (fun i => (target stk e i).isNone)

/-- the `d`-th generation below the nodes `q` -/
def lev : Nat → List Entry → List Entry
  | 0, q => q
  | d + 1, q => lev d (q.flatMap (kids stk))

/-- `q`, then its children, then theirs, …: the first `D` generations in breadth-first order -/
def upTo : Nat → List Entry → List Entry
  | 0, _ => []
  | D + 1, q => q ++ upTo D (q.flatMap (kids stk))

def root (name : Name) : Option Entry :=
  match stk name with
  | [] => none
  | c :: r => some ⟨name, c, r⟩

/-- value of `key`: the first node in the given order that sets it -/
def value (key : String) (order : List Entry) : Option String :=
  order.findSome? (fun e => e.conf.items.lookup key)

/-- names inherited from other sections (everything but self-inherits) -/
def nonSelf (e : Entry) : List Name := (inherits e).filter (· ≠ e.name)

/-- reachability in the inheritance graph -/
inductive Reach : Entry → Entry → Prop
  | refl (e : Entry) : Reach e e
  | step {a b c : Entry} : Reach a b → c ∈ kids stk b → Reach a c

/-- reachability by at least one inheritance edge -/
inductive ReachPlus : Entry → Entry → Prop
  | one {a b : Entry} : b ∈ kids stk a → ReachPlus a b
  | step {a b c : Entry} : ReachPlus a b → c ∈ kids stk b → ReachPlus a c

/-- a missing target (of another name, or a self-inherit with no earlier source) below `r` -/
def Missing (r : Entry) : Prop := ∃ e, Reach stk r e ∧ dangling stk e = true

/-- an inheritance cycle below `r` -/
def Cyclic (r : Entry) : Prop := ∃ e, Reach stk r e ∧ ReachPlus stk e e

/-- tree-shaped below `r`, `D` generations deep at most: every target exists and no section name is inherited twice -/
def TreeShaped (r : Entry) (D : Nat) : Prop :=
  lev stk D [r] = [] ∧ (∀ e ∈ upTo stk D [r], dangling stk e = false) ∧
  (r.name :: (upTo stk D [r]).flatMap nonSelf).Nodup

/-! ### executable reference (driver)

The same notions, computed without materialising exponentially many paths: generations are produced one at a time
and exploration stops at the first missing target or the first section name inherited a second time (from then on the
graph is not a tree: it is either cyclic — decided on the de-duplicated reachable set — or a diamond). -/

inductive Verdict
  | noSection | inheritOnly | missing | cyclic | notTree | noClass
  | ok (cfg : List (String × String))
  deriving DecidableEq, Repr

/-- the nodes reachable from `seen` (no duplicates), by saturation -/
def closure : Nat → List Entry → List Entry
  | 0, seen => seen
  | n + 1, seen =>
    let new := ((seen.flatMap (kids stk)).eraseDups).filter (fun e => !(seen.contains e))
    if new.isEmpty then seen else closure n (seen ++ new)

/-- some reachable node reaches itself -/
def cyclicB (budget : Nat) (r : Entry) : Bool :=
  (closure stk budget [r]).any (fun e => (closure stk budget ((kids stk e).eraseDups)).contains e)

inductive Explored
  | tree (order : List Entry)
  | missing
  | repeated
  deriving Repr

/-- generation by generation while the graph is still a tree -/
def explore (rootName : Name) : Nat → List Entry → List Entry → Explored
  | 0, lvl, order => if lvl.isEmpty then .tree order else .repeated
  | b + 1, lvl, order =>
    if lvl.isEmpty then .tree order
    else if lvl.any (dangling stk) then .missing
    else
      let order' := order ++ lvl
      if (rootName :: order'.flatMap nonSelf).Nodup then explore rootName b (lvl.flatMap (kids stk)) order'
      else .repeated

end Pkgcore.C43.Spec

namespace Pkgcore.C43.Spec
open Pkgcore.C43

/-- collapse below a given root node by the definitions above; the second component is the raw value of the `default`
key by the same rule (first node of the breadth-first order that sets it) -/
def collapseFrom (sources : List Source) (extra : Nat) (r : Entry) : Verdict × Option String :=
  let stk := stackOf sources
  let budget := (sources.map List.length).sum + 2 + extra
  if r.conf.inheritOnly then (.inheritOnly, none)
  else match explore stk r.name budget [r] [] with
    | .missing => (.missing, none)
    | .repeated => if cyclicB stk budget r then (.cyclic, none)
                   else if (closure stk budget [r]).any (dangling stk) then (.missing, none) else (.notTree, none)
    | .tree order =>
      match value "class" order with
      | none => (.noClass, none)
      | some _ =>
        let keys := (dedup (order.flatMap (fun e => e.conf.items.map (·.1)))).filter (fun k => !(specialKeys.contains k))
        (.ok (keys.filterMap (fun k => (value k order).map (k, ·))), value "default" order)

/-- a named section: the root is the latest section of that name, with the earlier ones below it -/
def collapseD (sources : List Source) (name : Name) : Verdict × Option String :=
  match root (stackOf sources) name with
  | none => (.noSection, none)
  | some r => collapseFrom sources 0 r

def collapse (sources : List Source) (name : Name) : Verdict := (collapseD sources name).1

/-- an anonymous (inline) section: a root node of its own, under a name no section and no inherit list uses -/
def collapseAnonD (sources : List Source) (sec : Sec) : Verdict × Option String :=
  collapseFrom sources 1 ⟨anonName, sec, []⟩

end Pkgcore.C43.Spec
