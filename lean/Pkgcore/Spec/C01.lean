import Pkgcore.Model.C01
/-!
# C01 specification — the PMS version comparison (PMS 3.3, algorithms 3.1–3.7), written from the
standard and independently of the structure of `ver_cmp`.
-/
namespace Pkgcore.C01.Spec
open Pkgcore.C01

/-- PMS suffix order: `_alpha < _beta < _pre < _rc < (none) < _p` (none is 0) -/
def rank : Suf → Int
  | .alpha => -4 | .beta => -3 | .pre => -2 | .rc => -1 | .p => 1

/-- Algorithm 3.3: later numeric components -/
def pmsComp (a b : List Char) : Ordering :=
  if a.head? = some '0' ∨ b.head? = some '0' then compare (rstrip0 a) (rstrip0 b)
  else compare (natOfDigits a) (natOfDigits b)

def pmsRest : List (List Char) → List (List Char) → Ordering
  | [], [] => .eq
  | [], _ :: _ => .lt
  | _ :: _, [] => .gt
  | a :: as, b :: bs => (pmsComp a b).then (pmsRest as bs)

/-- Algorithm 3.2: first component as integer, the others pairwise, then the longer one wins -/
def pmsNumbers : List (List Char) → List (List Char) → Ordering
  | [], [] => .eq
  | [], _ :: _ => .lt
  | _ :: _, [] => .gt
  | a :: as, b :: bs => (compare (natOfDigits a) (natOfDigits b)).then (pmsRest as bs)

/-- Algorithm 3.4: no letter sorts below any letter, letters by code -/
def pmsLetter : Option Char → Option Char → Ordering
  | none, none => .eq
  | none, some _ => .lt
  | some _, none => .gt
  | some a, some b => compare a.toNat b.toNat

/-- Algorithms 3.5/3.6: suffixes pairwise (kind, then number, missing number = 0); when one list
ends the other side wins iff its next suffix is `_p` -/
def pmsSufs : List (Suf × List Char) → List (Suf × List Char) → Ordering
  | [], [] => .eq
  | [], (s, _) :: _ => if s = .p then .lt else .gt
  | (s, _) :: _, [] => if s = .p then .gt else .lt
  | (s, n) :: xs, (t, m) :: ys =>
    ((compare (rank s) (rank t)).then (compare (natOfDigits n) (natOfDigits m))).then (pmsSufs xs ys)

def revNat : Rev → Nat
  | none => 0
  | some ds => natOfDigits ds

/-- Algorithm 3.1 -/
def pmsCmp (v1 : Ver) (r1 : Rev) (v2 : Ver) (r2 : Rev) : Ordering :=
  (pmsNumbers v1.comps v2.comps).then <|
  (pmsLetter v1.letter v2.letter).then <|
  (pmsSufs v1.sufs v2.sufs).then <|
  compare (revNat r1) (revNat r2)

/-- well-formed lexed version = what `isvalid_version_re` accepts -/
def digits (cs : List Char) : Prop := cs ≠ [] ∧ ∀ c ∈ cs, c.isDigit = true
def WF (v : Ver) : Prop := v.comps ≠ [] ∧ ∀ c ∈ v.comps, digits c

end Pkgcore.C01.Spec

/-! The order-embedding key of the PMS order (used by the preorder proofs of C01 and, as the canonical
value of a version, by the specifications of C02/C07).  Definitions only — no proofs — so that drivers can
import it without depending on any table-dependent proof. -/
namespace Pkgcore.C01
open Pkgcore.C01.Spec

abbrev CompKey := Nat × List Char × Nat
/-- order embedding of one later component: leading-zero components sort strictly below the others -/
def compKey (a : List Char) : CompKey :=
  if a.head? = some '0' then (0, rstrip0 a, 0) else (1, [], natOfDigits a)

abbrev Key := Nat × List CompKey × Nat × List (Int × Nat) × Nat
def letterKey : Option Char → Nat
  | none => 0
  | some c => c.toNat + 1
def sufKey (x : Suf × List Char) : Int × Nat := (rank x.1, natOfDigits x.2)
def key (v : Ver) (r : Rev) : Key :=
  (natOfDigits (v.comps.headD []), v.comps.tail.map compKey, letterKey v.letter,
   v.sufs.map sufKey ++ [(0, 0)], revNat r)

end Pkgcore.C01
