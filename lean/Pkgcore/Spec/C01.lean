import Pkgcore.Model.C01
/-!
# C01 specification — the PMS version comparison (PMS 3.3, algorithms 3.1–3.7), written from the
standard and independently of the structure of `ver_cmp`.
-/
namespace Pkgcore.C01.Spec
open Pkgcore.C01

/-- PMS suffix order: `_alpha < _beta < _pre < _rc < (none) < _p` (none is 0) -/
def rank : Suf → Int
  | .alpha => -4 | .beta => -3 | .pre => -2 | .rc => -1 | .p => 1

/-- Algorithm 3.3: later numeric components -/
def pmsComp (a b : List Char) : Ordering :=
  if a.head? = some '0' ∨ b.head? = some '0' then compare (rstrip0 a) (rstrip0 b)
  else compare (natOfDigits a) (natOfDigits b)

def pmsRest : List (List Char) → List (List Char) → Ordering
  | [], [] => .eq
  | [], _ :: _ => .lt
  | _ :: _, [] => .gt
  | a :: as, b :: bs => (pmsComp a b).then (pmsRest as bs)

/-- Algorithm 3.2: first component as integer, the others pairwise, then the longer one wins -/
def pmsNumbers : List (List Char) → List (List Char) → Ordering
  | [], [] => .eq
  | [], _ :: _ => .lt
  | _ :: _, [] => .gt
  | a :: as, b :: bs => (compare (natOfDigits a) (natOfDigits b)).then (pmsRest as bs)

/-- Algorithm 3.4: no letter sorts below any letter, letters by code -/
def pmsLetter : Option Char → Option Char → Ordering
  | none, none => .eq
  | none, some _ => .lt
  | some _, none => .gt
  | some a, some b => compare a.toNat b.toNat

/-- Algorithms 3.5/3.6: suffixes pairwise (kind, then number, missing number = 0); when one list
ends the other side wins iff its next suffix is `_p` -/
def pmsSufs : List (Suf × List Char) → List (Suf × List Char) → Ordering
  | [], [] => .eq
  | [], (s, _) :: _ => if s = .p then .lt else .gt
  | (s, _) :: _, [] => if s = .p then .gt else .lt
  | (s, n) :: xs, (t, m) :: ys =>
    ((compare (rank s) (rank t)).then (compare (natOfDigits n) (natOfDigits m))).then (pmsSufs xs ys)

def revNat : Rev → Nat
  | none => 0
  | some ds => natOfDigits ds

/-- Algorithm 3.1 -/
def pmsCmp (v1 : Ver) (r1 : Rev) (v2 : Ver) (r2 : Rev) : Ordering :=
  (pmsNumbers v1.comps v2.comps).then <|
  (pmsLetter v1.letter v2.letter).then <|
  (pmsSufs v1.sufs v2.sufs).then <|
  compare (revNat r1) (revNat r2)

/-- well-formed lexed version = what `isvalid_version_re` accepts -/
def digits (cs : List Char) : Prop := cs ≠ [] ∧ ∀ c ∈ cs, c.isDigit = true
def WF (v : Ver) : Prop := v.comps ≠ [] ∧ ∀ c ∈ v.comps, digits c

end Pkgcore.C01.Spec
