import Pkgcore.Model.C03
/-!
# C03 specification — the PMS package-dependency grammar, per EAPI, as well-formedness of the atom record

Written from the PMS (EAPI 8 edition): names 3.1.1–3.1.5, version syntax 3.2, dependency specification 8.3
(operators 8.3.1, blockers 8.3.2, slot dependencies 8.3.3, USE dependencies 8.3.4) and the EAPI feature tables
of those sections; plus pkgcore's `::repo` extension, which the property allows only when no EAPI is given.
Nothing here looks at how `atom.__init__` goes about parsing.

The grammar is a predicate on the *record* (`C02.Atom`: category, package, operator + lexed version + revision
text, blocker flags, slot / sub-slot / slot operator, USE tokens, repo id); the language of strings is the set of
renderings of well-formed records (`Grammar`).  `render` is the model of `atom.__str__`; it is the unique way
the PMS writes such a record (`[!|!!] [op] cat/pkg[-ver[-rN]][*] [:slot[/sub][=] | := | :*] [::repo] [[use,…]]`).

Two places where pkgcore knowingly deviates from the PMS text are a `Dialect` parameter, so that both readings are
stated exactly: the version letter (`[a-z]` in PMS 3.2, `[a-zA-Z]` in `isvalid_version_re`, pinned by pkgcore's
tests) and a leading `+` in slot names (forbidden by PMS 3.1.3, allowed by atom.py, pinned by its tests).
-/
namespace Pkgcore.C03.Spec
open Pkgcore.C01 Pkgcore.C02 Pkgcore.C03

structure Dialect where
  /-- the optional letter after the numeric components of a version -/
  verLetter : Char → Bool
  /-- may a slot name begin with `+` -/
  slotPlusFirst : Bool

/-- the PMS -/
def pms : Dialect := ⟨Char.isLower, false⟩
/-- what pkgcore accepts (open findings `C03-uppercase-version-letter`, `C03-slot-leading-plus`) -/
def lenient : Dialect := ⟨Char.isAlpha, true⟩

/-! ## names (PMS 3.1) -/

/-- every character is `[A-Za-z0-9]` or one of `extra` -/
def nameChars (extra : List Char) (s : Str) : Bool := s.all fun c => c.isAlphanum || extra.contains c
def startsWithAny (bad : List Char) : Str → Bool
  | [] => false
  | c :: _ => bad.contains c

/-- 3.1.1: `[A-Za-z0-9+_.-]+`, not beginning with a hyphen, a dot or a plus sign -/
def catOk (s : Str) : Bool := !s.isEmpty && nameChars ['+', '_', '.', '-'] s && !startsWithAny ['-', '.', '+'] s
/-- 3.1.3: `[A-Za-z0-9+_.-]+`, not beginning with a hyphen, a dot or a plus sign -/
def slotNameOk (d : Dialect) (s : Str) : Bool :=
  !s.isEmpty && nameChars ['+', '_', '.', '-'] s &&
    !startsWithAny (if d.slotPlusFirst then ['-', '.'] else ['-', '.', '+']) s
/-- 3.1.4: `[A-Za-z0-9+_@-]+`, beginning with an alphanumeric character -/
def useFlagOk (s : Str) : Bool :=
  nameChars ['+', '_', '@', '-'] s && match s with | c :: _ => c.isAlphanum | [] => false
/-- repository name (3.1.5, as far as atom syntax is concerned): `[A-Za-z0-9_-]+`, not beginning with a hyphen -/
def repoNameOk (s : Str) : Bool := !s.isEmpty && nameChars ['_', '-'] s && !startsWithAny ['-'] s

/-! ## versions (PMS 3.2) -/

def digitsOk (s : Str) : Bool := s.all Char.isDigit

/-- `[0-9]+(\.[0-9]+)*[a-z]?(_(alpha|beta|pre|rc|p)[0-9]*)*` on the lexed structure -/
def verOk (d : Dialect) (v : Ver) : Bool :=
  !v.comps.isEmpty && v.comps.all (fun c => !c.isEmpty && digitsOk c) &&
    (match v.letter with | none => true | some c => d.verLetter c) && v.sufs.all fun x => digitsOk x.2

/-- `-rN` or nothing -/
def revText (r : Str) : Str := if r.isEmpty then [] else '-' :: 'r' :: r

/-- "anything matching the version syntax": a version with an optional revision -/
def VersionLike (d : Dialect) (t : Str) : Prop :=
  ∃ v r, verOk d v = true ∧ digitsOk r = true ∧ t = C01.render v ++ revText r

/-- 3.1.2: `[A-Za-z0-9+_-]+`, not beginning with a hyphen or a plus sign, not ending in a hyphen followed by
anything matching the version syntax -/
def pkgOk (d : Dialect) (s : Str) : Prop :=
  (!s.isEmpty && nameChars ['+', '_', '-'] s && !startsWithAny ['-', '+'] s) = true ∧
    ∀ p t, s = p ++ '-' :: t → ¬ VersionLike d t

/-! ## dependency specifications (PMS 8.3) -/

/-- operator, version, revision: any operator with any version; `~` is written without a revision
(PMS: "revision parts are ignored"; pkgcore and portage refuse `~cat/pkg-1-r1`) -/
def vopOk (d : Dialect) : Option (Op × Ver × Str) → Prop
  | none => True
  | some (op, v, r) => verOk d v = true ∧ digitsOk r = true ∧ (op = .tilde → r = [])

/-- 8.3.3: `:slot`, and where sub-slots / slot operators exist `:slot/sub`, `:slot=`, `:slot/sub=`, `:=`, `:*` -/
def slotOk (d : Dialect) (o : Opts) (a : Atom) : Prop :=
  match a.slot with
  | some s =>
    o.hasSlotDeps = true ∧ slotNameOk d s = true ∧
      (match a.subslot with
       | some ss => o.subSlotting = true ∧ slotNameOk d ss = true
       | none => True) ∧
      (a.slotOp = none ∨ (o.subSlotting = true ∧ a.slotOp = some ['=']))
  | none =>
    a.subslot = none ∧
      (a.slotOp = none ∨ (o.subSlotting = true ∧ (a.slotOp = some ['='] ∨ a.slotOp = some ['*'])))

/-- 8.3.4: the six forms `flag`, `-flag`, `flag=`, `!flag=`, `flag?`, `!flag?` as (prefix, suffix) -/
def useForms : List (Str × Str) :=
  [([], []), (['-'], []), ([], ['=']), (['!'], ['=']), ([], ['?']), (['!'], ['?'])]
/-- 8.3.4 (EAPI 4): `(+)` / `(-)` immediately after the flag name -/
def useDefaults (allowed : Bool) : List Str :=
  if allowed then [[], ['(', '+', ')'], ['(', '-', ')']] else [[]]

def useTokOk (o : Opts) (t : Str) : Prop :=
  ∃ pre flag dfl suf, (pre, suf) ∈ useForms ∧ dfl ∈ useDefaults o.useDepDefaults ∧ useFlagOk flag = true ∧
    t = pre ++ flag ++ dfl ++ suf

/-- a well-formed atom under feature record `o` (`repoIds`: is `::repo` allowed).  The USE list is the one
written between the brackets, in any order. -/
def WF0 (d : Dialect) (o : Opts) (repoIds : Bool) (a : Atom) : Prop :=
  catOk a.cat = true ∧ pkgOk d a.pkg ∧ vopOk d a.vop ∧
  (a.strong = true → a.blocks = true ∧ o.strongBlockers = true) ∧
  a.negate = false ∧
  slotOk d o a ∧
  (match a.repo with
   | none => True
   | some r => repoIds = true ∧ repoNameOk r = true) ∧
  (match a.use with
   | none => True
   | some u => o.hasUseDeps = true ∧ u ≠ [] ∧ ∀ t ∈ u, useTokOk o t)

/-- the record `atom.__init__` builds: USE tokens sorted (`tuple(sorted(...))`) -/
def norm (a : Atom) : Atom := { a with use := a.use.map sortUse }

/-- well-formed and in the normal form of the `use` attribute -/
def WF (d : Dialect) (o : Opts) (repoIds : Bool) (a : Atom) : Prop := WF0 d o repoIds a ∧ norm a = a

/-- the language: renderings of well-formed records -/
def Grammar (d : Dialect) (o : Opts) (repoIds : Bool) (s : Str) : Prop :=
  ∃ a, WF0 d o repoIds a ∧ render a = s

/-! ## EAPI feature table (PMS 8.3.2–8.3.4 tables; the property text) -/

/-- slot deps from EAPI 1, USE deps and strong blockers from 2, USE defaults from 4, sub-slots and `:=` `:*`
from 5; without an EAPI everything (pkgcore: the latest EAPI) -/
def pmsOpts : Eapi → Opts
  | none => ⟨true, true, true, true, true⟩
  | some n => ⟨decide (1 ≤ n), decide (2 ≤ n), decide (2 ≤ n), decide (4 ≤ n), decide (5 ≤ n)⟩

/-- repository ids only when no EAPI is given -/
def pmsRepoIds : Eapi → Bool
  | none => true
  | some _ => false

/-- the EAPIs of the property: 0–9 and "not given" -/
def KnownEapi : Eapi → Prop
  | none => True
  | some n => n ≤ 9

/-- the PMS reading and the pkgcore reading differ on this record only through these two points -/
def PmsStrict (a : Atom) : Prop :=
  (match a.vop with | some (_, v, _) => (match v.letter with | some c => c.isLower = true | none => True) | none => True) ∧
  (match a.slot with | some (c :: _) => c ≠ '+' | _ => True) ∧
  (match a.subslot with | some (c :: _) => c ≠ '+' | _ => True)

end Pkgcore.C03.Spec
