import Pkgcore.Model.C11
/-!
# C11 specification — apply every applicable entry in the order given

An entry is a chunk `(restriction, negatives, positives)`: it removes its negatives — `*` removes everything,
`PREFIX_*` every flag starting with `PREFIX_`, any other name that flag — and then adds its positives.
Per flag: the last applicable entry that says anything about the flag decides; if none does, the flag keeps
its initial state.
-/
namespace Pkgcore.C11.Spec
open Pkgcore.C11

/-- do the negatives `negs` remove flag `x` -/
def covers (negs : List Tok) (x : Tok) : Bool :=
  negs.contains star || negs.any (fun n => endsUS n && (n.dropLast).isPrefixOf x) || negs.contains x

/-- what an entry says about flag `x` -/
def verdict (c : Chunk) (x : Tok) : Option Bool :=
  if c.pos.contains x then some true else if covers c.neg x then some false else none

/-- the verdict of the last applicable entry (match function `m`) that says anything about `x` -/
def lastV (m : Nat → Bool) : List Chunk → Tok → Option Bool
  | [], _ => none
  | c :: cs, x => (lastV m cs x).orElse fun _ => if m c.kid then verdict c x else none

/-- is `x` on after applying the applicable entries of `hist`, in order, to the initial set `s` -/
def holds (m : Nat → Bool) (hist : List Chunk) (s : TSet) (x : Tok) : Bool :=
  (lastV m hist x).getD (s.contains x)

/-- the entries of a flat history that can apply to a package with `pkg.key = key`: globals and atoms of that key -/
def relevant (key : Tok) (hist : List Entry) : List Chunk :=
  (hist.filter fun e => e.cp.isNone || e.cp == some key).map (·.chunk)

/-- the match function is consistent with `simple`: `AlwaysTrue` and version-less atoms of the package's key match -/
def MatchOk (m : Nat → Bool) (cs : List Chunk) : Prop := ∀ c ∈ cs, c.simple = true → m c.kid = true

/-! ### token lines

A line of tokens means: apply them one after the other — `flag` adds, `-flag` removes, `-*` clears everything, `-PREFIX_*`
clears the flags with that prefix.  That is the chunk semantics above with every token an entry of its own. -/

/-- one token as an entry -/
def tokChunk (t : Tok) : Chunk :=
  if t.head? = some '-' then ⟨0, true, [t.tail], []⟩ else ⟨0, true, [], [t]⟩

/-- the tokens applied left to right to the initial set `s` -/
def ltr (toks : List Tok) (s : TSet) : TSet := render (fun _ => true) (toks.map tokChunk) s

/-- what the last token speaking about `x` says -/
def lastTok (toks : List Tok) (x : Tok) : Option Bool := lastV (fun _ => true) (toks.map tokChunk) x

/-- **USE_EXPAND sections**: every token rewritten by the section it stands in (`cur`), section headers dropped;
tokens before the first section are unchanged.  `FOO: a -b -*` ↦ `foo_a -foo_b -foo_*`. -/
def rewriteFrom : Option Tok → List Tok → List Tok
  | _, [] => []
  | cur, t :: ts =>
    if isSection t then rewriteFrom (some (sectionName t)) ts
    else (match cur with | none => t | some ue => expandTok ue t) :: rewriteFrom cur ts

def rewrite (toks : List Tok) : List Tok := rewriteFrom none toks

/-- the rest of the part (plain head or one `NAME:` section) a token stands in -/
def restOfPart (ts : List Tok) : List Tok := ts.takeWhile fun t => !isSection t

/-- what the splitter hands on: the rewritten line without the tokens a later `-*` *of the same part* overrides anyway
(in the plain head everything before the last `-*`; in a section the values before its last `-*`, the `-name_*` themselves
stay).  Defined by looking ahead, where the code keeps a start index / a buffer. -/
def splitSpecFrom : Option Tok → List Tok → List Tok
  | _, [] => []
  | cur, t :: ts =>
    if isSection t then splitSpecFrom (some (sectionName t)) ts
    else match cur with
      | none => if (restOfPart ts).contains dashStar then splitSpecFrom none ts else t :: splitSpecFrom none ts
      | some ue =>
        if t != dashStar && (restOfPart ts).contains dashStar then splitSpecFrom cur ts
        else expandTok ue t :: splitSpecFrom cur ts

def splitSpec (toks : List Tok) : List Tok := splitSpecFrom none toks

/-- the long-form tokens the splitter validates (everything but the clears) -/
def checkedFrom : Option Tok → List Tok → List Tok
  | _, [] => []
  | cur, t :: ts =>
    if isSection t then checkedFrom (some (sectionName t)) ts
    else if t = dashStar then checkedFrom cur ts
    else (match cur with | none => t | some ue => expandTok ue t) :: checkedFrom cur ts

/-- no section header starts with `-` (`-FOO: a` would be read as the *negative* `-foo_a`) -/
def plainNames (toks : List Tok) : Bool :=
  toks.all fun t => !isSection t || (sectionName t).head? != some '-'

/-- a line stored as *one* chunk (negatives, positives) forgets the order of its tokens.  `orderFree`: no token
switches a flag on that a later token of the line switches off again — then the order does not matter. -/
def orderFree : List Tok → Bool
  | [] => true
  | t :: ts =>
    (t.head? == some '-' || !(ts.any fun u => u.head? == some '-' && covers [u.tail] t)) && orderFree ts

end Pkgcore.C11.Spec
