import Pkgcore.Model.C11
/-!
# C11 specification — apply every applicable entry in the order given

An entry is a chunk `(restriction, negatives, positives)`: it removes its negatives — `*` removes everything,
`PREFIX_*` every flag starting with `PREFIX_`, any other name that flag — and then adds its positives.
Per flag: the last applicable entry that says anything about the flag decides; if none does, the flag keeps
its initial state.
-/
namespace Pkgcore.C11.Spec
open Pkgcore.C11

/-- do the negatives `negs` remove flag `x` -/
def covers (negs : List Tok) (x : Tok) : Bool :=
  negs.contains star || negs.any (fun n => endsUS n && (n.dropLast).isPrefixOf x) || negs.contains x

/-- what an entry says about flag `x` -/
def verdict (c : Chunk) (x : Tok) : Option Bool :=
  if c.pos.contains x then some true else if covers c.neg x then some false else none

/-- the verdict of the last applicable entry (match function `m`) that says anything about `x` -/
def lastV (m : Nat → Bool) : List Chunk → Tok → Option Bool
  | [], _ => none
  | c :: cs, x => (lastV m cs x).orElse fun _ => if m c.kid then verdict c x else none

/-- is `x` on after applying the applicable entries of `hist`, in order, to the initial set `s` -/
def holds (m : Nat → Bool) (hist : List Chunk) (s : TSet) (x : Tok) : Bool :=
  (lastV m hist x).getD (s.contains x)

/-- the entries of a flat history that can apply to a package with `pkg.key = key`: globals and atoms of that key -/
def relevant (key : Tok) (hist : List Entry) : List Chunk :=
  (hist.filter fun e => e.cp.isNone || e.cp == some key).map (·.chunk)

/-- the match function is consistent with `simple`: `AlwaysTrue` and version-less atoms of the package's key match -/
def MatchOk (m : Nat → Bool) (cs : List Chunk) : Prop := ∀ c ∈ cs, c.simple = true → m c.kid = true

end Pkgcore.C11.Spec
