import Pkgcore.Model.C13
/-!
# C13 specification — visible = not masked ∧ some keyword accepted ∧ some LICENSE alternative fully accepted

Written from the property sentence, not from the filters:

* **masks**: an atom is an effective mask iff the last configuration step that mentions it (repository masks, then each
  profile node's removals/additions, then `package.mask`) adds it; likewise for unmasks; a package is masked iff an
  effective mask matches it and no effective unmask does;
* **keywords**: the accepted keyword set is `ARCH`, `ACCEPT_KEYWORDS` (a testing keyword also accepts its stable form) and
  the keywords of every matching per-package entry, where an entry without keywords stands for `~ARCH` on a stable system
  (one whose accepted set does not already contain `~ARCH`); a package is accepted iff `**` is in the set, or `*` is and the
  package has a stable keyword, or `~*` is and it has a testing keyword, or one of its keywords is in the set;
* **licenses**: a license is accepted iff the last token of `ACCEPT_LICENSE` followed by the matching `package.license`
  entries that concerns it (`L`, `-L`, `@group`/`-@group` containing it, `*`, `-*`) is positive; a package is accepted iff
  its LICENSE expression is satisfied by the accepted licenses; with no license configuration at all everything is accepted.
-/
namespace Pkgcore.C13.Spec
open Pkgcore.C13

/-! ## masks -/

/-- is atom `a` in effect after the steps, given whether it was before -/
def inEffect : List MaskOp → Str → Bool → Bool
  | [], _, cur => cur
  | op :: ops, a, cur =>
    inEffect ops a (if op.pos.contains a then true else if op.neg.contains a then false else cur)

/-- some atom in effect matches the package -/
def Hit (matchesAtom : Str → Bool) (ops : List MaskOp) : Prop :=
  ∃ a, inEffect ops a false = true ∧ matchesAtom a = true

def MaskVisible (matchesAtom : Str → Bool) (maskOps unmaskOps : List MaskOp) : Prop :=
  ¬ Hit matchesAtom maskOps ∨ Hit matchesAtom unmaskOps

/-! ## keywords -/

def Stable (c : KwConfig) : Prop := ('~' :: c.arch) ∉ defaultKeys c.arch c.accept

/-- `k` is in the accepted keyword set -/
def Allowed (c : KwConfig) (k : Str) : Prop :=
  k ∈ defaultKeys c.arch c.accept ∨
  ∃ e ∈ c.entries, e.hit = true ∧ (k ∈ e.tokens ∨ (e.tokens = [] ∧ Stable c ∧ k = '~' :: c.arch))

def KwVisible (c : KwConfig) (pkgKeywords : List Str) : Prop :=
  Allowed c ['*', '*'] ∨
  (Allowed c ['*'] ∧ ∃ k ∈ pkgKeywords, isNeg k = false ∧ isTilde k = false) ∨
  (Allowed c ['~', '*'] ∧ ∃ k ∈ pkgKeywords, isTilde k = true) ∨
  ∃ k ∈ pkgKeywords, Allowed c k

/-- the configuration uses no negated keyword tokens (their meaning is not part of the property) and its entries are
consistent with what restrictions are: an always-true restriction matches, an atom only matches packages of its key -/
def KwPlain (c : KwConfig) : Prop :=
  isNeg c.arch = false ∧ (∀ k ∈ c.accept, isNeg k = false ∧ (k.dropWhile (· == '~')).head? ≠ some '-') ∧
  ∀ e ∈ c.entries, (∀ t ∈ e.tokens, isNeg t = false) ∧ (e.cls = .always → e.hit = true) ∧
    (e.cls = .atom → e.hit = true → e.sameKey = true)

/-! ## licenses -/

/-- is license `l` accepted after the tokens, given whether it was before (last relevant token wins) -/
def accepts (groups : Str → List Str) : List Str → Str → Bool → Bool
  | [], _, cur => cur
  | t :: ts, l, cur =>
    accepts groups ts l <|
      if isNeg t then
        let i := t.drop 1
        if i == star then false
        else if isAt i then (if (groups (i.drop 1)).contains l then false else cur)
        else (if i == l then false else cur)
      else if isAt t then (if (groups (t.drop 1)).contains l then true else cur)
      else if t == star then true
      else (if t == l then true else cur)

mutual
/-- the LICENSE expression under a per-license verdict -/
def eval (acc : Str → Bool) : LTree → Bool
  | .lic n => acc n
  | .all ts => evalAll acc ts
  | .any ts => evalAny acc ts
def evalAll (acc : Str → Bool) : List LTree → Bool
  | [] => true
  | t :: ts => eval acc t && evalAll acc ts
def evalAny (acc : Str → Bool) : List LTree → Bool
  | [] => false
  | t :: ts => eval acc t || evalAny acc ts
end

def LicVisible (groups : Str → List Str) (c : LicConfig) (license : LTree) : Prop :=
  (c.master = [] ∧ c.entries = []) ∨
  eval (fun l => accepts groups (c.master ++ (c.entries.filter (·.1)).flatMap (·.2)) l false) license = true

/-! ## deciding the sentence (for the driver) -/

instance (c : KwConfig) : Decidable (Stable c) := by unfold Stable; infer_instance
instance (c : KwConfig) (k : Str) : Decidable (Allowed c k) := by unfold Allowed; infer_instance
instance (c : KwConfig) (kws : List Str) : Decidable (KwVisible c kws) := by unfold KwVisible; infer_instance
instance (c : KwConfig) : Decidable (KwPlain c) := by unfold KwPlain; infer_instance
instance (groups : Str → List Str) (c : LicConfig) (t : LTree) : Decidable (LicVisible groups c t) := by
  unfold LicVisible; infer_instance

/-- `Hit`, searching only the atoms some step adds (an atom never added is never in effect: `hitB_iff`) -/
def hitB (matchesAtom : Str → Bool) (ops : List MaskOp) : Bool :=
  (ops.flatMap (·.pos)).any fun a => inEffect ops a false && matchesAtom a

/-! ## the sentence -/

def Visible (groups : Str → List Str) (c : Config) (p : Pkg) : Prop :=
  MaskVisible p.matchesAtom c.maskOps c.unmaskOps ∧ KwVisible c.kw p.keywords ∧ LicVisible groups c.lic p.license

end Pkgcore.C13.Spec
