import Pkgcore.Model.C02
import Pkgcore.Spec.C01
/-!
# C02 specification

The property, sentence by sentence, as a predicate on what can be observed of a pair of objects
(`Consistent`), plus what "equal" is supposed to mean: equality of a canonical form in which versions are
replaced by their PMS value (`verCanon`: the order-embedding key of C01), so that `1.0`/`1.00`,
`_alpha`/`_alpha0`, `-r0`/no revision, and reordered USE deps are one object, and anything else is not.
-/
namespace Pkgcore.C02.Spec
open Pkgcore.C01 Pkgcore.C02

/-- the six rich comparisons of an ordered pair (`none` where Python raises) -/
structure Obs where
  eq : Bool
  ne : Bool
  lt : Bool
  le : Bool
  gt : Bool
  ge : Bool
  deriving DecidableEq, Repr

/-- *"objects that compare equal have equal hashes and are neither less nor greater than each other, and
objects that compare unequal are strictly ordered one way.  The six rich comparison operators are mutually
consistent for every pair"* — `ab` is what `x ? y` gives, `ba` what `y ? x` gives, `hashEq` whether the
hashed values coincide. -/
def Consistent (ab ba : Obs) (hashEq : Bool) : Prop :=
  (ab.eq = true → hashEq = true) ∧
  (ab.eq = true → ab.lt = false ∧ ab.gt = false) ∧
  (ab.eq = false → (ab.lt = true ∧ ab.gt = false) ∨ (ab.lt = false ∧ ab.gt = true)) ∧
  ab.ne = !ab.eq ∧
  ab.le = (ab.lt || ab.eq) ∧
  ab.ge = (ab.gt || ab.eq) ∧
  ab.eq = ba.eq ∧ ab.lt = ba.gt ∧ ab.gt = ba.lt ∧ ab.le = ba.ge ∧ ab.ge = ba.le

/-- the six operators as they follow from a single three-way comparison -/
def Obs.ofOrd (o : Ordering) : Obs :=
  { eq := o == .eq, ne := o != .eq, lt := o == .lt, le := o != .gt, gt := o == .gt, ge := o != .lt }

/-- canonical value of a version+revision: the C01 order-embedding key (integer first component, per
component leading-zero rule, letter, suffix ranks with numbers, integer revision) -/
def verCanon : VR → Option Key
  | none => none
  | some (v, r) => some (key v (some r))

/-- canonical form of a CPV -/
def cpvCanon (a : Cpv) : Str × Str × Option Key := (a.cat, a.pkg, verCanon a.vr)

/-- canonical form of an atom: every attribute that distinguishes atoms, in the order in which atoms sort
(category, package, operator, version, non-blockers before blockers, weak before strong, …) -/
def atomCanon (a : Atom) :
    Str × Str × Str × Option Key × Bool × Bool × Bool × Str × Str × Str × Option (List Str) × Option Str :=
  (a.cat, a.pkg, a.opStr, verCanon a.vr, !a.blocks, a.strong, a.negate,
   orEmpty a.slot, orEmpty a.subslot, orEmpty a.slotOp, a.useAttr, a.repo)

attribute [local instance] lexOrd in
/-- the order CPVs are supposed to have: lexicographic on the canonical form -/
def cpvOrd (a b : Cpv) : Ordering := compare (cpvCanon a) (cpvCanon b)

attribute [local instance] lexOrd in
/-- the order atoms are supposed to have: lexicographic on the canonical form -/
def atomOrd (a b : Atom) : Ordering := compare (atomCanon a) (atomCanon b)

def vrWF : VR → Prop
  | none => True
  | some (v, _) => C01.Spec.WF v

/-- well-formed: the version (if any) is what `isvalid_version_re` accepts -/
def Cpv.WF (a : Cpv) : Prop := vrWF a.vr
def Atom.WF (a : Atom) : Prop := vrWF a.vr

/-- both versioned or both unversioned (comparing a versioned with an unversioned CPV raises `TypeError`) -/
def SameKind (a b : Cpv) : Prop := a.vr.isSome = b.vr.isSome

end Pkgcore.C02.Spec
