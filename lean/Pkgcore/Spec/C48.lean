import Pkgcore.Model.C48
/-!
# C48 specification — when is cached metadata still valid

From the property text: *cached metadata is used exactly when the cache records the ebuild's current checksum (or
mtime) and every inherited eclass it records still exists with the recorded checksum and location; otherwise the
metadata is regenerated and the stale entry is replaced.*

"Records" is relative to the cache format: an md5-dict cache records the ebuild's md5 and each eclass's md5; the flat
cache records the ebuild's mtime and each eclass's directory (location) and mtime.  An entry that lists eclasses
but has no `INHERIT` key is an old-format entry and counts as not recording its inherits (the code's comment:
"trigger a refresh to upgrade metadata cache").
-/
namespace Pkgcore.C48.Spec
open Pkgcore.C48

/-- the eclass recorded as `rec` still exists and has every recorded attribute -/
def EclassCurrent (w : World) (fmt : Fmt) (rec : String × List Val) : Prop :=
  ∃ info, w.eclass rec.1 = some info ∧ ∀ kv ∈ fmt.eclassChfs.zip rec.2, info.get kv.1 = kv.2

/-- the entry is still valid for the tree `w` -/
def Valid (w : World) (fmt : Fmt) (e : Entry) : Prop :=
  e.chf = w.ebuild.get fmt.chf ∧
  match e.eclasses with
  | none => True
  | some recs => e.hasInherit = true ∧ ∀ rec ∈ recs, EclassCurrent w fmt rec

/-- the cache holds a valid entry for the package -/
def HoldsValid (w : World) (c : Cache) : Prop :=
  ∃ e, c.slot = .entry e ∧ Valid w c.fmt e

/-- the cache holds an entry that is no longer valid -/
def HoldsStale (w : World) (c : Cache) : Prop :=
  ∃ e, c.slot = .entry e ∧ ¬ Valid w c.fmt e

/-- cache number `i` is the first one holding a valid entry, and that entry's payload is `p` -/
def FirstValid (w : World) (caches : List Cache) (i p : Nat) : Prop :=
  (∃ c e, caches[i]? = some c ∧ c.slot = .entry e ∧ Valid w c.fmt e ∧ e.payload = p) ∧
  ∀ j c, j < i → caches[j]? = some c → ¬ HoldsValid w c

/-- a well-formed entry of a format records at least one attribute per eclass (every cache class has a non-empty
`eclass_chf_types`, and `reconstruct_eclasses` rejects records of the wrong length) -/
def WFEntry (fmt : Fmt) (e : Entry) : Prop :=
  match e.eclasses with
  | none => True
  | some recs => ∀ rec ∈ recs, fmt.eclassChfs.zip rec.2 ≠ []

def WFCache (c : Cache) : Prop :=
  match c.slot with
  | .entry e => WFEntry c.fmt e
  | _ => True

/-- executable form of `Valid` for the driver -/
def validB (w : World) (fmt : Fmt) (e : Entry) : Bool :=
  (e.chf == w.ebuild.get fmt.chf) &&
  match e.eclasses with
  | none => true
  | some recs => e.hasInherit && recs.all fun rec =>
      match w.eclass rec.1 with
      | none => false
      | some info => (fmt.eclassChfs.zip rec.2).all fun kv => info.get kv.1 == kv.2

end Pkgcore.C48.Spec
