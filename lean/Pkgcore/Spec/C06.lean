import Pkgcore.Model.C06
/-!
# C06 specification — restriction trees read as propositional formulas

Written from the property text, independently of the loops of `boolean.py`:
all-of = conjunction, any-of = disjunction (the empty one is false), exactly-one-of = "exactly one operand
true", at-most-one-of = "at most one operand true", `negate` = negation of the node, `Negate(x)` = ¬x, an atom
= the conjunction of its restrictions.  One convention is taken from the class docstring of
`JustOneRestriction` ("Exactly one must match, or there must be no restrictions", the PMS rule for emptied
groups): an exactly-one-of node *without operands* is true; `justOne_eval_nonempty` in `Props/C06.lean`
shows that this is the only place where it differs from "exactly one".

A DNF is read as OR of AND of its clause members, a CNF as AND of OR.
-/
namespace Pkgcore.C06.Spec
open Pkgcore.C06

mutual
/-- truth value of the formula under the valuation `v` of the leaves -/
def eval (v : Val) : R → Bool
  | .leaf i => v i
  | .neg r => !eval v r
  | .and n cs => evalAll v cs != n
  | .or n cs => evalAny v cs != n
  | .justOne n cs => (cs.isEmpty || evalCount v cs == 1) != n
  | .atMostOne n cs => decide (evalCount v cs ≤ 1) != n
  | .atom cs => evalAll v cs
def evalAll (v : Val) : List R → Bool
  | [] => true
  | c :: cs => eval v c && evalAll v cs
def evalAny (v : Val) : List R → Bool
  | [] => false
  | c :: cs => eval v c || evalAny v cs
/-- number of true operands -/
def evalCount (v : Val) : List R → Nat
  | [] => 0
  | c :: cs => (if eval v c then 1 else 0) + evalCount v cs
end

/-- a clause of a DNF: all members hold -/
def evalConj (v : Val) (c : Clause) : Bool := c.all (eval v)
/-- a clause of a CNF: some member holds -/
def evalDisj (v : Val) (c : Clause) : Bool := c.any (eval v)
/-- OR of AND -/
def evalDnf (v : Val) (d : List Clause) : Bool := d.any (evalConj v)
/-- AND of OR -/
def evalCnf (v : Val) (d : List Clause) : Bool := d.all (evalDisj v)

/-! ## the input class outside the known finding `C06-empty-any-of`

`OrRestriction()` (and `AndRestriction(negate=True)` with no operands, which is expanded through it) matches
nothing, but its DNF is `[[]]` and its CNF `[]`, both of which read as *true*; the test-suite pins these
values.  `okDnf full r` / `okCnf full r` say that no such node occurs in the part of `r` that the respective
normal form expands (sub-trees kept opaque — under `Negate`, exactly-one-of, at-most-one-of, an unexpanded
atom, the operands of a negated node — do not matter). -/
mutual
def okDnf (full : Bool) : R → Bool
  | .leaf _ => true
  | .neg _ => true
  | .justOne _ _ => true
  | .atMostOne _ _ => true
  | .atom cs => !full || okDnfAll full cs
  | .and true cs => !cs.isEmpty
  | .and false cs => okDnfAll full cs
  | .or true _ => true
  | .or false cs => !cs.isEmpty && okDnfAll full cs
def okDnfAll (full : Bool) : List R → Bool
  | [] => true
  | c :: cs => okDnf full c && okDnfAll full cs
end

mutual
def okCnf (full : Bool) : R → Bool
  | .leaf _ => true
  | .neg _ => true
  | .justOne _ _ => true
  | .atMostOne _ _ => true
  | .atom cs => !full || okCnfAll full cs
  | .and true _ => true        -- refused (`NotImplementedError`), nothing to compare
  | .and false cs => okCnfAll full cs
  | .or true _ => true         -- refused
  | .or false cs => !cs.isEmpty && okDnfAll full cs   -- the operands are expanded through their DNF
def okCnfAll (full : Bool) : List R → Bool
  | [] => true
  | c :: cs => okCnf full c && okCnfAll full cs
end

/-! a simple sufficient condition for both: no all-of / any-of node anywhere in the tree is without operands
(everything the dependency parser produces, C09) -/
mutual
def nonEmptyNodes : R → Bool
  | .leaf _ => true
  | .neg r => nonEmptyNodes r
  | .and _ cs => !cs.isEmpty && nonEmptyAll cs
  | .or _ cs => !cs.isEmpty && nonEmptyAll cs
  | .justOne _ cs => nonEmptyAll cs
  | .atMostOne _ cs => nonEmptyAll cs
  | .atom cs => nonEmptyAll cs
def nonEmptyAll : List R → Bool
  | [] => true
  | c :: cs => nonEmptyNodes c && nonEmptyAll cs
end

/-! ## which trees have no CNF in pkgcore

`cnf_solutions` raises `NotImplementedError` exactly when a negated all-of / any-of node is reached from the
root through un-negated all-of nodes (and atoms, when they are expanded).  Operands of an any-of node are
expanded through their DNF and never refuse. -/
mutual
def refusesCnf (full : Bool) : R → Bool
  | .and true _ => true
  | .or true _ => true
  | .and false cs => refusesAny full cs
  | .atom cs => full && refusesAny full cs
  | _ => false
def refusesAny (full : Bool) : List R → Bool
  | [] => false
  | c :: cs => refusesCnf full c || refusesAny full cs
end

end Pkgcore.C06.Spec
