import Pkgcore.Spec.C18
/-!
# C19 — specification: what a crash in the middle of a merge may leave behind

Written from the property text; `pre` = file system before the merge, `es` = the contents set, `cur` = the file
system at the moment the merge stops.

* `OldPathsSafe`: each path that **existed before** holds
  - its complete previous content and metadata (same inode, data, mode, owner, mtime), or
  - its complete new content and metadata (the inode the entry describes), or
  - (a directory entry over an existing directory, or over a symlink that is kept because it leads to one:
    there is no content to truncate) the *same* inode with its kind, permissions and mtime untouched and the
    ownership either still the old or already the recorded one, or
  - it is the `'#new'` sibling of a non-directory entry (explicitly exempted by the property).
* `NewPathsInside`: a path that did not exist before and exists now is an entry location, a parent of one, or a
  `'#new'` sibling — nothing is created outside the contents set.

Together with `OldPathsSafe` this is "no path outside the contents set, apart from temporary '#new' siblings, is
modified".  Directory mtimes are outside the observable (Model/C18).
-/
namespace Pkgcore.C19.Spec
open Pkgcore.C18 Pkgcore.C18.Spec

/-- the `'#new'` sibling of some non-directory entry -/
def IsTmp (es : List Entry) (q : Path) : Prop := ∃ e ∈ es, e.isDir = false ∧ q = tmpOf e.loc

/-- complete new content and metadata of an entry -/
def NewAt (es : List Entry) (q : Path) (v : Option (Nat × Inode)) : Prop :=
  ∃ e ∈ es, e.loc = q ∧ ∃ j, v = some (j, e.inode)

/-- same inode, kind, permissions and mtime as before; ownership old or recorded -/
def KeptAt (es : List Entry) (q : Path) (i : Nat) (nd : Inode) (v : Option (Nat × Inode)) : Prop :=
  ∃ e ∈ es, e.isDir = true ∧ e.loc = q ∧ ∃ nd', v = some (i, nd') ∧ nd'.kind = nd.kind ∧ nd'.mode = nd.mode ∧
    nd'.mtime = nd.mtime ∧ ((nd'.uid = nd.uid ∧ nd'.gid = nd.gid) ∨ (nd'.uid = e.uid ∧ nd'.gid = e.gid))

def OldPathSafe (pre : Fs) (es : List Entry) (cur : Fs) (q : Path) : Prop :=
  match pre.view q with
  | none => True
  | some (i, nd) =>
    cur.view q = some (i, nd) ∨ NewAt es q (cur.view q) ∨ KeptAt es q i nd (cur.view q) ∨ IsTmp es q

def NewPathInside (pre : Fs) (es : List Entry) (cur : Fs) (q : Path) : Prop :=
  pre.view q = none → cur.view q ≠ none → (∃ e ∈ es, q <:+ e.loc) ∨ IsTmp es q

/-- the property, for **every** path -/
structure CrashSafe (pre : Fs) (es : List Entry) (cur : Fs) : Prop where
  old : ∀ q : Path, OldPathSafe pre es cur q
  new : ∀ q : Path, NewPathInside pre es cur q

/-- the guard of the partial theorem: no directory entry goes where a symlink is (open finding
`C19-dir-over-symlink-window`: a dangling one is unlinked, then the directory is made — in between the path is
absent) -/
def NoDirOverSymlink (pre : Fs) (es : List Entry) : Prop :=
  ∀ e ∈ es, e.isDir = true → ¬ ∃ i nd, pre.view e.loc = some (i, nd) ∧ ∃ t, nd.kind = .sym t

/-- well-formedness: the root of the tree is not itself a non-directory entry -/
def NonDirsBelowRoot (es : List Entry) : Prop := ∀ e ∈ es, e.isDir = false → e.loc ≠ []

instance (es : List Entry) : Decidable (NonDirsBelowRoot es) := by unfold NonDirsBelowRoot; infer_instance

/-- what holds without that guard: the location of such a directory entry may in addition be absent or hold a
directory that is still being set up -/
def WindowAt (pre : Fs) (es : List Entry) (q : Path) (v : Option (Nat × Inode)) : Prop :=
  ∃ e ∈ es, e.isDir = true ∧ e.loc = q ∧ (∃ i nd t, pre.view q = some (i, nd) ∧ nd.kind = .sym t) ∧
    (v = none ∨ ∃ j nd', v = some (j, nd') ∧ nd'.kind = .dir)

def OldPathSafeW (pre : Fs) (es : List Entry) (cur : Fs) (q : Path) : Prop :=
  OldPathSafe pre es cur q ∨ WindowAt pre es q (cur.view q)

/-! ## executable evaluation -/

instance (es : List Entry) (q : Path) : Decidable (IsTmp es q) := by unfold IsTmp; infer_instance
instance (es : List Entry) (q : Path) (v : Option (Nat × Inode)) : Decidable (NewAt es q v) := by
  unfold NewAt; infer_instance

instance (v : Option (Nat × Inode)) (i : Nat) (nd : Inode) (e : Entry) :
    Decidable (∃ nd', v = some (i, nd') ∧ nd'.kind = nd.kind ∧ nd'.mode = nd.mode ∧ nd'.mtime = nd.mtime ∧
      ((nd'.uid = nd.uid ∧ nd'.gid = nd.gid) ∨ (nd'.uid = e.uid ∧ nd'.gid = e.gid))) :=
  match v with
  | none => isFalse (by simp)
  | some (j, x) =>
    if hc : j = i ∧ x.kind = nd.kind ∧ x.mode = nd.mode ∧ x.mtime = nd.mtime ∧
        ((x.uid = nd.uid ∧ x.gid = nd.gid) ∨ (x.uid = e.uid ∧ x.gid = e.gid)) then
      isTrue ⟨x, by rw [hc.1], hc.2⟩
    else isFalse (by
      rintro ⟨nd', h1, h2⟩
      cases h1
      exact hc ⟨rfl, h2⟩)

instance (es : List Entry) (q : Path) (i : Nat) (nd : Inode) (v : Option (Nat × Inode)) :
    Decidable (KeptAt es q i nd v) := by unfold KeptAt; infer_instance

instance (pre : Fs) (es : List Entry) (cur : Fs) (q : Path) : Decidable (OldPathSafe pre es cur q) := by
  unfold OldPathSafe; split <;> infer_instance
instance (pre : Fs) (es : List Entry) (cur : Fs) (q : Path) : Decidable (NewPathInside pre es cur q) := by
  unfold NewPathInside; infer_instance
instance (pre : Fs) (es : List Entry) : Decidable (NoDirOverSymlink pre es) := by
  unfold NoDirOverSymlink
  refine @List.decidableBAll _ _ (fun e => ?_) es
  refine @instDecidableForall _ _ _ ?_
  refine @instDecidableNot _ ?_
  exact match h : pre.view e.loc with
    | none => isFalse (by simp)
    | some (i, nd) =>
      if hk : ∃ t, nd.kind = .sym t then isTrue ⟨i, nd, rfl, hk⟩
      else isFalse (by rintro ⟨i', nd', h1, h2⟩; cases h1; exact hk h2)

instance (v : Option (Nat × Inode)) : Decidable (∃ i nd t, v = some (i, nd) ∧ nd.kind = .sym t) :=
  match v with
  | none => isFalse (by simp)
  | some (i, nd) =>
    if hk : ∃ t, nd.kind = .sym t then isTrue (by obtain ⟨t, ht⟩ := hk; exact ⟨i, nd, t, rfl, ht⟩)
    else isFalse (by rintro ⟨i', nd', t, h1, h2⟩; cases h1; exact hk ⟨t, h2⟩)

instance (pre : Fs) (es : List Entry) (q : Path) (v : Option (Nat × Inode)) : Decidable (WindowAt pre es q v) := by
  unfold WindowAt; infer_instance
instance (pre : Fs) (es : List Entry) (cur : Fs) (q : Path) : Decidable (OldPathSafeW pre es cur q) := by
  unfold OldPathSafeW; infer_instance

/-- the same evaluation with the window of the open finding allowed -/
def crashFailuresW (pre : Fs) (es : List Entry) (cur : Fs) : List Path :=
  (keys pre).filter (fun q => !decide (OldPathSafeW pre es cur q)) ++
  (keys cur).filter (fun q => !decide (NewPathInside pre es cur q))

/-- paths violating the property among those present before or now (`[]` = crash-safe; the paths absent in both
satisfy both clauses trivially, see `Props/C19.crashSafe_bounded_iff`) -/
def crashFailures (pre : Fs) (es : List Entry) (cur : Fs) : List Path :=
  (keys pre).filter (fun q => !decide (OldPathSafe pre es cur q)) ++
  (keys cur).filter (fun q => !decide (NewPathInside pre es cur q))

end Pkgcore.C19.Spec
