import Pkgcore.Model.C40
/-!
# C40 specification — what the property says about a resolved request, as predicates on the outcome

No algorithm here: only the vocabulary of the property (known arch, prefix keyword, testing here, stable on a
version, the narrowing options) used by the theorems in `Props/C40.lean`.
-/
namespace Pkgcore.C40.Spec
open Pkgcore.C40

/-- a prefix keyword such as `x86-macos` -/
def isPrefixKw (k : Str) : Bool := k.contains '-'

/-- a plain arch name: not empty, no leading `~` or `-` -/
def PlainArch (k : Str) : Prop := k ≠ [] ∧ k.head? ≠ some '~' ∧ k.head? ≠ some '-'

/-- `arch` is stable on `p` -/
def stableOn (k : Str) (p : Pkg) : Prop := k ∈ p.keywords
/-- `~arch` is in the KEYWORDS of `p` -/
def testingOn (k : Str) (p : Pkg) : Prop := ('~' :: k) ∈ p.keywords
/-- `p` carries the arch in some form: `arch`, `~arch` or `-arch` -/
def mentions (p : Pkg) (k : Str) : Prop := k ∈ p.keywords ∨ ('~' :: k) ∈ p.keywords ∨ ('-' :: k) ∈ p.keywords

/-- KEYWORDS entries are `arch`, `~arch` or `-arch` -/
def WfKeywords (p : Pkg) : Prop :=
  ∀ x ∈ p.keywords, PlainArch x ∨ (∃ a, x = '~' :: a ∧ PlainArch a) ∨ (∃ a, x = '-' :: a ∧ PlainArch a)

/-- what a stabilization may suggest for `p`: a non-prefix arch that is testing on `p` and stable on a version of
the same package -/
def StableCandidate (repo : Repo) (p : Pkg) (k : Str) : Prop :=
  isPrefixKw k = false ∧ PlainArch k ∧ testingOn k p ∧ ∃ q ∈ repo.pkgs, q.key = p.key ∧ stableOn k q

/-- what a keywording request may suggest for `p`: a non-prefix arch some version of the package has (stable or
testing) and `p` does not mention -/
def KeywordCandidate (repo : Repo) (p : Pkg) (k : Str) : Prop :=
  isPrefixKw k = false ∧ PlainArch k ∧ (∃ q ∈ repo.pkgs, q.key = p.key ∧ (stableOn k q ∨ testingOn k q)) ∧ ¬ mentions p k

/-- the "all arches" mode of a stabilization re-adds candidates on top of the arch filter -/
def allarchesMode (o : Opts) : Bool := o.allarches && o.stable && !o.filterArch.isEmpty

end Pkgcore.C40.Spec
