import Pkgcore.Model.C17
/-!
# C17 specification — rollback = replay of what remains

Written from the property text: a *history* is a sequence of planner operations interleaved with
rollbacks to earlier plan positions; after it, the planner state must equal the state reached by
applying, to a fresh planner, only the operations that remain.

* A rollback names the position reached after the `j`-th operation that is still in force
  (`rollback 0` = back to the empty plan): these are the positions the resolver records
  (`frame.start_point = state.current_state`) and later hands to `backtrack`.
* "Equal state" is equality of the observable snapshot: slot occupancy, limiters, reverse blocker
  table, the three reference counted sets — all as multisets (`List.Perm`) — the package→choices map as a
  function, and the length of the plan.
-/
namespace Pkgcore.C17

inductive Step where
  | op (c : Cmd)
  | rollback (j : Nat)
  deriving DecidableEq, Repr

/-- the operations that remain after a history -/
def surviving : List Step → List Cmd → List Cmd
  | [], acc => acc
  | .op c :: h, acc => surviving h (acc ++ [c])
  | .rollback j :: h, acc => surviving h (acc.take j)

inductive Err where
  | raises         -- an operation raised (caller error such as removing an absent package)
  | inapplicable   -- `applicable` is false: the caller broke the contract of the operation
  | badMark        -- rollback to a position that was never recorded / already rolled back
  | rollbackRaised -- `backtrack` itself raised
  deriving DecidableEq, Repr

/-- the planner together with the recorded positions: `marks[j]` = plan length after `j` surviving operations -/
structure Run where
  st : State
  marks : List Nat
  deriving DecidableEq, Repr

def Run.init : Run := ⟨C17.init, [0]⟩

def execStep (U : Univ) (r : Run) : Step → Except Err Run
  | .op c =>
    if applicable U r.st c then
      match applyCmd U r.st c with
      | some (s, _) => .ok ⟨s, r.marks ++ [s.plan.length]⟩
      | none => .error .raises
    else .error .inapplicable
  | .rollback j =>
    match r.marks[j]? with
    | some k =>
      match backtrack U r.st k with
      | some s => .ok ⟨s, r.marks.take (j + 1)⟩
      | none => .error .rollbackRaised
    | none => .error .badMark

/-- run a history (operations and rollbacks) -/
def exec (U : Univ) : Run → List Step → Except Err Run
  | r, [] => .ok r
  | r, st :: h => (execStep U r st).bind fun r => exec U r h

/-- apply operations only, no rollback -/
def replay (U : Univ) : State → List Cmd → Option State
  | s, [] => some s
  | s, c :: cs => (applyCmd U s c).bind fun r => replay U r.1 cs

/-- equality of observable snapshots -/
structure Same (s t : State) : Prop where
  slots : s.slots.Perm t.slots
  limiters : s.limiters.Perm t.limiters
  choices : ∀ p, s.choices.lookup p = t.choices.lookup p
  revb : s.revb.Perm t.revb
  refcnt : s.refcnt.Perm t.refcnt
  vdb : s.vdb.Perm t.vdb
  forced : s.forced.Perm t.forced
  plan : s.plan.length = t.plan.length

end Pkgcore.C17
