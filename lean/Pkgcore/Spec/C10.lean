import Pkgcore.Model.C10
import Pkgcore.Spec.C09
/-!
# C10 specification — what it means for a flag assignment to satisfy REQUIRED_USE

`evalRU` is the reading pkgcore itself checks a configured package with (`ebd._check_required_use`:
`evaluate_depset(use)` and then `match`), which is the absent reading of C09 and Portage's: a use-conditional group
whose condition is not met is not a member of the `||`/`^^`/`??` group around it.
-/
namespace Pkgcore.C10.Spec
open Pkgcore.C09 Pkgcore.C10

/-- which flags are on, as the flag valuation of C09 -/
def flagOn (on : List Tok) (f : Tok) : Bool := on.contains f
/-- which literals hold, as the element valuation of C09 -/
def litOn (on : List Tok) : Pkgcore.C09.Spec.Present := fun k _ => lit on k

def evalRU (ts : List Dep) (on : List Tok) : Bool :=
  Pkgcore.C09.Spec.satTopAbs (flagOn on) (litOn on) ts

/-- an assignment that gives every variable, in order, a value of its domain -/
def inProd : List (Tok × Bool) → List (Tok × List Bool) → Bool
  | [], [] => true
  | (v, b) :: a, (w, dom) :: ds => v == w && dom.contains b && inProd a ds
  | _, _ => false

mutual
/-- every group and conditional has a child (what the parser guarantees) -/
def nonEmpty : Dep → Bool
  | .leaf _ _ => true
  | .cond _ _ cs => !cs.isEmpty && nonEmptyL cs
  | .grp _ cs => !cs.isEmpty && nonEmptyL cs
def nonEmptyL : List Dep → Bool
  | [] => true
  | c :: cs => nonEmpty c && nonEmptyL cs
end

mutual
/-- no use-conditional anywhere below a `||`, `^^` or `??` group -/
def choiceCondFree : Dep → Bool
  | .leaf _ _ => true
  | .cond _ _ cs => choiceCondFreeL cs
  | .grp .and cs => choiceCondFreeL cs
  | .grp _ cs => !hasCondL cs
def choiceCondFreeL : List Dep → Bool
  | [] => true
  | c :: cs => choiceCondFree c && choiceCondFreeL cs
end

/-- the preferred assignment: forced flags as forced, preferred flags on, everything else off -/
def preferred (inp : Inputs) (vars : List Tok) : List (Tok × Bool) :=
  vars.map fun v => (v, (domainOf inp v).getLast?.getD false)

/-- The property's wording, flag by flag, with no reference to the solver domains or their order ("forced flags as
forced, preferred flags on, all others off"; outside IUSE a flag is always off, forced or not — the code intersects
every set with `iuse` and gives `missing_vars` the domain `(False,)`): a flag is on in the preferred assignment iff the
package has it and it is forced on, or it is not forced off and is in the preferred-on set. -/
def preferredOn (inp : Inputs) (v : Tok) : Bool :=
  inp.iuse.contains v && (inp.forceT.contains v || (!inp.forceF.contains v && inp.preferT.contains v))

/-- the preferred assignment read off the wording -/
def preferredByWording (inp : Inputs) (vars : List Tok) : List (Tok × Bool) :=
  vars.map fun v => (v, preferredOn inp v)

/-- the query with the forced sets cut down to IUSE (profiles force and mask flags a package need not have) -/
def restrictForced (inp : Inputs) : Inputs :=
  { inp with forceT := inp.forceT.filter inp.iuse.contains, forceF := inp.forceF.filter inp.iuse.contains }

end Pkgcore.C10.Spec
