import Pkgcore.Model.C41
/-!
# C41 specification — "every item exactly once, every result returned"
-/
namespace Pkgcore.C41.Spec
open Pkgcore.C41

/-- the items handed to the functor bodies, over all workers -/
def handledAll {α β : Type} (s : State α β) : List α := s.handled.flatten

/-- each item of the input was handled exactly once (as multisets: a permutation) -/
def EachOnce {α β : Type} (items : List α) (s : State α β) : Prop := (handledAll s).Perm items

/-- the result deque holds exactly the results of all items (in some order) -/
def ResultsComplete {α β : Type} (f : α → List β) (items : List α) (s : State α β) : Prop :=
  s.results.Perm (items.flatMap f)

end Pkgcore.C41.Spec
