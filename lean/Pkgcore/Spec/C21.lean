import Pkgcore.Model.C21
import Pkgcore.Spec.C22
/-!
# C21 specification vocabulary

* `Matches`: what it means for a glob (literals, `*`, `?`) to match a whole string — the textbook inductive
  definition, independent of the matcher's recursion.
* `Under d loc`: `loc` lies strictly below the directory `d` (string level), and its component-level reading for
  normalised paths comes from C22's `render`.
* `Protected`: the property's reading of "under CONFIG_PROTECT and not under CONFIG_PROTECT_MASK or COLLISION_IGNORE".
-/
namespace Pkgcore.C21.Spec
open Pkgcore.C21
open Pkgcore.C22 (Path normpath pjoin lstripSlash rstripSlash)

inductive Matches : List Tok → List Char → Prop
  | nil : Matches [] []
  | lit {c : Char} {ts : List Tok} {s : List Char} : Matches ts s → Matches (.lit c :: ts) (c :: s)
  | one {d : Char} {ts : List Tok} {s : List Char} : Matches ts s → Matches (.one :: ts) (d :: s)
  | star {ts : List Tok} (a : List Char) {b : List Char} : Matches ts b → Matches (.star :: ts) (a ++ b)

/-- `loc` is `d`, a slash, and something more -/
def Under (d loc : Path) : Prop := ∃ rest, loc = d ++ '/' :: rest

/-- the directory a CONFIG_PROTECT(_MASK) entry denotes under the offset root -/
def dirOf (offset x : Path) : Path := rstripSlash (normpath (pjoin offset (lstripSlash x)))

/-- the property's reading of the settings -/
def Protected (s : Settings) (loc : Path) : Prop :=
  (∃ x ∈ s.protects ++ ["/etc".toList], Under (dirOf s.offset x) loc) ∧
  (¬ ∃ x ∈ s.masks, Under (dirOf s.offset x) loc) ∧
  (¬ ∃ x ∈ s.ignores ++ defaultIgnores, Matches (ignorePattern (rstripSlash (normpath s.offset)) s.isdir x) loc)

end Pkgcore.C21.Spec
