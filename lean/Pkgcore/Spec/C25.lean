import Pkgcore.Model.C25
/-!
# C25 specification

*A contents set written as a binary-package tarball and read back yields equivalent entries (paths, types,
modes, ownership, mtimes, symlink targets, file data, devices) with files that were hardlinked still sharing
an inode, and symlinked directories resolved as for a live merge.  An empty archive reads as an empty set.*
-/
namespace Pkgcore.C25.Spec
open Pkgcore.C24 Pkgcore.C25

/-- what "equivalent entry" compares: everything except the device/inode numbers (and the reader's
bookkeeping), which are archive-local -/
def obs : Obj → Obj
  | .file f => .file { f with dev := none, inode := none, src := 0 }
  | o => o

def inodeOf : Obj → Option Nat
  | .file f => f.inode
  | _ => none

/-- two regular files of the set are hard links of one another: same device and inode -/
def linked (x y : File) : Prop := x.dev.isSome ∧ x.inode.isSome ∧ x.dev = y.dev ∧ x.inode = y.inode

/-- path resolution in the file system being merged into: `nodes` maps the final location of every
entry merged so far to its symlink target (`none` for anything that is not a symlink); `comps` are the
remaining components, `..` is lexical as in `normpath`; `none` = too many levels of symbolic links -/
def walk : Nat → List (Str × Option Str) → Str → List Str → Option Str
  | 0, _, _, _ => none
  | _ + 1, _, cur, [] => some cur
  | fuel + 1, nodes, cur, c :: rest =>
    if c = ['.', '.'] then walk fuel nodes (if cur = ['/'] then cur else (let d := dirName cur; if d.isEmpty then ['/'] else d)) rest
    else if c = [] ∨ c = ['.'] then walk fuel nodes cur rest
    else
      let nxt := if cur = ['/'] then '/' :: c else cur ++ '/' :: c
      match nodes.lookup nxt with
      | some (some t) =>
        if t.head? = some '/' then walk fuel nodes ['/'] (splitOn '/' t ++ rest)
        else walk fuel nodes cur (splitOn '/' t ++ rest)
      | _ => walk fuel nodes nxt rest

/-- final location of one recorded location given the symlink nodes of the target file system -/
def finalLoc (nodes : List (Str × Option Str)) (loc : Str) : Option Str :=
  let comps := (splitOn '/' loc).drop 1
  match walk (64 * (comps.length + 4)) nodes ['/'] comps.dropLast with
  | none => none
  | some d =>
    let base := comps.getLast?.getD []
    some (if d = ['/'] then '/' :: base else d ++ '/' :: base)

/-- where the symlinks of the set themselves end up, computed as a fixpoint: a symlink may lie below
another symlinked directory, whose own place may depend on a third one, … -/
def symNodes : Nat → List Obj → List (Str × Option Str) → Option (List (Str × Option Str))
  | 0, _, nodes => some nodes
  | n + 1, syms, nodes =>
    match syms.mapM (fun o => match o with
        | .sym l t _ => (finalLoc nodes l).map fun f => (f, some t)
        | _ => none) with
    | none => none
    | some nodes' => if nodes' = nodes then some nodes else symNodes n syms nodes'

/-- where a live merge puts every entry of the set, all its symlinks being in place (symlinked
directories followed, the entry's own name kept); `none` = symlink loop -/
def mergedLocs (s : List Obj) : Option (List (Str × Str)) :=
  let syms := C28.sortBy Obj.loc (s.filter Obj.isSym)
  match symNodes (syms.length + 2) syms [] with
  | none => none
  | some nodes => s.mapM fun o => (finalLoc nodes o.loc).map fun f => (o.loc, f)

/-! ## relocation below symlinked directories, stated without the code's loops

An archive may record an entry *through* a symlinked directory (`/opt/current/bin/tool` with
`/opt/current -> stable`).  Where the entry really lives is found by resolving its proper ancestors through
the archive's own symlink entries, lexically, the way the code does it: as long as some symlink of the
archive is a proper ancestor of the location, that ancestor is replaced by the symlink's (lexically
normalised) target.  The path primitives (`isChild` = "lies strictly below", `moveLoc` = "the same entry
with the ancestor replaced", `symTarget`) are the ones of `Model/C25.lean`; the loops are not used. -/

/-- one resolution step: a symlink of `syms` that is a proper ancestor of `p` is replaced by its target
(when no symlink of the archive lies below another one there is at most one candidate, see
`Proofs/C25.lean`, `ancestor_sym_unique`) -/
def stepLoc (syms : List Obj) (p : Str) : Option Str :=
  (syms.find? fun s => isChild s.loc p).map fun s => moveLoc s.loc (symTarget s) p

/-- `resolveDir n syms p`: at most `n` resolution steps (the termination measure: the theorems ask that
`syms.length` steps settle every location — a chain that runs through every symlink once is that long;
a cycle never settles) -/
def resolveDir : Nat → List Obj → Str → Str
  | 0, _, p => p
  | n + 1, syms, p =>
    match stepLoc syms p with
    | none => p
    | some p' => resolveDir n syms p'

/-- the symlink entries of an archive -/
def symsOf (raw : List Obj) : List Obj := raw.filter Obj.isSym

/-- the entry `e` of `raw` at its resolved place (everything but the location unchanged) -/
def placeOf (raw : List Obj) (e : Obj) : Obj := withLoc e (resolveDir (symsOf raw).length (symsOf raw) e.loc)

/-- `dirname` applied `n` times -/
def dirNameN : Nat → Str → Str
  | 0, p => p
  | n + 1, p => dirName (dirNameN n p)

/-- the proper ancestors of a location: `dirname`, `dirname∘dirname`, … (a path has fewer components
than characters, so `p.length` steps reach the root) -/
def ancestors (p : Str) : List Str := (List.range p.length).map fun j => dirNameN (j + 1) p

/-- executable form of the hypotheses of the relocation theorems (`Relocatable` in `Proofs/C25.lean`,
`relocatable_of_check`): distinct locations; symlinks at normalised locations, none recorded below another one;
following as many symlinks as the archive has settles every location; different entries resolve to different places -/
def relocatableB (raw : List Obj) : Bool :=
  let syms := symsOf raw
  let res := fun (e : Obj) => resolveDir syms.length syms e.loc
  decide (raw.map Obj.loc).Nodup
    && syms.all (fun s => cnPrefix s.loc == s.loc ++ ['/'])
    && syms.all (fun a => syms.all fun b => !isChild a.loc b.loc)
    && raw.all (fun e => (stepLoc syms (res e)).isNone)
    && raw.all (fun a => raw.all fun b => !(res a == res b) || a == b)

end Pkgcore.C25.Spec
