import Pkgcore.Model.C34
/-!
# C34 specification — what filtering a saved environment means

* `removeRegions` — the text that is left when the characters of some index regions are dropped and
  nothing else is touched ("every other definition is preserved", "no stray bytes").
* a *dump* as bash writes it: a sequence of items `name=<quoted value>` and function definitions, each
  followed by a newline; `filterDump` keeps exactly the items whose name is not selected.
-/
namespace Pkgcore.C34.Spec
open Pkgcore.C34

/-- index `i` lies in one of the half-open regions -/
def inRegions (rs : List (Nat × Nat)) (i : Nat) : Bool := rs.any fun r => r.1 ≤ i && i < r.2

/-- drop exactly the characters whose index (counted from `i`) lies in a region -/
def removeFrom (rs : List (Nat × Nat)) : Nat → List Char → List Char
  | _, [] => []
  | i, c :: cs => if inRegions rs i then removeFrom rs (i + 1) cs else c :: removeFrom rs (i + 1) cs

/-- drop exactly the characters whose index lies in a region -/
def removeRegions (rs : List (Nat × Nat)) (data : List Char) : List Char := removeFrom rs 0 data

/-- the regions of the statements that were selected for removal -/
def filteredRegions (stmts : List Stmt) : List (Nat × Nat) :=
  (stmts.filter (·.filtered)).map fun s => (s.start, s.stop)

/-- one piece of a quoted word as bash writes values (`declare -p`, `${v@Q}`, `printf %q`, `set`) -/
inductive Piece
  | plain (cs : List Char)          -- characters that need no quoting
  | escaped (c : Char)              -- `\c`
  | single (cs : List Char)         -- `'…'`   (no `'` inside)
  | ansi (cs : List (Char ⊕ Char))  -- `$'…'`  (`inl c` = literal, `inr c` = `\c`)
  | double (cs : List (Char ⊕ Char))-- `"…"`   (`inl c` = literal, `inr c` = `\c`)
  deriving Repr

inductive Item
  | assign (name : List Char) (value : List Piece)
  | func (name : List Char) (body : List Char)
  deriving Repr

def Item.name : Item → List Char
  | .assign n _ => n
  | .func n _ => n

def renderQ (cs : List (Char ⊕ Char)) : List Char :=
  cs.flatMap fun x => match x with | .inl c => [c] | .inr c => ['\\', c]

def Piece.render : Piece → List Char
  | .plain cs => cs
  | .escaped c => ['\\', c]
  | .single cs => '\'' :: cs ++ ['\'']
  | .ansi cs => '$' :: '\'' :: renderQ cs ++ ['\'']
  | .double cs => '"' :: renderQ cs ++ ['"']

/-- an item as bash prints it (`declare -f` layout for functions), without the trailing newline -/
def Item.render : Item → List Char
  | .assign n v => n ++ '=' :: v.flatMap Piece.render
  | .func n body => n ++ " () \n{ ".toList ++ body ++ "\n}".toList

def renderDump (items : List Item) : List Char := items.flatMap fun it => it.render ++ ['\n']

/-- the reference filter: drop the selected assignments and functions, keep everything else -/
def filterDump (vm fm : List Char → Bool) (items : List Item) : List Item :=
  items.filter fun it => match it with
    | .assign n _ => !vm n
    | .func n _ => !fm n

end Pkgcore.C34.Spec
