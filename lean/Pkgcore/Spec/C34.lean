import Pkgcore.Model.C34
/-!
# C34 specification — what filtering a saved environment means

* `removeRegions` — the text that is left when the characters of some index regions are dropped and
  nothing else is touched ("every other definition is preserved", "no stray bytes").
* a *dump* as bash writes it: a sequence of items `name=<quoted value>` and function definitions, each
  followed by a newline; `filterDump` keeps exactly the items whose name is not selected.
-/
namespace Pkgcore.C34.Spec
open Pkgcore.C34

/-- index `i` lies in one of the half-open regions -/
def inRegions (rs : List (Nat × Nat)) (i : Nat) : Bool := rs.any fun r => r.1 ≤ i && i < r.2

/-- drop exactly the characters whose index (counted from `i`) lies in a region -/
def removeFrom (rs : List (Nat × Nat)) : Nat → List Char → List Char
  | _, [] => []
  | i, c :: cs => if inRegions rs i then removeFrom rs (i + 1) cs else c :: removeFrom rs (i + 1) cs

/-- drop exactly the characters whose index lies in a region -/
def removeRegions (rs : List (Nat × Nat)) (data : List Char) : List Char := removeFrom rs 0 data

/-- the regions of the statements that were selected for removal -/
def filteredRegions (stmts : List Stmt) : List (Nat × Nat) :=
  (stmts.filter (·.filtered)).map fun s => (s.start, s.stop)

/-- one piece of a quoted word as bash writes values (`declare -p`, `${v@Q}`, `printf %q`, `set`) -/
inductive Piece
  | plain (cs : List Char)          -- characters that need no quoting
  | escaped (c : Char)              -- `\c`
  | single (cs : List Char)         -- `'…'`   (no `'` inside)
  | ansi (cs : List (Char ⊕ Char))  -- `$'…'`  (`inl c` = literal, `inr c` = `\c`)
  | double (cs : List (Char ⊕ Char))-- `"…"`   (`inl c` = literal, `inr c` = `\c`)
  deriving Repr

inductive Item
  | assign (name : List Char) (value : List Piece)
  | func (name : List Char) (body : List Char)
  deriving Repr

def Item.name : Item → List Char
  | .assign n _ => n
  | .func n _ => n

def renderQ (cs : List (Char ⊕ Char)) : List Char :=
  cs.flatMap fun x => match x with | .inl c => [c] | .inr c => ['\\', c]

def Piece.render : Piece → List Char
  | .plain cs => cs
  | .escaped c => ['\\', c]
  | .single cs => '\'' :: cs ++ ['\'']
  | .ansi cs => '$' :: '\'' :: renderQ cs ++ ['\'']
  | .double cs => '"' :: renderQ cs ++ ['"']

/-- an item as bash prints it (`declare -f` layout for functions), without the trailing newline -/
def Item.render : Item → List Char
  | .assign n v => n ++ '=' :: v.flatMap Piece.render
  | .func n body => n ++ " () \n{ ".toList ++ body ++ "\n}".toList

def renderDump (items : List Item) : List Char := items.flatMap fun it => it.render ++ ['\n']

/-- the reference filter: drop the selected assignments and functions, keep everything else -/
def filterDump (vm fm : List Char → Bool) (items : List Item) : List Item :=
  items.filter fun it => match it with
    | .assign n _ => !vm n
    | .func n _ => !fm n

/-! ## which names a list of patterns selects

A *simple pattern* is a sequence of elements "these characters, this many times" — what the callers pass: plain names
(`CFLAGS`, `pkg_setup`), names with escaped punctuation (`a\.b`) and prefixes such as `SANDBOX_.*`.  A name matches a
simple pattern when it **as a whole** splits into consecutive runs, one per element.  A token is an alternation
`p₁|p₂|…` of simple patterns; a name is selected by a list of tokens when some token matches the whole name — or, in
whitelist (inverted) mode, when none does. -/

inductive Rep | one | star | plus | opt
  deriving DecidableEq, Repr

def Rep.allows : Rep → Nat → Bool
  | .one, n => n == 1
  | .star, _ => true
  | .plus, n => decide (1 ≤ n)
  | .opt, n => decide (n ≤ 1)

abbrev Simple := List (Cs × Rep)

/-- the whole of `s` is: a run of `r`-many characters accepted by `cs`, then the rest of the pattern -/
def matchSimple : Simple → List Char → Bool
  | [], s => s.isEmpty
  | (cs, r) :: p, s =>
    (List.range (s.length + 1)).any fun n => r.allows n && (s.take n).all cs.accepts && matchSimple p (s.drop n)

abbrev Token := List Simple

def matchToken (t : Token) (name : List Char) : Bool := t.any (matchSimple · name)

/-- the names removed: those some token matches (blacklist), or those no token matches (whitelist) -/
def selects (toks : List Token) (whitelist : Bool) (name : List Char) : Bool :=
  whitelist != toks.any (matchToken · name)

def renderCs : Cs → List Char
  | .lit c => if isSpecial c then ['\\', c] else [c]
  | .any => ['.']

def renderRep : Rep → List Char
  | .one => []
  | .star => ['*']
  | .plus => ['+']
  | .opt => ['?']

/-- a simple pattern as the text of a regular expression -/
def renderSimple (p : Simple) : List Char := p.flatMap fun it => renderCs it.1 ++ renderRep it.2

/-- `'|'.join(...)` of the rendered alternatives -/
def renderToken (t : Token) : List Char := joinBar (t.map renderSimple)

/-- a plain name as a pattern: every character stands for itself -/
def literal (name : List Char) : Simple := name.map fun c => (.lit c, .one)

/-- the spec's own reading of a token's text (used by the driver on the tokens of a run) -/
def readSimple : Nat → List Char → Option Simple
  | 0, _ => none
  | _, [] => some []
  | n + 1, c :: s =>
    let atom : Option (Cs × List Char) :=
      if c = '\\' then
        match s with
        | d :: s' => if isAlnum d then none else some (.lit d, s')
        | [] => none
      else if c = '.' then some (.any, s)
      else if isSpecial c then none
      else some (.lit c, s)
    match atom with
    | none => none
    | some (cs, s) =>
      let rs : Rep × List Char :=
        match s with
        | '*' :: s' => (.star, s')
        | '+' :: s' => (.plus, s')
        | '?' :: s' => (.opt, s')
        | _ => (.one, s)
      (readSimple n rs.2).map fun p => (cs, rs.1) :: p

/-- split at every `|` that is not escaped -/
def splitBar : List Char → List (List Char)
  | [] => [[]]
  | '\\' :: d :: s =>
    match splitBar s with
    | h :: t => ('\\' :: d :: h) :: t
    | [] => [['\\', d]]
  | '|' :: s => [] :: splitBar s
  | c :: s =>
    match splitBar s with
    | h :: t => (c :: h) :: t
    | [] => [[c]]

def readToken (t : List Char) : Option Token := (splitBar t).mapM (readSimple (t.length + 1))

/-- `selects` on token texts (empty tokens are not patterns); `none`: a token is outside the pattern language -/
def selectsText (toks : List (List Char)) (whitelist : Bool) (name : List Char) : Option Bool := do
  let ts ← (toks.filter (· ≠ [])).mapM readToken
  pure (selects ts whitelist name)

end Pkgcore.C34.Spec
