import Pkgcore.Model.C08
import Pkgcore.Spec.C06
/-!
# C08 specification — what a repository query has to return

Written from the property text: the answer to a query is the brute-force filter of *all* packages of the repository
(resp. of all category/package pairs that have at least one version) by the propositional meaning of the restriction
(C06 `eval`), each exactly once; the order is not part of the specification (a sorted query is the same set in another
order); a stack of repositories answers with the union of its members' answers; a filtered repository with the answer
of the wrapped one minus (resp. restricted to) the packages the filter matches.
-/
namespace Pkgcore.C08.Spec
open Pkgcore.C08
open Pkgcore.C06 (R)

/-- every package of the repository -/
def allPackages (repo : Repo) : List Pkg :=
  repo.versionKeys.flatMap fun cp => (repo.versions cp).map fun v => ⟨cp.1, cp.2, some v⟩

/-- every category/package pair that has a version, as an unversioned package -/
def allUnversioned (repo : Repo) : List Pkg :=
  (repo.versionKeys.filter fun cp => !(repo.versions cp).isEmpty).map fun cp => ⟨cp.1, cp.2, none⟩

def allOf (repo : Repo) (versioned : Bool) : List Pkg := if versioned then allPackages repo else allUnversioned repo

/-- the restriction, read as a propositional formula over its leaves, holds of the package -/
def holds (env : Env) (tbl : Nat → Leaf) (r : R) (pk : Pkg) : Bool := Pkgcore.C06.Spec.eval (val env tbl pk) r

/-- brute force -/
def answer (env : Env) (tbl : Nat → Leaf) (repo : Repo) (versioned : Bool) (r : R) : List Pkg :=
  (allOf repo versioned).filter (holds env tbl r)

/-- the mappings have no duplicate keys / entries (categories is a frozenset; packages and versions come from
directory listings or dict keys) -/
structure WF (repo : Repo) : Prop where
  cats : repo.categories.Nodup
  pkgs : ∀ c, (repo.packages c).Nodup
  vers : ∀ cp, (repo.versions cp).Nodup

/-- a decidable sufficient check for `WF` -/
def wfCheck (repo : Repo) : Bool :=
  decide repo.categories.Nodup &&
  repo.cats.all fun cps => decide (cps.2.map (·.1)).Nodup && cps.2.all fun pvs => decide pvs.2.Nodup

/-- atoms know their category and package (`restrict.category`, `restrict.package`): the atom node has an un-negated
exact CategoryDep and PackageDep member.  True of every `atom` object. -/
def atomsKeyed (tbl : Nat → Leaf) : R → Bool
  | .atom cs => (atomKey tbl cs).isSome
  | _ => true

/-- a sorter returns the elements it was given, in some order -/
structure Lawful (S : Sorter) : Prop where
  strs : ∀ l, (S.strs l).Perm l
  cps : ∀ l, (S.cps l).Perm l
  pkgs : ∀ l, (S.pkgs l).Perm l

end Pkgcore.C08.Spec
