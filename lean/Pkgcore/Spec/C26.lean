import Pkgcore.Model.C26
/-!
# C26 specification

Written from the property text and from the format description at the top of `xpak.py`
(`XPAKPACK IIII DDDD [index][data] XPAKSTOP OOOO STOP`, all integers big endian, index record =
key length, key, offset into the data blob, data length; `OOOO` = number of bytes from the start of
`XPAKPACK` to the end of `XPAKSTOP`, i.e. `|index| + |data| + 24`), independently of how
`write_xpak` assembles it.

* `segment m` — the XPAK segment that stores the mapping `m`;
* `expected m` — what reading must return: same keys, same order, text values as text, values of
  `environment*` keys as bytes;
* `Pkg`/`rewrite` — a binary package is "some bytes, then possibly a segment"; rewriting replaces
  the segment and nothing else.
-/
namespace Pkgcore.C26.Spec
open Pkgcore.C26

def magicPack : Bytes := "XPAKPACK".toUTF8.data.toList
def magicStop : Bytes := "XPAKSTOP".toUTF8.data.toList
def magicEnd : Bytes := "STOP".toUTF8.data.toList

/-- big-endian u32 by repeated division -/
def u32 (n : Nat) : Bytes :=
  [UInt8.ofNat (n / 256 / 256 / 256 % 256), UInt8.ofNat (n / 256 / 256 % 256), UInt8.ofNat (n / 256 % 256), UInt8.ofNat (n % 256)]

/-- total length of the values stored before position `i` -/
def offsetOf (m : List (List Char × Val)) (i : Nat) : Nat :=
  ((m.take i).map fun p => p.2.raw.length).sum

def indexRecord (m : List (List Char × Val)) (i : Nat) (p : List Char × Val) : Bytes :=
  u32 (encKey p.1).length ++ encKey p.1 ++ u32 (offsetOf m i) ++ u32 p.2.raw.length

def index (m : List (List Char × Val)) : Bytes :=
  ((m.zipIdx).map fun (p, i) => indexRecord m i p).flatten

def data (m : List (List Char × Val)) : Bytes := (m.map fun p => p.2.raw).flatten

def segment (m : List (List Char × Val)) : Bytes :=
  magicPack ++ u32 (index m).length ++ u32 (data m).length ++ index m ++ data m
    ++ magicStop ++ u32 ((index m).length + (data m).length + 24) ++ magicEnd

/-- what a reader must get back for one stored value -/
def expectedVal (k : List Char) (v : Val) : Val :=
  if isEnvKey k then .bytes v.raw else v

def expected (m : List (List Char × Val)) : List (List Char × Val) :=
  m.map fun (k, v) => (k, expectedVal k v)

/-- abstract binary package: leading bytes (the tarball) and the stored mapping, if any -/
structure Pkg where
  pre : Bytes
  seg : Option (List (List Char × Val))

def Pkg.rewrite (p : Pkg) (m : List (List Char × Val)) : Pkg := { p with seg := some m }

def Pkg.bytes (p : Pkg) : Bytes :=
  p.pre ++ (match p.seg with | none => [] | some m => segment m)

/-- domain of the property: ASCII keys, pairwise different (it is a mapping), text values under
ordinary keys (`environment*` keys may hold text or bytes), everything fits the 32-bit fields -/
def asciiKey (k : List Char) : Prop := ∀ c ∈ k, c.toNat < 128

structure Dom (m : List (List Char × Val)) : Prop where
  ascii : ∀ p ∈ m, asciiKey p.1
  nodup : (m.map (·.1)).Nodup
  typed : ∀ p ∈ m, isEnvKey p.1 = false → ∃ s, p.2 = .text s
  fits : (index m).length + (data m).length + 24 < 4294967296

end Pkgcore.C26.Spec
