import Pkgcore.Model.C28
import Pkgcore.Spec.C24
/-!
# C28 specification

*A generated Manifest parses back to exactly the sizes and checksums of the files and distfiles it
covers, its text does not depend on directory listing or input order, regenerating an up-to-date Manifest
writes nothing, and an interrupted regeneration leaves the complete old file or the complete new one.*

What a Manifest covers is stated on path components (GLEP 44 layout), independently of the prefix/slice
tests `Manifest.update` uses: `files/**` are AUX entries named relative to `files/`, top-level `*.ebuild`
are EBUILD, other top-level files MISC; anything with a component `CVS`, `.svn`, `Manifest` (or the
temporary `.update.Manifest`) is not covered; every fetchable is a DIST entry under its base name.
-/
namespace Pkgcore.C28.Spec
open Pkgcore.C24 Pkgcore.C28

inductive MType | dist | aux | ebuild | misc
  deriving DecidableEq, Repr

/-- which entry a regular file at `path` (relative to the package directory) gets -/
def kindOf (path : Str) : Option (MType × Str) :=
  let comps := splitOn '/' path
  if comps.any (fun c => Pkgcore.Generated.C28.excludes.any fun e => e.toList == c) then none
  else match comps with
    | [[], name] => some (if (tag ".ebuild").reverse.isPrefixOf name.reverse then .ebuild else .misc, name)
    | [] :: f :: r :: rs => if f = tag "files" then some (.aux, joinWith '/' (r :: rs)) else none
    | _ => none

/-- checksums as a value: the `others` dict in canonical (sorted by chf) order -/
def canonSums (s : Sums) : Sums := ⟨s.size, sortBy (·.1) s.others⟩

/-- the entries of one type the Manifest must parse back to, sorted by name -/
def entries (t : MType) (scan : List ScanObj) (fetch : List Fetchable) : List (Str × Sums) :=
  sortBy (·.1) <|
    match t with
    | .dist => fetch.map fun f => (baseName f.filename, canonSums f.sums)
    | t => scan.filterMap fun o =>
        if o.isReg then (match kindOf o.path with
          | some (t', n) => if t' = t then some (n, canonSums o.sums) else none
          | none => none)
        else none

def expected (thin : Bool) (scan : List ScanObj) (fetch : List Fetchable) : Parsed :=
  if thin then ⟨entries .dist scan fetch, [], [], []⟩
  else ⟨entries .dist scan fetch, entries .aux scan fetch, entries .ebuild scan fetch, entries .misc scan fetch⟩

def noSpace (s : Str) : Prop := s ≠ [] ∧ ∀ c ∈ s, isSpace c = false

def goodSums (s : Sums) : Prop :=
  (s.others.map (·.1)).Nodup ∧ ∀ p ∈ s.others, Pkgcore.Generated.C28.chfWidths.any (fun w => w.1.toList == p.1) = true

/-- domain: a directory listing (distinct paths) whose regular, non-excluded files sit at the top level or
below `files/`; distfiles with distinct base names; names without white space; known checksum types -/
structure Dom (scan : List ScanObj) (fetch : List Fetchable) : Prop where
  paths : (scan.map (·.path)).Nodup
  layout : ∀ o ∈ scan, classify o ≠ .bad
  names : ∀ o ∈ scan, o.isReg = true → ∀ t n, kindOf o.path = some (t, n) → noSpace n
  sums : ∀ o ∈ scan, goodSums o.sums
  dist : (fetch.map fun f => baseName f.filename).Nodup
  distNames : ∀ f ∈ fetch, noSpace (baseName f.filename) ∧ goodSums f.sums

end Pkgcore.C28.Spec
