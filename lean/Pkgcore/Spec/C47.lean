import Pkgcore.Model.C47
/-!
# C47 specification — from the property text

"Syncing a repository from a tarball either leaves the previous tree in place or installs the complete new
tree, and a failed download or unpack leaves the previous tree untouched.  After an interruption at any
point, the repository path holds a complete old or new tree and the next sync completes."
-/
namespace Pkgcore.C47.Spec
open Pkgcore.C29 Pkgcore.C47

/-- at every crash point the repository path holds the complete old or the complete new tree; the finished sync the new one -/
def OldOrNew (ops : List Op) (st : Store) (repo : Name) (new : List (Name × Content)) : Prop :=
  (∀ s ∈ states ops st, treeAt s repo = treeAt st repo ∨ treeAt s repo = new) ∧ treeAt (run ops st) repo = new

/-- the same, additionally admitting the state in which the repository path does not exist -/
def OldGapOrNew (ops : List Op) (st : Store) (repo : Name) (new : List (Name × Content)) : Prop :=
  (∀ s ∈ states ops st, treeAt s repo = treeAt st repo ∨ s repo = none ∨ treeAt s repo = new) ∧
  treeAt (run ops st) repo = new

/-- nothing the reader can see ever changes -/
def Untouched (ops : List Op) (st : Store) (repo : Name) : Prop := ∀ s ∈ states ops st, treeAt s repo = treeAt st repo

end Pkgcore.C47.Spec
