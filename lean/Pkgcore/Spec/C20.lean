import Pkgcore.Model.C20
import Pkgcore.Spec.C18
/-!
# C20 — specification: unmerge removes exactly what it owns and never base directories

From the property text.  `pre`/`fin` = file system before/after; "listed" = an object of the contents set that is
handed to `unmerge_contents` (`Unmerged`), resp. a recorded location of the old package (`Uninstalled`,
`Replaced`: the engines look the recorded locations up on the live file system, so the *live* type decides
whether a location is treated as a directory).

* every listed non-directory is gone; nothing unlisted is created, changed or removed (all paths);
* a listed directory is either untouched or gone, and gone only if it was a directory that has left nothing
  behind (it was empty); conversely a listed directory that is still there is not empty (or is the root);
* a symlink is never followed: a listed location that holds a symlink is unlinked (non-directory object) or left
  alone (`rmdir` → `ENOTDIR`), its target is an unlisted path and therefore untouched — `unlisted`;
* protected base-system directories are never removed (`base`);
* replace: nothing the new package installs is touched by the unmerge (`kept`).
-/
namespace Pkgcore.C20.Spec
open Pkgcore.C18 Pkgcore.C18.Spec Pkgcore.C20

def IsDirAt (fs : Fs) (p : Path) : Prop := ∃ j nd, fs.view p = some (j, nd) ∧ nd.kind = .dir

instance (fs : Fs) (p : Path) : Decidable (IsDirAt fs p) := by unfold IsDirAt; infer_instance

/-- a listed directory: untouched, or gone after having been an empty directory -/
def DirRemovedOrKept (pre fin : Fs) (p : Path) : Prop :=
  fin.view p = pre.view p ∨ (fin.view p = none ∧ IsDirAt pre p ∧ fin.hasChild p = false)

instance (pre fin : Fs) (p : Path) : Decidable (DirRemovedOrKept pre fin p) := by
  unfold DirRemovedOrKept; infer_instance

/-- `unmerge_contents(es)` took `pre` to `fin` -/
structure Unmerged (pre : Fs) (es : List Entry) (fin : Fs) : Prop where
  nondirs : ∀ e ∈ es, e.isDir = false → fin.view e.loc = none
  dirs : ∀ e ∈ es, e.isDir = true → DirRemovedOrKept pre fin e.loc
  unlisted : ∀ q : Path, q ∉ locs es → fin.view q = pre.view q

/-- completeness for directories: what is listed, still a directory and not the root is not empty -/
def EmptiedDirsGone (es : List Entry) (fin : Fs) : Prop :=
  ∀ e ∈ es, e.isDir = true → IsDirAt fin e.loc → fin.hasChild e.loc = true ∨ e.loc = []

instance (es : List Entry) (fin : Fs) : Decidable (EmptiedDirsGone es fin) := by unfold EmptiedDirsGone; infer_instance

/-- the live object at `p` is not a directory -/
def LiveNonDir (fs : Fs) (p : Path) : Prop := ∃ j nd, fs.view p = some (j, nd) ∧ nd.kind ≠ .dir

instance (fs : Fs) (p : Path) : Decidable (LiveNonDir fs p) :=
  match h : fs.view p with
  | none => isFalse (by unfold LiveNonDir; simp [h])
  | some (j, nd) =>
    if hk : nd.kind = .dir then isFalse (by unfold LiveNonDir; rintro ⟨j', nd', h1, h2⟩; rw [h] at h1; cases h1; exact h2 hk)
    else isTrue ⟨j, nd, h, hk⟩

/-- `MergeEngine.uninstall` of the recorded contents `old` took `pre` to `fin` -/
structure Uninstalled (pre : Fs) (old : List Entry) (fin : Fs) : Prop where
  gone : ∀ e ∈ old, e.loc ∉ protectedPaths → LiveNonDir pre e.loc → fin.view e.loc = none
  dirs : ∀ e ∈ old, e.loc ∉ protectedPaths → IsDirAt pre e.loc → DirRemovedOrKept pre fin e.loc
  unlisted : ∀ q : Path, q ∉ locs old → fin.view q = pre.view q
  base : ∀ q ∈ protectedPaths, fin.view q = pre.view q

/-- the unmerge half of `MergeEngine.replace`: `mid` = after the new package was merged -/
structure Replaced (mid : Fs) (old new : List Entry) (fin : Fs) : Prop where
  kept : ∀ e ∈ new, fin.view e.loc = mid.view e.loc
  gone : ∀ e ∈ old, e.loc ∉ locs new → e.loc ∉ protectedPaths → LiveNonDir mid e.loc → fin.view e.loc = none
  dirs : ∀ e ∈ old, e.loc ∉ locs new → e.loc ∉ protectedPaths → IsDirAt mid e.loc → DirRemovedOrKept mid fin e.loc
  unlisted : ∀ q : Path, q ∉ locs old → fin.view q = mid.view q
  base : ∀ q ∈ protectedPaths, fin.view q = mid.view q

/-! ## executable evaluation (all-path clauses on the paths present before or after) -/

def UnlistedOn (qs : List Path) (pre : Fs) (ls : List Path) (fin : Fs) : Prop :=
  ∀ q ∈ qs, q ∉ ls → fin.view q = pre.view q

instance (qs : List Path) (pre : Fs) (ls : List Path) (fin : Fs) : Decidable (UnlistedOn qs pre ls fin) := by
  unfold UnlistedOn; infer_instance

def unmergedFailures (pre : Fs) (es : List Entry) (fin : Fs) : List String :=
  (if ∀ e ∈ es, e.isDir = false → fin.view e.loc = none then [] else ["nondirs"]) ++
  (if ∀ e ∈ es, e.isDir = true → DirRemovedOrKept pre fin e.loc then [] else ["dirs"]) ++
  (if UnlistedOn (keys pre ++ keys fin) pre (locs es) fin then [] else ["unlisted"]) ++
  (if EmptiedDirsGone es fin then [] else ["emptied"])


def uninstalledFailures (pre : Fs) (old : List Entry) (fin : Fs) : List String :=
  (if ∀ e ∈ old, e.loc ∉ protectedPaths → LiveNonDir pre e.loc → fin.view e.loc = none then [] else ["gone"]) ++
  (if ∀ e ∈ old, e.loc ∉ protectedPaths → IsDirAt pre e.loc → DirRemovedOrKept pre fin e.loc then [] else ["dirs"]) ++
  (if UnlistedOn (keys pre ++ keys fin) pre (locs old) fin then [] else ["unlisted"]) ++
  (if ∀ q ∈ protectedPaths, fin.view q = pre.view q then [] else ["base"])

def replacedFailures (mid : Fs) (old new : List Entry) (fin : Fs) : List String :=
  (if ∀ e ∈ new, fin.view e.loc = mid.view e.loc then [] else ["kept"]) ++
  (if ∀ e ∈ old, e.loc ∉ locs new → e.loc ∉ protectedPaths → LiveNonDir mid e.loc → fin.view e.loc = none then [] else ["gone"]) ++
  (if ∀ e ∈ old, e.loc ∉ locs new → e.loc ∉ protectedPaths → IsDirAt mid e.loc → DirRemovedOrKept mid fin e.loc then [] else ["dirs"]) ++
  (if UnlistedOn (keys mid ++ keys fin) mid (locs old) fin then [] else ["unlisted"]) ++
  (if ∀ q ∈ protectedPaths, fin.view q = mid.view q then [] else ["base"])

end Pkgcore.C20.Spec
