import Pkgcore.Model.C24
/-!
# C24 specification

From the property text: *writing a contents set to a CONTENTS file and reading it back yields the same
entries (type, path, MD5 and integral mtime for files, target and mtime for symlinks, the path for
directories, fifos and devices); the file is replaced atomically.*

`Entry` already carries exactly the listed observables.  A contents set is a list of entries with
pairwise different locations, compared up to order.
-/
namespace Pkgcore.C24.Spec
open Pkgcore.C24

/-- a contents set: at most one entry per location (`contentsSet` is keyed by location) -/
def IsSet (s : List Entry) : Prop := (s.map Entry.loc).Nodup

instance (s : List Entry) : Decidable (IsSet s) := by unfold IsSet; infer_instance

/-- same entries, order irrelevant -/
def SameEntries (a b : List Entry) : Prop := a.Perm b

/-- every fs object normalises its location on construction (`fsBase.__init__`) -/
def Normalised (s : List Entry) : Prop := ∀ e ∈ s, normpath e.loc = e.loc

def noLineBreak (s : Str) : Prop := '\n' ∉ s ∧ '\r' ∉ s

/-- entries the line format can represent: no line break inside a path or target, and for a symlink no
`->` token inside the location (the two classes recorded as open findings) -/
def Representable : Entry → Prop
  | .sym loc target _ => noLineBreak loc ∧ noLineBreak target ∧ tag "->" ∉ splitOn ' ' loc
  | e => noLineBreak e.loc

/-- "replaced atomically": at every crash point (prefix of the operation list) the file at `p` has its
old content or exactly the new content, and after the last operation it has the new content -/
def ReplacedAtomically (ops : List FsOp) (fs : Fs) (p new : Str) : Prop :=
  (∀ k, (run (ops.take k) fs).read p = fs.read p ∨ (run (ops.take k) fs).read p = some new) ∧
  (run ops fs).read p = some new

end Pkgcore.C24.Spec
