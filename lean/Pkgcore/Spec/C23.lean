import Pkgcore.Model.C23
/-!
# C23 specification — what "hardened" means, written from the property text

Bits are named by position (setuid = bit 11, setgid = bit 10, world-writable = bit 1), not by the masks the code
uses.  Symbolic links are exempt from the mode clause: a link's mode bits are not permissions (the merger never
applies them — `ensure_perms` skips `chmod` for links, and `lstat` reports 0777 for every link).
-/
namespace Pkgcore.C23.Spec
open Pkgcore.C23

def setuid (m : Nat) : Bool := m.testBit 11
def setgid (m : Nat) : Bool := m.testBit 10
def worldWritable (m : Nat) : Bool := m.testBit 1

/-- both set-id (user or group) and world-writable -/
def Unsafe (m : Nat) : Prop := (setuid m = true ∨ setgid m = true) ∧ worldWritable m = true

instance (m : Nat) : Decidable (Unsafe m) := by unfold Unsafe; infer_instance

/-- `e'` is the hardened form of `e` (build user/group `bu`/`bg`, re-owned to `ru`/`rg`; `fp`: world-writable
bits are to be stripped as well) -/
structure Hardened (bu ru bg rg : Nat) (fp : Bool) (e e' : Entry) : Prop where
  /-- type, location, and target/data/device numbers/mtime are untouched -/
  kind_eq : e'.kind = e.kind
  loc_eq : e'.loc = e.loc
  payload_eq : e'.payload = e.payload
  /-- entries of the build user / group now belong to root, all others keep their owner -/
  uid_eq : e'.uid = if e.uid = bu then ru else e.uid
  gid_eq : e'.gid = if e.gid = bg then rg else e.gid
  /-- no set-id + world-writable combination is left on anything that has permissions -/
  safe : e.isSym = false → ¬ Unsafe e'.mode
  /-- the mode only ever loses bits, and only setuid, setgid or world-writable -/
  mode_sub : ∀ i, e'.mode.testBit i = true → e.mode.testBit i = true
  mode_rest : ∀ i, i ≠ 1 → i ≠ 10 → i ≠ 11 → e'.mode.testBit i = e.mode.testBit i
  /-- a mode that was safe is left alone (unless stripping world-writable bits was requested) -/
  safe_kept : fp = false → ¬ Unsafe e.mode → e'.mode = e.mode
  /-- link modes are never touched -/
  sym_kept : e.isSym = true → e'.mode = e.mode
  /-- with `fix_perms` nothing with permissions stays world-writable -/
  no_ww : fp = true → e.isSym = false → worldWritable e'.mode = false

/-- executable form of `Hardened` (used by the driver to judge the real code's output); equivalent to it
(`hardenedB_iff`) -/
def hardenedB (bu ru bg rg : Nat) (fp : Bool) (e e' : Entry) : Bool :=
  e'.kind == e.kind && e'.loc == e.loc && e'.payload == e.payload &&
  e'.uid == (if e.uid = bu then ru else e.uid) && e'.gid == (if e.gid = bg then rg else e.gid) &&
  (e.isSym || !decide (Unsafe e'.mode)) &&
  (e'.mode &&& e.mode == e'.mode) && (e'.mode ||| 0o6002 == e.mode ||| 0o6002) &&
  (fp || decide (Unsafe e.mode) || e'.mode == e.mode) &&
  (!e.isSym || e'.mode == e.mode) &&
  (!fp || e.isSym || !worldWritable e'.mode)

end Pkgcore.C23.Spec
