import Pkgcore.Model.C42
/-!
# C42 specification — package move updates, written from the property text

* file order: the correctly named files, chronologically (year, then quarter);
* a line is a *well-formed command* iff it is `move A B` with two parsable versionless atoms or
  `slotmove A from to` with a parsable unslotted atom and two valid slots; everything else is malformed;
* a well-formed command is *redundant* when its source name was the source of an earlier accepted move;
* the commands reported for a name are found by walking the accepted commands once, in order, with a
  "current name": a command whose source is the current name is reported, and a move renames the current name.
No deques, no sharing.
-/
namespace Pkgcore.C42.Spec
open Pkgcore.C42

/-- chronological order of update files -/
def chronLe (a b : UFile) : Prop :=
  let ka := a.key.getD (0, 0)
  let kb := b.key.getD (0, 0)
  ka.1 < kb.1 ∨ (ka.1 = kb.1 ∧ ka.2 ≤ kb.2)

/-- the command a well-formed line denotes -/
def wellFormed (line : List Tok) : Option Cmd :=
  match line with
  | [w, a, b] =>
    if w.text = "move" then
      match a.atom, b.atom with
      | some s, some t => if !s.versioned && !t.versioned then some (.move s t) else none
      | _, _ => none
    else none
  | [w, a, f, t] =>
    if w.text = "slotmove" then
      match a.atom with
      | some s => if !s.slotted && f.slotOk && t.slotOk then some (.slotmove s f.text t.text) else none
      | none => none
    else none
  | _ => none

/-- names that have been the source of a move -/
def movedKeys (cs : List Cmd) : List Key :=
  cs.filterMap fun c => match c with
    | .move s _ => some s.key
    | .slotmove _ _ _ => none

/-- accept a line: malformed lines and redundant commands are dropped -/
def accept (acc : List Cmd) (line : List Tok) : List Cmd :=
  match wellFormed line with
  | some c => if c.srcKey ∈ movedKeys acc then acc else acc ++ [c]
  | none => acc

def accepted (lines : List (List Tok)) : List Cmd := lines.foldl accept []

/-- the name a package called `k` has after command `c` -/
def rename (k : Key) : Cmd → Key
  | .move s t => if s.key = k then t.key else k
  | .slotmove _ _ _ => k

/-- the commands that apply to the package originally called `k`, in order -/
def chain (k : Key) : List Cmd → List Cmd
  | [] => []
  | c :: cs => if c.srcKey = k then c :: chain (rename k c) cs else chain k cs

/-- the `read_updates()` mapping: names with an empty chain are absent -/
def reference (lines : List (List Tok)) (k : Key) : Option (List Cmd) :=
  let c := chain k (accepted lines)
  if c.isEmpty then none else some c

end Pkgcore.C42.Spec
