import Pkgcore.Model.C39
/-!
# C39 specification — reference Bugzilla list-update semantics, and "exactly the fields that were set"

Written from the property text, not from the code.

* A list valued bug field (cc, keywords, blocks, …) is a *set* of values.  Bugzilla applies an update
  object `{"set": s}` by replacing the field with `s` (then `add`/`remove` are ignored), and
  `{"add": a, "remove": r}` by removing `r` and then adding `a`.  Results are compared up to membership.
* A field of a bug update "was set" when it differs from its default (the dataclass default, i.e. the
  value of the field in `BugUpdate()`).  The wire payload must be `ids` followed by exactly those
  fields, each under its Bugzilla name with its rendered value.
-/
namespace Pkgcore.C39.Spec
open Pkgcore.C39

variable {α β : Type} [DecidableEq α] [DecidableEq β]

/-- reference Bugzilla: apply one list-update object to the current values of the field -/
def applyWire (w : RawListChange β) (l : List β) : List β :=
  match w.set with
  | some s => s
  | none => l.filter (fun x => !(w.remove.getD []).contains x) ++ w.add.getD []

/-- two value lists denote the same set -/
def SameSet (l₁ l₂ : List β) : Prop := ∀ x, x ∈ l₁ ↔ x ∈ l₂

/-- canonical form of a set of strings, for the driver (sorted, duplicate-free) -/
def canon (l : List String) : List String :=
  (l.foldl (fun acc x => if acc.contains x then acc else x :: acc) []).mergeSort (fun a b => decide (a ≤ b))

/-! ## the fields of a bug update -/

inductive Field
  | status | resolution | dupeOf | summary | assignedTo | whiteboard | deadline
  | cc | keywords | blocks | dependsOn | seeAlso | groups
  | flags | comment | packageList | runtimeTestingRequired
  deriving DecidableEq, Repr

/-- the dataclass fields in declaration order -/
def Field.all : List Field :=
  [.status, .resolution, .dupeOf, .summary, .assignedTo, .whiteboard, .deadline,
   .cc, .keywords, .blocks, .dependsOn, .seeAlso, .groups,
   .flags, .comment, .packageList, .runtimeTestingRequired]

/-- the Python attribute name -/
def Field.pyName : Field → String
  | .status => "status" | .resolution => "resolution" | .dupeOf => "dupe_of" | .summary => "summary"
  | .assignedTo => "assigned_to" | .whiteboard => "whiteboard" | .deadline => "deadline"
  | .cc => "cc" | .keywords => "keywords" | .blocks => "blocks" | .dependsOn => "depends_on"
  | .seeAlso => "see_also" | .groups => "groups" | .flags => "flags" | .comment => "comment"
  | .packageList => "package_list" | .runtimeTestingRequired => "runtime_testing_required"

/-- the Bugzilla (REST) name of the field -/
def Field.wireName : Field → String
  | .packageList => "cf_stabilisation_atoms"
  | .runtimeTestingRequired => "cf_runtime_testing_required"
  | f => f.pyName

/-- the value of a field, as a sum over the field types -/
inductive FieldVal
  | optStr (v : Option String)
  | optNat (v : Option Nat)
  | change (c : ListChange String)
  | flags (l : List FlagChange)
  | comment (c : Option NewComment)
  deriving DecidableEq, Repr

def proj (u : BugUpdate) : Field → FieldVal
  | .status => .optStr u.status | .resolution => .optStr u.resolution | .dupeOf => .optNat u.dupeOf
  | .summary => .optStr u.summary | .assignedTo => .optStr u.assignedTo | .whiteboard => .optStr u.whiteboard
  | .deadline => .optStr u.deadline
  | .cc => .change u.cc | .keywords => .change u.keywords | .blocks => .change u.blocks
  | .dependsOn => .change u.dependsOn | .seeAlso => .change u.seeAlso | .groups => .change u.groups
  | .flags => .flags u.flags | .comment => .comment u.comment
  | .packageList => .optStr u.packageList | .runtimeTestingRequired => .optStr u.runtimeTestingRequired

/-- **the field was set**: its value differs from the default of `BugUpdate()` -/
def isSet (u : BugUpdate) (f : Field) : Bool := proj u f != proj {} f

/-- how a (set) field value is written in JSON -/
def render : FieldVal → WireVal
  | .optStr v => .str (v.getD "")
  | .optNat v => .nat (v.getD 0)
  | .change c => .change (c.toWire id)
  | .flags l => .flags (l.map FlagChange.toWire)
  | .comment c => match c with
    | some c => .comment c.body (if c.isPrivate then some true else none)
    | none => .comment "" none

/-- the payload demanded by the property: the ids, then exactly the set fields -/
def wire (u : BugUpdate) (ids : List Nat) : List (String × WireVal) :=
  ("ids", .ids ids) :: ((Field.all.filter (isSet u)).map fun f => (f.wireName, render (proj u f)))

end Pkgcore.C39.Spec
