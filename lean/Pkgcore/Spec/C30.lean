import Pkgcore.Model.C30
/-!
# C30 specification — from the property text

"Adding or removing a package atom to the world set records or removes exactly its name, or name:slot when a
non-zero slot is given, for any valid slot string, leaves all other entries intact, and persists by
atomically replacing the file."
-/
namespace Pkgcore.C30.Spec
open Pkgcore.C30

/-- the entry an atom stands for in the world file -/
def specEntry (key : Line) (slot : Option Line) : Line :=
  match slot with
  | none => key
  | some s => if s = ['0'] then key else key ++ [':'] ++ s

/-- "any valid slot string": what `atom()` accepts as a slot (table generated from `atom.valid_slot_chars`) -/
def SlotOk (s : Line) : Prop :=
  s ≠ [] ∧ (∀ c ∈ s, c ∈ Generated.C30.validSlotChars) ∧ ∀ c, s.head? = some c → c ∉ Generated.C30.slotBadFirst

def SlotOptOk : Option Line → Prop
  | none => True
  | some s => SlotOk s

/-- what is needed of a package key `category/package`: non-empty, not a comment or set line, no colon -/
def KeyOk (k : Line) : Prop := isEntryLine k = true ∧ ':' ∉ k

/-- sets of entries as predicates; the two operations of the property -/
def specApply (S : Line → Prop) : Req → Line → Prop
  | .add k s => fun e => e = specEntry k s ∨ S e
  | .remove k s => fun e => S e ∧ e ≠ specEntry k s

/-- a removal of an entry that is not recorded changes nothing (the code reports it as `KeyError`) -/
def specApplyAll (S : Line → Prop) : List Req → Line → Prop
  | [] => S
  | r :: rs => specApplyAll (specApply S r) rs

end Pkgcore.C30.Spec
