import Pkgcore.Model.C10Solver
/-!
# C10 solver — what is claimed of the solver, in terms independent of how it searches

A *solution* of a problem is a total assignment `a : Var → Val` that gives every variable a value of its domain and
satisfies every constraint; a constraint sees the values of its own variables only (`restr`).  A yielded dict `s`
*is* the assignment `a` when `s.lookup x = some (a x)` for every variable (`Agrees` + totality).
-/
namespace Pkgcore.C10.Solver
variable {Var Val : Type} [DecidableEq Var] [DecidableEq Val]

/-- the keyword arguments of a constraint over `scope` under a total assignment -/
def restr (scope : List Var) (a : Var → Val) : Var → Option Val := fun x => if x ∈ scope then some (a x) else none

/-- the (partial) assignments `asg` are part of the total assignment `a` -/
def Agrees (asg : Asg Var Val) (a : Var → Val) : Prop := ∀ x v, asg.lookup x = some v → a x = v

/-- `s` contains the assignments `asg` -/
def LExt (asg s : Asg Var Val) : Prop := ∀ x v, asg.lookup x = some v → s.lookup x = some v

/-- two yielded dicts differ on some variable -/
def Distinct (K : List Var) (s t : Asg Var Val) : Prop := ∃ x ∈ K, s.lookup x ≠ t.lookup x

/-- a list of solutions cut into consecutive blocks, one per value, in the order of the values -/
inductive Blocks (R : Val → Asg Var Val → Prop) : List Val → List (List (Asg Var Val)) → Prop
  | nil : Blocks R [] []
  | cons {v vs b bs} : (∀ s ∈ b, R v s) → Blocks R vs bs → Blocks R (v :: vs) (b :: bs)

/-- the names of the variables -/
def Problem.keys (P : Problem Var Val) : List Var := P.vars.map Prod.fst

/-- what `add_variable` and `add_constraint` assert: no variable is added twice, a constraint only names variables
that were added -/
structure Problem.WF (P : Problem Var Val) : Prop where
  keysNodup : P.keys.Nodup
  scopes : ∀ c ∈ P.cons, ∀ x ∈ c.scope, x ∈ P.keys

/-- `w` passes every constraint whose only variable is `x` -/
def unaryOk (cs : List (Constraint Var Val)) (x : Var) (w : Val) : Bool :=
  cs.all fun c => !decide (c.scope = [x]) || c.pred (known c.scope [(x, w)])

/-- the domain of `x` the search starts from: the values given to `add_variable`, in that order, minus those a
one-variable constraint rejects -/
def Problem.domain (P : Problem Var Val) (x : Var) : List Val := ((P.vars.lookup x).getD []).filter (unaryOk P.cons x)

/-- the variable the search branches on first -/
def Problem.firstVar (P : Problem Var Val) : Option Var :=
  selectVar P.lt (preprocess P.cons (initStore P.vars)).1 [] (preprocess P.cons (initStore P.vars)).2

/-- `a` is a solution of the problem -/
structure Problem.Sol (P : Problem Var Val) (a : Var → Val) : Prop where
  dom : ∀ e ∈ P.vars, a e.1 ∈ e.2
  sat : ∀ c ∈ P.cons, c.pred (restr c.scope a) = true

/-- the yielded dict `s` is the total assignment `a` on the variables of the problem -/
def Problem.Is (P : Problem Var Val) (s : Asg Var Val) (a : Var → Val) : Prop := ∀ x ∈ P.keys, s.lookup x = some (a x)

/-- a worked problem: x₀, x₁, x₂ ∈ [0, 1, 2] (in that order); x₀ ≠ x₁; x₁ < x₂; x₂ ≠ 0 (a one-variable constraint) -/
def exampleProblem : Problem Nat Nat :=
  { vars := [(0, [0, 1, 2]), (1, [0, 1, 2]), (2, [0, 1, 2])],
    cons := [⟨[0, 1], fun kw => kw 0 != kw 1⟩,
             ⟨[1, 2], fun kw => match kw 1, kw 2 with | some a, some b => decide (a < b) | _, _ => false⟩,
             ⟨[2], fun kw => kw 2 != some 0⟩],
    lt := fun a b => decide (a < b) }

/-- a second one where the all-last-values assignment is a solution: x₀ ∈ [0, 1], x₁ ∈ [1, 0], x₀ ≠ x₁ -/
def exampleProblem2 : Problem Nat Nat :=
  { vars := [(0, [0, 1]), (1, [1, 0])], cons := [⟨[0, 1], fun kw => kw 0 != kw 1⟩], lt := fun a b => decide (a < b) }

end Pkgcore.C10.Solver
