import Pkgcore.Model.C27
import Pkgcore.Spec.C24
/-!
# C27 specification

*Storing a metadata entry and reading it back returns the same known keys and values, inherited-eclass
data and validation checksum/mtime.  At every crash point of a store, readers see either the previous
complete entry or the new one, and listing the cache never reports a partial entry as a package.*
-/
namespace Pkgcore.C27.Spec
open Pkgcore.C24 Pkgcore.C27

/-- what must come back: the known ordinary keys with their values (a dict: order irrelevant), the
chf, and per inherited eclass its name and validation data in order (the md5 layout does not record the
eclass directory) -/
def expectedEclass (k : Kind) (e : Eclass) : Eclass :=
  match k with
  | .flat => e
  | .md5 => { e with dir := [] }

def expected (k : Kind) (e : Entry) : Entry :=
  ⟨e.vals.filter fun p => known k p.1, e.chf, e.eclasses.map (List.map (expectedEclass k))⟩

def SameEntry (a b : Entry) : Prop := a.vals.Perm b.vals ∧ a.chf = b.chf ∧ a.eclasses = b.eclasses

def singleLine (s : Str) : Prop := '\n' ∉ s ∧ '\r' ∉ s

/-- domain of the property: a metadata dict — distinct keys without `=`/line breaks that do not clash
with the reserved names, single-line values, eclass names that are non-empty words, eclass directories
without tab/line break, non-negative md5 values -/
structure Dom (k : Kind) (e : Entry) : Prop where
  nodup : (e.vals.map (·.1)).Nodup
  keys : ∀ p ∈ e.vals, '=' ∉ p.1 ∧ singleLine p.1 ∧ p.1 ≠ k.chfKey ∧ p.1 ≠ eclassesKey
  values : ∀ p ∈ e.vals, singleLine p.2
  chf : k = .md5 → 0 ≤ e.chf
  eclasses : ∀ es, e.eclasses = some es → ∀ c ∈ es,
    c.name ≠ [] ∧ (∀ ch ∈ c.name, isSpace ch = false) ∧
    Pkgcore.Generated.C27.eclassSplitter ∉ c.dir ∧ singleLine c.dir ∧ (k = .md5 → 0 ≤ c.chf)

/-- a path a cache entry can live at: every component is listed by `keys()` -/
def ListedName (cpv : Str) : Prop := (splitOn '/' cpv).all okName = true

end Pkgcore.C27.Spec
