import Pkgcore.Model.C18
/-!
# C18 — specification: "merging places exactly the contents"

Written from the property text, independently of how `merge_contents` proceeds: a relation between the file
system before (`pre`), the contents set (`es`) and the file system after (`fin`).

* every non-directory entry exists at its location with its type, data / target, recorded mode, ownership and
  mtime (`PlacedNonDirs`);
* a directory entry: a pre-existing directory keeps its inode and its own permissions and gets the recorded
  ownership; a missing one is created with the recorded mode and ownership; a symlink that sat at the location
  is either replaced by such a directory (dangling link) or kept (directory reached through the link)
  (`PlacedDirs`);
* files that shared an inode in the source and agree on the attributes a hard link shares are hard-linked
  (`Hardlinked`);
* nothing else is created, changed or removed (`Frame`), except missing parent directories, which may only
  appear as directories (`ParentsAreDirs`), and the `'#new'` temporaries of replaced entries, which are gone
  afterwards (`NoTmpLeft`).

Directory mtimes are outside the observable (see Model/C18).  All clauses are decidable, the driver evaluates
them on the *real* before/after snapshots.
-/
namespace Pkgcore.C18.Spec
open Pkgcore.C18

instance (v : Option (Nat × Inode)) : Decidable (∃ j nd, v = some (j, nd) ∧ nd.kind = .dir) :=
  match v with
  | none => isFalse (by simp)
  | some (j, nd) =>
    if h : nd.kind = .dir then isTrue ⟨j, nd, rfl, h⟩
    else isFalse (by rintro ⟨j', nd', h1, h2⟩; cases h1; exact h h2)

instance (v : Option (Nat × Inode)) (x : Inode) : Decidable (∃ j, v = some (j, x)) :=
  match v with
  | none => isFalse (by simp)
  | some (j, nd) =>
    if h : nd = x then isTrue ⟨j, by rw [h]⟩
    else isFalse (by rintro ⟨j', h1⟩; cases h1; exact h rfl)

/-- `q` is a proper ancestor of `p` (paths are stored last component first) -/
def ProperAnc (q p : Path) : Prop := q ≠ p ∧ q <:+ p

instance (q p : Path) : Decidable (ProperAnc q p) := by unfold ProperAnc; infer_instance

def locs (es : List Entry) : List Path := es.map (·.loc)

/-- a parent directory that did not exist before -/
def MissingParent (pre : Fs) (es : List Entry) (q : Path) : Prop :=
  pre.view q = none ∧ ∃ e ∈ es, ProperAnc q e.loc

/-- the `'#new'` sibling of a non-directory entry whose location was occupied -/
def TouchedTmp (pre : Fs) (es : List Entry) (q : Path) : Prop :=
  ∃ e ∈ es, e.isDir = false ∧ q = tmpOf e.loc ∧ pre.view e.loc ≠ none

instance (pre : Fs) (es : List Entry) (q : Path) : Decidable (MissingParent pre es q) := by
  unfold MissingParent; infer_instance
instance (pre : Fs) (es : List Entry) (q : Path) : Decidable (TouchedTmp pre es q) := by
  unfold TouchedTmp; infer_instance

def PlacedNonDirs (es : List Entry) (fin : Fs) : Prop :=
  ∀ e ∈ es, e.isDir = false → ∃ j, fin.view e.loc = some (j, e.inode)

def withOwner (nd : Inode) (e : Entry) : Inode := { nd with uid := e.uid, gid := e.gid }

/-- the symlink (inode `i`, `nd`) that sat at a directory entry's location is still there: same inode, target,
mode and mtime; its ownership is the old or the recorded one -/
def KeptLink (fin : Fs) (e : Entry) (i : Nat) (nd : Inode) : Prop :=
  ∃ nd', fin.view e.loc = some (i, nd') ∧ nd'.kind = nd.kind ∧ nd'.mode = nd.mode ∧ nd'.mtime = nd.mtime ∧
    ((nd'.uid = nd.uid ∧ nd'.gid = nd.gid) ∨ (nd'.uid = e.uid ∧ nd'.gid = e.gid))

instance (fin : Fs) (e : Entry) (i : Nat) (nd : Inode) : Decidable (KeptLink fin e i nd) :=
  match h : fin.view e.loc with
  | none => isFalse (by unfold KeptLink; simp [h])
  | some (j, x) =>
    if hc : j = i ∧ x.kind = nd.kind ∧ x.mode = nd.mode ∧ x.mtime = nd.mtime ∧
        ((x.uid = nd.uid ∧ x.gid = nd.gid) ∨ (x.uid = e.uid ∧ x.gid = e.gid)) then
      isTrue ⟨x, by rw [h, hc.1], hc.2⟩
    else isFalse (by
      rintro ⟨nd', h1, h2⟩
      rw [h] at h1
      cases h1
      exact hc ⟨rfl, h2⟩)

def PlacedDir (pre : Fs) (fin : Fs) (e : Entry) : Prop :=
  match pre.view e.loc with
  | none => ∃ j, fin.view e.loc = some (j, e.inode)
  | some (i, nd) =>
    match nd.kind with
    | .dir => fin.view e.loc = some (i, withOwner nd e)
    | .sym _ => (∃ j, fin.view e.loc = some (j, e.inode)) ∨ KeptLink fin e i nd
    | _ => False

def PlacedDirs (pre : Fs) (es : List Entry) (fin : Fs) : Prop :=
  ∀ e ∈ es, e.isDir = true → PlacedDir pre fin e

/-- two regular entries the source had as one inode and that a hard link can represent -/
def SameSourceInode (a b : Entry) : Prop :=
  match a.kind, b.kind with
  | .reg _ (some k), .reg _ (some k') => k = k' ∧ canHardlink a b = true
  | _, _ => False

instance (a b : Entry) : Decidable (SameSourceInode a b) := by
  unfold SameSourceInode; split <;> infer_instance

def Hardlinked (es : List Entry) (fin : Fs) : Prop :=
  ∀ a ∈ es, ∀ b ∈ es, SameSourceInode a b →
    (fin.view a.loc).map (·.1) = (fin.view b.loc).map (·.1)

def Untouchable (pre : Fs) (es : List Entry) (q : Path) : Prop :=
  q ∉ locs es ∧ ¬ MissingParent pre es q ∧ ¬ TouchedTmp pre es q

instance (pre : Fs) (es : List Entry) (q : Path) : Decidable (Untouchable pre es q) := by
  unfold Untouchable; infer_instance

/-- no path outside the contents set (other than missing parents and `'#new'` temporaries) is created,
changed or removed — for **every** path -/
def Frame (pre : Fs) (es : List Entry) (fin : Fs) : Prop :=
  ∀ q : Path, Untouchable pre es q → fin.view q = pre.view q

def ParentsAreDirs (pre : Fs) (es : List Entry) (fin : Fs) : Prop :=
  ∀ q : Path, q ∉ locs es → MissingParent pre es q →
    fin.view q = none ∨ ∃ j nd, fin.view q = some (j, nd) ∧ nd.kind = .dir

def NoTmpLeft (pre : Fs) (es : List Entry) (fin : Fs) : Prop :=
  ∀ q : Path, q ∉ locs es → TouchedTmp pre es q → fin.view q = none

/-- the specification -/
structure Placed (pre : Fs) (es : List Entry) (fin : Fs) : Prop where
  nondirs : PlacedNonDirs es fin
  dirs : PlacedDirs pre es fin
  hardlinks : Hardlinked es fin
  frame : Frame pre es fin
  parents : ParentsAreDirs pre es fin
  tmps : NoTmpLeft pre es fin

/-! ## guards: the input classes the theorem is stated for -/

/-- a contents set is keyed by location -/
def DistinctLocs (es : List Entry) : Prop := (locs es).Nodup

/-- no entry is, or lies below, a path named like the `'#new'` temporary of another entry (open finding
`C18-tmp-name-clash`) -/
def NoTmpClash (es : List Entry) : Prop := ∀ a ∈ es, ∀ b ∈ es, ¬ (tmpOf a.loc <:+ b.loc)

/-- the contents describe a tree: only directory entries have entries below them -/
def TreeShaped (es : List Entry) : Prop := ∀ a ∈ es, ∀ b ∈ es, ProperAnc a.loc b.loc → a.isDir = true

/-- no symlink entry goes where a directory is (open finding `C18-symlink-over-directory`) -/
def NoSymOverDir (pre : Fs) (es : List Entry) : Prop :=
  ∀ e ∈ es, e.isSym = true → ¬ ∃ j nd, pre.view e.loc = some (j, nd) ∧ nd.kind = .dir

/-- a symlink that sits where a directory entry goes has no second name (hard-linked symlinks are legal POSIX,
but `lchown` on the link would then reach a path outside the contents) -/
def SymAtDirSolo (pre : Fs) (es : List Entry) : Prop :=
  ∀ e ∈ es, e.isDir = true → ∀ q ∈ pre.ents.map (·.1), q ≠ e.loc →
    match pre.view e.loc, pre.view q with
    | some (i, nd), some (j, _) => (∃ t, nd.kind = .sym t) → j ≠ i
    | _, _ => True

/-- when the offset root itself is created by the merge, it is a parent of the entries, not an entry -/
def RootGuard (withOffset : Bool) (pre : Fs) (es : List Entry) : Prop :=
  withOffset = true → pre.view [] = none → [] ∉ locs es ∧ es ≠ []

instance (off : Bool) (pre : Fs) (es : List Entry) : Decidable (RootGuard off pre es) := by
  unfold RootGuard; infer_instance

/-- entries of one source inode carry the same data (they are the same file) -/
def HardlinkConsistent (es : List Entry) : Prop :=
  ∀ a ∈ es, ∀ b ∈ es, SameSourceInode a b →
    match a.kind, b.kind with
    | .reg d _, .reg d' _ => d = d'
    | _, _ => True

instance (es : List Entry) : Decidable (DistinctLocs es) := by unfold DistinctLocs; infer_instance
instance (es : List Entry) : Decidable (NoTmpClash es) := by unfold NoTmpClash; infer_instance
instance (es : List Entry) : Decidable (TreeShaped es) := by unfold TreeShaped; infer_instance
instance (pre : Fs) (es : List Entry) : Decidable (NoSymOverDir pre es) := by unfold NoSymOverDir; infer_instance
instance (k : Kind) : Decidable (∃ t, k = .sym t) :=
  match k with
  | .sym t => isTrue ⟨t, rfl⟩
  | .dir => isFalse (by simp)
  | .file _ => isFalse (by simp)
  | .fifo => isFalse (by simp)

instance (pre : Fs) (es : List Entry) : Decidable (SymAtDirSolo pre es) := by
  unfold SymAtDirSolo
  refine @List.decidableBAll _ _ (fun e => ?_) es
  refine @instDecidableForall _ _ _ ?_
  refine @List.decidableBAll _ _ (fun q => ?_) _
  refine @instDecidableForall _ _ _ ?_
  split <;> infer_instance

instance (es : List Entry) : Decidable (HardlinkConsistent es) := by
  unfold HardlinkConsistent
  refine @List.decidableBAll _ _ (fun a => ?_) es
  refine @List.decidableBAll _ _ (fun b => ?_) es
  refine @instDecidableForall _ _ _ ?_
  split <;> infer_instance

/-! ## executable evaluation (driver): the universally quantified clauses are checked on the finitely many
paths present before or after — `Frame_of_bounded` etc. in `Proofs/C18` show this is the same thing. -/

def keys (fs : Fs) : List Path := fs.ents.map (·.1)

def FrameOn (qs : List Path) (pre : Fs) (es : List Entry) (fin : Fs) : Prop :=
  ∀ q ∈ qs, Untouchable pre es q → fin.view q = pre.view q
def ParentsOn (qs : List Path) (pre : Fs) (es : List Entry) (fin : Fs) : Prop :=
  ∀ q ∈ qs, q ∉ locs es → MissingParent pre es q →
    fin.view q = none ∨ ∃ j nd, fin.view q = some (j, nd) ∧ nd.kind = .dir
def NoTmpOn (qs : List Path) (pre : Fs) (es : List Entry) (fin : Fs) : Prop :=
  ∀ q ∈ qs, q ∉ locs es → TouchedTmp pre es q → fin.view q = none

instance (pre fin : Fs) (e : Entry) : Decidable (PlacedDir pre fin e) := by
  unfold PlacedDir; split
  · infer_instance
  · split <;> infer_instance

instance (es : List Entry) (fin : Fs) : Decidable (PlacedNonDirs es fin) := by unfold PlacedNonDirs; infer_instance
instance (pre : Fs) (es : List Entry) (fin : Fs) : Decidable (PlacedDirs pre es fin) := by unfold PlacedDirs; infer_instance
instance (es : List Entry) (fin : Fs) : Decidable (Hardlinked es fin) := by unfold Hardlinked; infer_instance
instance (qs : List Path) (pre : Fs) (es : List Entry) (fin : Fs) : Decidable (FrameOn qs pre es fin) := by unfold FrameOn; infer_instance
instance (qs : List Path) (pre : Fs) (es : List Entry) (fin : Fs) : Decidable (ParentsOn qs pre es fin) := by unfold ParentsOn; infer_instance
instance (qs : List Path) (pre : Fs) (es : List Entry) (fin : Fs) : Decidable (NoTmpOn qs pre es fin) := by unfold NoTmpOn; infer_instance

/-- names of the clauses of `Placed` that fail (`[]` = the property holds on this before/after pair) -/
def placedFailures (pre : Fs) (es : List Entry) (fin : Fs) : List String :=
  let qs := keys pre ++ keys fin
  (if PlacedNonDirs es fin then [] else ["nondirs"]) ++
  (if PlacedDirs pre es fin then [] else ["dirs"]) ++
  (if Hardlinked es fin then [] else ["hardlinks"]) ++
  (if FrameOn qs pre es fin then [] else ["frame"]) ++
  (if ParentsOn qs pre es fin then [] else ["parents"]) ++
  (if NoTmpOn qs pre es fin then [] else ["tmps"])

/-- names of the guards an input does not satisfy -/
def guardFailures (pre : Fs) (es : List Entry) : List String :=
  (if RootGuard true pre es then [] else ["root"]) ++
  (if DistinctLocs es then [] else ["distinct"]) ++
  (if NoTmpClash es then [] else ["tmpclash"]) ++
  (if TreeShaped es then [] else ["tree"]) ++
  (if NoSymOverDir pre es then [] else ["symoverdir"]) ++
  (if HardlinkConsistent es then [] else ["hardlinkdata"]) ++
  (if SymAtDirSolo pre es then [] else ["symlinkshared"])

end Pkgcore.C18.Spec
