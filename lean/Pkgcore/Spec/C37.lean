import Pkgcore.Model.C37
/-!
# C37 specification — a reference reader and evaluator for Bugzilla search parameters

Written from the property text and Bugzilla's documented search semantics, independently of how the code
renders:

* plain parameters: values of one key are ORed, different keys are ANDed;
* boolean chart: the parameters `f<N>`, `o<N>`, `v<N>`, `j<N>`, `n<N>` are grouped *by slot number* (their
  position in the URL is irrelevant); slots are read in increasing order; `f<N>=OP` opens a group joined by
  `j<N>` (default `AND`), `f<N>=CP` closes the innermost open group, any other `f<N>` is a condition with
  operator `o<N>`, values `v<N>…` and negation `n<N>=1`; the top level is a conjunction.
  The reader is deliberately strict: every slot `1..n` must carry exactly one `f`, no chart parameter may
  lie outside `1..n`, group markers carry nothing else, all groups must be closed.
* the meaning of a parameter list under an interpretation of the atomic facts (`S key value`: the bug has
  this value for the plain key; `I field op values`: the un-negated condition holds for the bug).
-/
namespace Pkgcore.C37.Spec
open Pkgcore.C37

def slotOf : Key → Option Nat
  | .f k | .o k | .v k | .j k | .n k => some k
  | _ => none

def isF : Key → Bool
  | .f _ => true
  | _ => false

/-- the values of all parameters with key `k`, in order of appearance -/
def valuesOf (ps : List Param) (k : Key) : List String := (ps.filter (fun p => p.1 = k)).map (·.2)

/-- what a chart denotes (no client-side marks such as `splittable`) -/
inductive Tree
  | crit (field op : String) (values : List String) (negate : Bool)
  | group (join : String) (children : List Tree)
  deriving Repr

/-- an open group while reading -/
structure Frame where
  join : String
  children : List Tree
  deriving Repr

def Frame.push (fr : Frame) (t : Tree) : Frame := { fr with children := fr.children ++ [t] }

/-- read slot `k` -/
def step (ps : List Param) (stack : List Frame) (k : Nat) : Option (List Frame) :=
  match valuesOf ps (.f k) with
  | [fld] =>
    if fld = "OP" then
      if valuesOf ps (.o k) = [] ∧ valuesOf ps (.v k) = [] ∧ valuesOf ps (.n k) = [] then
        match valuesOf ps (.j k) with
        | [] => some (⟨"AND", []⟩ :: stack)
        | [j] => some (⟨j, []⟩ :: stack)
        | _ => none
      else none
    else if fld = "CP" then
      if valuesOf ps (.o k) = [] ∧ valuesOf ps (.v k) = [] ∧ valuesOf ps (.n k) = [] ∧ valuesOf ps (.j k) = [] then
        match stack with
        | top :: parent :: rest => some (parent.push (.group top.join top.children) :: rest)
        | _ => none
      else none
    else
      match valuesOf ps (.o k), valuesOf ps (.j k), stack with
      | [op], [], top :: rest =>
        let ns := valuesOf ps (.n k)
        if ns = [] ∨ ns = ["1"] then some (top.push (.crit fld op (valuesOf ps (.v k)) (ns = ["1"])) :: rest)
        else none
      | _, _, _ => none
  | _ => none

/-- a chart parameter must belong to one of the slots `1..n` -/
def slotInBounds (n : Nat) (p : Param) : Bool :=
  match slotOf p.1 with
  | some k => decide (1 ≤ k ∧ k ≤ n)
  | none => true

/-- the chart of a parameter list; `none` = not a well formed chart -/
def readCharts (ps : List Param) : Option (List Tree) :=
  let n := (ps.filter (fun p => isF p.1)).length
  if ps.all (slotInBounds n) then
    match (List.range' 1 n).foldlM (step ps) [⟨"AND", []⟩] with
    | some [root] => some root.children
    | _ => none
  else none

mutual
def evalTree (I : String → String → List String → Bool) : Tree → Bool
  | .crit f o vs neg => I f o vs != neg
  | .group j ts => if j = "OR" then evalAny I ts else evalAll I ts
def evalAll (I : String → String → List String → Bool) : List Tree → Bool
  | [] => true
  | t :: ts => evalTree I t && evalAll I ts
def evalAny (I : String → String → List String → Bool) : List Tree → Bool
  | [] => false
  | t :: ts => evalTree I t || evalAny I ts
end

/-- plain parameters: every key that occurs has at least one of its values satisfied -/
def simpleHolds (S : String → String → Bool) (ps : List Param) : Bool :=
  ps.all fun p => match p.1 with
    | .simple k => ps.any fun p' => p'.1 == Key.simple k && S k p'.2
    | _ => true

/-- **the meaning of a rendered search** for one bug (described by `S` and `I`) -/
def meaning (S : String → String → Bool) (I : String → String → List String → Bool) (ps : List Param) : Bool :=
  simpleHolds S ps && (match readCharts ps with | some ts => evalAll I ts | none => false)

/-- what a `Chart` of the code denotes -/
def erase : Chart → Tree
  | .crit c => .crit c.field c.op c.values c.negate
  | .group j ts => .group j (eraseList ts)
where
  eraseList : List Chart → List Tree
    | [] => []
    | t :: ts => erase t :: eraseList ts

/-- group markers are balanced: scanning the `f` values, depth never drops below zero and ends at zero -/
def balanced : List String → Nat → Bool
  | [], d => d == 0
  | x :: r, d =>
    if x = "OP" then balanced r (d + 1)
    else if x = "CP" then d > 0 && balanced r (d - 1)
    else balanced r d

/-- all values the plain entries list for key `k` -/
def mentioned (simple : List (String × List String)) (k : String) : List String :=
  (simple.filter (fun kv => kv.1 = k)).flatMap (·.2)

/-- decidable form of the guard of `and_is_conjunction_partial`: every plain key that both operands constrain
carries the same value set on both sides (the complement is the input class of finding
`C37-same-key-values-unioned`) -/
def sameKeyGuardB (a b : BugQuery) : Bool :=
  a.simple.all fun kv =>
    let ma := mentioned a.simple kv.1
    let mb := mentioned b.simple kv.1
    ma.isEmpty || mb.isEmpty || (ma.all (fun x => mb.contains x) && mb.all (fun x => ma.contains x))

end Pkgcore.C37.Spec
