import Pkgcore.Model.C49
/-!
# C49 specification — what PMS says the metadata of an ebuild is

Written over the ebuild/eclass tree, without any shell state:

* `own v body start` — the value a file gives `v` by its *own* statements (inherit lines skipped);
* `sourced tree` — every eclass instance in the order its sourcing completes (post-order);
* accumulated keys: the ebuild's own value followed by the own value of every sourced eclass;
* other keys: the last assignment in source order, wherever it stands (ebuild or eclass);
* INHERITED = the names of `sourced`; DEFINED_PHASES = the phase functions defined anywhere.
-/
namespace Pkgcore.C49.Spec
open Pkgcore.C49

/-- the effect of a file's own statements on variable `v` -/
def own (v : Str) : List Stmt → Option Str → Option Str
  | [], cur => cur
  | .set w val :: rest, cur => own v rest (if w = v then some val else cur)
  | .append w val :: rest, cur => own v rest (if w = v then some (cur.getD [] ++ ' ' :: val) else cur)
  | .unset w :: rest, cur => own v rest (if w = v then none else cur)
  | _ :: rest, cur => own v rest cur

mutual
/-- eclass instances in the order their sourcing completes -/
def sourced : List Stmt → List (Str × List Stmt)
  | [] => []
  | .inherit ecls :: rest => sourcedEcls ecls ++ sourced rest
  | _ :: rest => sourced rest
def sourcedEcls : List (Str × List Stmt) → List (Str × List Stmt)
  | [] => []
  | (n, body) :: rest => sourced body ++ (n, body) :: sourcedEcls rest
end

/-- the value of an accumulated variable contributed by the eclasses: own values, non-empty ones, in order -/
def eclassValue (v : Str) (tree : List Stmt) : Str :=
  ((sourced tree).map fun e => (own v e.2 none).getD []).foldl (fun a x => if x = [] then a else joinSp a x) []

mutual
/-- all statements in the order bash executes them, with the eclass name they run under -/
def flat (me : Str) : List Stmt → List (Str × Stmt)
  | [] => []
  | .inherit ecls :: rest => flatEcls ecls ++ flat me rest
  | s :: rest => (me, s) :: flat me rest
def flatEcls : List (Str × List Stmt) → List (Str × Stmt)
  | [] => []
  | (n, body) :: rest => flat n body ++ flatEcls rest
end

/-- the final value of a variable that is *not* accumulated: the statements touching it, in source order -/
def plainValue (v : Str) (tree : List Stmt) : Option Str := own v ((flat [] tree).map (·.2)) none

/-- functions defined anywhere in the tree; `EXPORT_FUNCTIONS p₁ … pₙ` in an eclass defines `p₁ … pₙ`
(PMS: "defines a function `p` that calls `<eclass>_p`" — wherever the call stands relative to the
definition of `<eclass>_p`) -/
def definedFuncs (tree : List Stmt) : List Str :=
  (flat [] tree).flatMap fun ms => match ms.2 with
    | .func n => [n]
    | .export ps => ps
    | _ => []

/-- the direct inherits of the ebuild -/
def directInherits : List Stmt → List Str
  | [] => []
  | .inherit ecls :: rest => ecls.map (·.1) ++ directInherits rest
  | _ :: rest => directInherits rest

/-- the value PMS gives key `k` before whitespace normalisation -/
def keyValue (e : EapiInfo) (tree : List Stmt) (k : Str) : Option Str :=
  if k ∈ e.accumulated then
    let ownV : Option Str :=
      if k = kRDEPEND ∧ e.rdependDefault ∧ own k tree none = none
      then some ((own kDEPEND tree none).getD []) else own k tree none
    let cur := ownV.getD []
    some (cur ++ (if cur ≠ [] then [' '] else []) ++ eclassValue k tree)
  else plainValue k tree

def metadata (e : EapiInfo) (tree : List Stmt) : Metadata :=
  { keys := e.keys.filterMap fun k =>
      match keyValue e tree k with
      | some v => if v = [] then none else some (k, normalise v)
      | none => none,
    definedPhases := sortStrs ((e.phases.filter fun p => (definedFuncs tree).contains p.1).map (·.2)).eraseDups,
    inherit_ := normalise (joinWords (directInherits tree)),
    eclasses := (sourced tree).map (·.1) }

end Pkgcore.C49.Spec
