import Pkgcore.Model.C46
/-!
# C46 specification — which distfiles cleaning may touch and which it must keep, from the property text
-/
namespace Pkgcore.C46.Spec
open Pkgcore.C46

/-- selected by the cleaning targets: with a target restriction the files its file-name patterns select — which
requires that the restriction matches some package at all —, otherwise every file of the distdir -/
def selectedByTargets (i : Input) (f : String) : Prop :=
  f ∈ names i ∧ (i.opts.hasRestrict = true → f ∈ i.selected ∧ ∃ p ∈ i.repo, p.targeted = true)

/-- passes the `--modified` / `--size` filters: older than the time given, smaller than the size given -/
def passesFilters (i : Input) (f : String) : Prop :=
  ∃ fi ∈ i.files, fi.name = f ∧ (∀ t, i.opts.modified = some t → fi.mtime < t) ∧ (∀ s, i.opts.size = some s → fi.size < s)

/-- a file that must be kept under the options given -/
def needed (i : Input) (f : String) : Prop :=
  (i.opts.excludeInstalled = true ∧ ∃ l ∈ i.installed, f ∈ l) ∨
  (i.opts.excludeExists = true ∧ ∃ p ∈ i.repo, f ∈ p.distfiles) ∨
  (i.opts.excludeFetchRestricted = true ∧ ∃ p ∈ i.repo, p.fetchRestricted = true ∧ f ∈ p.distfiles) ∨
  (i.opts.hasExclude = true ∧ ∃ p ∈ i.repo, p.excluded = true ∧ f ∈ p.distfiles)

end Pkgcore.C46.Spec
