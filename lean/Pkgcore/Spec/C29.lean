import Pkgcore.Model.C29
/-!
# C29 specification — from the property text

"At every crash point during installing, replacing or removing a package … a fresh view of that repository
lists either the old state or the new state of the package, never a partially written package and never
neither."

A *view* maps each listed entry to everything a reader gets from it (all metadata files of a vdb entry, the
whole tarball of a binpkg), so a partially written or partially deleted package is a view different from
both the old and the new one.  A *crash point* is any element of `states ops st` (= any prefix of the
operation list, `crash_states_are_prefixes`).
-/
namespace Pkgcore.C29.Spec
open Pkgcore.C29

abbrev View (α : Type) := Name → Option α

def addPkg {α : Type} (v : View α) (n : Name) (d : α) : View α := fun m => if m = n then some d else v m
def removePkg {α : Type} (v : View α) (n : Name) : View α := fun m => if m = n then none else v m

/-- every crash state shows the old view or the new view, and the completed routine shows the new one -/
def CrashConsistent {α : Type} (view : Store → View α) (ops : List Op) (st : Store) (new : View α) : Prop :=
  (∀ s ∈ states ops st, view s = view st ∨ view s = new) ∧ view (run ops st) = new

/-- the same with one more admissible crash view (used only for the two replace shapes that cannot be atomic) -/
def CrashConsistentVia {α : Type} (view : Store → View α) (ops : List Op) (st : Store) (mid new : View α) : Prop :=
  (∀ s ∈ states ops st, view s = view st ∨ view s = mid ∨ view s = new) ∧ view (run ops st) = new

end Pkgcore.C29.Spec
