import Pkgcore.Model.C22
/-!
# C22 specification — maps keyed by normalised path

Written from the property text: a contents set *is* a finite map from normalised paths to entries, and every
operation is the corresponding pointwise operation on such maps.  No lists, no iteration order, no dict.
"Normalised" is `os.path.normpath` (the model's `normpath`, whose own laws — idempotence, normal form — are
theorems).  Absolute normalised paths are also given structurally (`render k comps`): that is the vocabulary in
which "prefix" and "ancestor" are defined.
-/
namespace Pkgcore.C22.Spec
open Pkgcore.C22

/-- a map keyed by path -/
abbrev Map := Path → Option Entry

def Map.empty : Map := fun _ => none
def Map.insert (m : Map) (e : Entry) : Map := fun p => if p = e.loc then some e else m p
def Map.erase (m : Map) (k : Path) : Map := fun p => if p = k then none else m p
/-- inserting a sequence of entries one after the other (later ones replace earlier ones) -/
def Map.insertAll (m : Map) (l : List Entry) : Map := l.foldl Map.insert m
def Map.ofList (l : List Entry) : Map := Map.insertAll Map.empty l
def Map.has (m : Map) (p : Path) : Bool := (m p).isSome

/-- the key an argument names: an entry names its location, a string names its normalisation -/
def key : Arg → Path
  | .ent e => e.loc
  | .path s => normpath s

/-- What an iterable of entries / path strings says about path `p`: `none` — `p` is not named;
`some none` — the last item naming `p` is a bare path string; `some (some e)` — it is the entry `e`. -/
def view : List Arg → Path → Option (Option Entry)
  | [], _ => none
  | a :: as, p => (view as p).or (if key a = p then some a.entry? else none)

/-- is `p` one of the keys of the argument -/
def named (o : Other) (p : Path) : Bool := (view o.args p).isSome

/-- the argument as a map (only meaningful when every item is an entry) -/
def argMap (o : Other) : Map := fun p => (view o.args p).bind id

/-- every item of the argument carries a value (is an entry) -/
def AllEntries (o : Other) : Prop := ∀ a ∈ o.args, ∃ e, a = .ent e

/-- `self - other` -/
def difference (m : Map) (o : Other) : Map := fun p => if named o p then none else m p
/-- `self` restricted to the keys of other (in-place intersection) -/
def restrict (m : Map) (o : Other) : Map := fun p => if named o p then m p else none
/-- value of an intersection at one path: this map's value `mv`, what the argument says `v` -/
def interVal (mv : Option Entry) (v : Option (Option Entry)) : Option Entry :=
  match mv, v with
  | some e, some none => some e
  | some _, some (some e') => some e'
  | _, _ => none
/-- intersection returning a new set: keys in both; the value is the one supplied by the argument when it
supplies one (an entry), this map's own value when the argument only names the path -/
def intersection (m : Map) (o : Other) : Map := fun p => interVal (m p) (view o.args p)
/-- union, this map's values winning on common keys -/
def union (m o : Map) : Map := fun p => (m p).or (o p)
/-- exactly one of the two -/
def symmVal (a b : Option Entry) : Option Entry :=
  match a, b with
  | some e, none => some e
  | none, some e => some e
  | _, _ => none
/-- symmetric difference -/
def symmDiff (m o : Map) : Map := fun p => symmVal (m p) (o p)
/-- update: the argument's values winning -/
def updated (m o : Map) : Map := union o m

def Subset (m : Map) (o : Other) : Prop := ∀ p, m.has p → named o p
def Superset (m : Map) (o : Other) : Prop := ∀ p, named o p → m.has p
def Disjoint (m : Map) (o : Other) : Prop := ∀ p, ¬ (m.has p ∧ named o p)

/-! ### absolute normalised paths, structurally -/

/-- a component of a normalised absolute path: non-empty, no `/`, neither `.` nor `..` -/
def CleanComp (c : List Char) : Prop := c ≠ [] ∧ '/' ∉ c ∧ c ≠ dot ∧ c ≠ dotdot
def Clean (cs : List (List Char)) : Prop := ∀ c ∈ cs, CleanComp c

/-- `k` leading slashes (1, or 2: POSIX keeps exactly two) followed by the components joined with `/` -/
def render (k : Nat) (cs : List (List Char)) : Path := List.replicate k '/' ++ joinSlash cs

/-- `p` is an absolute normalised path -/
def AbsNormal (p : Path) : Prop := ∃ k cs, (k = 1 ∨ k = 2) ∧ Clean cs ∧ p = render k cs

/-- `a` is a proper ancestor of `p`: same root, a strictly shorter run of leading components -/
def ProperAncestor (a p : Path) : Prop :=
  ∃ k cs n, (k = 1 ∨ k = 2) ∧ Clean cs ∧ p = render k cs ∧ n < cs.length ∧ a = render k (cs.take n)

/-- relocation of `p` from under `old` to under `new` (all three in structural form): swap the leading run of
components (and the root) -/
def Relocated (old new p q : Path) : Prop :=
  ∃ k cs0 rel k' cs1, (k = 1 ∨ k = 2) ∧ (k' = 1 ∨ k' = 2) ∧ Clean cs0 ∧ Clean rel ∧ Clean cs1 ∧
    old = render k cs0 ∧ p = render k (cs0 ++ rel) ∧ new = render k' cs1 ∧ q = render k' (cs1 ++ rel)

end Pkgcore.C22.Spec
