import Pkgcore.Model.C44
import Pkgcore.Spec.C01
/-!
# C44 specification — what a package query string selects, written from the property text

A *glob query* is given structurally: optional version operator with a version, optional category pattern,
package pattern, optional slot and sub-slot patterns, optional repository.  It selects the packages whose fields
match each pattern **as a whole-string shell pattern** (`*` is the only metacharacter), whose version stands in
the operator's relation to the query version in the PMS order (C01), and whose repository is the named one.
`render` is the concrete syntax.  No regular expressions, no restriction objects.
-/
namespace Pkgcore.C44.Spec
open Pkgcore.C44
open Pkgcore.C01 (Ver)

/-- shell pattern matching of the whole string; `*` matches any (possibly empty) run of characters -/
def globMatch : Str → Str → Bool
  | [], s => s.isEmpty
  | c :: p, s =>
    if c = '*' then
      globMatch p s || (match s with | [] => false | _ :: s' => globMatch (c :: p) s')
    else
      match s with
      | [] => false
      | x :: s' => x = c && globMatch p s'
termination_by p s => p.length + s.length

structure Query where
  op : Option (Str × Str × Ver)          -- operator, version text, the version it denotes
  cat : Option Str
  pkg : Str
  slot : Option (Str × Option Str)       -- slot pattern, sub-slot pattern
  repo : Option Str

/-- concrete syntax: `[op] [cat/] pkg [-ver] [:slot[/subslot]] [::repo]` -/
def render (q : Query) : Str :=
  (match q.op with | some (o, _, _) => o | none => []) ++
  (match q.cat with | some c => c ++ ['/'] | none => []) ++
  q.pkg ++
  (match q.op with | some (_, v, _) => '-' :: v | none => []) ++
  (match q.slot with
    | none => []
    | some (s, none) => ':' :: s
    | some (s, some ss) => ':' :: s ++ '/' :: ss) ++
  (match q.repo with | some r => ':' :: ':' :: r | none => [])

/-- the operator's relation on the PMS order; `~` ignores the revisions -/
def versionHolds (op : Str) (v : Ver) (p : Pkg) : Bool :=
  let full := C01.Spec.pmsCmp p.ver (some p.rev) v (some [])
  if op = ['<'] then full == .lt
  else if op = ['<', '='] then full != .gt
  else if op = ['='] then full == .eq
  else if op = ['>', '='] then full != .lt
  else if op = ['>'] then full == .gt
  else if op = ['~'] then C01.Spec.pmsCmp p.ver none v none == .eq
  else false

def selects (q : Query) (p : Pkg) : Bool :=
  (match q.cat with | some c => globMatch c p.category | none => true) &&
  globMatch q.pkg p.package &&
  (match q.op with | some (o, _, v) => versionHolds o v p | none => true) &&
  (match q.slot with
    | none => true
    | some (s, none) => globMatch s p.slot
    | some (s, some ss) => globMatch s p.slot && globMatch ss p.subslot) &&
  (match q.repo with | some r => p.repo = r | none => true)

end Pkgcore.C44.Spec
