import Pkgcore.Model.C04
import Pkgcore.Spec.C01
/-!
# C04 specification — PMS dependency semantics of an atom (PMS 8.3), from the property text

*"An atom matches a package exactly when category and name are equal, the version satisfies the operator
(<, <=, =, ~ ignoring the revision, >=, >, and =…* meaning the written version components are a prefix of the
package version on component boundaries), any slot, sub-slot and repository constraints are equal, and every USE
dependency holds, using the (+)/(-) default for flags absent from IUSE.  A blocker matches the same packages as its
non-blocking form."*

Version comparisons are C01's `pmsCmp` (the PMS algorithm), not the code's `ver_cmp`.
-/
namespace Pkgcore.C04.Spec
open Pkgcore.C01 Pkgcore.C01.Spec Pkgcore.C02 Pkgcore.C04

/-- one written component of a version -/
inductive Tok
  | first (s : Str)           -- the first numeric component
  | comp (s : Str)            -- a later numeric component
  | letter (c : Char)
  | suf (s : Suf) (n : Str)   -- `_alpha` … `_p` with its (possibly empty) number
  | rev (n : Str)             -- `-rN`
  deriving DecidableEq, Repr

/-- the components of a version in writing order; revision 0 is the same as no revision (PMS 3.2) -/
def toks (v : Ver) (r : Str) : List Tok :=
  (match v.comps with
   | [] => []
   | c :: cs => Tok.first c :: cs.map Tok.comp) ++
  (v.letter.map Tok.letter).toList ++
  v.sufs.map (fun x => Tok.suf x.1 x.2) ++
  (if natOfDigits r = 0 then [] else [Tok.rev r])

/-- two components are the same for PMS: numbers by Algorithms 3.2/3.3, letters literally, suffixes by
kind and number (missing number = 0), revisions as integers -/
def tokEq : Tok → Tok → Bool
  | .first a, .first b => natOfDigits a == natOfDigits b
  | .comp a, .comp b => pmsComp a b == .eq
  | .letter a, .letter b => a == b
  | .suf s n, .suf t m => s == t && natOfDigits n == natOfDigits m
  | .rev n, .rev m => natOfDigits n == natOfDigits m
  | _, _ => false

/-- `l₁` is a prefix of `l₂` up to `eqv` -/
def prefixBy {α : Type} (eqv : α → α → Bool) : List α → List α → Bool
  | [], _ => true
  | _ :: _, [] => false
  | a :: as, b :: bs => eqv a b && prefixBy eqv as bs

/-- `=cat/pkg-gv[-rgr]*`: the written components are a prefix of the package version's components -/
def globSpec (gv : Ver) (gr : Str) (v : Ver) (r : Str) : Bool :=
  prefixBy tokEq (toks gv gr) (toks v r)

/-- the operator semantics: package version `pv-rpr` against the atom's `v-rr` -/
def opSpec (op : Op) (v : Ver) (r : Str) (pv : Ver) (pr : Str) : Bool :=
  match op with
  | .lt => pmsCmp pv (some pr) v (some r) == .lt
  | .le => pmsCmp pv (some pr) v (some r) != .gt
  | .eq => pmsCmp pv (some pr) v (some r) == .eq
  | .ge => pmsCmp pv (some pr) v (some r) != .lt
  | .gt => pmsCmp pv (some pr) v (some r) == .gt
  | .tilde => pmsCmp pv none v none == .eq          -- revisions ignored
  | .glob => globSpec v r pv pr

/-- the state of the dep's flag in the package: its real state when the package has the flag (IUSE),
otherwise the `(+)`/`(-)` default (without a default: whatever `use` says) -/
def flagState (p : Pkg) (u : UseDep) : Bool :=
  if p.iuse.contains u.flag then p.use.contains u.flag
  else match u.dflt with
    | some d => d
    | none => p.use.contains u.flag

/-- `[flag]` wants it enabled, `[-flag]` disabled -/
def useHolds (p : Pkg) (u : UseDep) : Bool := flagState p u == u.on

def optEq (c : Option Str) (x : Str) : Bool :=
  match c with
  | none => true
  | some s => s == x

/-- PMS dependency semantics; `blocks`, `strong` (and the slot operator, which only matters at
build time) are deliberately not consulted -/
def matchSpec (a : Atom) (p : Pkg) : Bool :=
  a.cat == p.cat && a.pkg == p.pkg &&
  (match a.vop with
   | none => true
   | some (op, v, r) => opSpec op v r p.ver p.rev) &&
  optEq a.slot p.slot && optEq a.subslot p.subslot && optEq a.repo p.repo &&
  (match a.use with
   | none => true
   | some deps => deps.all (useHolds p))

def vopWF : Option (Op × Ver × Str) → Prop
  | none => True
  | some (_, v, _) => WF v

/-- what `atom.__init__` guarantees: a valid version, and a sub-slot only together with a slot -/
def Atom.WF (a : Atom) : Prop := vopWF a.vop ∧ (a.subslot.isSome → a.slot.isSome)
def Pkg.WF (p : Pkg) : Prop := C01.Spec.WF p.ver

end Pkgcore.C04.Spec
