-- GENERATED from /repo by harness/props/c01.py (gen_tables); do not edit
namespace Pkgcore.Generated.C01
def suffixValue : List (String × Int) := [("alpha", -4), ("beta", -3), ("pre", -2), ("rc", -1), ("p", 0)]
def str2op : List (String × List Int) := [("<", [-1]), ("<=", [-1, 0]), ("=", [0]), (">=", [0, 1]), (">", [1])]
end Pkgcore.Generated.C01
