-- GENERATED from /repo by harness/props/c01.py (gen_tables); do not edit
namespace Pkgcore.Generated.C01
def suffixValue : List (String × Int) := [("pre", -2), ("p", 1), ("alpha", -4), ("beta", -3), ("rc", -1)]
def str2op : List (String × List Int) := [("<", [-1]), ("<=", [-1, 0]), ("=", [0]), (">=", [0, 1]), (">", [1])]
end Pkgcore.Generated.C01
