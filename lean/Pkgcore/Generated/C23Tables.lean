-- GENERATED from /repo by harness/props/c23.py (gen_tables); do not edit
namespace Pkgcore.Generated.C23
def preMergeOrder : List String := ["ldconfig", "fix_uid_perms", "fix_set_bits", "fix_gid_perms", "detect_world_writable", "InfoRegen", "CommonDirectoryModes"]
def replacePreMergeOrder : List String := ["ldconfig", "fix_uid_perms", "fix_set_bits", "fix_gid_perms", "detect_world_writable", "InfoRegen", "CommonDirectoryModes"]
def ebuildPreMergeOrder : List String := ["preinst_contents_reset", "ldconfig", "fix_uid_perms", "fix_set_bits", "fix_gid_perms", "detect_world_writable", "CommonDirectoryModes", "FixImageSymlinks", "InfoRegen", "ConfigProtectInstall"]
def triggerMeta : List (String × List String × List String × List Nat) := [("fix_uid_perms", ["pre_merge"], ["new_cset"], [0, 1]), ("fix_gid_perms", ["pre_merge"], ["new_cset"], [0, 1]), ("fix_set_bits", ["pre_merge"], ["new_cset"], [0, 1]), ("detect_world_writable", ["pre_merge"], ["new_cset"], [0, 1])]
def installingModes : List Nat := [0, 1]
end Pkgcore.Generated.C23
