-- GENERATED from /repo by harness/props/c29.py (gen_tables); do not edit
namespace Pkgcore.Generated.C29
def vdbSkipPrefixes : List String := [".tmp.", "-MERGING-"]
def vdbSkipSuffixes : List String := [".lockfile"]
def binSkipPrefixes : List String := [".tmp."]
def binSkipSuffixes : List String := [".lockfile"]
def binExtension : String := ".tbz2"
end Pkgcore.Generated.C29
