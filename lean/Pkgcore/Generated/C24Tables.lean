-- GENERATED from /repo by harness/props/c24.py (gen_tables); do not edit
namespace Pkgcore.Generated.C24
def md5StrSize : Nat := 32
def writePerms : Nat := 420
def rootUid : Nat := 0
def rootGid : Nat := 0
end Pkgcore.Generated.C24
