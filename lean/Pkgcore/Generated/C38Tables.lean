-- GENERATED from /repo and CPython by harness/props/c38.py (gen_tables); do not edit
namespace Pkgcore.Generated.C38
def spaceTable : List Nat := [9, 10, 11, 12, 13, 28, 29, 30, 31, 32, 133, 160, 5760, 8192, 8193, 8194, 8195, 8196, 8197, 8198, 8199, 8200, 8201, 8202, 8232, 8233, 8239, 8287, 12288]
def breakTable : List Nat := [10, 11, 12, 13, 28, 29, 30, 133, 8232, 8233]
def allKeywords : Char := Char.ofNat 42
def sameKeywords : Char := Char.ofNat 94
def noKeywords : Char := Char.ofNat 45
end Pkgcore.Generated.C38
