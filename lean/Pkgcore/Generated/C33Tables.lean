-- GENERATED from /repo by harness/props/c33.py (gen_tables); do not edit
namespace Pkgcore.Generated.C33
structure EapiRow where
  magic : String
  dodocAllowRecursive : Bool
  domanDetect : Bool
  domanOverride : Bool
  dosymRelative : Bool
  unpackCI : Bool
  archiveExts : List String
structure HelperRow where
  name : String
  insMode : Option Nat
  dirMode : Option Nat
  forcedIns : Bool
  insOwner : Option Nat
  insGroup : Option Nat
def eapis : List EapiRow := [
  ⟨"0", false, false, false, false, false, [".7Z", ".7z", ".LHA", ".LHa", ".RAR", ".Z", ".ZIP", ".a", ".bz2", ".deb", ".gz", ".jar", ".lha", ".lzh", ".lzma", ".rar", ".tar", ".tar.Z", ".tar.bz2", ".tar.gz", ".tar.lzma", ".tar.z", ".tbz", ".tbz2", ".tgz", ".z", ".zip"]⟩,
  ⟨"1", false, false, false, false, false, [".7Z", ".7z", ".LHA", ".LHa", ".RAR", ".Z", ".ZIP", ".a", ".bz2", ".deb", ".gz", ".jar", ".lha", ".lzh", ".lzma", ".rar", ".tar", ".tar.Z", ".tar.bz2", ".tar.gz", ".tar.lzma", ".tar.z", ".tbz", ".tbz2", ".tgz", ".z", ".zip"]⟩,
  ⟨"2", false, true, false, false, false, [".7Z", ".7z", ".LHA", ".LHa", ".RAR", ".Z", ".ZIP", ".a", ".bz2", ".deb", ".gz", ".jar", ".lha", ".lzh", ".lzma", ".rar", ".tar", ".tar.Z", ".tar.bz2", ".tar.gz", ".tar.lzma", ".tar.z", ".tbz", ".tbz2", ".tgz", ".z", ".zip"]⟩,
  ⟨"3", false, true, false, false, false, [".7Z", ".7z", ".LHA", ".LHa", ".RAR", ".Z", ".ZIP", ".a", ".bz2", ".deb", ".gz", ".jar", ".lha", ".lzh", ".lzma", ".rar", ".tar", ".tar.Z", ".tar.bz2", ".tar.gz", ".tar.lzma", ".tar.xz", ".tar.z", ".tbz", ".tbz2", ".tgz", ".xz", ".z", ".zip"]⟩,
  ⟨"4", true, true, true, false, false, [".7Z", ".7z", ".LHA", ".LHa", ".RAR", ".Z", ".ZIP", ".a", ".bz2", ".deb", ".gz", ".jar", ".lha", ".lzh", ".lzma", ".rar", ".tar", ".tar.Z", ".tar.bz2", ".tar.gz", ".tar.lzma", ".tar.xz", ".tar.z", ".tbz", ".tbz2", ".tgz", ".xz", ".z", ".zip"]⟩,
  ⟨"5", true, true, true, false, false, [".7Z", ".7z", ".LHA", ".LHa", ".RAR", ".Z", ".ZIP", ".a", ".bz2", ".deb", ".gz", ".jar", ".lha", ".lzh", ".lzma", ".rar", ".tar", ".tar.Z", ".tar.bz2", ".tar.gz", ".tar.lzma", ".tar.xz", ".tar.z", ".tbz", ".tbz2", ".tgz", ".xz", ".z", ".zip"]⟩,
  ⟨"6", true, true, true, false, true, [".7Z", ".7z", ".LHA", ".LHa", ".RAR", ".Z", ".ZIP", ".a", ".bz2", ".deb", ".gz", ".jar", ".lha", ".lzh", ".lzma", ".rar", ".tar", ".tar.Z", ".tar.bz2", ".tar.gz", ".tar.lzma", ".tar.xz", ".tar.z", ".tbz", ".tbz2", ".tgz", ".txz", ".xz", ".z", ".zip"]⟩,
  ⟨"7", true, true, true, false, true, [".7Z", ".7z", ".LHA", ".LHa", ".RAR", ".Z", ".ZIP", ".a", ".bz2", ".deb", ".gz", ".jar", ".lha", ".lzh", ".lzma", ".rar", ".tar", ".tar.Z", ".tar.bz2", ".tar.gz", ".tar.lzma", ".tar.xz", ".tar.z", ".tbz", ".tbz2", ".tgz", ".txz", ".xz", ".z", ".zip"]⟩,
  ⟨"8", true, true, true, true, true, [".Z", ".ZIP", ".a", ".bz2", ".deb", ".gz", ".jar", ".lzma", ".tar", ".tar.Z", ".tar.bz2", ".tar.gz", ".tar.lzma", ".tar.xz", ".tar.z", ".tbz", ".tbz2", ".tgz", ".txz", ".xz", ".z", ".zip"]⟩]
def helpers : List HelperRow := [
  ⟨"doins", none, none, false, none, none⟩,
  ⟨"dodoc", some 420, none, false, none, none⟩,
  ⟨"dohtml", some 420, none, false, none, none⟩,
  ⟨"doinfo", some 420, none, false, none, none⟩,
  ⟨"dodir", none, some 493, false, none, none⟩,
  ⟨"doexe", none, none, false, none, none⟩,
  ⟨"dobin", some 493, none, true, some 0, some 0⟩,
  ⟨"dosbin", some 493, none, true, some 0, some 0⟩,
  ⟨"dolib", none, none, false, none, none⟩,
  ⟨"dolib.so", none, none, false, none, none⟩,
  ⟨"dolib.a", none, none, false, none, none⟩,
  ⟨"doman", some 420, none, false, none, none⟩,
  ⟨"domo", some 420, none, false, none, none⟩,
  ⟨"dosym", none, none, false, none, none⟩,
  ⟨"dohard", none, none, false, none, none⟩,
  ⟨"keepdir", none, some 493, false, none, none⟩]
def dohtmlDefaultExts : List String := ["css", "gif", "htm", "html", "jpeg", "jpg", "js", "png"]
end Pkgcore.Generated.C33
