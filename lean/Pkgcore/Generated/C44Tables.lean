-- GENERATED from /repo by harness/props/c44.py (gen_tables); do not edit
namespace Pkgcore.Generated.C44
def globExtra : List Char := ['+', ',', '-', '.']
def validOps : List String := ["<", "<=", "=", ">", ">=", "~"]
end Pkgcore.Generated.C44
