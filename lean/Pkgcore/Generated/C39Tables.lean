-- GENERATED from /repo by harness/props/c39.py (gen_tables); do not edit
namespace Pkgcore.Generated.C39
def statusResolved : String := "RESOLVED"
def resolutionDuplicate : String := "DUPLICATE"
def fieldWire : List (String × String) := [("status", "status"), ("resolution", "resolution"), ("dupe_of", "dupe_of"), ("summary", "summary"), ("assigned_to", "assigned_to"), ("whiteboard", "whiteboard"), ("deadline", "deadline"), ("cc", "cc"), ("keywords", "keywords"), ("blocks", "blocks"), ("depends_on", "depends_on"), ("see_also", "see_also"), ("groups", "groups"), ("flags", "flags"), ("comment", "comment"), ("package_list", "cf_stabilisation_atoms"), ("runtime_testing_required", "cf_runtime_testing_required")]
def rawBugUpdateKeys : List String := ["ids", "status", "resolution", "dupe_of", "summary", "assigned_to", "whiteboard", "deadline", "cc", "keywords", "blocks", "depends_on", "see_also", "groups", "flags", "comment", "cf_stabilisation_atoms", "cf_runtime_testing_required"]
end Pkgcore.Generated.C39
