-- GENERATED from /repo by harness/props/c45.py (gen_tables); do not edit
namespace Pkgcore.Generated.C45
def opTranslate : List (String × String) := [("ge", ">="), ("gt", ">"), ("lt", "<"), ("le", "<="), ("eq", "=")]
end Pkgcore.Generated.C45
