-- GENERATED from /repo by harness/props/c26.py (gen_tables); do not edit
namespace Pkgcore.Generated.C26
def headerPre : List UInt8 := [88, 80, 65, 75, 80, 65, 67, 75]
def trailerPre : List UInt8 := [88, 80, 65, 75, 83, 84, 79, 80]
def trailerPost : List UInt8 := [83, 84, 79, 80]
def headerSize : Nat := 16
def trailerSize : Nat := 16
def keyRewrites : List (String × String) := [("repo", "REPO")]
end Pkgcore.Generated.C26
