-- GENERATED from /repo by harness/props/c09.py (gen_tables); do not edit
namespace Pkgcore.Generated.C09
/-- (class name, _evaluate_collapsible, _evaluate_wipe_empty) of the boolean group classes -/
def classFlags : List (String × Bool × Bool) := [("AndRestriction", true, true), ("OrRestriction", true, true), ("JustOneRestriction", false, false), ("AtMostOneOfRestriction", false, false), ("DepSet", true, true)]
/-- operator tables handed to DepSet.parse by pkgcore.ebuild.ebuild_src, per attribute: token ↦ class name ("!" = callable that raises) -/
def operatorTables : List (String × List (String × String)) := [("DEPEND", [("||", "OrRestriction"), ("", "AndRestriction")]), ("LICENSE", [("||", "OrRestriction"), ("", "AndRestriction")]), ("RESTRICT", []), ("SRC_URI", []), ("REQUIRED_USE", [("||", "OrRestriction"), ("", "AndRestriction"), ("^^", "JustOneRestriction"), ("??", "AtMostOneOfRestriction")]), ("REQUIRED_USE_EAPI4", [("||", "OrRestriction"), ("", "AndRestriction"), ("^^", "JustOneRestriction"), ("??", "!")])]
/-- the group-opening text emitted by stringify_boolean for an instance of each class -/
def renderOpen : List (String × String) := [("AndRestriction", "("), ("OrRestriction", "|| ("), ("JustOneRestriction", "^^ ("), ("AtMostOneOfRestriction", "?? (")]
end Pkgcore.Generated.C09
