-- GENERATED from /repo by harness/props/c28.py (gen_tables); do not edit
namespace Pkgcore.Generated.C28
def chfWidths : List (String × Nat) := [("md5", 32), ("blake2b", 128), ("blake2s", 64), ("sha1", 40), ("sha256", 64), ("sha3_256", 64), ("sha3_512", 128), ("sha512", 128), ("rmd160", 40)]
def excludes : List String := [".svn", ".update.Manifest", "CVS", "Manifest"]
def typeOrder : List String := ["DIST", "AUX", "EBUILD", "MISC"]
def pySpaces : List Nat := [9, 10, 11, 12, 13, 28, 29, 30, 31, 32, 133, 160, 5760, 8192, 8193, 8194, 8195, 8196, 8197, 8198, 8199, 8200, 8201, 8202, 8232, 8233, 8239, 8287, 12288]
end Pkgcore.Generated.C28
