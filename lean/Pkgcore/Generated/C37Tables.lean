-- GENERATED from /repo by harness/props/c37.py (gen_tables); do not edit
namespace Pkgcore.Generated.C37
def simpleCtors : List (String × String) := [("ids", "id"), ("product", "product"), ("component", "component"), ("resolution", "resolution"), ("status", "bug_status"), ("cc", "cc"), ("assigned_to", "assigned_to")]
def chartCtors : List (String × String × String × Bool) := [("keywords", "keywords", "anywords", false), ("without_tags", "tag", "nowordssubstr", false), ("package_list_any", "cf_stabilisation_atoms", "anywords", true)]
def flagCtor : String × String := ("flagtypes.name", "anywords")
def unresolved : String × String := ("resolution", "---")
def categoryProduct : String × String := ("product", "Gentoo Linux")
def categoryComponentKey : String := "component"
def joinOr : String := "OR"
def joinValues : List String := ["AND", "OR", "AND_G"]
def maxUrlLength : Nat := 6000
end Pkgcore.Generated.C37
