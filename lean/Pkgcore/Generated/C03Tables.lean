-- GENERATED from /repo by harness/props/c03.py (gen_tables); do not edit
namespace Pkgcore.Generated.C03
/-- `eapi_obj.options.{has_slot_deps, has_use_deps, strong_blockers, has_use_dep_defaults, sub_slotting}` -/
structure Opts where
  hasSlotDeps : Bool
  hasUseDeps : Bool
  strongBlockers : Bool
  useDepDefaults : Bool
  subSlotting : Bool
  deriving DecidableEq, Repr
def eapiOpts : List (Nat × Opts) := [(0, ⟨false, false, false, false, false⟩), (1, ⟨true, false, false, false, false⟩), (2, ⟨true, true, true, false, false⟩), (3, ⟨true, true, true, false, false⟩), (4, ⟨true, true, true, true, false⟩), (5, ⟨true, true, true, true, true⟩), (6, ⟨true, true, true, true, true⟩), (7, ⟨true, true, true, true, true⟩), (8, ⟨true, true, true, true, true⟩), (9, ⟨true, true, true, true, true⟩)]
def latestPmsEapi : String := "9"
def latestOpts : Opts := ⟨true, true, true, true, true⟩
def validSlotChars : List Nat := [43, 45, 46, 48, 49, 50, 51, 52, 53, 54, 55, 56, 57, 65, 66, 67, 68, 69, 70, 71, 72, 73, 74, 75, 76, 77, 78, 79, 80, 81, 82, 83, 84, 85, 86, 87, 88, 89, 90, 95, 97, 98, 99, 100, 101, 102, 103, 104, 105, 106, 107, 108, 109, 110, 111, 112, 113, 114, 115, 116, 117, 118, 119, 120, 121, 122]
def validRepoChars : List Nat := [45, 48, 49, 50, 51, 52, 53, 54, 55, 56, 57, 65, 66, 67, 68, 69, 70, 71, 72, 73, 74, 75, 76, 77, 78, 79, 80, 81, 82, 83, 84, 85, 86, 87, 88, 89, 90, 95, 97, 98, 99, 100, 101, 102, 103, 104, 105, 106, 107, 108, 109, 110, 111, 112, 113, 114, 115, 116, 117, 118, 119, 120, 121, 122]
def validOps : List String := ["<", "<=", "=", ">", ">=", "~"]
def versionPattern : String := "^(?:[0-9]+)(?:\\.[0-9]+)*[a-zA-Z]?(?:_(p(?:re)?|beta|alpha|rc)[0-9]*)*\\Z"
def categoryPattern : String := "^(?:[A-Za-z0-9_][A-Za-z0-9+_.-]*)\\Z"
def packagePattern : String := "^[a-zA-Z0-9+_]+\\Z"
def useFlagPattern : String := "^[A-Za-z0-9][A-Za-z0-9+_@-]*\\Z"
end Pkgcore.Generated.C03
