-- GENERATED from /repo by harness/props/c30.py (gen_tables); do not edit
namespace Pkgcore.Generated.C30
def validSlotChars : List Char := ['+', '-', '.', '0', '1', '2', '3', '4', '5', '6', '7', '8', '9', 'A', 'B', 'C', 'D', 'E', 'F', 'G', 'H', 'I', 'J', 'K', 'L', 'M', 'N', 'O', 'P', 'Q', 'R', 'S', 'T', 'U', 'V', 'W', 'X', 'Y', 'Z', '_', 'a', 'b', 'c', 'd', 'e', 'f', 'g', 'h', 'i', 'j', 'k', 'l', 'm', 'n', 'o', 'p', 'q', 'r', 's', 't', 'u', 'v', 'w', 'x', 'y', 'z']
def slotBadFirst : List Char := ['-', '.']
end Pkgcore.Generated.C30
