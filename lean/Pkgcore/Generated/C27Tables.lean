-- GENERATED from /repo by harness/props/c27.py (gen_tables); do not edit
namespace Pkgcore.Generated.C27
def metadataKeys : List String := ["BDEPEND", "DEPEND", "RDEPEND", "PDEPEND", "IDEPEND", "DEFINED_PHASES", "DESCRIPTION", "EAPI", "HOMEPAGE", "INHERIT", "INHERITED", "IUSE", "KEYWORDS", "LICENSE", "PROPERTIES", "REQUIRED_USE", "RESTRICT", "SLOT", "SRC_URI", "_eclasses_"]
def eclassSplitter : Char := Char.ofNat 9
def flatChf : String := "mtime"
def flatEclassChfs : List String := ["eclassdir", "mtime"]
def md5Chf : String := "md5"
def md5EclassChfs : List String := ["md5"]
def entryPerms : Nat := 436
def pySpaces : List Nat := [9, 10, 11, 12, 13, 28, 29, 30, 31, 32, 133, 160, 5760, 8192, 8193, 8194, 8195, 8196, 8197, 8198, 8199, 8200, 8201, 8202, 8232, 8233, 8239, 8287, 12288]
end Pkgcore.Generated.C27
