-- GENERATED from /repo by harness/props/c20.py (gen_tables); do not edit
namespace Pkgcore.Generated.C20
def preserveSequence : List (List String) := [["usr"], ["usr", "lib"], ["usr", "lib64"], ["usr", "lib32"], ["usr", "bin"], ["usr", "sbin"], ["bin"], ["sbin"], ["lib"], ["lib32"], ["lib64"], ["etc"], ["var"], ["home"], ["root"]]
end Pkgcore.Generated.C20
