import Pkgcore.Proofs.C01
import Pkgcore.Proofs.C01Lex
/-!
# C01 — version comparison follows the PMS algorithm and is a total preorder

Property theorems only (helper lemmas live in `Pkgcore/Proofs/C01.lean`).
`verCmp` mirrors `pkgcore.ebuild.cpv.ver_cmp`; `pmsCmp` is the PMS algorithm.
-/
namespace Pkgcore.C01
open Pkgcore.C01.Spec Std

/-- **ver_cmp is the PMS algorithm**, for all lexed versions of any length and all revisions
(`RevsOk`: both revisions `None`, as `~` passes them, or both `Revision` objects, as everything else does). -/
theorem verCmp_eq_pms (v1 v2 : Ver) (r1 r2 : Rev) (h : RevsOk r1 r2) :
    verCmp v1 r1 v2 r2 = pmsCmp v1 r1 v2 r2 :=
  verCmp_eq_pms_aux v1 v2 r1 r2 h

example : RevsOk (some ['7']) (some []) ∧ RevsOk none none := by simp [RevsOk]

attribute [local instance] lexOrd

/-- the PMS order is the pull-back of a lexicographic order along `key` … -/
theorem pms_is_key_order (v1 v2 : Ver) (r1 r2 : Rev) (h1 : WF v1) (h2 : WF v2) :
    pmsCmp v1 r1 v2 r2 = compare (key v1 r1) (key v2 r2) :=
  pmsCmp_eq_key v1 v2 r1 r2 h1 h2

/-- … hence reflexive, -/
theorem pmsCmp_refl (v : Ver) (r : Rev) (h : WF v) : pmsCmp v r v r = .eq := by
  rw [pmsCmp_eq_key v v r r h h]; exact ReflCmp.compare_self

/-- antisymmetric (swapping the arguments swaps the result), -/
theorem pmsCmp_antisymm (v1 v2 : Ver) (r1 r2 : Rev) (h1 : WF v1) (h2 : WF v2) :
    pmsCmp v1 r1 v2 r2 = (pmsCmp v2 r2 v1 r1).swap := by
  rw [pmsCmp_eq_key v1 v2 r1 r2 h1 h2, pmsCmp_eq_key v2 v1 r2 r1 h2 h1]; exact OrientedCmp.eq_swap

/-- and transitive. -/
theorem pmsCmp_trans (v1 v2 v3 : Ver) (r1 r2 r3 : Rev) (h1 : WF v1) (h2 : WF v2) (h3 : WF v3)
    (h12 : (pmsCmp v1 r1 v2 r2).isLE) (h23 : (pmsCmp v2 r2 v3 r3).isLE) : (pmsCmp v1 r1 v3 r3).isLE := by
  rw [pmsCmp_eq_key _ _ _ _ h1 h2] at h12
  rw [pmsCmp_eq_key _ _ _ _ h2 h3] at h23
  rw [pmsCmp_eq_key _ _ _ _ h1 h3]
  exact TransCmp.isLE_trans h12 h23

/-- equality under the order is transitive too (so `==` on versions is an equivalence) -/
theorem pmsCmp_eq_trans (v1 v2 v3 : Ver) (r1 r2 r3 : Rev) (h1 : WF v1) (h2 : WF v2) (h3 : WF v3)
    (h12 : pmsCmp v1 r1 v2 r2 = .eq) (h23 : pmsCmp v2 r2 v3 r3 = .eq) : pmsCmp v1 r1 v3 r3 = .eq := by
  rw [pmsCmp_eq_key _ _ _ _ h1 h2] at h12
  rw [pmsCmp_eq_key _ _ _ _ h2 h3] at h23
  rw [pmsCmp_eq_key _ _ _ _ h1 h3]
  exact TransCmp.eq_trans h12 h23

/-- the same three laws for the code's own comparison (revisions given as `Revision` objects) -/
theorem verCmp_total_preorder (v1 v2 v3 : Ver) (a b c : List Char) (h1 : WF v1) (h2 : WF v2) (h3 : WF v3) :
    verCmp v1 (some a) v1 (some a) = .eq ∧
    verCmp v1 (some a) v2 (some b) = (verCmp v2 (some b) v1 (some a)).swap ∧
    ((verCmp v1 (some a) v2 (some b)).isLE → (verCmp v2 (some b) v3 (some c)).isLE →
      (verCmp v1 (some a) v3 (some c)).isLE) := by
  have ok : ∀ x y : List Char, RevsOk (some x) (some y) := fun _ _ => Or.inr ⟨rfl, rfl⟩
  simp only [verCmp_eq_pms _ _ _ _ (ok _ _)]
  exact ⟨pmsCmp_refl _ _ h1, pmsCmp_antisymm _ _ _ _ h1 h2, pmsCmp_trans _ _ _ _ _ _ h1 h2 h3⟩

example : WF ⟨[['1'], ['0', '2']], some 'b', [(.rc, ['1']), (.p, [])]⟩ := by
  refine ⟨by simp, ?_⟩
  intro c hc
  simp at hc
  rcases hc with rfl | rfl <;> exact ⟨by simp, by decide⟩

/-- the generated `suffix_value` table realises `_alpha < _beta < _pre < _rc < (none = 0) < _p`
and knows every suffix name -/
theorem suffix_order :
    sufVal .alpha < sufVal .beta ∧ sufVal .beta < sufVal .pre ∧ sufVal .pre < sufVal .rc ∧
    sufVal .rc < 0 ∧ 0 < sufVal .p := by decide

theorem suffix_table_complete (s : Suf) : (Generated.C01.suffixValue.lookup s.name).isSome := by
  cases s <;> decide

/-- what each operator means on the PMS order -/
def opHolds : String → Ordering → Bool
  | "<", o => o == .lt
  | "<=", o => o != .gt
  | "=", o => o == .eq
  | ">=", o => o != .lt
  | ">", o => o == .gt
  | _, _ => false

/-- the PMS table of operators: which comparison results satisfy each operator -/
def pmsVals : String → List Int
  | "<" => [-1] | "<=" => [-1, 0] | "=" => [0] | ">=" => [0, 1] | ">" => [1] | _ => []

/-- **every version-operator restriction agrees with the order**: with the generated
`_convert_str2op` table, `_VersionMatch(op, ver, rev).match(pkg)` holds iff `pkg op ver` in PMS order;
`negate` flips it. -/
theorem versionMatch_agrees (op : String) (hop : op ∈ ["<", "<=", "=", ">=", ">"]) (negate : Bool)
    (ver pv : Ver) (rev prev : List Char) :
    opVals op = some (pmsVals op, false) ∧
      versionMatch (pmsVals op) false negate ver (some rev) pv (some prev)
        = (opHolds op (pmsCmp pv (some prev) ver (some rev)) != negate) := by
  have ok : RevsOk (some prev) (some rev) := Or.inr ⟨rfl, rfl⟩
  simp only [List.mem_cons, List.not_mem_nil, or_false] at hop
  rcases hop with rfl | rfl | rfl | rfl | rfl
  all_goals
    refine ⟨by decide, ?_⟩
    simp only [versionMatch, Bool.false_eq_true, if_false, verCmp_eq_pms _ _ _ _ ok, pmsVals]
    cases pmsCmp pv (some prev) ver (some rev) <;> cases negate <;> decide

/-- `~ver` matches exactly the packages whose version equals `ver` ignoring both revisions -/
theorem versionMatch_tilde (negate : Bool) (ver pv : Ver) (rev prev : Rev) :
    opVals "~" = some ([0], true) ∧
      versionMatch [0] true negate ver rev pv prev = ((pmsCmp pv none ver none == .eq) != negate) := by
  refine ⟨by decide, ?_⟩
  simp only [versionMatch, if_true, verCmp_eq_pms _ _ _ _ (Or.inl ⟨rfl, rfl⟩)]
  cases pmsCmp pv none ver none <;> cases negate <;> decide

/-- **lexing**: every valid version string (a rendering of a well-formed lexed version: non-empty digit
components, optional ASCII letter, suffixes with digit strings — the language of `isvalid_version_re`)
is split by the model of `split("_")`/`split(".")`/letter extraction/`suffix_regexp` into exactly its parts -/
theorem lex_render (v : Ver) (h : WFfull v) : lexVer (render v) = some v :=
  lexVer_render_aux v h

/-- hence the string-level comparison is the PMS algorithm on the parts -/
theorem verCmpStr_eq_pms (v1 v2 : Ver) (r1 r2 : Rev) (h1 : WFfull v1) (h2 : WFfull v2) (h : RevsOk r1 r2) :
    verCmpStr (render v1) r1 (render v2) r2 = some (pmsCmp v1 r1 v2 r2) := by
  simp only [verCmpStr, lex_render v1 h1, lex_render v2 h2, verCmp_eq_pms _ _ _ _ h]

example : WFfull ⟨[['1'], ['0', '2']], some 'b', [(.rc, ['1']), (.p, [])]⟩ ∧
    render ⟨[['1'], ['0', '2']], some 'b', [(.rc, ['1']), (.p, [])]⟩ = "1.02b_rc1_p".toList := by
  refine ⟨⟨⟨by simp, ?_⟩, ?_, ?_⟩, by decide⟩
  · intro c hc
    simp at hc
    rcases hc with rfl | rfl <;> exact ⟨by simp, by decide⟩
  · intro c hc; simp at hc; subst hc; decide
  · intro x hx; simp at hx; rcases hx with rfl | rfl <;> decide

end Pkgcore.C01
