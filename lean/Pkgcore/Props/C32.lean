import Pkgcore.Proofs.C32
/-!
# C32 — every IPC helper request gets exactly one truthful single-line reply

`serve W name r` = all lines the daemon receives for one request (from `IpcCommand.__call__` or, when an
`IpcError` escapes, from `run_generic_phase`) and whether the build goes on.  `W` ranges over *all* behaviours of
`shlex.split`, of the cwd and of the helper body; `r` over all request lines.
-/
namespace Pkgcore.C32
open Pkgcore.C32.Spec
open Pkgcore.C31 (Str)

/-- **one_reply_per_request** — whatever the request and whatever the helper does (return, IpcCommandError, any
other exception, unparsable options, vanished cwd; fatal or nonfatal): exactly one reply line is written. -/
theorem one_reply_per_request (W : World) (name : Str) (r : Request) : (serve W name r).1.length = 1 := by
  rw [serve_eq]; rfl

/-- **reply_single_line** — that reply contains no line break (multi-line messages are folded). -/
theorem reply_single_line (W : World) (name : Str) (r : Request) : ∀ l ∈ (serve W name r).1, '\n' ∉ l := by
  rw [serve_eq]
  intro l hl
  simp only [List.mem_singleton] at hl
  subst hl
  cases outcomeOf W name r <;> (unfold replyOf; exact encodeRet_no_newline _)

/-- **status_truthful** — the status the bash side tests (`[[ ${ret} == 0 ]]` on the first `\a` field) is
success exactly when the requested action succeeded; failures carry a non-zero code (`CodeOk`). -/
theorem status_truthful (W : World) (name : Str) (r : Request) (hc : CodeOk (outcomeOf W name r)) :
    ∀ l ∈ (serve W name r).1, bashSuccess l = succeeded (outcomeOf W name r) := by
  rw [serve_eq]
  intro l hl
  simp only [List.mem_singleton] at hl
  subst hl
  exact (success_replyOf _ _ hc).2

/-- a world whose `doins` fails with a two-line message for the target `bad` and succeeds otherwise -/
def sampleWorld : World where
  split := fun s => some [s]
  splitMsg := fun _ => []
  cwdOk := fun _ => true
  body := fun _ _ _ _ args =>
    if args = ["bad".toList] then .cmdError 1 "install: cannot stat 'bad'\nTry again".toList else .ok .none

theorem intStr_one : intStr 1 = ['1'] := by
  have : ¬ ((1 : Int) < 0) := by omega
  simp only [intStr, this, if_false]
  rw [show (1 : Int).toNat = 1 from rfl, Pkgcore.C31.digits]
  rfl

example : outcomeOf sampleWorld "doins".toList ⟨"true".toList, "/w".toList, "install".toList, [], "bad\x00".toList⟩
    = .cmdError 1 "install: cannot stat 'bad'\nTry again".toList ∧
    flat "install: cannot stat 'bad'\nTry again".toList = "install: cannot stat 'bad' Try again".toList := by decide

/-- **nonfatal: the failure code and message are returned and the build goes on** -/
theorem nonfatal_failure_returned (W : World) (name : Str) (r : Request) (code : Int) (msg : Str)
    (hnf : strip r.nonfatal = "true".toList) (ho : outcomeOf W name r = .cmdError code msg) :
    serve W name r = ([intStr code ++ '\x07' :: flat msg], true) := by
  rw [serve_eq, ho, hnf]; rfl

/-- **otherwise the build fails** (and the daemon still gets its one reply, carrying the failure) -/
theorem fatal_failure_fails_build (W : World) (name : Str) (r : Request)
    (hnf : strip r.nonfatal ≠ "true".toList) (ho : succeeded (outcomeOf W name r) = false)
    (hnt : ∀ c m, outcomeOf W name r ≠ .ok (.tuple c m)) :
    (serve W name r).2 = false := by
  rw [serve_eq]
  cases h : outcomeOf W name r with
  | ok ret =>
    rw [h] at ho
    cases ret with
    | tuple c m => exact absurd h (hnt c m)
    | _ => simp [succeeded] at ho
  | cmdError c m => simpa using hnf
  | otherError => rfl

/-- a successful action never fails the build -/
theorem success_continues (W : World) (name : Str) (r : Request) (ret : Ret)
    (ho : outcomeOf W name r = .ok ret) : (serve W name r).2 = true := by
  rw [serve_eq, ho]

/-- **install_fallback_truthful** — the external `install` path (`_install_cmd`, `_install_dirs_cmd`) reports
success exactly when every `install` invocation exited with 0, and its failures carry the non-zero status. -/
theorem install_fallback_truthful (gs : List (Int × List Str)) :
    (succeeded (installGroups gs) = true ↔ ∀ g ∈ gs, g.1 = 0) ∧ CodeOk (installGroups gs) :=
  ⟨installGroups_succeeded gs, installGroups_codeOk gs⟩

example : succeeded (installGroups [(0, []), (1, ["install: unrecognized option '--bogus'\n".toList,
    "Try 'install --help' for more information.\n".toList])]) = false := by decide

/-- pre-fix (`if not ret: raise`): a failing `install` is reported as success, a successful one as an error
whose status reads as success -/
theorem install_fallback_legacy_counterexample :
    succeeded (installGroupsLegacy [(1, ["install: cannot stat 'x'".toList])]) = true ∧
    installGroupsLegacy [(0, [])] = .cmdError 0 [] ∧ ¬ CodeOk (installGroupsLegacy [(0, [])]) := by
  refine ⟨by decide, by decide, ?_⟩
  intro h; exact h rfl

/-- **install_dirs_truthful** — the Python path of directory creation (`_install_dirs`: dodir, keepdir and the
directories of recursive installs): whatever the os-level steps do, the outcome is success exactly when every requested
directory was made (and, with `diroptions`, given its attributes); a failure carries a non-zero code; nothing after
the first failing directory is attempted.  With `status_truthful` this makes the reply of such a request truthful
about the directories on disk. -/
theorem install_dirs_truthful (w : Bool) (steps : List DirStep) :
    succeeded (installDirsPy w steps) = dirsDone w steps ∧ CodeOk (installDirsPy w steps) ∧
    ∀ (pre post1 post2 : List DirStep) (s : DirStep), dirsDone w [s] = false →
      installDirsPy w (pre ++ s :: post1) = installDirsPy w (pre ++ s :: post2) :=
  ⟨installDirsPy_succeeded w steps, installDirsPy_codeOk w steps,
    fun pre post1 post2 s hs => installDirsPy_stops w pre s post1 post2 hs⟩

example : succeeded (installDirsPy true [⟨"'/img/usr'".toList, none, none⟩,
    ⟨"'/img/usr/lib/foo'".toList, some "Not a directory".toList, none⟩]) = false ∧
    dirsDone true [⟨"'/img/usr'".toList, none, none⟩, ⟨"'/img/x'".toList, none, some "Operation not permitted".toList⟩] = false ∧
    dirsDone false [⟨"'/img/x'".toList, none, some "ignored".toList⟩] = true := by decide

/-- **reply_read_exactly_partial** — the daemon's single `read` (no `-r`) consumes exactly the reply and its
newline, sees the truthful status, and leaves the pipe at the next reply — provided the message does not end in
a dangling backslash (`MsgClosed`).
Full statement (without `MsgClosed`) is false of `read` without `-r`: see `reply_read_exactly_counterexample`. -/
theorem reply_read_exactly_partial (W : World) (name : Str) (r : Request)
    (hc : CodeOk (outcomeOf W name r)) (hm : MsgClosed (outcomeOf W name r)) (rest : Str) :
    daemonReadsReply (wire (serve W name r).1 ++ rest) = some (succeeded (outcomeOf W name r), rest) := by
  rw [serve_eq]
  simp only [wire, List.flatMap_cons, List.flatMap_nil, List.append_nil, List.append_assoc,
    List.singleton_append, daemonReadsReply]
  rw [bashRead_clean _ (clean_replyOf _ _ hm)]
  simp only [(success_replyOf _ _ hc).1]

example : CodeOk (.cmdError 1 "a\\\\b\nc".toList) ∧ MsgClosed (.cmdError 1 "a\\\\b\nc".toList) :=
  ⟨by simp [CodeOk], by simp only [MsgClosed]; decide⟩

/-- a message ending in a backslash makes `read` join the next line of the pipe to the reply -/
theorem reply_read_exactly_counterexample :
    daemonReadsReply (wire [encodeRet (.tuple 1 "x\\".toList)] ++ "0\n".toList)
      = some (false, []) := by
  simp only [encodeRet, intStr_one]
  decide

/-- pre-fix encoder: a two-line message leaves its second line in the pipe, where it is taken for the reply
to the next request -/
theorem legacy_multiline_counterexample :
    readReplies 2 (wire [encodeRetLegacy (.tuple 1 "line1\nline2".toList), encodeRet .none])
      = some ([false, false], "0\n".toList) := by
  simp only [encodeRetLegacy, encodeRet, intStr_one]
  decide

/-- **session_replies_matched** — a stream of requests none of which fails the build: the loop consumes exactly
the six lines of each request and writes exactly one reply per request, in request order; it then goes on with
whatever follows (`tail`). -/
theorem session_replies_matched (W : World) (helpers : List Str) (reqs : List (Str × Request))
    (hk : ∀ nr ∈ reqs, Known helpers nr) (hgo : ∀ nr ∈ reqs, (serve W nr.1 nr.2).2 = true)
    (f : Nat) (tail : List Str) :
    session W helpers (reqs.length + f) (linesOf reqs ++ tail) =
      (repliesOf W reqs ++ (session W helpers f tail).1, (session W helpers f tail).2.1,
        (session W helpers f tail).2.2) ∧
    (repliesOf W reqs).length = reqs.length := by
  refine ⟨session_all_go W helpers reqs hk hgo f tail, ?_⟩
  induction reqs with
  | nil => rfl
  | cons nr reqs ih =>
    have := one_reply_per_request W nr.1 nr.2
    simp only [repliesOf, List.flatMap_cons, List.length_append, List.length_cons] at ih ⊢
    rw [this, ih (fun x hx => hk x (by simp [hx])) (fun x hx => hgo x (by simp [hx]))]
    omega

/-- **session_stops_at_failure** — the first request that fails the build is still answered (once); nothing
after it is read or answered. -/
theorem session_stops_at_failure (W : World) (helpers : List Str) (pre : List (Str × Request))
    (nr : Str × Request) (post : List (Str × Request)) (hk : ∀ x ∈ pre ++ [nr], Known helpers x)
    (hgo : ∀ x ∈ pre, (serve W x.1 x.2).2 = true) (hstop : (serve W nr.1 nr.2).2 = false)
    (f : Nat) (tail : List Str) :
    session W helpers (pre.length + (f + 1)) (linesOf (pre ++ nr :: post) ++ tail) =
      (repliesOf W (pre ++ [nr]), linesOf post ++ tail, .buildFailed) :=
  session_stops W helpers pre nr post hk hgo hstop f tail

/-- **channel_synchronised_partial** — the daemon issues its requests one at a time and reads one reply after
each; over a whole session of non-failing requests it reads, in order, exactly the truthful status of each
request and leaves nothing behind (guard `MsgClosed` as above). -/
theorem channel_synchronised_partial (W : World) (reqs : List (Str × Request))
    (hc : ∀ nr ∈ reqs, CodeOk (outcomeOf W nr.1 nr.2)) (hm : ∀ nr ∈ reqs, MsgClosed (outcomeOf W nr.1 nr.2))
    (rest : Str) :
    readReplies (repliesOf W reqs).length (wire (repliesOf W reqs) ++ rest) =
      some (reqs.map fun nr => succeeded (outcomeOf W nr.1 nr.2), rest) := by
  have hclean : ∀ l ∈ repliesOf W reqs, Clean l := by
    intro l hl
    simp only [repliesOf, List.mem_flatMap] at hl
    obtain ⟨nr, hnr, hl⟩ := hl
    rw [serve_eq] at hl
    simp only [List.mem_singleton] at hl
    subst hl
    exact clean_replyOf _ _ (hm nr hnr)
  rw [readReplies_clean _ hclean]
  congr 2
  induction reqs with
  | nil => rfl
  | cons nr reqs ih =>
    simp only [repliesOf, List.flatMap_cons, List.map_append, List.map_cons]
    rw [serve_eq]
    simp only [List.map_cons, List.map_nil, List.singleton_append, (success_replyOf _ _ (hc nr (by simp))).1]
    congr 1
    exact ih (fun x hx => hc x (by simp [hx])) (fun x hx => hm x (by simp [hx]))
      (fun l hl => hclean l (by simp only [repliesOf, List.flatMap_cons, List.mem_append]; exact Or.inr hl))

/-- **reply_independent_of_history** — helper objects serve many requests, but the reply to a request is a function
of that request (and of what its action does) alone: whatever was served before it on the same helpers — including
requests that failed nonfatally — it is answered with exactly `serve W name r`.  (In the code this is the per-request
re-initialisation of the install coroutines; the check drives long request sequences through one set of helper
objects to tie the two.) -/
theorem reply_independent_of_history (W : World) (pre1 pre2 : List (Str × Request)) (nr : Str × Request) :
    (repliesOf W (pre1 ++ [nr])).drop (repliesOf W pre1).length = (serve W nr.1 nr.2).1 ∧
    (repliesOf W (pre2 ++ [nr])).drop (repliesOf W pre2).length = (serve W nr.1 nr.2).1 := by
  constructor <;> simp [repliesOf, List.flatMap_append]

example : Known ["doins".toList, "dodir".toList] ("doins".toList, ⟨[], [], [], [], []⟩) := by unfold Known; decide

end Pkgcore.C32
