import Pkgcore.Proofs.C02
/-!
# C02 — equality, ordering and hashing of package versions (CPV) and atoms agree

Property theorems only (helper lemmas: `Pkgcore/Proofs/C02.lean`).  `cpvEq … cpvGe`, `cpvHashKey`,
`atomCmp`, `atomEq … atomGe`, `atomHashKey` mirror the code (`Model/C02.lean`); `Consistent`, `cpvCanon`,
`atomCanon`, `cpvOrd`, `atomOrd` are the specification (`Spec/C02.lean`).
-/
namespace Pkgcore.C02
open Pkgcore.C01 Pkgcore.C01.Spec Pkgcore.C02.Spec Std

attribute [local instance] lexOrd

/-- what Python observes for the ordered pair `(a, b)` of CPVs; `none` if an operator raises -/
def cpvObs (a b : Cpv) : Option Obs := do
  let lt ← cpvLt a b
  let le ← cpvLe a b
  let gt ← cpvGt a b
  let ge ← cpvGe a b
  pure { eq := cpvEq a b, ne := cpvNe a b, lt, le, gt, ge }

/-- what Python observes for the ordered pair `(a, b)` of atoms -/
def atomObs (a b : Atom) : Option Obs := do
  let eq ← atomEq a b
  let ne ← atomNe a b
  let lt ← atomLt a b
  let le ← atomLe a b
  let gt ← atomGt a b
  let ge ← atomGe a b
  pure { eq, ne, lt, le, gt, ge }

/-- operators derived from one antisymmetric three-way comparison whose `eq` forces equal hashes are
consistent in the sense of the property -/
theorem consistent_ofOrd (o o' : Ordering) (hsw : o = o'.swap) (hashEq : Bool) (hh : o = .eq → hashEq = true) :
    Consistent (Obs.ofOrd o) (Obs.ofOrd o') hashEq := by
  subst hsw
  cases o' <;> simp_all [Consistent, Obs.ofOrd, Ordering.swap] <;> decide

/-! ## package versions (CPV) -/

/-- **all six CPV operators are the ones induced by one order**, the lexicographic order on
(category, package, PMS value of version+revision) — for every pair of versioned CPVs and every pair of
unversioned ones; none of them raises. -/
theorem cpv_richcmp_from_order (a b : Cpv) (ha : Cpv.WF a) (hb : Cpv.WF b) (hk : SameKind a b) :
    cpvObs a b = some (Obs.ofOrd (cpvOrd a b)) := by
  have e1 := cpvRich_eq (· == .lt) (· == .lt) (fun _ _ => rfl) a b ha hb hk
  have e2 := cpvRich_eq (· != .gt) (· == .lt) (fun c h => by cases c <;> simp_all) a b ha hb hk
  have e3 := cpvRich_eq (· == .gt) (· == .gt) (fun _ _ => rfl) a b ha hb hk
  have e4 := cpvRich_eq (· != .lt) (· == .gt) (fun c h => by cases c <;> simp_all) a b ha hb hk
  simp only [cpvObs, cpvLt, cpvLe, cpvGt, cpvGe, e1, e2, e3, e4, cpvNe, cpvEq_eq a b ha hb, Obs.ofOrd,
    Option.bind_eq_bind, Option.bind_some, Option.pure_def]
  cases cpvOrd a b <;> rfl

example : SameKind ⟨['a'], ['b'], some (⟨[['1'], ['0']], none, []⟩, [])⟩
    ⟨['a'], ['b'], some (⟨[['1'], ['0', '0']], none, []⟩, ['0'])⟩ := rfl

/-- **CPV equality is equality of canonical forms**: same category, same package, same PMS version value
(so `1.0 == 1.00`, `1_alpha == 1_alpha0`, `1-r0 == 1`, and nothing else is equal); a versioned and an
unversioned CPV are never equal. -/
theorem cpv_eq_iff_canon (a b : Cpv) (ha : Cpv.WF a) (hb : Cpv.WF b) :
    cpvEq a b = true ↔ cpvCanon a = cpvCanon b := by
  rw [cpvEq_eq a b ha hb, beq_iff_eq, cpvOrd_eq_iff]

/-- **equal CPVs hash equal** — and the hashed value separates unequal ones -/
theorem cpv_eq_hash (a b : Cpv) (ha : Cpv.WF a) (hb : Cpv.WF b) :
    cpvEq a b = true ↔ cpvHashKey a = cpvHashKey b := by
  rw [cpv_eq_iff_canon a b ha hb]
  unfold cpvCanon cpvHashKey
  simp only [Prod.mk.injEq, verHashKeyO_eq_iff a.vr b.vr ha hb]

/-- the order behind the operators is a total order on canonical forms: reflexive, antisymmetric
(swapping the operands swaps the result), transitive, and `eq` only on equal canonical forms -/
theorem cpvOrd_total_order (a b c : Cpv) :
    cpvOrd a a = .eq ∧ cpvOrd a b = (cpvOrd b a).swap ∧
    ((cpvOrd a b).isLE → (cpvOrd b c).isLE → (cpvOrd a c).isLE) ∧
    (cpvOrd a b = .eq ↔ cpvCanon a = cpvCanon b) :=
  ⟨cpvOrd_refl a, cpvOrd_swap a b, cpvOrd_trans a b c, cpvOrd_eq_iff a b⟩

/-- **the property for CPVs**: for every same-kind pair, what Python observes in both directions, together
with the hashed values, is `Consistent`. -/
theorem cpv_consistent (a b : Cpv) (ha : Cpv.WF a) (hb : Cpv.WF b) (hk : SameKind a b) :
    ∃ ab ba, cpvObs a b = some ab ∧ cpvObs b a = some ba ∧
      Consistent ab ba (cpvHashKey a == cpvHashKey b) := by
  refine ⟨_, _, cpv_richcmp_from_order a b ha hb hk, cpv_richcmp_from_order b a hb ha hk.symm, ?_⟩
  apply consistent_ofOrd _ _ (cpvOrd_swap a b)
  intro h
  have := (cpv_eq_hash a b ha hb).mp (by rw [cpvEq_eq a b ha hb, h]; rfl)
  simp [this]

/-- exactly one of `<`, `==`, `>` holds -/
theorem cpv_trichotomy (a b : Cpv) (ha : Cpv.WF a) (hb : Cpv.WF b) (hk : SameKind a b) :
    ∃ o, cpvObs a b = some o ∧
      ((o.lt = true ∧ o.eq = false ∧ o.gt = false) ∨ (o.lt = false ∧ o.eq = true ∧ o.gt = false) ∨
       (o.lt = false ∧ o.eq = false ∧ o.gt = true)) := by
  refine ⟨_, cpv_richcmp_from_order a b ha hb hk, ?_⟩
  cases cpvOrd a b <;> simp [Obs.ofOrd]

/-! ## atoms -/

/-- **`atom.__cmp__` never raises and is the lexicographic order of the canonical form**, hence all six
operators (which are `__cmp__(other) ⋄ 0`) are the ones induced by that order. -/
theorem atom_richcmp_from_order (a b : Atom) (ha : Atom.WF a) (hb : Atom.WF b) :
    atomCmp a b = some (atomOrd a b) ∧ atomObs a b = some (Obs.ofOrd (atomOrd a b)) := by
  refine ⟨atomCmp_eq a b ha hb, ?_⟩
  simp only [atomObs, atomEq, atomNe, atomLt, atomLe, atomGt, atomGe, atomCmp_eq a b ha hb, Obs.ofOrd,
    Option.map_some, Option.bind_eq_bind, Option.bind_some, Option.pure_def]
  cases atomOrd a b <;> rfl

example : Atom.WF ⟨['a'], ['b'], some (.ge, ⟨[['1'], ['0', '2']], some 'b', [(.rc, ['1'])]⟩, ['3']),
    true, true, false, some ['0'], some ['2'], some ['='], some [['y'], ['-', 'x']], none⟩ := by
  refine ⟨by simp, ?_⟩
  intro c hc
  simp at hc
  rcases hc with rfl | rfl <;> exact ⟨by simp, by decide⟩

/-- **atom equality is equality of canonical forms**: category, package, operator, PMS value of the
version, blocker and strong-blocker flags, `negate_vers`, slot, sub-slot, slot operator, the *sorted* USE
deps and the repository all agree — different spellings of one version are equal, atoms differing in any
single attribute (incl. `!` vs `!!`, sub-slot, slot operator) are not. -/
theorem atom_eq_iff_canon (a b : Atom) (ha : Atom.WF a) (hb : Atom.WF b) :
    atomEq a b = some true ↔ atomCanon a = atomCanon b := by
  rw [atomEq, atomCmp_eq a b ha hb, Option.map_some, Option.some.injEq, beq_iff_eq, atomOrd_eq_iff]

/-- **equal atoms hash equal** -/
theorem atom_eq_hash (a b : Atom) (ha : Atom.WF a) (hb : Atom.WF b) (h : atomEq a b = some true) :
    atomHashKey a = atomHashKey b :=
  atomHashKey_of_canon a b ha hb ((atom_eq_iff_canon a b ha hb).mp h)

/-- the written order of USE deps is irrelevant: atoms that differ only by a permutation of their USE
deps are equal (and therefore hash equal) -/
theorem atom_use_order_irrelevant (a : Atom) (u1 u2 : List Str) (ha : Atom.WF a) (h : u1.Perm u2) :
    atomEq { a with use := some u1 } { a with use := some u2 } = some true := by
  have h1 : Atom.WF { a with use := some u1 } := ha
  have h2 : Atom.WF { a with use := some u2 } := ha
  rw [atom_eq_iff_canon _ _ h1 h2]
  simp [atomCanon, Atom.useAttr, Atom.opStr, Atom.vr, sortUse_perm u1 u2 h]

example : [['y'], ['-', 'x']].Perm [['-', 'x'], ['y']] := List.Perm.swap _ _ _

/-- total order on canonical forms -/
theorem atomOrd_total_order (a b c : Atom) :
    atomOrd a a = .eq ∧ atomOrd a b = (atomOrd b a).swap ∧
    ((atomOrd a b).isLE → (atomOrd b c).isLE → (atomOrd a c).isLE) ∧
    (atomOrd a b = .eq ↔ atomCanon a = atomCanon b) :=
  ⟨atomOrd_refl a, atomOrd_swap a b, atomOrd_trans a b c, atomOrd_eq_iff a b⟩

/-- **the property for atoms**: for every pair, what Python observes in both directions, together with
the hashed values, is `Consistent`. -/
theorem atom_consistent (a b : Atom) (ha : Atom.WF a) (hb : Atom.WF b) :
    ∃ ab ba, atomObs a b = some ab ∧ atomObs b a = some ba ∧
      Consistent ab ba (atomHashKey a == atomHashKey b) := by
  refine ⟨_, _, (atom_richcmp_from_order a b ha hb).2, (atom_richcmp_from_order b a hb ha).2, ?_⟩
  apply consistent_ofOrd _ _ (atomOrd_swap a b)
  intro h
  have := atom_eq_hash a b ha hb (by rw [atomEq, atomCmp_eq a b ha hb, h]; rfl)
  simp [this]

/-- exactly one of `<`, `==`, `>` holds -/
theorem atom_trichotomy (a b : Atom) (ha : Atom.WF a) (hb : Atom.WF b) :
    ∃ o, atomObs a b = some o ∧
      ((o.lt = true ∧ o.eq = false ∧ o.gt = false) ∨ (o.lt = false ∧ o.eq = true ∧ o.gt = false) ∨
       (o.lt = false ∧ o.eq = false ∧ o.gt = true)) := by
  refine ⟨_, (atom_richcmp_from_order a b ha hb).2, ?_⟩
  cases atomOrd a b <;> simp [Obs.ofOrd]

end Pkgcore.C02
