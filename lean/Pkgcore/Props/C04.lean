import Pkgcore.Proofs.C04
/-!
# C04 — `atom.match` is PMS dependency semantics

Property theorems only (helpers: `Pkgcore/Proofs/C04.lean`).  `atomMatch` mirrors `atom.match` through
`atom.restrictions` (`Model/C04.lean`); `matchSpec` is the property text (`Spec/C04.lean`).
-/
namespace Pkgcore.C04
open Pkgcore.C01 Pkgcore.C01.Spec Pkgcore.C02 Pkgcore.C04.Spec Std

/-- **atom.match = PMS dependency semantics**, for every well-formed atom (any operator incl. `~` and `=*`,
any slot/sub-slot/repository, any list of USE deps with or without defaults, blocker or not) and every
package (versions of any length, any IUSE/USE sets). -/
theorem match_eq_spec (a : Atom) (p : Pkg) (ha : Atom.WF a) (hp : Pkg.WF p) (hn : a.negate = false) :
    atomMatch a p = matchSpec a p := by
  rw [atomMatch_eq a p ha.2]
  unfold matchSpecWith matchSpec
  congr 5
  cases hv : a.vop with
  | none => rfl
  | some q =>
    obtain ⟨op, v, r⟩ := q
    have hw : WF v := by have := ha.1; rw [hv] at this; exact this
    simp only [hn]
    rw [versionRestr_eq op v r false p hw hp]
    cases op <;> simp [opSpec]

example : Atom.WF ⟨['a'], ['b'], some (.glob, ⟨[['1'], ['0', '2']], none, [(.rc, ['1'])]⟩, []), false, true, true,
    some ['0'], some ['2'], some ['='], some ['g'], some [⟨['x'], false, some true⟩, ⟨['y'], true, none⟩]⟩ := by
  refine ⟨⟨by simp, ?_⟩, fun _ => rfl⟩
  intro c hc
  simp at hc
  rcases hc with rfl | rfl <;> exact ⟨by simp, by decide⟩

/-- with `negate_vers=True` the version test of every non-glob operator is inverted, nothing else changes -/
theorem match_negate_vers (a : Atom) (p : Pkg) (op : Op) (v : Ver) (r : Str) (ha : Atom.WF a) (hp : Pkg.WF p)
    (hv : a.vop = some (op, v, r)) (hop : op ≠ .glob) (hn : a.negate = true) :
    atomMatch a p = matchSpecWith (!opSpec op v r p.ver p.rev) a p := by
  rw [atomMatch_eq a p ha.2, hv]
  have hw : WF v := by have := ha.1; rw [hv] at this; exact this
  simp only [hn]
  rw [versionRestr_eq op v r true p hw hp]
  simp only [hop, if_false, Bool.bne_true]

/-- **the `=*` operator is a prefix test on version components, compared the PMS way** — the model of
`cpv.ver_glob_match` (via `ver_hash_key`) against "the written components are a prefix of the package's". -/
theorem glob_is_component_prefix (gv : Ver) (gr : Str) (v : Ver) (r : Str) (hg : WF gv) (hv : WF v) :
    verGlobMatch gv gr v r = globSpec gv gr v r :=
  verGlobMatch_eq_spec gv gr v r hg hv

/-- `=1*` does not match `10` (portage bug 560466), but matches `1`, `1.0`, `1a`, `1_p1`, `1-r2`;
`=1.00*` matches `1.0.5`; `=1-r1*` does not match `1-r10`; `=1_p*` does not match `1_pre` -/
theorem glob_examples :
    verGlobMatch ⟨[['1']], none, []⟩ [] ⟨[['1', '0']], none, []⟩ [] = false ∧
    verGlobMatch ⟨[['1']], none, []⟩ [] ⟨[['1']], none, []⟩ [] = true ∧
    verGlobMatch ⟨[['1']], none, []⟩ [] ⟨[['1'], ['0']], none, []⟩ [] = true ∧
    verGlobMatch ⟨[['1']], none, []⟩ [] ⟨[['1']], some 'a', []⟩ [] = true ∧
    verGlobMatch ⟨[['1']], none, []⟩ [] ⟨[['1']], none, [(.p, ['1'])]⟩ [] = true ∧
    verGlobMatch ⟨[['1']], none, []⟩ [] ⟨[['1']], none, []⟩ ['2'] = true ∧
    verGlobMatch ⟨[['1'], ['0', '0']], none, []⟩ [] ⟨[['1'], ['0'], ['5']], none, []⟩ [] = true ∧
    verGlobMatch ⟨[['1']], none, []⟩ ['1'] ⟨[['1']], none, []⟩ ['1', '0'] = false ∧
    verGlobMatch ⟨[['1']], none, [(.p, [])]⟩ [] ⟨[['1']], none, [(.pre, [])]⟩ [] = false := by decide

/-- **USE deps are checked one by one**: whatever the grouping into `StaticUseDep`/`UseDepDefault`
restrictions, the conjunction of the built restrictions is "every dep holds", for any list of deps. -/
theorem useDeps_eq_spec (deps : List UseDep) (p : Pkg) : useRestrs deps p = deps.all (useHolds p) :=
  useRestrs_eq deps p

/-- **all eight combinations** of sign × default × presence in IUSE for a dep with a default, and the four
without: a flag in IUSE is judged by USE; a missing one by its `(+)`/`(-)` default. -/
theorem usedep_default_correct (p : Pkg) (f : Str) :
    (p.iuse.contains f = true →
      (useRestrs [⟨f, true, some true⟩] p = p.use.contains f) ∧ (useRestrs [⟨f, true, some false⟩] p = p.use.contains f) ∧
      (useRestrs [⟨f, false, some true⟩] p = !p.use.contains f) ∧ (useRestrs [⟨f, false, some false⟩] p = !p.use.contains f)) ∧
    (p.iuse.contains f = false →
      useRestrs [⟨f, true, some true⟩] p = true ∧ useRestrs [⟨f, true, some false⟩] p = false ∧
      useRestrs [⟨f, false, some true⟩] p = false ∧ useRestrs [⟨f, false, some false⟩] p = true) ∧
    (useRestrs [⟨f, true, none⟩] p = p.use.contains f) ∧ (useRestrs [⟨f, false, none⟩] p = !p.use.contains f) := by
  simp only [useRestrs_eq, List.all_cons, List.all_nil, Bool.and_true, useHolds, flagState]
  refine ⟨fun h => ?_, fun h => ?_, ?_, ?_⟩
  · simp only [h, if_true]; cases p.use.contains f <;> decide
  · simp only [h, Bool.false_eq_true, if_false]; decide
  · cases p.iuse.contains f <;> cases p.use.contains f <;> decide
  · cases p.iuse.contains f <;> cases p.use.contains f <;> decide

/-- several disabled flags: *each* has to be off (the defect fixed in 48898ac made this "not all on") -/
theorem usedep_all_disabled (p : Pkg) (x y : Str) :
    useRestrs [⟨x, false, none⟩, ⟨y, false, none⟩] p = (!p.use.contains x && !p.use.contains y) := by
  simp only [useRestrs_eq, List.all_cons, List.all_nil, Bool.and_true, useHolds, flagState]
  cases p.iuse.contains x <;> cases p.iuse.contains y <;> simp

/-- **a blocker matches the same packages as its non-blocking form** (and the slot operator plays no role):
`atom.restrictions` never reads `blocks`, `blocks_strongly` or `slot_operator`. -/
theorem blocker_matches_same (a : Atom) (p : Pkg) (b s : Bool) (so : Option Str) :
    atomMatch { a with blocks := b, strong := s, slotOp := so } p = atomMatch a p := rfl

/-- matching does not depend on how the package's version is spelled: packages that differ only by a
PMS-equal respelling of version and revision (`1.0`/`1.00`, `_p`/`_p0`, `-r0`/none) are matched alike —
including by `=*`. -/
theorem match_respects_version_equality (a : Atom) (p : Pkg) (v' : Ver) (r' : Str)
    (ha : Atom.WF a) (hp : Pkg.WF p) (hv' : WF v') (hn : a.negate = false)
    (heq : pmsCmp p.ver (some p.rev) v' (some r') = .eq) :
    atomMatch a p = atomMatch a { p with ver := v', rev := r' } := by
  have hp' : Pkg.WF { p with ver := v', rev := r' } := hv'
  rw [match_eq_spec a p ha hp hn, match_eq_spec a _ ha hp' hn]
  unfold matchSpec
  cases hv : a.vop with
  | none => rfl
  | some q =>
    obtain ⟨op, v, r⟩ := q
    have hw : WF v := by have := ha.1; rw [hv] at this; exact this
    have hop : opSpec op v r p.ver p.rev = opSpec op v r v' r' := opSpec_congr op v r p.ver p.rev v' r' hw hp hv' heq
    simp only [hop]
    rfl

end Pkgcore.C04
