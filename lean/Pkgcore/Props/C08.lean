import Pkgcore.Proofs.C08
/-!
# C08 — repository queries return exactly the matching packages

Property theorems only (helper lemmas: `Pkgcore/Proofs/C08.lean`).  `itermatch`, `candidates`, `identify`, … mirror
`repository/prototype.py` after the `fix:` commits (`Model/C08.lean`); `answer` is the brute-force filter of the
property text (`Spec/C08.lean`).  Quantified over every repository (duplicate-free mappings, `WF`), every restriction
tree (C06 `R`: all-of / any-of / exactly-one-of / at-most-one-of with negate, `Negate`, atoms) over arbitrary leaves
(category / package restrictions with wrapper- and value-level negation, exact or arbitrary value restrictions, any
other package predicate), every environment for the opaque predicates, every lawful sorter.
-/
namespace Pkgcore.C08
open Pkgcore.C08.Spec
open Pkgcore.C06 (R)

/-- **pruning is sound**: whatever the restriction matches has its (category, package) among the candidates. -/
theorem candidates_superset (env : Env) (tbl : Nat → Leaf) (repo : Repo) (S : Sorter) (hS : Lawful S) (r : R)
    (hk : atomsKeyed tbl r = true) (pk : Pkg) (hp : pk.name ∈ repo.packages pk.cat)
    (hm : pmatches env tbl r pk = true) : (pk.cat, pk.name) ∈ candidates env tbl repo S r :=
  candidates_mem env tbl repo S hS r hk pk hp (by rw [← pmatches_eq_holds]; exact hm)

/-- not vacuous: the witness of the repaired defect — `And(PackageRestriction("category", == "a", negate=True))`
against a package of category `b` -/
example :
    let tbl : Nat → Leaf := fun _ => .cat true (.exact ['a'] false)
    let repo : Repo := ⟨[(['a'], [(['x'], [['1']])]), (['b'], [(['x'], [['1']])])]⟩
    let pk : Pkg := ⟨['b'], ['x'], some ['1']⟩
    let S : Sorter := ⟨true, id, id, id⟩
    let env : Env := ⟨fun _ _ => false, fun _ _ => false⟩
    pmatches env tbl (.and false [.leaf 0]) pk = true ∧ pk.name ∈ repo.packages pk.cat ∧
      candidates env tbl repo S (.and false [.leaf 0]) = [(['a'], ['x']), (['b'], ['x'])] := by decide

/-- **a query yields every matching package and nothing else, each exactly once**: the result is a permutation of
the brute-force answer, for versioned and unversioned queries alike. -/
theorem itermatch_exact (env : Env) (tbl : Nat → Leaf) (repo : Repo) (S : Sorter) (hS : Lawful S) (hwf : WF repo)
    (versioned : Bool) (r : R) (hk : atomsKeyed tbl r = true) :
    (itermatch env tbl repo S versioned r).Perm (answer env tbl repo versioned r) :=
  (List.perm_ext_iff_of_nodup (itermatch_nodup' env tbl repo S hS hwf versioned r)
      (nodup_filter _ (allOf_nodup repo hwf versioned))).mpr
    (fun pk => mem_itermatch_iff env tbl repo S hS versioned r hk pk)

example : WF ⟨[(['a'], [(['x'], [['1'], ['2']]), (['y'], [])]), (['b'], [(['x'], [['1']])])]⟩ ∧
    Lawful ⟨true, id, id, id⟩ ∧ Lawful ⟨false, List.reverse, List.reverse, List.reverse⟩ :=
  ⟨WF_of_wfCheck _ (by decide), ⟨fun _ => .refl _, fun _ => .refl _, fun _ => .refl _⟩,
    ⟨fun _ => List.reverse_perm _, fun _ => List.reverse_perm _, fun _ => List.reverse_perm _⟩⟩

/-- an atom `app/foo[…]`: PackageDep, CategoryDep and one more member -/
example :
    let tbl : Nat → Leaf := fun i => if i = 0 then .pkg false (.exact "foo".toList false)
      else if i = 1 then .cat false (.exact "app".toList false) else .other 0
    atomsKeyed tbl (.atom [.leaf 0, .leaf 1, .leaf 2]) = true ∧
      atomsKeyed tbl (.or true [.atom [.leaf 2], .neg (.leaf 0)]) = true := by decide

/-- each package at most once, in particular -/
theorem itermatch_nodup (env : Env) (tbl : Nat → Leaf) (repo : Repo) (S : Sorter) (hS : Lawful S) (hwf : WF repo)
    (versioned : Bool) (r : R) : (itermatch env tbl repo S versioned r).Nodup :=
  itermatch_nodup' env tbl repo S hS hwf versioned r

/-- **an unversioned query yields exactly the matching category/package pairs** that have a version -/
theorem unversioned_exact (env : Env) (tbl : Nat → Leaf) (repo : Repo) (S : Sorter) (hS : Lawful S) (r : R)
    (hk : atomsKeyed tbl r = true) (c p : Str) :
    (⟨c, p, none⟩ : Pkg) ∈ itermatch env tbl repo S false r ↔
      (p ∈ repo.packages c ∧ repo.versions (c, p) ≠ [] ∧ holds env tbl r ⟨c, p, none⟩ = true) := by
  rw [mem_itermatch_iff env tbl repo S hS false r hk]
  simp only [answer, List.mem_filter, mem_allOf, verOk, Bool.false_eq_true, if_false]
  constructor
  · rintro ⟨⟨hne, _⟩, hm⟩
    obtain ⟨v, hv⟩ := List.exists_mem_of_ne_nil _ hne
    exact ⟨versions_mem_packages repo c p v hv, hne, hm⟩
  · rintro ⟨_, hne, hm⟩
    exact ⟨⟨hne, trivial⟩, hm⟩

/-- **a sorted query yields the same packages**: whatever (lawful) sorter is passed, the result is a permutation
of the unsorted one -/
theorem sorted_same_multiset (env : Env) (tbl : Nat → Leaf) (repo : Repo) (S S' : Sorter) (hS : Lawful S)
    (hS' : Lawful S') (hwf : WF repo) (versioned : Bool) (r : R) (hk : atomsKeyed tbl r = true) :
    (itermatch env tbl repo S versioned r).Perm (itermatch env tbl repo S' versioned r) :=
  (itermatch_exact env tbl repo S hS hwf versioned r hk).trans
    (itermatch_exact env tbl repo S' hS' hwf versioned r hk).symm

/-- **a stack of repositories answers with the union of its members' answers** (as a multiset: a package present
in two member repositories is reported by both) -/
theorem multiplex_union (env : Env) (tbl : Nat → Leaf) (trees : List Repo) (S : Sorter) (hS : Lawful S)
    (hwf : ∀ t ∈ trees, WF t) (versioned : Bool) (r : R) (hk : atomsKeyed tbl r = true) (pk : Pkg) :
    (pk ∈ multiplexMatch env tbl trees S versioned r ↔ ∃ t ∈ trees, pk ∈ answer env tbl t versioned r) ∧
    (multiplexMatch env tbl trees S versioned r).count pk =
      (trees.map fun t => (answer env tbl t versioned r).count pk).sum := by
  constructor
  · simp only [multiplexMatch, List.mem_flatMap]
    constructor
    · rintro ⟨t, ht, h⟩; exact ⟨t, ht, (mem_itermatch_iff env tbl t S hS versioned r hk pk).mp h⟩
    · rintro ⟨t, ht, h⟩; exact ⟨t, ht, (mem_itermatch_iff env tbl t S hS versioned r hk pk).mpr h⟩
  · simp only [multiplexMatch, List.count_flatMap]
    congr 1
    apply List.map_congr_left
    intro t ht
    exact (itermatch_exact env tbl t S hS (hwf t ht) versioned r hk).count_eq pk

/-- **a filtered repository** answers with the wrapped repository's answer restricted to the packages on which
the filter restriction gives the sentinel value (default: the filter's matches are masked out) -/
theorem filtered_exact (env : Env) (tbl : Nat → Leaf) (repo : Repo) (S : Sorter) (hS : Lawful S) (hwf : WF repo)
    (versioned : Bool) (mask : R) (sentinel : Bool) (r : R) (hk : atomsKeyed tbl r = true) :
    (filteredMatch env tbl repo S versioned mask sentinel r).Perm
      ((answer env tbl repo versioned r).filter fun pk => holds env tbl mask pk == sentinel) := by
  simp only [filteredMatch]
  have h := (itermatch_exact env tbl repo S hS hwf versioned r hk).filter
    (fun pk => pmatches env tbl mask pk == sentinel)
  simpa only [pmatches_eq_holds] using h

/-! ## stacks of stacks

A member of a `multiplex.tree` only has to offer `itermatch`; it may itself be a stack — `multiplex.tree(multiplex.tree(a, b), c)`, and
`stack + stack` (`__add__` appends the other stack as one member).  `multiplex.tree.itermatch` (default sorter) chains the members'
`itermatch` whatever they are, so the nesting is irrelevant: the answer is that of the flat stack of the leaves.  (The definitions live
here, next to the theorem that uses them, so that the model / proof modules and the driver are unchanged; the real nested stacks are compared
with the union of the leaves' brute-force answers by the harness.) -/

/-- a member of a stack is a repository or again a stack -/
inductive Stack where
  | repo (t : Repo)
  | mux (members : List Stack)

mutual
/-- the repositories at the leaves, in stacking order -/
def Stack.leaves : Stack → List Repo
  | .repo t => [t]
  | .mux ms => leavesL ms
def leavesL : List Stack → List Repo
  | [] => []
  | s :: ss => s.leaves ++ leavesL ss
end

mutual
/-- `itermatch` of a member: a repository answers itself, a stack chains its members' answers (`multiplex.tree.itermatch`) -/
def stackMatch (env : Env) (tbl : Nat → Leaf) (S : Sorter) (versioned : Bool) (r : R) : Stack → List Pkg
  | .repo t => itermatch env tbl t S versioned r
  | .mux ms => stackMatchL env tbl S versioned r ms
def stackMatchL (env : Env) (tbl : Nat → Leaf) (S : Sorter) (versioned : Bool) (r : R) : List Stack → List Pkg
  | [] => []
  | s :: ss => stackMatch env tbl S versioned r s ++ stackMatchL env tbl S versioned r ss
end

mutual
/-- nesting is irrelevant: a stack of stacks answers like the flat stack of its leaves -/
theorem stackMatch_flat (env : Env) (tbl : Nat → Leaf) (S : Sorter) (versioned : Bool) (r : R) :
    (s : Stack) → stackMatch env tbl S versioned r s = multiplexMatch env tbl s.leaves S versioned r
  | .repo t => by simp [stackMatch, Stack.leaves, multiplexMatch]
  | .mux ms => by
    simp only [stackMatch, Stack.leaves]
    exact stackMatchL_flat env tbl S versioned r ms
theorem stackMatchL_flat (env : Env) (tbl : Nat → Leaf) (S : Sorter) (versioned : Bool) (r : R) :
    (ss : List Stack) → stackMatchL env tbl S versioned r ss = multiplexMatch env tbl (leavesL ss) S versioned r
  | [] => by simp [stackMatchL, leavesL, multiplexMatch]
  | s :: ss => by
    simp only [stackMatchL, leavesL]
    rw [stackMatch_flat env tbl S versioned r s, stackMatchL_flat env tbl S versioned r ss]
    simp [multiplexMatch, List.flatMap_append]
end

/-- **a stack of stacks answers with the union of the answers of the repositories at its leaves**, however they are nested
(as a multiset, like `multiplex_union`; for every restriction — in particular atoms pinned to a repository are just leaves
that look at the package) -/
theorem nested_multiplex_union (env : Env) (tbl : Nat → Leaf) (s : Stack) (S : Sorter) (hS : Lawful S)
    (hwf : ∀ t ∈ s.leaves, WF t) (versioned : Bool) (r : R) (hk : atomsKeyed tbl r = true) (pk : Pkg) :
    (pk ∈ stackMatch env tbl S versioned r s ↔ ∃ t ∈ s.leaves, pk ∈ answer env tbl t versioned r) ∧
    (stackMatch env tbl S versioned r s).count pk =
      (s.leaves.map fun t => (answer env tbl t versioned r).count pk).sum := by
  rw [stackMatch_flat]
  exact multiplex_union env tbl s.leaves S hS hwf versioned r hk pk

/-- `multiplex.tree(multiplex.tree(a, b), multiplex.tree(), c)`: three leaves, all well-formed -/
example :
    let a : Repo := ⟨[(['a'], [(['x'], [['1'], ['2']])])]⟩
    let b : Repo := ⟨[(['a'], [(['x'], [['1']])]), (['b'], [(['y'], [['3']])])]⟩
    let c : Repo := ⟨[(['b'], [(['y'], [['3']])])]⟩
    let s : Stack := .mux [.mux [.repo a, .repo b], .mux [], .repo c]
    s.leaves = [a, b, c] ∧ ∀ t ∈ s.leaves, WF t := by
  refine ⟨by simp [Stack.leaves, leavesL], ?_⟩
  intro t ht
  simp only [Stack.leaves, leavesL, List.append_nil, List.nil_append, List.cons_append, List.mem_cons, List.not_mem_nil, or_false] at ht
  rcases ht with rfl | rfl | rfl <;> exact WF_of_wfCheck _ (by decide)

end Pkgcore.C08
