import Pkgcore.Proofs.C17
/-!
# C17 — planner rollback restores the exact earlier state

Property theorems only (helper lemmas live in `Pkgcore/Proofs/C17.lean`).  `applyCmd`, `revertEntry`,
`backtrack` mirror `pkgcore.resolver.state` / `pigeonholes` (after the six `fix:` commits); `exec`,
`surviving`, `replay`, `Same` are the specification (`Spec/C17.lean`).

Guard.  The theorems are stated for operations that respect their contract, `applicable`:
a forced `add_op` is not handed a package object that is already slotted, `remove_op(choices, pkg)` names the
choice point `pkg` was added with, `replace_op` is used on a slot that holds exactly one package.  Without the
guard the statements are false of the model *and of the code* (`…_counterexample` below, reproduced by the
harness and recorded as open findings); hence the suffix `_partial`.  Everything else is unrestricted:
any universe of objects, any operations, any length, rollbacks to any recorded position, nested in any way.
-/
namespace Pkgcore.C17

/-- **Undoing any single operation** — including the compound ones (`remove`, `replace` with the `decref`s
they log, the refused `replace` with its internal rollback) — restores the state: after
`op.apply(plan)`, `plan.backtrack(position before)` does not raise and yields the same snapshot and the same log.

Full statement (false, see the counterexamples): the same without `applicable U s c = true`. -/
theorem revert_apply_partial (U : Univ) (s s' : State) (c : Cmd) (out : List Conf) (i : Inv s)
    (ha : applicable U s c = true) (h : applyCmd U s c = some (s', out)) :
    ∃ s'', backtrack U s' s.plan.length = some s'' ∧ Same s'' s ∧ s''.plan = s.plan := by
  obtain ⟨s'', h1, h2, h3⟩ := revert_apply_aux U i ha h
  exact ⟨s'', h1, same_iff.mpr ⟨h2, by rw [h3]⟩, h3⟩

/-- the hypotheses are satisfiable by a non-trivial value: replacing a package that carries a blocker -/
example : ∃ U s s' out, Inv s ∧ applicable U s (.replace 1 1 false) = true ∧
    applyCmd U s (.replace 1 1 false) = some (s', out) ∧ s'.plan.length = s.plan.length + 2 := by
  refine ⟨⟨fun _ => 0, fun _ => 0, fun _ => 0, fun _ _ => false⟩,
    { slots := [0], choices := [(0, 0)], limiters := [5], refcnt := [5], revb := [(0, 5)],
      plan := [.add 0 0 false, .incref 0 5] }, _, _, ⟨by decide, ?_, ?_⟩, by decide, rfl, by decide⟩
  · intro p; by_cases hp : p = 0 <;> simp [hp]
  · intro b; by_cases hb : b = 5 <;> simp [hb, List.count_cons]
    intro h; exact absurd h.symm hb

/-- **A refused operation changes nothing**: when `apply` returns its conflicts without logging anything
(`add_op`, `replace_op`), the snapshot is what it was — in particular the displaced package and its blockers
are back after a refused `replace_op`. -/
theorem refused_apply_noop_partial (U : Univ) (s s' : State) (c : Cmd) (out : List Conf) (i : Inv s)
    (ha : applicable U s c = true) (h : applyCmd U s c = some (s', out)) (hp : s'.plan = s.plan) :
    Same s' s := by
  obtain ⟨s'', h1, h2, _⟩ := revert_apply_partial U s s' c out i ha h
  rw [← hp, backtrack_self] at h1
  simp only [Option.some.injEq] at h1
  rw [h1]; exact h2

/-- a refused replace exists: the new package is blocked, the old one carries a blocker of its own -/
example : ∃ U s s' out, applicable U s (.replace 1 1 false) = true ∧
    applyCmd U s (.replace 1 1 false) = some (s', out) ∧ out ≠ [] ∧ s'.plan = s.plan ∧ s'.slots = s.slots := by
  refine ⟨⟨fun _ => 0, fun _ => 0, fun _ => 0, fun b p => b == 7 && p == 1⟩,
    { slots := [0], choices := [(0, 0)], limiters := [5, 7], refcnt := [5, 7], revb := [(0, 5), (3, 7)],
      plan := [.add 0 0 false, .incref 0 5, .incref 3 7] }, _, _, by decide, rfl, by decide, by decide, by decide⟩

/-- **Rollback = replay of what remains.**  For every history of operations and rollbacks (to any position
recorded between operations, in any nesting), run from the empty planner: if it runs through, replaying only
the operations that remain on a fresh planner succeeds and gives the same snapshot — slot occupancy, limiters,
reverse blocker table, blocker reference counts, `vdb_filter`, forced restrictions as multisets,
`pkg_choices` as a map, and a log of the same length.

Full statement (false): the same for `exec` without the `applicable` test. -/
theorem backtrack_eq_replay_partial (U : Univ) (h : List Step) (r : Run) (hr : exec U Run.init h = .ok r) :
    ∃ t, replay U init (surviving h []) = some t ∧ Same r.st t := by
  obtain ⟨t, h1, h2, _⟩ := ((exec_inv U h Run.init [] (runInv_init U)).1 r hr).cur U
  exact ⟨t, h1, h2⟩

/-- a history with a nested rollback over a compound operation that runs through -/
example : ∃ U r, exec U Run.init
    [.op (.add 0 0 false), .op (.incref 0 5), .op (.add 1 1 false), .op (.replace 2 2 false), .rollback 3,
     .op (.remove 0 0), .rollback 2, .op (.hardref 9)] = .ok r ∧ r.st.plan.length = 3 :=
  ⟨⟨fun p => p % 2, fun _ => 0, fun _ => 0, fun _ _ => false⟩, _, rfl, by decide⟩

/-- **No rollback ever raises** (the `KeyError`s / `AssertionError` of the `revert` methods are unreachable):
a history can only stop at an operation — one that raises or breaks its contract — or at an unknown position. -/
theorem rollback_never_raises_partial (U : Univ) (h : List Step) : exec U Run.init h ≠ .error .rollbackRaised :=
  (exec_inv U h Run.init [] (runInv_init U)).2

/-- **Every reachable planner state is consistent**: a package object is slotted at most once,
`pkg_choices` is keyed by exactly the slotted packages, a blocker is a limiter exactly while its reference
count is positive. -/
theorem reachable_inv (U : Univ) (h : List Step) (r : Run) (hr : exec U Run.init h = .ok r) :
    r.st.slots.Nodup ∧ (∀ p, p ∈ r.st.slots ↔ (r.st.choices.lookup p).isSome) ∧
    (∀ b, r.st.limiters.count b = if b ∈ r.st.refcnt then 1 else 0) :=
  let i := ((exec_inv U h Run.init [] (runInv_init U)).1 r hr).inv
  ⟨i.nodup, i.dom, i.lim⟩

/-! ## the guard is needed (each of these is reproduced on the real classes by the harness) -/

/-- all packages in one slot of one key, no blocker matches anything -/
def U₀ : Univ := ⟨fun _ => 0, fun _ => 0, fun _ => 0, fun _ _ => false⟩

/-- forced `add_op` of an already slotted package object: undoing it removes both entries and the binding -/
theorem revert_apply_counterexample_forced_readd :
    ∃ s s', applyCmd U₀ init (.add 0 0 false) = some (s, []) ∧ applyCmd U₀ s (.add 0 0 true) = some (s', []) ∧
      (backtrack U₀ s' s.plan.length).map (fun x => (x.slots, x.choices)) = some ([], []) ∧
      (s.slots, s.choices) = ([0], [(0, 0)]) :=
  ⟨_, _, rfl, rfl, by decide, by decide⟩

/-- `remove_op` naming another choice point: undoing it binds the package to that one -/
theorem revert_apply_counterexample_foreign_choices :
    ∃ s s', applyCmd U₀ init (.add 0 0 false) = some (s, []) ∧ applyCmd U₀ s (.remove 1 0) = some (s', []) ∧
      (backtrack U₀ s' s.plan.length).map (fun x => x.choices.lookup 0) = some (some 1) ∧
      s.choices.lookup 0 = some 0 :=
  ⟨_, _, rfl, rfl, by decide, by decide⟩

/-- forced `replace_op` in a doubly occupied slot: which package is displaced depends on the order of the
slot list, and that order is not restored by a rollback (here: `remove 0` undone puts `0` behind `1`) -/
theorem backtrack_eq_replay_counterexample_double_occupancy :
    ∃ s t, (replay U₀ init [.add 0 0 false, .add 1 1 true]) = some t ∧
      ((replay U₀ init [.add 0 0 false, .add 1 1 true, .remove 0 0]).bind fun x => backtrack U₀ x 2) = some s ∧
      s.slots.Perm t.slots ∧
      ((applyCmd U₀ s (.replace 2 2 true)).map fun x => x.1.slots) = some [0, 2] ∧
      ((applyCmd U₀ t (.replace 2 2 true)).map fun x => x.1.slots) = some [1, 2] :=
  ⟨_, _, rfl, rfl, by decide, by decide, by decide⟩

end Pkgcore.C17
