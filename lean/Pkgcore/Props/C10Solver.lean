import Pkgcore.Proofs.C10Solver
/-!
# C10 — the REQUIRED_USE solver without the solver contract

Property theorems about the faithful model of `snakeoil.constraints.Problem` (`Model/C10Solver.lean`: `_Domain` with
its hidden-value and state stacks, `__check` with forward checking, the degree/MRV variable choice, the backtracking
search of `__solve`, the one-variable preprocessing of `__iter__`), for **every** problem: any variables, any domains
(ordered lists), any constraints (variables + predicate).  `WF` is what `add_variable`/`add_constraint` assert.
Then C10's four solver-dependent theorems again, for `solveFaithful` (the real construction of
`find_constraint_satisfaction` run on the solver model) — no contract hypothesis.
-/
namespace Pkgcore.C10.Solver
variable {Var Val : Type} [DecidableEq Var] [DecidableEq Val]

/-- **Forward checking is sound**: a value that `__check` removes from the visible domain of `y` has no consistent
extension — every total assignment that contains the current assignments and gives `y` that value violates the checked
constraint.  (This is what makes the pruning search complete.) -/
theorem forward_check_sound (c : Constraint Var Val) (asg : Asg Var Val) (st : Store Var Val) (y : Var) (d d' : Dom Val)
    (w : Val) (hl : st.lookup y = some d) (hl' : (check c asg st).2.lookup y = some d') (hw : w ∈ d.vis) (hw' : w ∉ d'.vis)
    (a : Var → Val) (hag : Agrees asg a) (hy : a y = w) : c.pred (restr c.scope a) = false := by
  rcases check_cases c asg st with ⟨_, h⟩ | ⟨_, h⟩ | ⟨y0, d0, hf, hl0, h⟩
  · rw [h, hl] at hl'; simp only [Option.some.injEq] at hl'; subst hl'; exact absurd hw hw'
  · rw [h, hl] at hl'; simp only [Option.some.injEq] at hl'; subst hl'; exact absurd hw hw'
  · rw [h] at hl'
    simp only [lookup_modify, hl, Option.map_some, Option.some.injEq] at hl'
    by_cases hyy : y = y0
    · subst hyy
      rw [hl] at hl0
      simp only [Option.some.injEq] at hl0
      subst hl0
      simp only [if_true] at hl'
      subst hl'
      subst hy
      rw [← known_of_agrees_one hf hag]
      simp only [fcDom, List.mem_filter, not_and, Bool.not_eq_true] at hw'
      exact hw' hw
    · simp only [hyy, if_false] at hl'
      subst hl'; exact absurd hw hw'

/-- a value forward checking hides did violate the constraint, together with assigned values only: `asg = [x ↦ 1]`,
constraint `x ≠ y` — `1` leaves the domain `[0, 1]` of `y`, `0` stays -/
example :
    let c : Constraint Nat Nat := ⟨[0, 1], fun kw => kw 0 != kw 1⟩
    ((check c [(0, 1)] [(0, { vis := [0, 1] }), (1, { vis := [0, 1] })]).2.lookup 1).map (·.vis) = some [0] := by decide

/-- **Sound**: every yielded assignment gives each variable a value of its domain and satisfies every constraint
(that has at least one variable — a constraint without variables is never called by the solver). -/
theorem solver_sound (P : Problem Var Val) (hwf : P.WF) (s : Asg Var Val) (hs : s ∈ solve P) :
    (∀ e ∈ P.vars, ∃ v, s.lookup e.1 = some v ∧ v ∈ e.2) ∧
    (∀ c ∈ P.cons, c.scope ≠ [] → c.pred (known c.scope s) = true) := by
  unfold solve at hs
  simp only at hs
  split at hs
  · simp at hs
  · have hpost := sound_solveRec P.lt (preprocess P.cons (initStore P.vars)).1 P.domain P.keys _ _ []
      ⟨fun x d hl w hw => by rw [← (start_lookup P x d hl).1]; exact hw,
       fun x v hl => by simp at hl,
       fun c _ hne hf => by
         have : c.scope.filter (unassigned ([] : Asg Var Val)) = c.scope := by
           apply List.filter_eq_self.mpr; intro x _; simp [unassigned]
         rw [this] at hf; exact absurd hf hne⟩
      (start_keys P) s hs
    have hval : ∀ x ∈ P.keys, ∃ v, s.lookup x = some v ∧ v ∈ P.domain x := by
      intro x hx
      obtain ⟨v, hv⟩ := (unassigned_false_iff s x).mp (hpost.total x hx)
      exact ⟨v, hv, hpost.val x v hv⟩
    constructor
    · intro e he
      obtain ⟨v, hv, hd⟩ := hval e.1 (List.mem_map.mpr ⟨e, he, rfl⟩)
      refine ⟨v, hv, ?_⟩
      have hlk : P.vars.lookup e.1 = some e.2 := lookup_of_mem_nodup P.vars e.1 e.2 hwf.keysNodup he
      simp only [Problem.domain, hlk, Option.getD_some, List.mem_filter] at hd
      exact hd.1
    · intro c hc hne
      by_cases hlen : c.scope.length = 1
      · obtain ⟨x, hx⟩ := List.length_eq_one_iff.mp hlen
        obtain ⟨v, hv, hd⟩ := hval x (hwf.scopes c hc x (by simp [hx]))
        simp only [Problem.domain, List.mem_filter, unaryOk, List.all_eq_true] at hd
        have := hd.2 c hc
        simp only [hx, decide_true, Bool.not_true, Bool.false_or] at this
        have hk : known c.scope s = known [x] [(x, v)] := by
          funext z
          unfold known
          by_cases hz : z = x
          · subst hz; simp [hx, hv, List.lookup_cons]
          · simp [hx, hz]
        rw [hk]; exact this
      · apply hpost.sat c _ hne (hwf.scopes c hc)
        rw [preprocess_cons, List.mem_filter]
        exact ⟨hc, by simpa using hlen⟩

/-- a constraint without variables is ignored by the solver (it sits in no `vconstraints` list): the false constraint
over no variables does not stop the solution from being yielded -/
theorem solver_sound_counterexample :
    solve ({ vars := [(0, [7])], cons := [⟨[], fun _ => false⟩], lt := fun a b => decide (a < b) } : Problem Nat Nat)
      = [[(0, 7)]] := by decide

theorem start_not_empty (P : Problem Var Val) (hwf : P.WF) (a : Var → Val) (hsol : P.Sol a) :
    (preprocess P.cons (initStore P.vars)).2.any (fun e => e.2.vis.isEmpty) = false := by
  rw [Bool.eq_false_iff]
  intro h
  rw [List.any_eq_true] at h
  obtain ⟨e, he, hemp⟩ := h
  have hlk := lookup_of_mem_nodup _ e.1 e.2 (by rw [start_keys]; exact hwf.keysNodup) he
  obtain ⟨hvis, dom, hdom⟩ := start_lookup P e.1 e.2 hlk
  have : a e.1 ∈ e.2.vis := by
    rw [hvis]
    simp only [Problem.domain, hdom, Option.getD_some, List.mem_filter]
    exact ⟨hsol.dom (e.1, dom) (lookup_mem e.1 P.vars dom hdom), unaryOk_of_sat hsol.sat e.1⟩
  cases hv : e.2.vis with
  | nil => rw [hv] at this; simp at this
  | cons _ _ => rw [hv] at hemp; simp at hemp

/-- **Complete**: every assignment of domain values that satisfies all constraints is yielded. -/
theorem solver_complete (P : Problem Var Val) (hwf : P.WF) (a : Var → Val) (hsol : P.Sol a) :
    ∃ s ∈ solve P, P.Is s a := by
  unfold solve
  simp only [start_not_empty P hwf a hsol, Bool.false_eq_true, if_false]
  obtain ⟨s, hs, hag, htot⟩ := complete_solveRec (a := a) P.lt (preprocess P.cons (initStore P.vars)).1 P.keys
    (fun c hc => hsol.sat c (by rw [preprocess_cons] at hc; exact (List.mem_filter.mp hc).1))
    (preprocess P.cons (initStore P.vars)).2.length _ []
    (fun x v hl => by simp at hl)
    (fun x d _ hl => by
      obtain ⟨hvis, dom, hdom⟩ := start_lookup P x d hl
      rw [hvis]
      simp only [Problem.domain, hdom, Option.getD_some, List.mem_filter]
      exact ⟨hsol.dom (x, dom) (lookup_mem x P.vars dom hdom), unaryOk_of_sat hsol.sat x⟩)
    (start_keys P)
    (by
      rw [← start_keys P]
      unfold unCount
      exact Nat.le_trans (List.length_filter_le _ _) (by simp))
  refine ⟨s, hs, fun x hx => ?_⟩
  obtain ⟨v, hv⟩ := (unassigned_false_iff s x).mp (htot x hx)
  rw [hv, hag x v hv]

/-- **No duplicates**: when the domains list no value twice, no two yielded dicts are equal (they differ on some
variable of the problem). -/
theorem solver_nodup (P : Problem Var Val) (hdn : ∀ e ∈ P.vars, e.2.Nodup) :
    (solve P).Pairwise (Distinct P.keys) := by
  unfold solve
  simp only
  split
  · exact List.Pairwise.nil
  · apply nodup_solveRec P.lt _ P.keys _ _ [] _ (start_keys P)
    intro x d hl
    obtain ⟨hvis, dom, hdom⟩ := start_lookup P x d hl
    rw [hvis]
    simp only [Problem.domain, hdom, Option.getD_some]
    exact List.Pairwise.filter _ (hdn (x, dom) (lookup_mem x P.vars dom hdom))

/-- **Order of the enumeration**: the solver branches first on `firstVar` (most constraints, then fewest values, then
smallest name) and tries the values of its domain from the END of the list: the solutions come in consecutive blocks,
one per value of that domain taken in reverse order, and every solution of a block gives the variable that value. -/
theorem solver_order (P : Problem Var Val) (var : Var) (hv : P.firstVar = some var) :
    ∃ blocks : List (List (Asg Var Val)), solve P = blocks.flatten ∧
      Blocks (fun v s => s.lookup var = some v) (P.domain var).reverse blocks := by
  unfold Problem.firstVar at hv
  have hsv := selectVar_some hv
  obtain ⟨d, hd⟩ := lookup_some_of_mem_keys _ var hsv.2
  have hvis := (start_lookup P var d hd).1
  unfold solve
  simp only
  split
  · exact ⟨_, (flatten_map_nil _).symm, blocks_empty _ _⟩
  · cases hlen : (preprocess P.cons (initStore P.vars)).2.length with
    | zero =>
      have : (preprocess P.cons (initStore P.vars)).2 = [] := List.eq_nil_of_length_eq_zero hlen
      rw [this] at hsv; simp at hsv
    | succ n =>
      unfold solveRec
      simp only [hv, hd]
      obtain ⟨bs, h1, h2⟩ := order_tryValues _ (ext_solveRec P.lt (preprocess P.cons (initStore P.vars)).1 n)
        (preprocess P.cons (initStore P.vars)).1 var [] d.vis.reverse (preprocess P.cons (initStore P.vars)).2
      rw [hvis] at h2
      refine ⟨bs, h1, ?_⟩
      have conv : ∀ (vals : List Val) (bs : List (List (Asg Var Val))),
          Blocks (fun v s => LExt ((var, v) :: []) s) vals bs → Blocks (fun v s => s.lookup var = some v) vals bs := by
        intro vals bs h
        induction h with
        | nil => exact .nil
        | cons hb _ ih => exact .cons (fun s hs => hb s hs var _ (by simp)) ih
      exact conv _ _ h2

/-- **Preferred first**: when the assignment made of the LAST value of every domain satisfies all constraints, it is
the first one yielded. -/
theorem solver_preferred_first (P : Problem Var Val) (hwf : P.WF) (a : Var → Val)
    (hlast : ∀ e ∈ P.vars, e.2.getLast? = some (a e.1)) (hsat : ∀ c ∈ P.cons, c.pred (restr c.scope a) = true) :
    ∃ s, (solve P).head? = some s ∧ P.Is s a := by
  have hsol : P.Sol a := ⟨fun e he => by
    obtain ⟨ys, hys⟩ := List.getLast?_eq_some_iff.mp (hlast e he)
    rw [hys]; simp, hsat⟩
  unfold solve
  simp only [start_not_empty P hwf a hsol, Bool.false_eq_true, if_false]
  obtain ⟨s, hs, hag, htot⟩ := first_solveRec (a := a) P.lt (preprocess P.cons (initStore P.vars)).1 P.keys
    (fun c hc => hsat c (by rw [preprocess_cons] at hc; exact (List.mem_filter.mp hc).1))
    (preprocess P.cons (initStore P.vars)).2.length _ []
    (fun x v hl => by simp at hl)
    (fun x d _ hl => by
      obtain ⟨hvis, dom, hdom⟩ := start_lookup P x d hl
      rw [hvis]
      simp only [Problem.domain, hdom, Option.getD_some]
      exact getLast?_filter _ _ _ (hlast (x, dom) (lookup_mem x P.vars dom hdom)) (unaryOk_of_sat hsat x))
    (start_keys P)
    (by
      rw [← start_keys P]
      unfold unCount
      exact Nat.le_trans (List.length_filter_le _ _) (by simp))
  refine ⟨s, hs, fun x hx => ?_⟩
  obtain ⟨v, hv⟩ := (unassigned_false_iff s x).mp (htot x hx)
  rw [hv, hag x v hv]

end Pkgcore.C10.Solver
