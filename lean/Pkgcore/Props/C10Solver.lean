import Pkgcore.Proofs.C10Solver
import Pkgcore.Props.C10
/-!
# C10 — the REQUIRED_USE solver without the solver contract

Property theorems about the faithful model of `snakeoil.constraints.Problem` (`Model/C10Solver.lean`: `_Domain` with
its hidden-value and state stacks, `__check` with forward checking, the degree/MRV variable choice, the backtracking
search of `__solve`, the one-variable preprocessing of `__iter__`), for **every** problem: any variables, any domains
(ordered lists), any constraints (variables + predicate).  `WF` is what `add_variable`/`add_constraint` assert.
Then C10's four solver-dependent theorems again, for `solveFaithful` (the real construction of
`find_constraint_satisfaction` run on the solver model) — no contract hypothesis.
-/
namespace Pkgcore.C10.Solver
variable {Var Val : Type} [DecidableEq Var] [DecidableEq Val]

/-- **Forward checking is sound**: a value that `__check` removes from the visible domain of `y` has no consistent
extension — every total assignment that contains the current assignments and gives `y` that value violates the checked
constraint.  (This is what makes the pruning search complete.) -/
theorem forward_check_sound (c : Constraint Var Val) (asg : Asg Var Val) (st : Store Var Val) (y : Var) (d d' : Dom Val)
    (w : Val) (hl : st.lookup y = some d) (hl' : (check c asg st).2.lookup y = some d') (hw : w ∈ d.vis) (hw' : w ∉ d'.vis)
    (a : Var → Val) (hag : Agrees asg a) (hy : a y = w) : c.pred (restr c.scope a) = false := by
  rcases check_cases c asg st with ⟨_, h⟩ | ⟨_, h⟩ | ⟨y0, d0, hf, hl0, h⟩
  · rw [h, hl] at hl'; simp only [Option.some.injEq] at hl'; subst hl'; exact absurd hw hw'
  · rw [h, hl] at hl'; simp only [Option.some.injEq] at hl'; subst hl'; exact absurd hw hw'
  · rw [h] at hl'
    simp only [lookup_modify, hl, Option.map_some, Option.some.injEq] at hl'
    by_cases hyy : y = y0
    · subst hyy
      rw [hl] at hl0
      simp only [Option.some.injEq] at hl0
      subst hl0
      simp only [if_true] at hl'
      subst hl'
      subst hy
      rw [← known_of_agrees_one hf hag]
      simp only [fcDom, List.mem_filter, not_and, Bool.not_eq_true] at hw'
      exact hw' hw
    · simp only [hyy, if_false] at hl'
      subst hl'; exact absurd hw hw'

/-- a value forward checking hides did violate the constraint, together with assigned values only: `asg = [x ↦ 1]`,
constraint `x ≠ y` — `1` leaves the domain `[0, 1]` of `y`, `0` stays -/
example :
    let c : Constraint Nat Nat := ⟨[0, 1], fun kw => kw 0 != kw 1⟩
    ((check c [(0, 1)] [(0, { vis := [0, 1] }), (1, { vis := [0, 1] })]).2.lookup 1).map (·.vis) = some [0] := by decide

/-- **Sound**: every yielded assignment gives each variable a value of its domain and satisfies every constraint
(that has at least one variable — a constraint without variables is never called by the solver). -/
theorem solver_sound (P : Problem Var Val) (hwf : P.WF) (s : Asg Var Val) (hs : s ∈ solve P) :
    (∀ e ∈ P.vars, ∃ v, s.lookup e.1 = some v ∧ v ∈ e.2) ∧
    (∀ c ∈ P.cons, c.scope ≠ [] → c.pred (known c.scope s) = true) := by
  unfold solve at hs
  simp only at hs
  split at hs
  · simp at hs
  · have hpost := sound_solveRec P.lt (preprocess P.cons (initStore P.vars)).1 P.domain P.keys _ _ []
      ⟨fun x d hl w hw => by rw [← (start_lookup P x d hl).1]; exact hw,
       fun x v hl => by simp at hl,
       fun c _ hne hf => by
         have : c.scope.filter (unassigned ([] : Asg Var Val)) = c.scope := by
           apply List.filter_eq_self.mpr; intro x _; simp [unassigned]
         rw [this] at hf; exact absurd hf hne⟩
      (start_keys P) s hs
    have hval : ∀ x ∈ P.keys, ∃ v, s.lookup x = some v ∧ v ∈ P.domain x := by
      intro x hx
      obtain ⟨v, hv⟩ := (unassigned_false_iff s x).mp (hpost.total x hx)
      exact ⟨v, hv, hpost.val x v hv⟩
    constructor
    · intro e he
      obtain ⟨v, hv, hd⟩ := hval e.1 (List.mem_map.mpr ⟨e, he, rfl⟩)
      refine ⟨v, hv, ?_⟩
      have hlk : P.vars.lookup e.1 = some e.2 := lookup_of_mem_nodup P.vars e.1 e.2 hwf.keysNodup he
      simp only [Problem.domain, hlk, Option.getD_some, List.mem_filter] at hd
      exact hd.1
    · intro c hc hne
      by_cases hlen : c.scope.length = 1
      · obtain ⟨x, hx⟩ := List.length_eq_one_iff.mp hlen
        obtain ⟨v, hv, hd⟩ := hval x (hwf.scopes c hc x (by simp [hx]))
        simp only [Problem.domain, List.mem_filter, unaryOk, List.all_eq_true] at hd
        have := hd.2 c hc
        simp only [hx, decide_true, Bool.not_true, Bool.false_or] at this
        have hk : known c.scope s = known [x] [(x, v)] := by
          funext z
          unfold known
          by_cases hz : z = x
          · subst hz; simp [hx, hv, List.lookup_cons]
          · simp [hx, hz]
        rw [hk]; exact this
      · apply hpost.sat c _ hne (hwf.scopes c hc)
        rw [preprocess_cons, List.mem_filter]
        exact ⟨hc, by simpa using hlen⟩

/-- the worked problem is well formed and has six solutions; the search branches on x₁ first (two constraints), tries
`2` (nothing), then `1`, then `0` -/
example : exampleProblem.WF := ⟨by decide, by decide⟩
example : solve exampleProblem =
    [[(0, 2), (2, 2), (1, 1)], [(0, 0), (2, 2), (1, 1)], [(2, 1), (0, 1), (1, 0)], [(2, 2), (0, 1), (1, 0)],
     [(2, 1), (0, 2), (1, 0)], [(2, 2), (0, 2), (1, 0)]] := by decide

/-- a constraint without variables is ignored by the solver (it sits in no `vconstraints` list): the false constraint
over no variables does not stop the solution from being yielded -/
theorem solver_sound_counterexample :
    solve ({ vars := [(0, [7])], cons := [⟨[], fun _ => false⟩], lt := fun a b => decide (a < b) } : Problem Nat Nat)
      = [[(0, 7)]] := by decide

theorem start_not_empty (P : Problem Var Val) (hwf : P.WF) (a : Var → Val) (hsol : P.Sol a) :
    (preprocess P.cons (initStore P.vars)).2.any (fun e => e.2.vis.isEmpty) = false := by
  rw [Bool.eq_false_iff]
  intro h
  rw [List.any_eq_true] at h
  obtain ⟨e, he, hemp⟩ := h
  have hlk := lookup_of_mem_nodup _ e.1 e.2 (by rw [start_keys]; exact hwf.keysNodup) he
  obtain ⟨hvis, dom, hdom⟩ := start_lookup P e.1 e.2 hlk
  have : a e.1 ∈ e.2.vis := by
    rw [hvis]
    simp only [Problem.domain, hdom, Option.getD_some, List.mem_filter]
    exact ⟨hsol.dom (e.1, dom) (lookup_mem e.1 P.vars dom hdom), unaryOk_of_sat hsol.sat e.1⟩
  cases hv : e.2.vis with
  | nil => rw [hv] at this; simp at this
  | cons _ _ => rw [hv] at hemp; simp at hemp

/-- **Complete**: every assignment of domain values that satisfies all constraints is yielded. -/
theorem solver_complete (P : Problem Var Val) (hwf : P.WF) (a : Var → Val) (hsol : P.Sol a) :
    ∃ s ∈ solve P, P.Is s a := by
  unfold solve
  simp only [start_not_empty P hwf a hsol, Bool.false_eq_true, if_false]
  obtain ⟨s, hs, hag, htot⟩ := complete_solveRec (a := a) P.lt (preprocess P.cons (initStore P.vars)).1 P.keys
    (fun c hc => hsol.sat c (by rw [preprocess_cons] at hc; exact (List.mem_filter.mp hc).1))
    (preprocess P.cons (initStore P.vars)).2.length _ []
    (fun x v hl => by simp at hl)
    (fun x d _ hl => by
      obtain ⟨hvis, dom, hdom⟩ := start_lookup P x d hl
      rw [hvis]
      simp only [Problem.domain, hdom, Option.getD_some, List.mem_filter]
      exact ⟨hsol.dom (x, dom) (lookup_mem x P.vars dom hdom), unaryOk_of_sat hsol.sat x⟩)
    (start_keys P)
    (by
      rw [← start_keys P]
      unfold unCount
      exact Nat.le_trans (List.length_filter_le _ _) (by simp))
  refine ⟨s, hs, fun x hx => ?_⟩
  obtain ⟨v, hv⟩ := (unassigned_false_iff s x).mp (htot x hx)
  rw [hv, hag x v hv]

example : exampleProblem.Sol (fun x => if x = 1 then 0 else 2) := ⟨by decide, by decide⟩

/-- **No duplicates**: when the domains list no value twice, no two yielded dicts are equal (they differ on some
variable of the problem). -/
theorem solver_nodup (P : Problem Var Val) (hdn : ∀ e ∈ P.vars, e.2.Nodup) :
    (solve P).Pairwise (Distinct P.keys) := by
  unfold solve
  simp only
  split
  · exact List.Pairwise.nil
  · apply nodup_solveRec P.lt _ P.keys _ _ [] _ (start_keys P)
    intro x d hl
    obtain ⟨hvis, dom, hdom⟩ := start_lookup P x d hl
    rw [hvis]
    simp only [Problem.domain, hdom, Option.getD_some]
    exact List.Pairwise.filter _ (hdn (x, dom) (lookup_mem x P.vars dom hdom))

example : ∀ e ∈ exampleProblem.vars, e.2.Nodup := by decide

/-- **Order of the enumeration**: the solver branches first on `firstVar` (most constraints, then fewest values, then
smallest name) and tries the values of its domain from the END of the list: the solutions come in consecutive blocks,
one per value of that domain taken in reverse order, and every solution of a block gives the variable that value. -/
theorem solver_order (P : Problem Var Val) (var : Var) (hv : P.firstVar = some var) :
    ∃ blocks : List (List (Asg Var Val)), solve P = blocks.flatten ∧
      Blocks (fun v s => s.lookup var = some v) (P.domain var).reverse blocks := by
  unfold Problem.firstVar at hv
  have hsv := selectVar_some hv
  obtain ⟨d, hd⟩ := lookup_some_of_mem_keys _ var hsv.2
  have hvis := (start_lookup P var d hd).1
  unfold solve
  simp only
  split
  · exact ⟨_, (flatten_map_nil _).symm, blocks_empty _ _⟩
  · cases hlen : (preprocess P.cons (initStore P.vars)).2.length with
    | zero =>
      have : (preprocess P.cons (initStore P.vars)).2 = [] := List.eq_nil_of_length_eq_zero hlen
      rw [this] at hsv; simp at hsv
    | succ n =>
      unfold solveRec
      simp only [hv, hd]
      obtain ⟨bs, h1, h2⟩ := order_tryValues _ (ext_solveRec P.lt (preprocess P.cons (initStore P.vars)).1 n)
        (preprocess P.cons (initStore P.vars)).1 var [] d.vis.reverse (preprocess P.cons (initStore P.vars)).2
      rw [hvis] at h2
      refine ⟨bs, h1, ?_⟩
      have conv : ∀ (vals : List Val) (bs : List (List (Asg Var Val))),
          Blocks (fun v s => LExt ((var, v) :: []) s) vals bs → Blocks (fun v s => s.lookup var = some v) vals bs := by
        intro vals bs h
        induction h with
        | nil => exact .nil
        | cons hb _ ih => exact .cons (fun s hs => hb s hs var _ (by simp)) ih
      exact conv _ _ h2

example : exampleProblem.firstVar = some 1 ∧ exampleProblem.domain 1 = [0, 1, 2] ∧
    (solve exampleProblem).map (·.lookup 1) = [some 1, some 1, some 0, some 0, some 0, some 0] := by decide

/-- **Preferred first**: when the assignment made of the LAST value of every domain satisfies all constraints, it is
the first one yielded. -/
theorem solver_preferred_first (P : Problem Var Val) (hwf : P.WF) (a : Var → Val)
    (hlast : ∀ e ∈ P.vars, e.2.getLast? = some (a e.1)) (hsat : ∀ c ∈ P.cons, c.pred (restr c.scope a) = true) :
    ∃ s, (solve P).head? = some s ∧ P.Is s a := by
  have hsol : P.Sol a := ⟨fun e he => by
    obtain ⟨ys, hys⟩ := List.getLast?_eq_some_iff.mp (hlast e he)
    rw [hys]; simp, hsat⟩
  unfold solve
  simp only [start_not_empty P hwf a hsol, Bool.false_eq_true, if_false]
  obtain ⟨s, hs, hag, htot⟩ := first_solveRec (a := a) P.lt (preprocess P.cons (initStore P.vars)).1 P.keys
    (fun c hc => hsat c (by rw [preprocess_cons] at hc; exact (List.mem_filter.mp hc).1))
    (preprocess P.cons (initStore P.vars)).2.length _ []
    (fun x v hl => by simp at hl)
    (fun x d _ hl => by
      obtain ⟨hvis, dom, hdom⟩ := start_lookup P x d hl
      rw [hvis]
      simp only [Problem.domain, hdom, Option.getD_some]
      exact getLast?_filter _ _ _ (hlast (x, dom) (lookup_mem x P.vars dom hdom)) (unaryOk_of_sat hsat x))
    (start_keys P)
    (by
      rw [← start_keys P]
      unfold unCount
      exact Nat.le_trans (List.length_filter_le _ _) (by simp))
  refine ⟨s, hs, fun x hx => ?_⟩
  obtain ⟨v, hv⟩ := (unassigned_false_iff s x).mp (htot x hx)
  rw [hv, hag x v hv]

example : exampleProblem2.WF ∧ (∀ e ∈ exampleProblem2.vars, e.2.getLast? = some ((fun x => if x = 0 then 1 else 0) e.1)) ∧
    (∀ c ∈ exampleProblem2.cons, c.pred (restr c.scope (fun x => if x = 0 then 1 else 0)) = true) ∧
    solve exampleProblem2 = [[(1, 0), (0, 1)], [(1, 1), (0, 0)]] := ⟨⟨by decide, by decide⟩, by decide, by decide, by decide⟩

end Pkgcore.C10.Solver

/-! ## C10's solver-dependent theorems without the contract -/
namespace Pkgcore.C10
open Pkgcore.C09 Pkgcore.C10.Spec

/-- what a solution of the solver model looks like from `find_constraint_satisfaction`'s side -/
theorem render_of_is (inp : Inputs) (ts : List Dep) (s : Solver.Asg Tok Bool) (a : Tok → Bool)
    (h : (problem inp ts).Is s a) : render (variables inp ts) s = (variables inp ts).map fun v => (v, a v) := by
  unfold render
  apply List.map_congr_left
  intro v hv
  have := h v (by rw [problem_keys]; exact hv)
  unfold Solver.getVal
  rw [this]; rfl

/-- **Exactly the solutions** (no contract): for a structure without empty groups, the assignments
`find_constraint_satisfaction` yields through the real solver's search are exactly the assignments of domain values
that satisfy every compiled constraint.  (Right to left needs no guard.) -/
theorem solutions_exact_faithful (inp : Inputs) (ts : List Dep) (hne : nonEmptyL ts = true) (al : List (Tok × Bool)) :
    al ∈ solveFaithful inp ts ↔
      (inProd al ((variables inp ts).map fun v => (v, domainOf inp v)) = true ∧
       (compiled ts).all (·.eval (onOf al)) = true) := by
  constructor
  · intro h
    unfold solveFaithful at h
    obtain ⟨s, hs, rfl⟩ := List.mem_map.mp h
    obtain ⟨h1, h2⟩ := Solver.solver_sound (problem inp ts) (problem_wf inp ts) s hs
    have hval : ∀ v ∈ variables inp ts, Solver.getVal s v = some ((Solver.getVal s v).getD false) ∧
        (Solver.getVal s v).getD false ∈ domainOf inp v := by
      intro v hv
      obtain ⟨b, hb, hd⟩ := h1 (v, domainOf inp v) (by simp only [problem, List.mem_map]; exact ⟨v, hv, rfl⟩)
      unfold Solver.getVal
      simp only at hb hd
      rw [hb]; exact ⟨rfl, hd⟩
    refine ⟨(inProd_map (domainOf inp) _ _).mpr fun v hv => (hval v hv).2, ?_⟩
    rw [List.all_eq_true]
    intro mc hmc
    have hsub : ∀ x ∈ mc.flags, x ∈ variables inp ts := by
      intro x hx
      have := (problem_wf inp ts).scopes mc.toConstraint (by simp only [problem, List.mem_map]; exact ⟨mc, hmc, rfl⟩) x hx
      rwa [problem_keys] at this
    have := h2 mc.toConstraint (by simp only [problem, List.mem_map]; exact ⟨mc, hmc, rfl⟩)
      (compiled_flags_ne_nil ts hne mc hmc)
    have hk : Solver.known mc.toConstraint.scope s = Solver.restr mc.flags fun v => (Solver.getVal s v).getD false :=
      known_eq_restr mc.flags s _ (fun x hx => (hval x (hsub x hx)).1)
    rw [hk, toConstraint_pred mc _ (variables inp ts) hsub] at this
    unfold render
    rw [onOf_map]; exact this
  · rintro ⟨hin, hall⟩
    have hnd : (variables inp ts).Nodup := dedup_nodup _
    have hshape := inProd_shape (domainOf inp) (variables inp ts) al hnd hin
    rw [hshape] at hin hall
    rw [onOf_map] at hall
    have hdom := (inProd_map (domainOf inp) _ _).mp hin
    have hsol : (problem inp ts).Sol fun v => (al.lookup v).getD false := by
      constructor
      · intro e he
        simp only [problem, List.mem_map] at he
        obtain ⟨v, hv, rfl⟩ := he
        exact hdom v hv
      · intro c hc
        simp only [problem, List.mem_map] at hc
        obtain ⟨mc, hmc, rfl⟩ := hc
        have hsub : ∀ x ∈ mc.flags, x ∈ variables inp ts := by
          intro x hx
          have := (problem_wf inp ts).scopes mc.toConstraint (by simp only [problem, List.mem_map]; exact ⟨mc, hmc, rfl⟩) x hx
          rwa [problem_keys] at this
        have : mc.toConstraint.scope = mc.flags := rfl
        rw [this, toConstraint_pred mc _ (variables inp ts) hsub]
        exact List.all_eq_true.mp hall mc hmc
    obtain ⟨s, hs, his⟩ := Solver.solver_complete (problem inp ts) (problem_wf inp ts) _ hsol
    unfold solveFaithful
    rw [List.mem_map]
    refine ⟨s, hs, ?_⟩
    rw [render_of_is inp ts s _ his]
    exact hshape.symm

/-- `^^ ( a b ) c? ( a )` has no empty group -/
example : nonEmptyL [.grp .justOne [.leaf ['a'] none, .leaf ['b'] none], .cond false ['c'] [.leaf ['a'] none]] = true := by decide

/-- `|| ( )` (an empty group, which the parser never builds) compiles to a constraint without variables; the real solver
never calls such a constraint, so the false rule does not stop the (empty) assignment from being yielded -/
theorem solutions_exact_faithful_counterexample :
    solveFaithful ⟨[], [], [], []⟩ [.grp .or []] = [[]] ∧ (compiled [.grp .or []]).all (·.eval (onOf [])) = false := by
  decide

/-- **Sound** (no contract): every assignment yielded by the modelled solver satisfies the compiled constraints, hence
(guard) the REQUIRED_USE. -/
theorem solutions_sound_faithful (inp : Inputs) (ts : List Dep) (hne : nonEmptyL ts = true) (a : List (Tok × Bool))
    (ha : a ∈ solveFaithful inp ts) :
    (compiled ts).all (·.eval (onOf a)) = true ∧ (choiceCondFreeL ts = true → evalRU ts (onOf a) = true) := by
  have h := ((solutions_exact_faithful inp ts hne a).mp ha).2
  exact ⟨h, fun hg => by rw [← compile_equiv_partial ts _ hg hne]; exact h⟩

/-- **Complete** (no contract): every assignment that gives each variable a value of its domain and satisfies the
REQUIRED_USE (guard) is yielded by the modelled solver. -/
theorem solutions_complete_faithful (inp : Inputs) (ts : List Dep) (a : List (Tok × Bool))
    (hdom : inProd a ((variables inp ts).map fun v => (v, domainOf inp v)) = true)
    (hg : choiceCondFreeL ts = true) (hne : nonEmptyL ts = true) (hsat : evalRU ts (onOf a) = true) :
    a ∈ solveFaithful inp ts :=
  (solutions_exact_faithful inp ts hne a).mpr ⟨hdom, by rw [compile_equiv_partial ts _ hg hne]; exact hsat⟩

/-- **Exactly once** (no contract). -/
theorem solutions_nodup_faithful (inp : Inputs) (ts : List Dep) : (solveFaithful inp ts).Nodup := by
  unfold solveFaithful
  have hp := Solver.solver_nodup (problem inp ts) (by
    intro e he
    simp only [problem, List.mem_map] at he
    obtain ⟨v, _, rfl⟩ := he
    exact domainOf_nodup inp v)
  have hsound := Solver.solver_sound (problem inp ts) (problem_wf inp ts)
  unfold List.Nodup
  rw [List.pairwise_map]
  refine List.Pairwise.imp_of_mem ?_ hp
  intro s t hs ht ⟨x, hx, hne⟩ heq
  rw [problem_keys] at hx
  have hsx := (hsound s hs).1 (x, domainOf inp x) (by simp only [problem, List.mem_map]; exact ⟨x, hx, rfl⟩)
  have htx := (hsound t ht).1 (x, domainOf inp x) (by simp only [problem, List.mem_map]; exact ⟨x, hx, rfl⟩)
  obtain ⟨b, hb, _⟩ := hsx
  obtain ⟨b', hb', _⟩ := htx
  simp only at hb hb'
  have h1 : (x, (Solver.getVal s x).getD false) ∈ render (variables inp ts) s := List.mem_map.mpr ⟨x, hx, rfl⟩
  rw [heq] at h1
  obtain ⟨y, _, hy⟩ := List.mem_map.mp h1
  simp only [Prod.mk.injEq] at hy
  obtain ⟨rfl, hy2⟩ := hy
  unfold Solver.getVal at hy2
  rw [hb, hb'] at hy2
  simp only [Option.getD_some] at hy2
  rw [hb, hb', hy2] at hne
  exact hne rfl

/-- **Preference first** (no contract): when the preferred assignment (forced flags as forced, preferred flags on,
every other flag off) satisfies the constraints, it is the first assignment the modelled solver yields. -/
theorem preferred_first_faithful (inp : Inputs) (ts : List Dep)
    (h : (compiled ts).all (·.eval (onOf (preferred inp (variables inp ts)))) = true) :
    (solveFaithful inp ts).head? = some (preferred inp (variables inp ts)) := by
  have hpref : preferred inp (variables inp ts)
      = (variables inp ts).map fun v => (v, (domainOf inp v).getLast?.getD false) := rfl
  rw [hpref, onOf_map] at h
  obtain ⟨s, hs, his⟩ := Solver.solver_preferred_first (problem inp ts) (problem_wf inp ts)
    (fun v => (domainOf inp v).getLast?.getD false)
    (by
      intro e he
      simp only [problem, List.mem_map] at he
      obtain ⟨v, _, rfl⟩ := he
      simp only
      cases hl : (domainOf inp v).getLast? with
      | none => exact absurd (List.getLast?_eq_none_iff.mp hl) (domainOf_ne_nil inp v)
      | some b => rfl)
    (by
      intro c hc
      simp only [problem, List.mem_map] at hc
      obtain ⟨mc, hmc, rfl⟩ := hc
      have hsub : ∀ x ∈ mc.flags, x ∈ variables inp ts := by
        intro x hx
        have := (problem_wf inp ts).scopes mc.toConstraint (by simp only [problem, List.mem_map]; exact ⟨mc, hmc, rfl⟩) x hx
        rwa [problem_keys] at this
      have : mc.toConstraint.scope = mc.flags := rfl
      rw [this, toConstraint_pred mc _ (variables inp ts) hsub]
      exact List.all_eq_true.mp h mc hmc)
  unfold solveFaithful
  rw [List.head?_map, hs, Option.map_some, render_of_is inp ts s _ his, hpref]

/-- **Preference first, in the property's words** (no contract): when the assignment the property words — forced flags
as forced, preferred flags on, all others off, everything outside IUSE off (`preferredByWording`, which does not look
at the domains; `preferred_is_property_preference`) — satisfies the constraints, it is the first assignment the
modelled solver yields.  Hypothesis: no IUSE flag is forced both ways (the real call raises AssertionError then). -/
theorem preferred_first_faithful_property (inp : Inputs) (ts : List Dep)
    (hdis : ∀ f, f ∈ inp.iuse → f ∈ inp.forceT → f ∉ inp.forceF)
    (h : (compiled ts).all (·.eval (onOf (preferredByWording inp (variables inp ts)))) = true) :
    (solveFaithful inp ts).head? = some (preferredByWording inp (variables inp ts)) := by
  rw [← preferred_eq_wording inp _ hdis] at h ⊢
  exact preferred_first_faithful inp ts h

/-- `|| ( a b c d )`, IUSE a b c d, a forced on, b forced off, c preferred, d plain: a and c on comes first -/
example : ((solveFaithful ⟨[['a'], ['b'], ['c'], ['d']], [['a']], [['b']], [['c']]⟩
    [.grp .or [.leaf ['a'] none, .leaf ['b'] none, .leaf ['c'] none, .leaf ['d'] none]]).map onOf).head?
    = some [['a'], ['c']] := by decide

/-- **The contract is discharged**: on structures without empty groups the modelled solver yields the solutions of the
contract model `solve` (cartesian product filtered by the constraints), each once, possibly in another order. -/
theorem faithful_perm_contract (inp : Inputs) (ts : List Dep) (hne : nonEmptyL ts = true) :
    (solveFaithful inp ts).Perm (solve inp ts) := by
  rw [List.perm_ext_iff_of_nodup (solutions_nodup_faithful inp ts) (solutions_nodup inp ts)]
  intro al
  rw [solutions_exact_faithful inp ts hne al]
  unfold solve
  rw [List.mem_filter, mem_product]

/-- `^^ ( a b )`, IUSE a b, prefer b: the preferred solution (b alone) first, then a alone -/
example : (solveFaithful ⟨[['a'], ['b']], [], [], [['b']]⟩ [.grp .justOne [.leaf ['a'] none, .leaf ['b'] none]]).map onOf
    = [[['b']], [['a']]] := by decide

end Pkgcore.C10
