import Pkgcore.Proofs.C15
import Pkgcore.Proofs.C17
/-!
# C15 — successful resolutions are dependency-closed and slot-consistent

Property theorems only.  The search of `merge_plan` is not modelled; every plan the real resolver reports is
decided by the checker `planOk` (run by the harness through the compiled driver), and the theorems below say
what an accepted plan is guaranteed to be.  `Good` (`Spec/C15.lean`) is the property's own statement.
The last section proves the part of the guarantee that already follows from the planner's state layer
(model of C17) for *every* sequence of planner operations.
-/
namespace Pkgcore.C15

/-- **Soundness of the certificate checker**: a plan accepted by `planOk` satisfies the property — every
target matched by a present package, every clause of all five dependency classes of every merged package
has a satisfied alternative, at most one present package per key and slot, no present package matched by a
mandatory blocker of another merged package.  No bound on the repository, the targets or the plan. -/
theorem planOk_sound (U : List Pkg) (targets : List Atom) (plan : List Op)
    (h : planOk U targets plan = true) : Good U targets plan := by
  unfold planOk at h
  simp only [Bool.and_eq_true] at h
  obtain ⟨hU, h⟩ := h
  cases hr : runPlan U (U.filter (·.livefs), []) plan with
  | none => rw [hr] at h; cases h
  | some st =>
    obtain ⟨F, merged⟩ := st
    rw [hr] at h
    simp only [Bool.and_eq_true, List.all_eq_true, List.any_eq_true] at h
    obtain ⟨⟨ht, hs⟩, hc⟩ := h
    obtain ⟨hF, hM, _⟩ := run_sets hU hr
    have closed : ∀ p, Merged U plan p → ∀ cls ∈ p.deps, ∀ cl ∈ cls, ∃ a ∈ cl, Satisfied U plan p a := by
      intro p hp cls hcls cl hcl
      have := hc p ((hM p).mpr hp)
      simp only [pkgClosed, List.all_eq_true, clauseOk, List.any_eq_true] at this
      obtain ⟨a, ha, hok⟩ := this cls hcls cl hcl
      exact ⟨a, ha, (altOk_iff hF p a).mp hok⟩
    refine ⟨?_, closed, ?_, ?_⟩
    · intro t htt
      obtain ⟨p, hp, hm⟩ := ht t htt
      exact ⟨p, (hF p).mp hp, hm⟩
    · intro p q hp hq k s
      exact slotsOk_unique hs ((hF p).mpr hp) ((hF q).mpr hq) k s
    · intro p hp cls hcls a ha hb q hq hne
      obtain ⟨a', ha', hsat⟩ := closed p hp cls hcls [a] ha
      simp only [List.mem_singleton] at ha'
      subst ha'
      simp only [Satisfied, hb, if_true] at hsat
      exact hsat q hq hne

/-- **Completeness on well-formed plans**: the checker rejects a plan it can walk only if the plan is not `Good`
(so a rejection is never an artefact of the checker) -/
theorem planOk_complete (U : List Pkg) (targets : List Atom) (plan : List Op) (hU : idsOk U = true)
    (st : List Pkg × List Pkg) (hr : runPlan U (U.filter (·.livefs), []) plan = some st)
    (g : Good U targets plan) : planOk U targets plan = true := by
  obtain ⟨F, merged⟩ := st
  obtain ⟨hF, hM, nd⟩ := run_sets hU hr
  unfold planOk
  simp only [hU, hr, Bool.true_and, Bool.and_eq_true, List.all_eq_true, List.any_eq_true]
  refine ⟨⟨?_, ?_⟩, ?_⟩
  · intro t ht
    obtain ⟨p, hp, hm⟩ := g.targetsMet t ht
    exact ⟨p, (hF p).mpr hp, hm⟩
  · exact slotsOk_of_unique nd fun p q hp hq => g.slotConsistent p q ((hF p).mp hp) ((hF q).mp hq)
  · intro p hp
    simp only [pkgClosed, List.all_eq_true, clauseOk, List.any_eq_true]
    intro cls hcls cl hcl
    obtain ⟨a, ha, hs⟩ := g.closed p ((hM p).mp hp) cls hcls cl hcl
    exact ⟨a, ha, (altOk_iff hF p a).mpr hs⟩

/-! a non-trivial accepted plan: upgrade of an installed package whose new version needs a further package
through an any-of clause, with a blocker on an old version of that package, and a rejected variant -/

def v (n : Nat) : Pkgcore.C01.Ver := ⟨[(toString n).toList], none, []⟩
def exU : List Pkg :=
  [ ⟨0, 0, v 1, some [], 0, true, [[], [], [], [], []]⟩,                                        -- installed a-1
    ⟨1, 0, v 2, some [], 0, false,
      [[], [], [[⟨false, 1, some (">=", v 2, some []), none⟩, ⟨false, 2, none, none⟩],           -- RDEPEND || ( >=b-2 c )
                [⟨true, 1, some ("<", v 2, some []), none⟩]], [], []]⟩,                             --         !<b-2
    ⟨2, 1, v 1, some [], 0, false, [[], [], [], [], []]⟩,                                         -- b-1
    ⟨3, 1, v 2, some [], 0, false, [[], [], [], [], []]⟩ ]                                        -- b-2

example : planOk exU [⟨false, 0, none, none⟩] [.add 0, .replace 0 1, .add 3] = true := by decide
example : planOk exU [⟨false, 0, none, none⟩] [.add 0, .replace 0 1, .add 2] = false := by decide
example : planOk exU [⟨false, 0, none, none⟩] [.replace 0 1, .add 3, .add 2] = false := by decide

/-! ## the clause reorder strategy cannot change what a clause demands -/

/-- **The reorder strategy only reorders**: what `default_depset_reorder_strategy` hands to the search for a
clause is a permutation of the clause's alternatives — none dropped, none invented, whatever is already
provided and whichever alternatives are blockers. -/
theorem reorder_perm {α : Type} (blocks pref : α → Bool) (cl : List α) :
    (reorderClause blocks pref cl).Perm cl := by
  unfold reorderClause
  split
  · exact .refl _
  · simp only
    split
    · exact .refl _
    · exact List.filter_append_perm _ _

/-- hence a clause is satisfied by a package set exactly when the reordered clause is, and a non-empty clause
never reaches the search empty (an empty clause would be read as "nothing failed") -/
theorem reorder_keeps_clause (F : List Pkg) (p : Pkg) (blocks pref : Atom → Bool) (cl : List Atom) :
    clauseOk F p (reorderClause blocks pref cl) = clauseOk F p cl ∧
    (cl ≠ [] → reorderClause blocks pref cl ≠ []) := by
  have hp := reorder_perm blocks pref cl
  refine ⟨?_, ?_⟩
  · rw [Bool.eq_iff_iff]
    simp only [clauseOk, List.any_eq_true]
    exact ⟨fun ⟨a, ha, h⟩ => ⟨a, hp.mem_iff.mp ha, h⟩, fun ⟨a, ha, h⟩ => ⟨a, hp.mem_iff.mpr ha, h⟩⟩
  · intro hne h
    rw [h] at hp
    exact hne hp.symm.eq_nil

/-- three alternatives, the second one already provided, the third a blocker that is "provided" too -/
example : reorderClause (fun a : Nat => a == 3) (fun a => a != 1) [1, 2, 3] = [2, 1, 3] := by decide
example : reorderClause (fun _ : Nat => false) (fun _ => false) [1, 2, 3] = [1, 2, 3] := by decide

/-! ## what the planner's state layer guarantees by itself (model of C17) -/

open Pkgcore.C17 in
/-- **An unforced insertion never lands on a limiter**: if an active limiter (blocker) matches the package,
`add_op(force=False)` returns the conflict and leaves the planner exactly as it was. -/
theorem limiter_refuses_blocked (U : Univ) (s s' : State) (c p b : Nat) (out : List Conf)
    (hb : b ∈ s.limiters) (hm : limits U p b = true) (h : applyCmd U s (.add c p false) = some (s', out)) :
    s' = s ∧ Conf.blk b ∈ out := by
  have hmem : Conf.blk b ∈ conflicts U s p := by
    simp only [conflicts, List.mem_append, List.mem_map]
    exact .inl ⟨b, List.mem_filter.mpr ⟨hb, hm⟩, rfl⟩
  have hne : (conflicts U s p).isEmpty = false := by
    cases hc : conflicts U s p with
    | nil => rw [hc] at hmem; cases hmem
    | cons _ _ => rfl
  simp only [applyCmd, fillSlotting, hne, Bool.not_false, Bool.and_self, Bool.or_false, Bool.false_eq_true,
    if_true, if_false, Option.some.injEq, Prod.mk.injEq] at h
  exact ⟨h.1.symm, by rw [← h.2]; exact hmem⟩

open Pkgcore.C17 in
/-- **Without forced operations the planner never holds two packages in one slot**: for every history of
planner operations and rollbacks in which no `add_op`/`replace_op` is forced, the reached state has at most one
slotted package per key and slot (the resolver forces only the loading of installed packages). -/
theorem unforced_slot_unique (U : Univ) (h : List Step) (r : Run) (hr : exec U Run.init h = .ok r)
    (hu : ∀ st ∈ h, UnforcedStep st) : SlotUnique U r.st := by
  have J := (exec_inv U h Run.init [] (runInv_init U)).1 r hr
  have claim : ∀ j, j ≤ (surviving h []).length → ∀ t, replay U init ((surviving h []).take j) = some t →
      SlotUnique U t := by
    intro j
    induction j with
    | zero =>
      intro _ t ht
      simp only [List.take_zero, replay, Option.some.injEq] at ht
      subst ht; intro p q hp; simp [init] at hp
    | succ j ih =>
      intro hj t ht
      have hjl : j < (surviving h []).length := hj
      rw [List.take_add_one, List.getElem?_eq_getElem hjl, Option.toList_some, replay_append] at ht
      simp only [Option.bind_eq_some_iff, Option.map_eq_some_iff] at ht
      obtain ⟨tj, h1, ⟨t', out⟩, h2, h3⟩ := ht
      simp only at h3; subst h3
      have hm : ∃ k, r.marks[j]? = some k := by
        have : j < r.marks.length := by rw [J.len]; omega
        exact ⟨r.marks[j], List.getElem?_eq_getElem this⟩
      obtain ⟨k, hk⟩ := hm
      obtain ⟨_, tj', _, g2, _, g4⟩ := J.rel j k hk
      rw [h1] at g2; simp only [Option.some.injEq] at g2; subst g2
      have hc : UnforcedCmd (surviving h [])[j] := by
        rcases surviving_mem (List.getElem_mem hjl) with hx | hx
        · cases hx
        · exact hu _ hx
      exact slotUnique_apply U g4 (ih (Nat.le_of_lt hjl) tj h1) hc h2
  obtain ⟨t, ht, hst, _⟩ := J.cur U
  have := claim _ (Nat.le_refl _) t (by rw [List.take_length]; exact ht)
  exact SlotUnique.of_perm hst.slots.symm this

open Pkgcore.C17 in
example : ∃ U h r, exec U Run.init h = .ok r ∧ (∀ st ∈ h, UnforcedStep st) ∧ r.st.slots = [1, 2] :=
  ⟨⟨fun p => p % 2, fun _ => 0, fun _ => 0, fun _ _ => false⟩,
   [.op (.add 0 1 false), .op (.add 0 3 false), .op (.add 0 2 false), .rollback 1, .op (.add 0 2 false)], _, rfl,
   by intro st hst; simp at hst; rcases hst with rfl | rfl | rfl | rfl | rfl <;> simp [UnforcedStep, UnforcedCmd], by decide⟩

end Pkgcore.C15
