import Pkgcore.Proofs.C48
/-!
# C48 — cached metadata is used only while it is still valid

Property theorems only (helper lemmas: `Pkgcore/Proofs/C48.lean`).  `validate`, `getMetadata` mirror
`cache.base.validate_entry` + `eclass_cache.rebuild_cache_entry` and `package_factory._get_metadata`/`_update_metadata`;
`Spec.Valid`, `Spec.FirstValid` are the property's own notions.  `WFCache`: every recorded eclass carries at least
one attribute (true of every cache format: `eclass_chf_types` is never empty and record lengths are checked on read).
-/
namespace Pkgcore.C48
open Pkgcore.C48.Spec

/-- **`validate_entry` decides exactly the property's notion of validity**: the recorded ebuild checksum (or mtime)
is the current one, and — when eclasses are recorded — the entry has `INHERIT` and every recorded eclass still exists
with every recorded attribute (checksum; location and mtime for the flat format).  Any number of eclasses, any format. -/
theorem validate_iff_valid (w : World) (fmt : Fmt) (e : Entry) (hwf : WFEntry fmt e) :
    validate w fmt e = true ↔ Valid w fmt e :=
  validate_iff w fmt e hwf

/-- non-vacuity: an md5-dict entry with two eclasses is valid; it stops being valid when one eclass changes, vanishes,
or `INHERIT` is missing; the flat format also notices a moved eclass -/
example :
    let w : World := ⟨⟨"e0", "10", "/o/cat/p"⟩, fun n => if n = "a" then some ⟨"a0", "5", "/m/eclass"⟩ else
                                                  if n = "b" then some ⟨"b0", "6", "/o/eclass"⟩ else none⟩
    let w' : World := { w with eclass := fun n => if n = "a" then some ⟨"a0", "5", "/o/eclass"⟩ else w.eclass n }
    validate w .md5dict ⟨"e0", some [("a", ["a0"]), ("b", ["b0"])], true, 7⟩ = true ∧
    validate w .md5dict ⟨"e0", some [("a", ["a0"]), ("b", ["b1"])], true, 7⟩ = false ∧
    validate w .md5dict ⟨"e0", some [("a", ["a0"]), ("c", ["c0"])], true, 7⟩ = false ∧
    validate w .md5dict ⟨"e0", some [("a", ["a0"])], false, 7⟩ = false ∧
    validate w .md5dict ⟨"e1", none, false, 7⟩ = false ∧
    validate w .flat ⟨"10", some [("a", ["/m/eclass", "5"])], true, 7⟩ = true ∧
    validate w' .flat ⟨"10", some [("a", ["/m/eclass", "5"])], true, 7⟩ = false ∧
    validate w' .md5dict ⟨"e0", some [("a", ["a0"])], true, 7⟩ = true := by
  decide

theorem getMetadata_fst (w : World) (regen : Option (List String)) (cs : List Cache) :
    (getMetadata w regen cs).1 =
      match cs.findIdx? (holdsValidB w) with
      | some k => (match cs[k]? with
                   | some c => (match c.slot with | .entry e => .used k e.payload | _ => .failed)
                   | none => .failed)
      | none => (match regen with | none => .failed | some _ => .regenerated) := by
  unfold getMetadata
  rw [walk_eq]
  cases hf : cs.findIdx? (holdsValidB w) with
  | none => cases regen <;> simp
  | some k =>
    obtain ⟨hk, hv, _⟩ := List.findIdx?_eq_some_iff_getElem.1 hf
    have hget : cs[k]? = some cs[k] := List.getElem?_eq_getElem hk
    simp only [hget, Option.bind_some]
    cases hs : cs[k].slot with
    | absent => simp [holdsValidB, hs] at hv
    | unreadable => simp [holdsValidB, hs] at hv
    | entry e => simp

/-- **cached metadata is used exactly when it is valid**: `_get_metadata` returns the payload `p` of cache number `i`
iff `i` is the first configured cache holding a valid entry for the package and `p` is that entry's payload.  Any
number of caches, of either format, read-only or not. -/
theorem cache_used_iff_valid (w : World) (regen : Option (List String)) (cs : List Cache)
    (hwf : ∀ c ∈ cs, WFCache c) (i p : Nat) :
    (getMetadata w regen cs).1 = .used i p ↔ FirstValid w cs i p := by
  rw [getMetadata_fst]
  have hiff : ∀ c ∈ cs, (holdsValidB w c = true ↔ HoldsValid w c) := fun c hc => holdsValidB_iff w c (hwf c hc)
  cases hf : cs.findIdx? (holdsValidB w) with
  | none =>
    have hnone := List.findIdx?_eq_none_iff.1 hf
    constructor
    · intro h; cases regen <;> simp at h
    · rintro ⟨⟨c, e, hc, hs, hv, _⟩, _⟩
      exfalso
      have hmem : c ∈ cs := List.mem_of_getElem? hc
      have := (hiff c hmem).2 ⟨e, hs, hv⟩
      rw [hnone c hmem] at this
      simp at this
  | some k =>
    obtain ⟨hk, hv, hmin⟩ := List.findIdx?_eq_some_iff_getElem.1 hf
    have hget : cs[k]? = some cs[k] := List.getElem?_eq_getElem hk
    simp only [hget]
    cases hs : cs[k].slot with
    | absent => simp [holdsValidB, hs] at hv
    | unreadable => simp [holdsValidB, hs] at hv
    | entry e =>
      simp only [Result.used.injEq]
      have hvalid : Valid w cs[k].fmt e := by
        obtain ⟨e', he', hv'⟩ := (hiff _ (List.getElem_mem hk)).1 hv
        rw [hs] at he'; cases he'; exact hv'
      constructor
      · rintro ⟨rfl, rfl⟩
        refine ⟨⟨cs[k], e, hget, hs, hvalid, rfl⟩, ?_⟩
        intro j c hj hc hhv
        have hjl : j < cs.length := by omega
        have : cs[j] = c := by
          have := List.getElem?_eq_getElem hjl
          rw [this] at hc; exact Option.some.inj hc
        subst this
        exact hmin j hj ((hiff _ (List.getElem_mem hjl)).2 hhv)
      · rintro ⟨⟨c, e', hc, hs', hv', hp⟩, hmin'⟩
        have hil : i < cs.length := by
          rcases Nat.lt_or_ge i cs.length with h | h
          · exact h
          · rw [List.getElem?_eq_none h] at hc; simp at hc
        have hci : cs[i] = c := by
          have := List.getElem?_eq_getElem hil
          rw [this] at hc; exact Option.some.inj hc
        have hki : k = i := by
          rcases Nat.lt_trichotomy k i with h | h | h
          · exact absurd ((hiff _ (List.getElem_mem hk)).1 hv) (hmin' k cs[k] h hget)
          · exact h
          · exfalso
            apply hmin i h
            rw [hci]
            exact (hiff c (List.mem_of_getElem? hc)).2 ⟨e', hs', hv'⟩
        subst hki
        rw [hci] at hs
        rw [hs'] at hs
        cases hs
        exact ⟨rfl, hp⟩

/-- **otherwise the metadata is regenerated**: `_get_metadata` sources the ebuild iff no configured cache holds a
valid entry (and reports failure iff, in addition, sourcing fails) -/
theorem regenerated_iff_none_valid (w : World) (regen : Option (List String)) (cs : List Cache)
    (hwf : ∀ c ∈ cs, WFCache c) :
    ((getMetadata w regen cs).1 = .regenerated ↔ (∀ c ∈ cs, ¬ HoldsValid w c) ∧ regen.isSome = true) ∧
    ((getMetadata w regen cs).1 = .failed ↔ (∀ c ∈ cs, ¬ HoldsValid w c) ∧ regen = none) := by
  rw [getMetadata_fst]
  have hiff : ∀ c ∈ cs, (holdsValidB w c = true ↔ HoldsValid w c) := fun c hc => holdsValidB_iff w c (hwf c hc)
  cases hf : cs.findIdx? (holdsValidB w) with
  | none =>
    have hnone := List.findIdx?_eq_none_iff.1 hf
    have hall : ∀ c ∈ cs, ¬ HoldsValid w c := by
      intro c hc hh
      have := (hiff c hc).2 hh
      rw [hnone c hc] at this
      simp at this
    cases regen <;> simp_all
  | some k =>
    obtain ⟨hk, hv, _⟩ := List.findIdx?_eq_some_iff_getElem.1 hf
    have hget : cs[k]? = some cs[k] := List.getElem?_eq_getElem hk
    have hhv := (hiff _ (List.getElem_mem hk)).1 hv
    have hex : ¬ ∀ c ∈ cs, ¬ HoldsValid w c := fun h => h _ (List.getElem_mem hk) hhv
    simp only [hget]
    cases hs : cs[k].slot with
    | absent => simp [holdsValidB, hs] at hv
    | unreadable => simp [holdsValidB, hs] at hv
    | entry e => simp [hex]

example :
    let w : World := ⟨⟨"e0", "10", "/o/cat/p"⟩, fun n => if n = "a" then some ⟨"a1", "5", "/m/eclass"⟩ else none⟩
    let stale : Entry := ⟨"e0", some [("a", ["a0"])], true, 7⟩
    let good : Entry := ⟨"10", some [("a", ["/m/eclass", "5"])], true, 8⟩
    getMetadata w (some ["a"]) [⟨.md5dict, true, .entry stale⟩, ⟨.md5dict, false, .entry stale⟩, ⟨.flat, false, .entry good⟩]
      = (.used 2 8, [⟨.md5dict, true, .entry stale⟩, ⟨.md5dict, false, .absent⟩, ⟨.flat, false, .entry good⟩]) ∧
    getMetadata w (some ["a"]) [⟨.md5dict, true, .entry stale⟩, ⟨.md5dict, false, .entry stale⟩, ⟨.flat, false, .unreadable⟩]
      = (.regenerated, [⟨.md5dict, true, .entry stale⟩, ⟨.md5dict, false, .entry ⟨"e0", some [("a", ["a1"])], true, 0⟩⟩,
                        ⟨.flat, false, .unreadable⟩]) := by
  decide

/-- **the stale entry is replaced** (regeneration): when nothing valid was cached and sourcing succeeds (its inherited
eclasses exist), afterwards
* the first writable cache — if there is one — holds the fresh entry, which is valid for the current tree;
* no writable cache holds an entry `validate_entry` would reject;
* read-only caches, and every cache's format and read-only flag, are untouched. -/
theorem stale_entry_replaced (w : World) (inherited : List String) (cs : List Cache)
    (hex : ∀ n ∈ inherited, (w.eclass n).isSome = true)
    (hres : (getMetadata w (some inherited) cs).1 = .regenerated)
    (cs' : List Cache) (hcs : cs' = (getMetadata w (some inherited) cs).2) :
    cs'.length = cs.length ∧
    (∀ k c, cs.findIdx? (fun c => !c.readonly) = some k → cs[k]? = some c →
        cs'[k]? = some { c with slot := .entry (mkEntry w inherited c.fmt) } ∧
        Valid w c.fmt (mkEntry w inherited c.fmt)) ∧
    (∀ c' ∈ cs', c'.readonly = false → ∀ e, c'.slot = .entry e → validate w c'.fmt e = true) ∧
    (∀ (j : Nat) (c : Cache), cs[j]? = some c → ∃ c' : Cache, cs'[j]? = some c' ∧ c'.fmt = c.fmt ∧ c'.readonly = c.readonly ∧
        (c.readonly = true → c' = c)) := by
  have hnone : cs.findIdx? (holdsValidB w) = none := by
    rw [getMetadata_fst] at hres
    cases hf : cs.findIdx? (holdsValidB w) with
    | none => rfl
    | some k =>
      exfalso
      obtain ⟨hk, hv, _⟩ := List.findIdx?_eq_some_iff_getElem.1 hf
      simp only [hf, List.getElem?_eq_getElem hk] at hres
      cases hs : cs[k].slot <;> simp [hs] at hres
  have hcs' : (getMetadata w (some inherited) cs).2 = store (mkEntry w inherited) (cs.map (clean w)) := by
    unfold getMetadata; rw [walk_eq, hnone]
  rw [hcs'] at hcs
  subst hcs
  have hidx : (cs.map (clean w)).findIdx? (fun c => !c.readonly) = cs.findIdx? (fun c => !c.readonly) := by
    rw [List.findIdx?_map]
    congr 1
    funext c
    simp [(clean_fmt w c).2]
  refine ⟨by rw [store_length, List.length_map], ?_, ?_, ?_⟩
  · intro k c hk hc
    refine ⟨?_, valid_mkEntry w inherited c.fmt hex⟩
    simp only [store_eq, hidx, hk]
    obtain ⟨hkl, hw, _⟩ := List.findIdx?_eq_some_iff_getElem.1 hk
    have hck : cs[k] = c := by
      have := List.getElem?_eq_getElem hkl
      rw [this] at hc; exact Option.some.inj hc
    have hwr : c.readonly = false := by subst hck; simpa using hw
    have hlen : ((cs.map (clean w)).take k).length = k := by simp; omega
    have hcl : (cs.map (clean w))[k]? = some (clean w c) := by simp [hc]
    rw [hcl]
    simp only [List.append_assoc, List.singleton_append]
    rw [List.getElem?_append_right (by omega), hlen]
    simp only [Nat.sub_self, List.getElem?_cons_zero, Option.some.injEq]
    rcases clean_cases w c with h | ⟨_, _, h⟩
    · rw [h]
    · rw [h]
  · intro c' hc' hw e he
    rw [store_eq, hidx] at hc'
    cases hk : cs.findIdx? (fun c => !c.readonly) with
    | none =>
      simp only [hk, List.mem_map] at hc'
      obtain ⟨c, hc, rfl⟩ := hc'
      have hw' : c.readonly = false := by rw [← (clean_fmt w c).2]; exact hw
      rw [(clean_fmt w c).1]
      exact clean_no_stale w c hw' e he
    | some k =>
      simp only [hk, List.append_assoc, List.mem_append] at hc'
      rcases hc' with h | h | h
      · obtain ⟨c, hc, rfl⟩ := List.mem_map.1 (List.mem_of_mem_take h)
        have hw' : c.readonly = false := by rw [← (clean_fmt w c).2]; exact hw
        rw [(clean_fmt w c).1]
        exact clean_no_stale w c hw' e he
      · cases hg : (cs.map (clean w))[k]? with
        | none => simp [hg] at h
        | some c0 =>
          simp only [hg, List.mem_singleton] at h
          subst h
          simp only [Slot.entry.injEq] at he
          subst he
          exact validate_mkEntry w inherited c0.fmt hex
      · obtain ⟨c, hc, rfl⟩ := List.mem_map.1 (List.mem_of_mem_drop h)
        have hw' : c.readonly = false := by rw [← (clean_fmt w c).2]; exact hw
        rw [(clean_fmt w c).1]
        exact clean_no_stale w c hw' e he
  · intro j c hc
    have hjl : j < cs.length := by
      rcases Nat.lt_or_ge j cs.length with h | h
      · exact h
      · rw [List.getElem?_eq_none h] at hc; simp at hc
    have hcj : cs[j] = c := by
      have := List.getElem?_eq_getElem hjl
      rw [this] at hc; exact Option.some.inj hc
    have hlen : j < (store (mkEntry w inherited) (cs.map (clean w))).length := by
      rw [store_length, List.length_map]; exact hjl
    refine ⟨_, List.getElem?_eq_getElem hlen, ?_⟩
    -- per-position description of `store`
    have key : ∀ (l : List Cache) (j : Nat) (hj : j < (store (mkEntry w inherited) l).length) (hj' : j < l.length),
        (store (mkEntry w inherited) l)[j].fmt = l[j].fmt ∧ (store (mkEntry w inherited) l)[j].readonly = l[j].readonly ∧
        (l[j].readonly = true → (store (mkEntry w inherited) l)[j] = l[j]) := by
      intro l
      induction l with
      | nil => intro j hj hj'; simp at hj'
      | cons a l ih =>
        intro j hj hj'
        by_cases ha : a.readonly = true
        · cases j with
          | zero => simp [store, ha]
          | succ j =>
            have := ih j (by simpa [store, ha] using hj) (by simpa using hj')
            simpa [store, ha] using this
        · cases j with
          | zero => simp [store, ha]
          | succ j => simp [store, ha]
    have hj' : j < (cs.map (clean w)).length := by simpa using hjl
    obtain ⟨k1, k2, k3⟩ := key (cs.map (clean w)) j hlen hj'
    simp only [List.getElem_map] at k1 k2 k3
    rw [hcj] at k1 k2 k3
    refine ⟨k1.trans (clean_fmt w c).1, k2.trans (clean_fmt w c).2, ?_⟩
    intro hr
    rw [k3 (by rw [(clean_fmt w c).2]; exact hr), clean_readonly w c hr]

/-- **stale entries met before the one that is used are dropped**: when cache `i` is used, every writable cache before
it holds nothing `validate_entry` would reject, and nothing else changed (in particular read-only caches) -/
theorem stale_before_used_dropped (w : World) (regen : Option (List String)) (cs : List Cache) (i p : Nat)
    (hres : (getMetadata w regen cs).1 = .used i p) :
    (getMetadata w regen cs).2 = (cs.take i).map (clean w) ++ cs.drop i ∧
    ∀ c ∈ cs.take i, (clean w c = c ∨ (c.readonly = false ∧ (∃ e, c.slot = .entry e ∧ validate w c.fmt e = false) ∧
      clean w c = { c with slot := .absent })) := by
  refine ⟨?_, fun c _ => clean_cases w c⟩
  have h1 := hres
  rw [getMetadata_fst] at h1
  cases hf : cs.findIdx? (holdsValidB w) with
  | none => rw [hf] at h1; cases regen <;> simp at h1
  | some k =>
    obtain ⟨hk, hv, _⟩ := List.findIdx?_eq_some_iff_getElem.1 hf
    have hget : cs[k]? = some cs[k] := List.getElem?_eq_getElem hk
    simp only [hf, hget] at h1
    cases hs : cs[k].slot with
    | absent => simp [hs] at h1
    | unreadable => simp [hs] at h1
    | entry e =>
      simp only [hs, Result.used.injEq] at h1
      obtain ⟨rfl, _⟩ := h1
      unfold getMetadata
      rw [walk_eq, hf]
      simp [hget, hs]

/-- **the replacement is used from then on**: after a regeneration that could be stored, reading the metadata again
(same tree) takes it from the cache it was written to and changes nothing; and a cache hit is stable -/
theorem second_read_uses_cache (w : World) (inherited : List String) (cs : List Cache)
    (hex : ∀ n ∈ inherited, (w.eclass n).isSome = true)
    (hres : (getMetadata w (some inherited) cs).1 = .regenerated)
    (k : Nat) (hk : cs.findIdx? (fun c => !c.readonly) = some k) (regen' : Option (List String)) :
    getMetadata w regen' (getMetadata w (some inherited) cs).2
      = (.used k 0, (getMetadata w (some inherited) cs).2) := by
  have hnone : cs.findIdx? (holdsValidB w) = none := by
    rw [getMetadata_fst] at hres
    cases hf : cs.findIdx? (holdsValidB w) with
    | none => rfl
    | some k =>
      exfalso
      obtain ⟨hk, hv, _⟩ := List.findIdx?_eq_some_iff_getElem.1 hf
      simp only [hf, List.getElem?_eq_getElem hk] at hres
      cases hs : cs[k].slot <;> simp [hs] at hres
  have hcs' : (getMetadata w (some inherited) cs).2 = store (mkEntry w inherited) (cs.map (clean w)) := by
    unfold getMetadata; rw [walk_eq, hnone]
  rw [hcs']
  -- generalise: a list of cleaned caches none of which holds an acceptable entry
  have hgen : ∀ (l : List Cache) (k : Nat), (∀ c ∈ l, holdsValidB w c = false) → (∀ c ∈ l, clean w c = c) →
      l.findIdx? (fun c => !c.readonly) = some k →
      ∀ off, walk w (store (mkEntry w inherited) l) off = (some (off + k, 0), store (mkEntry w inherited) l) := by
    intro l
    induction l with
    | nil => intro k _ _ h; simp at h
    | cons a l ih =>
      intro k hnv hcl hfi off
      by_cases ha : a.readonly = true
      · simp only [List.findIdx?_cons, ha, Bool.not_true, Bool.false_eq_true, if_false] at hfi
        cases hfl : l.findIdx? (fun c => !c.readonly) with
        | none => simp [hfl] at hfi
        | some k' =>
          simp only [hfl, Option.map_some, Option.some.injEq] at hfi
          subst hfi
          have ih' := ih k' (fun c hc => hnv c (List.mem_cons_of_mem _ hc)) (fun c hc => hcl c (List.mem_cons_of_mem _ hc)) hfl (off + 1)
          have hav := hnv a (List.mem_cons_self)
          have hac := hcl a (List.mem_cons_self)
          simp only [store, ha, if_true]
          unfold walk
          cases hs : a.slot with
          | absent => simp [ih', Nat.add_assoc, Nat.add_comm 1 k']
          | unreadable => simp [ih', Nat.add_assoc, Nat.add_comm 1 k']
          | entry e =>
            have hve : validate w a.fmt e = false := by simpa [holdsValidB, hs] using hav
            simp [hve, ha, ih', Nat.add_assoc, Nat.add_comm 1 k']
      · have ha' : a.readonly = false := by simpa using ha
        simp only [List.findIdx?_cons, ha', Bool.not_false, if_true, Option.some.injEq] at hfi
        subst hfi
        simp only [store, ha', Bool.false_eq_true, if_false]
        unfold walk
        have hvm := validate_mkEntry w inherited a.fmt hex
        have hp : (mkEntry w inherited a.fmt).payload = 0 := rfl
        simp [hvm, hp]
  have hidx : (cs.map (clean w)).findIdx? (fun c => !c.readonly) = some k := by
    rw [List.findIdx?_map, ← hk]
    congr 1
    funext c
    simp [(clean_fmt w c).2]
  have hw := hgen (cs.map (clean w)) k
    (by
      intro c hc
      obtain ⟨c0, hc0, rfl⟩ := List.mem_map.1 hc
      rw [holdsValidB_clean]
      exact List.findIdx?_eq_none_iff.1 hnone c0 hc0)
    (by
      intro c hc
      obtain ⟨c0, _, rfl⟩ := List.mem_map.1 hc
      exact clean_clean w c0)
    hidx 0
  unfold getMetadata
  rw [hw]
  simp

end Pkgcore.C48
