import Pkgcore.Proofs.C22
/-!
# C22 — contents sets behave like maps keyed by normalised path

Property theorems only.  `abs c` is the map a contents set denotes; `WF c` its representation invariant (one
entry per key, every location normalised — what `fsBase.__init__` and the `obj.location`-keyed dict give).
Model = `Pkgcore/Model/C22.lean` (mirror of `contents.py` after the C22 `fix:` commits), specification =
`Pkgcore/Spec/C22.lean` (pointwise operations on `Path → Option Entry`).
-/
namespace Pkgcore.C22
open Pkgcore.C22.Spec

/-! ## normalised paths -/

/-- `os.path.normpath` is idempotent: a normalised path is its own key -/
theorem normpath_idempotent (s : Path) : normpath (normpath s) = normpath s := normpath_idem s

example : normpath "/a//b/./c/../".toList = "/a/b".toList ∧ normpath "//x/..".toList = "//".toList ∧
    normpath "///x".toList = "/x".toList ∧ normpath "a/../..".toList = "..".toList := by decide

/-- normalising any absolute spelling yields the structural normal form: 1 or 2 leading slashes and clean
components (non-empty, no `/`, not `.`, not `..`) joined by single slashes … -/
theorem normpath_abs_normal (s : Path) (h : s.head? = some '/') : AbsNormal (normpath s) := normpath_abs s h

example : ("/a/../b//".toList).head? = some '/' := by decide

/-- … that form is a fixed point, and it is unique: two normalised absolute paths are equal iff they have the same root
and the same component list.  So "keyed by normalised path" is "keyed by (root, components)". -/
theorem normal_form_unique (k k' : Nat) (cs cs' : List (List Char)) (hk : k = 1 ∨ k = 2) (hk' : k' = 1 ∨ k' = 2)
    (hcl : Clean cs) (hcl' : Clean cs') :
    normpath (render k cs) = render k cs ∧ (render k cs = render k' cs' ↔ k = k' ∧ cs = cs') :=
  ⟨normpath_render k hk cs hcl, fun h => render_inj hk hk' hcl hcl' h, fun ⟨h1, h2⟩ => by rw [h1, h2]⟩

example : Clean ["usr".toList, "x y".toList, "..b".toList] := by
  intro c hc
  simp only [List.mem_cons, List.not_mem_nil, or_false] at hc
  rcases hc with rfl | rfl | rfl <;> refine ⟨by decide, by decide, by decide, by decide⟩

/-! ## lookup, insertion, removal -/

/-- `cset[x]`, `x in cset`: an entry names its location, a string names its normalisation, whatever its spelling;
an entry and the raw string it was built from name the same key. -/
theorem lookup_refines (c : CSet) (a : Arg) :
    getitem c a = abs c (key a) ∧ contains c a = (abs c).has (key a) ∧
    (∀ raw kind tag, key (.ent (mkEntry raw kind tag)) = key (.path raw)) ∧
    (∀ s s', normpath s = normpath s' → getitem c (.path s) = getitem c (.path s')) := by
  refine ⟨?_, ?_, fun _ _ _ => rfl, ?_⟩
  · cases a <;> rfl
  · cases a <;> rfl
  · intro s s' h
    simp [getitem, keyOf, h]

/-- `contentsSet(iterable)` is the map obtained by inserting the entries in order, and is well formed -/
theorem ofList_refines (l : List Entry) (hl : ∀ e ∈ l, Normal e.loc) :
    abs (ofList l) = Map.ofList l ∧ WF (ofList l) :=
  ⟨abs_ofList l, WF_update WF_nil hl⟩

example : ∀ e ∈ [mkEntry "/a/".toList 0 1, mkEntry "//a".toList 1 2], Normal e.loc := by
  intro e he
  simp only [List.mem_cons, List.not_mem_nil, or_false] at he
  rcases he with rfl | rfl <;> exact mkEntry_normal _ _ _

/-- `add` -/
theorem add_refines (c : CSet) (e : Entry) : abs (add c e) = (abs c).insert e := by
  funext p; simp [abs, add, lookup_dictSet, Map.insert]

/-- `remove` / `del cset[x]`: `KeyError` exactly when the key is absent, otherwise the key is erased -/
theorem remove_refines (c : CSet) (a : Arg) :
    ((abs c).has (key a) = false → delitem c a = none) ∧
    ((abs c).has (key a) = true → ∃ c', delitem c a = some c' ∧ abs c' = (abs c).erase (key a)) := by
  have hk : key a = keyOf a := key_eq_keyOf a
  constructor
  · intro h
    have : hasKey c (keyOf a) = false := by rw [← hk]; exact h
    simp [delitem, this]
  · intro h
    have : hasKey c (keyOf a) = true := by rw [← hk]; exact h
    refine ⟨dictDel c (keyOf a), by simp [delitem, this], ?_⟩
    funext p
    simp [abs, lookup_dictDel, Map.erase, hk]

/-- `discard`: the key is erased, whatever its spelling -/
theorem discard_refines (c : CSet) (a : Arg) : abs (discard c a) = (abs c).erase (key a) := by
  funext p
  simp [abs, discard, lookup_dictDel, Map.erase, key_eq_keyOf]

example : discard [mkEntry "/a".toList 0 1] (.path "/a/".toList) = [] := by decide

/-! ## set algebra, every argument kind -/

/-- `difference` (argument: a contentsSet or any iterable of entries and path strings) -/
theorem difference_refines (c : CSet) (o : Other) (h : WF c) :
    abs (difference c o) = Spec.difference (abs c) o := by
  funext p
  have := lookup_filter (fun q => !otherHas o q) c p
  simp only [abs, difference, Spec.difference] at this ⊢
  rw [this]
  cases hl : lookup c p with
  | none => simp
  | some e =>
    obtain ⟨he, hp⟩ := lookup_some hl
    have hn : Normal p := hp ▸ h.2 e he
    rw [otherHas_eq_named o p hn]
    cases named o p <;> simp

/-- `difference_update` -/
theorem difference_update_refines (c : CSet) (o : Other) :
    abs (differenceUpdate c o) = Spec.difference (abs c) o := by
  funext p
  simp only [abs, differenceUpdate, Spec.difference]
  have key : ∀ (l : List Arg) (c : CSet),
      lookup (l.foldl (fun c a => if contains c a then dictDel c (keyOf a) else c) c) p =
        if (∃ a ∈ l, keyOf a = p) then none else lookup c p := by
    intro l
    induction l with
    | nil => intro c; simp
    | cons a as ih =>
      intro c
      simp only [List.foldl_cons, ih, List.mem_cons, exists_eq_or_imp]
      by_cases h1 : ∃ b ∈ as, keyOf b = p
      · simp [h1]
      · simp only [h1, if_false, or_false]
        by_cases hc : contains c a = true
        · simp only [hc, if_true, lookup_dictDel]
          by_cases hp : keyOf a = p
          · simp [hp]
          · have : ¬ p = keyOf a := fun h => hp h.symm
            simp [hp, this]
        · simp only [hc]
          by_cases hp : keyOf a = p
          · have : lookup c p = none := by
              have hh : hasKey c (keyOf a) = false := by simpa [contains] using hc
              rw [hp] at hh
              unfold hasKey at hh
              cases hl : lookup c p with
              | none => rfl
              | some x => simp [hl] at hh
            simp [hp, this]
          · simp [hp]
  rw [key]
  by_cases hn : named o p = true
  · have := (named_iff o p).1 hn
    simp [hn, this]
  · have : ¬ ∃ a ∈ o.args, keyOf a = p := fun hh => hn ((named_iff o p).2 hh)
    simp [hn, this]

/-- `intersection_update`: this map restricted to the keys the argument names -/
theorem intersection_update_refines (c : CSet) (o : Other) (h : WF c) :
    abs (intersectionUpdate c o) = Spec.restrict (abs c) o := by
  funext p
  simp only [abs, intersectionUpdate, Spec.restrict, lookup_foldl_dictDel]
  cases hl : lookup c p with
  | none => simp
  | some e =>
    obtain ⟨he, hp⟩ := lookup_some hl
    have hn : Normal p := hp ▸ h.2 e he
    by_cases hnm : named o p = true
    · have : p ∉ (c.filter (fun x => !otherHas o x.loc)).map (·.loc) := by
        simp only [List.mem_map, List.mem_filter, not_exists, not_and, and_imp]
        intro x _ hx hxp
        rw [hxp, otherHas_eq_named o p hn, hnm] at hx
        simp at hx
      simp [this, hnm]
    · have : p ∈ (c.filter (fun x => !otherHas o x.loc)).map (·.loc) := by
        simp only [List.mem_map, List.mem_filter]
        refine ⟨e, ⟨he, ?_⟩, hp⟩
        rw [hp, otherHas_eq_named o p hn]
        simpa using hnm
      simp [this, hnm]

/-- `intersection`: the common keys; an entry in the argument supplies the value, a bare path string selects this
set's own entry -/
theorem intersection_refines (c : CSet) (o : Other) :
    abs (intersection c o) = Spec.intersection (abs c) o := by
  funext p
  have h0 : abs (intersection c o) p = Map.insertAll Map.empty (o.args.filterMap (interItem c)) p := by
    simp only [intersection, abs_ofList, Map.ofList]
  rw [h0]
  simp only [Spec.intersection, abs]
  cases h : lookup c p with
  | none => rw [insertAll_interItems_absent c p _ _ h, interVal_none]; rfl
  | some x =>
    rw [insertAll_interItems_present c p x h, interVal_some]
    simp [Map.empty]

/-- `union` with an argument made of entries: the union of the two maps, this set's own entries winning -/
theorem union_refines (c : CSet) (o : Other) (h : WF c) (ho : AllEntries o) :
    ∃ r, union c o = some r ∧ abs r = Spec.union (abs c) (argMap o) := by
  cases he : o.entries with
  | none => exact absurd ho ((entries_none_iff o).1 he)
  | some es =>
    refine ⟨update (ofList es) c, by simp [union, he], ?_⟩
    funext p
    rw [abs_update, insertAll_apply, insertAll_nodup c h.1, argMap_of_entries he, abs_ofList]
    rfl

/-- `symmetric_difference_update` with an argument made of entries (a contentsSet argument is itself well formed) -/
theorem symmetric_difference_update_refines (c : CSet) (o : Other) (ho : AllEntries o)
    (hw : ∀ c', o = .cset c' → WF c') :
    ∃ r, symmetricDifferenceUpdate c o = some r ∧ abs r = Spec.symmDiff (abs c) (argMap o) := by
  have core : ∀ o' : CSet, abs (symDiffCore c o') = Spec.symmDiff (abs c) (abs o') := by
    intro o'
    funext p
    simp only [abs, symDiffCore, lookup_foldl_dictDel, Spec.symmDiff]
    have hadd : ∀ (l : List Entry) (c0 : CSet),
        lookup (l.foldl (fun (c : CSet) (x : Entry) => if contains c (.ent x) then c else add c x) c0) p =
          (lookup c0 p).or (lookup l p) := by
      intro l
      induction l with
      | nil => intro c0; simp [lookup_nil]
      | cons x xs ih =>
        intro c0
        simp only [List.foldl_cons, ih, lookup_cons]
        by_cases hc : contains c0 (.ent x) = true
        · simp only [hc, if_true]
          cases hl : lookup c0 p with
          | some e => rfl
          | none =>
            have : ¬ x.loc = p := by
              intro hxp
              have : hasKey c0 p = true := hxp ▸ hc
              obtain ⟨y, hy⟩ := hasKey_lookup this
              rw [hl] at hy; cases hy
            simp [this]
        · have hc' : hasKey c0 x.loc = false := by simpa [contains, keyOf] using hc
          have hstep : lookup (if contains c0 (.ent x) then c0 else add c0 x) p =
              if p = x.loc then some x else lookup c0 p := by
            rw [if_neg hc]; exact lookup_dictSet c0 x p
          rw [hstep]
          by_cases hxp : p = x.loc
          · subst hxp
            have hl := lookup_none_of_hasKey_false hc'
            simp [hl]
          · have : ¬ x.loc = p := fun h => hxp h.symm
            simp [hxp, this]
    rw [hadd]
    by_cases hin : p ∈ (c.filter (fun x => contains o' (.ent x))).map (·.loc)
    · simp only [hin, if_true]
      obtain ⟨x, hx, hxp⟩ := List.mem_map.1 hin
      obtain ⟨hxc, hxo⟩ := List.mem_filter.1 hx
      obtain ⟨y1, hy1⟩ := hasKey_lookup (hasKey_iff.2 ⟨x, hxc, hxp⟩)
      have hxo' : hasKey o' x.loc = true := hxo
      rw [hxp] at hxo'
      obtain ⟨y2, hy2⟩ := hasKey_lookup hxo'
      simp [hy1, hy2, symmVal]
    · simp only [hin, if_false]
      cases hl : lookup c p with
      | none => cases lookup o' p <;> rfl
      | some e =>
        obtain ⟨hec, hep⟩ := lookup_some hl
        have : lookup o' p = none := by
          cases hlo : lookup o' p with
          | none => rfl
          | some y =>
            exfalso
            apply hin
            refine List.mem_map.2 ⟨e, List.mem_filter.2 ⟨hec, ?_⟩, hep⟩
            show hasKey o' e.loc = true
            rw [hep]
            unfold hasKey
            simp [hlo]
        simp [this, symmVal]
  cases o with
  | cset c' =>
    refine ⟨symDiffCore c c', rfl, ?_⟩
    rw [core]
    congr 1
    funext p
    have hwf := hw c' rfl
    have : argMap (.cset c') = Map.ofList c' := argMap_of_entries (o := .cset c') rfl
    rw [this]
    exact (insertAll_nodup c' hwf.1 p).symm
  | items l =>
    cases he : (Other.items l).entries with
    | none => exact absurd ho ((entries_none_iff _).1 he)
    | some es =>
      have he' : entriesOf l = some es := he
      refine ⟨symDiffCore c (ofList es), by simp [symmetricDifferenceUpdate, Other.entries, he'], ?_⟩
      rw [core, abs_ofList, argMap_of_entries he]

/-- `symmetric_difference` (the copying form) -/
theorem symmetric_difference_refines (c : CSet) (o : Other) (h : WF c) (ho : AllEntries o)
    (hw : ∀ c', o = .cset c' → WF c') :
    ∃ r, symmetricDifference c o = some r ∧ abs r = Spec.symmDiff (abs c) (argMap o) := by
  obtain ⟨r, hr, habs⟩ := symmetric_difference_update_refines (update [] c) o ho hw
  exact ⟨r, hr, by rw [habs, abs_update_nil c h.1]⟩

/-- `update` with entries: the argument's entries win, in order -/
theorem update_refines (c : CSet) (o : Other) (ho : AllEntries o) :
    ∃ r, updateOther c o = some r ∧ abs r = Spec.updated (abs c) (argMap o) := by
  cases he : o.entries with
  | none => exact absurd ho ((entries_none_iff o).1 he)
  | some es =>
    refine ⟨update c es, by simp [updateOther, he], ?_⟩
    funext p
    rw [abs_update, insertAll_apply, argMap_of_entries he]
    rfl

/-- the operations that need values refuse an argument containing a bare path string (Python: `TypeError`,
`ValueError`, `AttributeError`), they never guess a value -/
theorem value_ops_reject_bare_paths (c : CSet) (o : Other) (ho : ¬ AllEntries o) :
    union c o = none ∧ symmetricDifference c o = none ∧ symmetricDifferenceUpdate c o = none ∧
      updateOther c o = none := by
  have he := (entries_none_iff o).2 ho
  cases o with
  | cset c' => simp [Other.entries] at he
  | items l => simp [union, symmetricDifference, symmetricDifferenceUpdate, updateOther, he]

example : ¬ AllEntries (.items [.ent (mkEntry "/a".toList 0 1), .path "/b".toList]) := by
  intro h
  obtain ⟨e, he⟩ := h (.path "/b".toList) (by simp [Other.args])
  cases he

example : AllEntries (.items [.ent (mkEntry "/a".toList 0 1)]) ∧ AllEntries (.cset [mkEntry "/a".toList 0 1]) := by
  constructor
  · intro a ha
    simp only [Other.args, List.mem_singleton] at ha
    exact ⟨_, ha⟩
  · intro a ha
    simp only [Other.args, List.map_cons, List.map_nil, List.mem_singleton] at ha
    exact ⟨_, ha⟩

/-! ## subset / superset / disjoint -/

theorem issubset_iff (c : CSet) (o : Other) (h : WF c) : issubset c o = true ↔ Spec.Subset (abs c) o := by
  simp only [issubset, List.all_eq_true, Spec.Subset, Map.has, abs]
  constructor
  · intro hall p hp
    obtain ⟨e, he⟩ := Option.isSome_iff_exists.1 hp
    obtain ⟨hec, hep⟩ := lookup_some he
    have := hall e hec
    rw [hep, otherHas_eq_named o p (hep ▸ h.2 e hec)] at this
    exact this
  · intro hsub e he
    rw [otherHas_eq_named o e.loc (h.2 e he)]
    exact hsub e.loc (hasKey_iff.2 ⟨e, he, rfl⟩)

theorem issuperset_iff (c : CSet) (o : Other) (ho : ArgsWF o.args) :
    issuperset c o = true ↔ Spec.Superset (abs c) o := by
  have hnorm : ∀ a ∈ o.args, normpath (keyOf a) = keyOf a := by
    intro a ha
    cases a with
    | ent e => exact ho e ha
    | path s => exact normpath_idem s
  simp only [Spec.Superset, Map.has, abs]
  cases o with
  | cset c' =>
    simp only [issuperset, List.all_eq_true, contains, keyOf]
    constructor
    · intro hall p hp
      obtain ⟨a, ha, hk⟩ := (named_iff _ p).1 hp
      obtain ⟨e, he, rfl⟩ := List.mem_map.1 ha
      have := hall e he
      rw [← hk]; exact this
    · intro hsup e he
      exact hsup e.loc ((named_iff _ _).2 ⟨.ent e, List.mem_map.2 ⟨e, he, rfl⟩, rfl⟩)
  | items l =>
    have kp : ∀ s, keyOf (.path s) = normpath s := fun _ => rfl
    simp only [issuperset, convertLoc, List.all_eq_true, List.mem_map, contains, kp,
      forall_exists_index, and_imp, forall_apply_eq_imp_iff₂]
    constructor
    · intro hall p hp
      obtain ⟨a, ha, hk⟩ := (named_iff _ p).1 hp
      have := hall a ha
      rw [hnorm a ha, hk] at this
      exact this
    · intro hsup a ha
      rw [hnorm a ha]
      exact hsup (keyOf a) ((named_iff _ _).2 ⟨a, ha, rfl⟩)

theorem isdisjoint_iff (c : CSet) (o : Other) (h : WF c) : isdisjoint c o = true ↔ Spec.Disjoint (abs c) o := by
  simp only [isdisjoint, Bool.not_eq_true', List.any_eq_false, Spec.Disjoint, Map.has, abs]
  constructor
  · intro hall p ⟨hp, hn⟩
    obtain ⟨e, he⟩ := Option.isSome_iff_exists.1 hp
    obtain ⟨hec, hep⟩ := lookup_some he
    have := hall e hec
    rw [hep, otherHas_eq_named o p (hep ▸ h.2 e hec), hn] at this
    exact this rfl
  · intro hdis e he hoh
    rw [otherHas_eq_named o e.loc (h.2 e he)] at hoh
    exact hdis e.loc ⟨hasKey_iff.2 ⟨e, he, rfl⟩, hoh⟩

example : WF [mkEntry "/a/".toList 0 1, mkEntry "//a".toList 1 2] := by
  refine ⟨by decide, ?_⟩
  intro e he
  simp only [List.mem_cons, List.not_mem_nil, or_false] at he
  rcases he with rfl | rfl <;> exact mkEntry_normal _ _ _

example : ArgsWF (Other.items [.ent (mkEntry "/a/.".toList 0 1), .path "/a/".toList]).args := by
  intro e he
  simp only [Other.args, List.mem_cons, Arg.ent.injEq, List.not_mem_nil, or_false, reduceCtorEq] at he
  subst he
  exact mkEntry_normal _ _ _

/-! ## the representation invariant is kept; `len` counts keys -/

/-- every operation returns a well-formed set (one entry per key, normalised locations) when given well-formed
sets and real entries -/
theorem operations_preserve_wf (c : CSet) (o : Other) (a : Arg) (e : Entry) (old new : Path) (t : Nat)
    (h : WF c) (he : Normal e.loc) (ho : ArgsWF o.args) :
    WF (add c e) ∧ WF (discard c a) ∧ (∀ r, delitem c a = some r → WF r) ∧
    WF (difference c o) ∧ WF (differenceUpdate c o) ∧ WF (intersection c o) ∧ WF (intersectionUpdate c o) ∧
    (∀ r, union c o = some r → WF r) ∧ (∀ r, symmetricDifference c o = some r → WF r) ∧
    (∀ r, symmetricDifferenceUpdate c o = some r → WF r) ∧ (∀ r, updateOther c o = some r → WF r) ∧
    (∀ r, changeOffset c old new = some r → WF r) ∧ WF (addMissingDirectories c t) := by
  have hents : ∀ es, o.entries = some es → ∀ x ∈ es, Normal x.loc := by
    intro es hes x hx
    apply ho
    rw [entries_args hes]
    exact List.mem_map.2 ⟨x, hx, rfl⟩
  have hcore : ∀ c0 o' : CSet, WF c0 → (∀ x ∈ o', Normal x.loc) → WF (symDiffCore c0 o') := by
    intro c0 o' h0 hn
    unfold symDiffCore
    apply WF_foldl_dictDel
    have : ∀ (l : List Entry) (c1 : CSet), WF c1 → (∀ x ∈ l, Normal x.loc) →
        WF (l.foldl (fun (c : CSet) (x : Entry) => if contains c (.ent x) then c else add c x) c1) := by
      intro l
      induction l with
      | nil => intro c1 h1 _; exact h1
      | cons x xs ih =>
        intro c1 h1 hl
        simp only [List.foldl_cons]
        apply ih _ _ (fun y hy => hl y (by simp [hy]))
        split
        · exact h1
        · exact WF_dictSet h1 (hl x (by simp))
    exact this o' c0 h0 hn
  have hsdu : ∀ c0, WF c0 → ∀ r, symmetricDifferenceUpdate c0 o = some r → WF r := by
    intro c0 h0 r hr
    cases o with
    | cset c' =>
      simp only [symmetricDifferenceUpdate, Option.some.injEq] at hr
      subst hr
      exact hcore c0 c' h0 (fun x hx => ho x (List.mem_map.2 ⟨x, hx, rfl⟩))
    | items l =>
      cases hes : (Other.items l).entries with
      | none =>
        have : entriesOf l = none := hes
        simp [symmetricDifferenceUpdate, Other.entries, this] at hr
      | some es =>
        have hes' : entriesOf l = some es := hes
        simp only [symmetricDifferenceUpdate, Other.entries, hes', Option.map_some, Option.some.injEq] at hr
        subst hr
        exact hcore c0 _ h0 (WF_update WF_nil (hents es hes)).2
  refine ⟨WF_dictSet h he, WF_dictDel _ h, ?_, WF_filter _ h, ?_, ?_, WF_foldl_dictDel _ h, ?_, ?_, hsdu c h, ?_, ?_, ?_⟩
  · intro r hr
    unfold delitem at hr
    split at hr
    · simp only [Option.some.injEq] at hr; subst hr; exact WF_dictDel _ h
    · cases hr
  · unfold differenceUpdate
    have : ∀ (l : List Arg) (c1 : CSet), WF c1 →
        WF (l.foldl (fun c a => if contains c a then dictDel c (keyOf a) else c) c1) := by
      intro l
      induction l with
      | nil => intro c1 h1; exact h1
      | cons x xs ih =>
        intro c1 h1
        simp only [List.foldl_cons]
        apply ih
        split
        · exact WF_dictDel _ h1
        · exact h1
    exact this _ c h
  · unfold intersection
    apply WF_update WF_nil
    intro x hx
    obtain ⟨b, hb, hbx⟩ := List.mem_filterMap.1 hx
    obtain ⟨_, _, hent, hpath⟩ := interItem_some hbx
    cases b with
    | ent y =>
      have : y = x := by simpa [Arg.entry?] using hent
      subst this
      exact ho y hb
    | path s =>
      have := hpath rfl
      exact h.2 x (lookup_some this).1
  · intro r hr
    cases hes : o.entries with
    | none => simp [union, hes] at hr
    | some es =>
      simp only [union, hes, Option.map_some, Option.some.injEq] at hr
      subst hr
      exact WF_update (WF_update WF_nil (hents es hes)) h.2
  · intro r hr
    exact hsdu _ (WF_update WF_nil h.2) r hr
  · intro r hr
    cases hes : o.entries with
    | none => simp [updateOther, hes] at hr
    | some es =>
      simp only [updateOther, hes, Option.map_some, Option.some.injEq] at hr
      subst hr
      exact WF_update h (hents es hes)
  · intro r hr
    unfold changeOffset at hr
    cases hm : c.mapM (fun e => changeLocation e (rewriteLoc (offsetLen old) new e.loc)) with
    | none => simp [hm] at hr
    | some l =>
      simp only [hm, Option.map_some, Option.some.injEq] at hr
      subst hr
      apply WF_update WF_nil
      intro x hx
      obtain ⟨y, _, hy⟩ := mem_of_mapM_some _ _ _ hm x hx
      unfold changeLocation at hy
      split at hy
      · simp only [Option.some.injEq] at hy
        subst hy
        exact mkEntry_normal _ _ _
      · cases hy
  · rw [addMissingDirectories_eq]
    apply WF_update h
    intro x hx
    obtain ⟨y, _, rfl⟩ := List.mem_map.1 hx
    exact mkEntry_normal _ _ _

/-- `len(cset)` is the number of keys of the map -/
theorem len_counts_keys (c : CSet) (h : WF c) (ks : List Path) (hnd : ks.Nodup)
    (hks : ∀ p, p ∈ ks ↔ (abs c).has p = true) : c.length = ks.length := by
  have hperm : (c.map (·.loc)).Perm ks := by
    rw [List.perm_ext_iff_of_nodup h.1 hnd]
    intro p
    rw [hks]
    show p ∈ c.map (·.loc) ↔ hasKey c p = true
    rw [hasKey_iff, List.mem_map]
  simpa using hperm.length_eq

example : (abs [mkEntry "/a".toList 0 1]).has "/a".toList = true := by decide

/-! ## relocation -/

/-- **Relocating replaces the old prefix with the new one.**  `old` may be any spelling of the old offset (its
normal form is `render k cs0`; the empty string counts as `/`), `new` any absolute spelling of the new one; a
location under the old offset, `render k (cs0 ++ rel)`, is rewritten to the normal form of `new` followed by the same
relative components. -/
theorem change_offset_prefix (old new : Path) (k : Nat) (cs0 rel : List (List Char)) (hk : k = 1 ∨ k = 2)
    (hcl0 : Clean cs0) (hrel : Clean rel)
    (hold : normpath (if old = [] then ['/'] else old) = render k cs0) (hnew : new.head? = some '/') :
    ∃ k' cs1, (k' = 1 ∨ k' = 2) ∧ Clean cs1 ∧ normpath new = render k' cs1 ∧
      rewriteLoc (offsetLen old) new (render k (cs0 ++ rel)) = render k' (cs1 ++ rel) ∧
      Relocated (render k cs0) (normpath new) (render k (cs0 ++ rel))
        (rewriteLoc (offsetLen old) new (render k (cs0 ++ rel))) := by
  obtain ⟨hgood, hnp, hk'⟩ := normpath_abs_eq new hnew
  have hcl1 : Clean (normLoop true [] (splitSlash new)).reverse := by
    intro x hx
    exact hgood.clean_of_abs x (by simpa using hx)
  have hrw := rewriteLoc_render old new k cs0 rel hcl0 hrel hold hnew
  exact ⟨_, _, hk', hcl1, hnp, hrw,
    ⟨k, cs0, rel, _, _, hk, hk', hcl0, hrel, hcl1, rfl, rfl, hnp, hrw⟩⟩

example : normpath (if "/usr/.".toList = [] then ['/'] else "/usr/.".toList) = render 1 ["usr".toList] := by decide

/-- relocation of a whole set whose entries all lie under the old offset: every entry keeps kind and attributes and
moves to the relocated path; no two entries collide, the result is well formed and has the same size -/
theorem change_offset_set (c : CSet) (old new : Path) (k : Nat) (cs0 : List (List Char)) (hk : k = 1 ∨ k = 2)
    (hcl0 : Clean cs0) (hwf : WF c)
    (hold : normpath (if old = [] then ['/'] else old) = render k cs0) (hnew : new.head? = some '/')
    (hunder : ∀ e ∈ c, ∃ rel, Clean rel ∧ e.loc = render k (cs0 ++ rel)) :
    ∃ r, changeOffset c old new = some r ∧ WF r ∧ r.length = c.length ∧
      (∀ e ∈ c, ∃ e' ∈ r, e'.kind = e.kind ∧ e'.tag = e.tag ∧ Relocated (render k cs0) (normpath new) e.loc e'.loc) ∧
      (∀ e' ∈ r, ∃ e ∈ c, e'.kind = e.kind ∧ e'.tag = e.tag ∧ Relocated (render k cs0) (normpath new) e.loc e'.loc) := by
  obtain ⟨hgood, hnp, hk'⟩ := normpath_abs_eq new hnew
  generalize hk1 : initialSlashes new = k' at hnp hk'
  generalize hcs1 : (normLoop true [] (splitSlash new)).reverse = cs1 at hnp
  have hcl1 : Clean cs1 := by
    intro x hx
    rw [← hcs1] at hx
    exact hgood.clean_of_abs x (by simpa using hx)
  -- the relocated entry, as a function
  let f : Entry → Entry := fun e => ⟨rewriteLoc (offsetLen old) new e.loc, e.kind, e.tag⟩
  have hf : ∀ e ∈ c, ∃ rel, Clean rel ∧ e.loc = render k (cs0 ++ rel) ∧ (f e).loc = render k' (cs1 ++ rel) := by
    intro e he
    obtain ⟨rel, hrel, hloc⟩ := hunder e he
    refine ⟨rel, hrel, hloc, ?_⟩
    show rewriteLoc (offsetLen old) new e.loc = _
    rw [hloc, rewriteLoc_render old new k cs0 rel hcl0 hrel hold hnew, hk1, hcs1]
  have hstep : ∀ e ∈ c, changeLocation e (rewriteLoc (offsetLen old) new e.loc) = some (f e) := by
    intro e he
    obtain ⟨rel, hrel, _, hfl⟩ := hf e he
    have hfl' : rewriteLoc (offsetLen old) new e.loc = render k' (cs1 ++ rel) := hfl
    have hcl : Clean (cs1 ++ rel) := by
      intro x hx
      rcases List.mem_append.1 hx with h | h
      · exact hcl1 x h
      · exact hrel x h
    unfold changeLocation
    have hhead : (rewriteLoc (offsetLen old) new e.loc).head? = some '/' := by
      rw [hfl']
      rcases hk' with rfl | rfl <;> simp [render, List.replicate]
    rw [if_pos hhead]
    show some (mkEntry _ _ _) = some (f e)
    congr 1
    show Entry.mk (normpath _) e.kind e.tag = Entry.mk _ e.kind e.tag
    rw [hfl', normpath_render k' hk' _ hcl]
  have hmap : c.mapM (fun e => changeLocation e (rewriteLoc (offsetLen old) new e.loc)) = some (c.map f) :=
    mapM_some_of_forall _ f c hstep
  -- relocated locations are pairwise distinct
  have hinj : ((c.map f).map (·.loc)).Nodup := by
    have : (c.map f).map (·.loc) = (c.map (·.loc)).map (rewriteLoc (offsetLen old) new) := by
      simp [List.map_map, f, Function.comp_def]
    rw [this]
    apply nodup_map_of_injOn _ _ hwf.1
    intro p1 hp1 p2 hp2 heq
    obtain ⟨e1, he1, rfl⟩ := List.mem_map.1 hp1
    obtain ⟨e2, he2, rfl⟩ := List.mem_map.1 hp2
    obtain ⟨rel1, hr1, hl1, hf1⟩ := hf e1 he1
    obtain ⟨rel2, hr2, hl2, hf2⟩ := hf e2 he2
    have hf1' : rewriteLoc (offsetLen old) new e1.loc = render k' (cs1 ++ rel1) := hf1
    have hf2' : rewriteLoc (offsetLen old) new e2.loc = render k' (cs1 ++ rel2) := hf2
    have hcl : ∀ rel, Clean rel → Clean (cs1 ++ rel) := by
      intro rel hrel x hx
      rcases List.mem_append.1 hx with h | h
      · exact hcl1 x h
      · exact hrel x h
    have heq' : render k' (cs1 ++ rel1) = render k' (cs1 ++ rel2) := by rw [← hf1', ← hf2']; exact heq
    have := (render_inj hk' hk' (hcl rel1 hr1) (hcl rel2 hr2) heq').2
    have hrel : rel1 = rel2 := List.append_cancel_left this
    rw [hl1, hl2, hrel]
  have hr : update [] (c.map f) = c.map f := by
    have := update_nil_of_nodup (c.map f) [] (by simpa using hinj)
    simpa using this
  refine ⟨c.map f, by simp [changeOffset, hmap, hr], ⟨hinj, ?_⟩, by simp, ?_, ?_⟩
  · intro x hx
    obtain ⟨e, he, rfl⟩ := List.mem_map.1 hx
    obtain ⟨rel, hrel, _, hfl⟩ := hf e he
    show normpath (f e).loc = (f e).loc
    rw [hfl]
    apply normpath_render k' hk'
    intro y hy
    rcases List.mem_append.1 hy with h | h
    · exact hcl1 y h
    · exact hrel y h
  · intro e he
    obtain ⟨rel, hrel, hloc, hfl⟩ := hf e he
    exact ⟨f e, List.mem_map.2 ⟨e, he, rfl⟩, rfl, rfl,
      ⟨k, cs0, rel, k', cs1, hk, hk', hcl0, hrel, hcl1, rfl, hloc, hnp, hfl⟩⟩
  · intro e' he'
    obtain ⟨e, he, rfl⟩ := List.mem_map.1 he'
    obtain ⟨rel, hrel, hloc, hfl⟩ := hf e he
    exact ⟨e, he, rfl, rfl, ⟨k, cs0, rel, k', cs1, hk, hk', hcl0, hrel, hcl1, rfl, hloc, hnp, hfl⟩⟩

example : ∀ e ∈ [mkEntry "/usr/bin/x".toList 0 1, mkEntry "/usr".toList 1 2],
    ∃ rel, Clean rel ∧ e.loc = render 1 (["usr".toList] ++ rel) := by
  intro e he
  simp only [List.mem_cons, List.not_mem_nil, or_false] at he
  rcases he with rfl | rfl
  · refine ⟨["bin".toList, "x".toList], ?_, by decide⟩
    intro c hc
    simp only [List.mem_cons, List.not_mem_nil, or_false] at hc
    rcases hc with rfl | rfl <;> exact ⟨by decide, by decide, by decide, by decide⟩
  · exact ⟨[], by intro c hc; simp at hc, by decide⟩

/-! ## completing missing directories -/

/-- **The ancestor loop terminates.**  The model's `climb` is a total function (well-founded recursion on the length
of the path) and satisfies the defining equation of the Python loop
`while target not in missing and target not in self: missing.add(target); target = dirname(target)` for every input
— in particular at the root, where `dirname` stops shortening the path. -/
theorem climb_terminates (c : CSet) (missing : List Path) (t : Path) :
    climb c missing t =
      if t ∈ missing ∨ contains c (.path t) then missing else climb c (setAdd missing t) (dirname t) := by
  rw [climb]
  split
  · rfl
  · split
    · rfl
    · rename_i h hlt
      rw [dirname_fixed t hlt, climb, if_pos (Or.inl (mem_setAdd.2 (Or.inr rfl)))]

example : climb [] [] "/a/b".toList = ["/a/b".toList, "/a".toList, "/".toList] := by
  rw [climb_terminates, if_neg (by decide), climb_terminates, if_neg (by decide), climb_terminates,
    if_neg (by decide), climb_terminates, if_pos (by decide)]
  decide

/-- **Completing missing directories adds exactly the absent ancestors other than `/`.**  For a well-formed set of
absolute locations: the result is well formed, every existing entry is untouched, and a path absent from the set is in
the result iff it is not `/` and is a proper ancestor of some entry — in which case it is a directory with the
requested attributes. -/
theorem missing_dirs_exact (c : CSet) (t : Nat) (hwf : WF c) (habs : ∀ e ∈ c, AbsNormal e.loc) :
    WF (addMissingDirectories c t) ∧
    (∀ p e, abs c p = some e → abs (addMissingDirectories c t) p = some e) ∧
    (∀ p, abs c p = none →
      (abs (addMissingDirectories c t) p = none ∨ abs (addMissingDirectories c t) p = some ⟨p, kindDir, t⟩) ∧
      ((abs (addMissingDirectories c t) p).isSome ↔ (p ≠ ['/'] ∧ ∃ e ∈ c, ProperAncestor p e.loc))) := by
  have hWF : WF (addMissingDirectories c t) := by
    rw [addMissingDirectories_eq]
    apply WF_update hwf
    intro x hx
    obtain ⟨y, _, rfl⟩ := List.mem_map.1 hx
    exact mkEntry_normal _ _ _
  -- abbreviations
  generalize hM : climbAll c (missing0 c) (missing0 c) = M
  have habsN : ∀ p, AbsNormal p → Normal p := by
    rintro p ⟨k, cs, hk, hcl, rfl⟩
    exact normpath_render k hk cs hcl
  -- every member of M is the j-th parent (j ≥ 1) of some entry, is absolute-normal, and is not a key
  have hsound : ∀ x ∈ M, ¬ inS c x ∧ ∃ e ∈ c, ∃ j, up (j + 1) e.loc = x := by
    intro x hx
    rw [← hM] at hx
    rcases climbAll_sound c _ _ x hx with h0 | ⟨hns, y, hy, j, hj⟩
    · obtain ⟨hns, e, he, hd⟩ := (mem_missing0 c x).1 h0
      exact ⟨hns, e, he, 0, hd⟩
    · obtain ⟨_, e, he, hd⟩ := (mem_missing0 c y).1 hy
      refine ⟨hns, e, he, j + 1, ?_⟩
      rw [up_succ', hd, up_succ']
      exact hj
  have hupAbs : ∀ e ∈ c, ∀ j, AbsNormal (up j e.loc) := by
    intro e he j
    obtain ⟨k, cs, hk, hcl, hloc⟩ := habs e he
    rw [hloc, up_render k hk cs hcl j]
    exact ⟨k, _, hk, clean_take hcl _, rfl⟩
  have hMabs : ∀ x ∈ M, AbsNormal x := by
    intro x hx
    obtain ⟨_, e, he, j, rfl⟩ := hsound x hx
    exact hupAbs e he _
  -- every member of M has its parent in M or among the keys
  have hclosed : ∀ x ∈ M, dirname x ∈ M ∨ inS c (dirname x) := by
    rw [← hM]
    exact climbAll_closed c _ _ (fun x hx => Or.inl hx)
  -- hence the whole chain of parents of an entry stays inside keys ∪ M
  have hchain : ∀ e ∈ c, ∀ j, inS c (up j e.loc) ∨ up j e.loc ∈ M := by
    intro e he j
    induction j with
    | zero => exact Or.inl ((inS_iff_of_normal (hwf.2 e he)).2 (hasKey_iff.2 ⟨e, he, rfl⟩))
    | succ n ih =>
      show inS c (dirname (up n e.loc)) ∨ dirname (up n e.loc) ∈ M
      rcases ih with h | h
      · have hN := habsN _ (hupAbs e he n)
        obtain ⟨e', he', hl'⟩ := hasKey_iff.1 ((inS_iff_of_normal hN).1 h)
        by_cases hin : inS c (dirname (up n e.loc))
        · exact Or.inl hin
        · right
          rw [← hM]
          apply climbAll_mono
          exact (mem_missing0 c _).2 ⟨hin, e', he', by rw [hl']⟩
      · rcases hclosed _ h with h2 | h2
        · exact Or.inr h2
        · exact Or.inl h2
  -- the entries added
  generalize hL : ((M.filter (· ≠ ['/'])).map fun x => mkEntry x kindDir t) = L
  have hLmem : ∀ x, x ∈ L ↔ ∃ y ∈ M, y ≠ ['/'] ∧ x = ⟨y, kindDir, t⟩ := by
    intro x
    rw [← hL]
    simp only [List.mem_map, List.mem_filter, decide_eq_true_eq]
    constructor
    · rintro ⟨y, ⟨hy, hne⟩, rfl⟩
      refine ⟨y, hy, hne, ?_⟩
      show Entry.mk (normpath y) kindDir t = _
      rw [habsN y (hMabs y hy)]
    · rintro ⟨y, hy, hne, rfl⟩
      refine ⟨y, ⟨hy, hne⟩, ?_⟩
      show Entry.mk (normpath y) kindDir t = _
      rw [habsN y (hMabs y hy)]
  have hres : ∀ p, abs (addMissingDirectories c t) p = (Map.insertAll Map.empty L p).or (abs c p) := by
    intro p
    rw [addMissingDirectories_eq, hM, hL, abs_update, insertAll_apply]
  refine ⟨hWF, ?_, ?_⟩
  · intro p e hpe
    rw [hres, hpe]
    have : Map.insertAll Map.empty L p = none := by
      rw [insertAll_none_iff]
      intro x hx hxp
      obtain ⟨y, hy, _, rfl⟩ := (hLmem x).1 hx
      have hyp : y = p := hxp
      subst hyp
      have hk : hasKey c y = true := by
        show (lookup c y).isSome = true
        have : lookup c y = some e := hpe
        simp [this]
      exact (hsound y hy).1 ((inS_iff_of_normal (habsN y (hMabs y hy))).2 hk)
    rw [this]; rfl
  · intro p hp
    have hres' : abs (addMissingDirectories c t) p = Map.insertAll Map.empty L p := by
      rw [hres, hp]; cases Map.insertAll Map.empty L p <;> rfl
    have hnokey : hasKey c p = false := by
      show (lookup c p).isSome = false
      have : lookup c p = none := hp
      simp [this]
    rw [hres']
    constructor
    · cases hx : Map.insertAll Map.empty L p with
      | none => exact Or.inl rfl
      | some x =>
        right
        obtain ⟨hxL, hxp⟩ := insertAll_some_loc hx
        obtain ⟨y, _, _, rfl⟩ := (hLmem x).1 hxL
        have : y = p := hxp
        subst this; rfl
    · constructor
      · intro hsome
        obtain ⟨x, hx⟩ := Option.isSome_iff_exists.1 hsome
        obtain ⟨hxL, hxp⟩ := insertAll_some_loc hx
        obtain ⟨y, hyM, hyne, rfl⟩ := (hLmem x).1 hxL
        have : y = p := hxp
        subst this
        refine ⟨hyne, ?_⟩
        obtain ⟨_, e, he, j, hj⟩ := hsound y hyM
        obtain ⟨k, cs, hk, hcl, hloc⟩ := habs e he
        rw [hloc, up_render k hk cs hcl] at hj
        by_cases hcs : cs.length = 0
        · exfalso
          have hnil : cs = [] := List.eq_nil_of_length_eq_zero hcs
          subst hnil
          have : y = e.loc := by rw [← hj, hloc]; simp
          rw [this] at hnokey
          have := hasKey_iff.2 ⟨e, he, rfl⟩
          rw [hnokey] at this; cases this
        · exact ⟨e, he, k, cs, cs.length - (j + 1), hk, hcl, hloc, by omega, hj.symm⟩
      · rintro ⟨hne, e, he, k, cs, n, hk, hcl, hloc, hn, hpa⟩
        have hup : up (cs.length - n) e.loc = p := by
          rw [hloc, up_render k hk cs hcl, hpa]
          congr 2
          omega
        have hpN : Normal p := habsN p ⟨k, _, hk, clean_take hcl n, hpa⟩
        rcases hchain e he (cs.length - n) with h | h
        · rw [hup] at h
          have := (inS_iff_of_normal hpN).1 h
          rw [hnokey] at this; cases this
        · rw [hup] at h
          have hxL : (⟨p, kindDir, t⟩ : Entry) ∈ L := (hLmem _).2 ⟨p, h, hne, rfl⟩
          cases hx : Map.insertAll Map.empty L p with
          | some x => rfl
          | none =>
            exfalso
            exact (insertAll_none_iff L p).1 hx _ hxL rfl

example : AbsNormal (mkEntry "/a/b//c".toList 0 1).loc := normpath_abs "/a/b//c".toList (by decide)

/-! ## sets are values: object identity -/

/-- a value-returning method (difference, intersection, union, symmetric_difference, change_offset) hands back a *new*
object holding its result — never `self`, whatever the arguments — and leaves every existing object as it was -/
theorem fresh_result_is_new_object (h : Heap) (i : Nat) (f : CSet → Option CSet) (c r : CSet)
    (hi : h[i]? = some c) (hf : f c = some r) :
    h.length ≠ i ∧ (h.step (.fresh i f))[h.length]? = some r ∧ ∀ j, j < h.length → (h.step (.fresh i f))[j]? = h[j]? := by
  have hlt : i < h.length := by
    rcases Nat.lt_or_ge i h.length with hl | hl
    · exact hl
    · rw [List.getElem?_eq_none hl] at hi; cases hi
  refine ⟨by omega, ?_, ?_⟩
  · simp [Heap.step, hi, hf]
  · intro j hj
    simp [Heap.step, hi, hf, List.getElem?_append_left hj]

example : ([ofList [mkEntry "/a".toList 0 1]] : Heap)[0]? = some (ofList [mkEntry "/a".toList 0 1]) ∧
    changeOffset (ofList [mkEntry "/a".toList 0 1]) "/".toList "/".toList = some (ofList [mkEntry "/a".toList 0 1]) := by
  decide

/-- one call: object `j` afterwards is object `j` before with the call's edit of `j` (if any) applied -/
theorem step_object (h : Heap) (s : Step) (j : Nat) (c : CSet) (hj : h[j]? = some c) :
    (h.step s)[j]? = some (match s.editOf j with | some f => f c | none => c) := by
  have hlt : j < h.length := by
    rcases Nat.lt_or_ge j h.length with hl | hl
    · exact hl
    · rw [List.getElem?_eq_none hl] at hj; cases hj
  cases s with
  | inPlace i f =>
    by_cases hij : i = j
    · subst hij
      have hc : h[i] = c := by
        rw [List.getElem?_eq_getElem hlt] at hj; exact Option.some.inj hj
      simp [Heap.step, Step.editOf, hlt, hc]
    · simp only [Heap.step, Step.editOf, if_neg hij]
      cases hi : h[i]? with
      | none => simpa using hj
      | some ci => simpa [List.getElem?_set_ne hij] using hj
  | fresh i f =>
    simp only [Heap.step, Step.editOf]
    split
    · split
      · rw [List.getElem?_append_left hlt]; exact hj
      · exact hj
    · exact hj

/-- **Sets are independent maps.**  After any sequence of calls on any objects, object `j` is its initial value with
exactly the in-place calls addressed to `j` applied, in order: no call on another object — in particular on a set that
was computed from `j`, or that `j` was computed from — shows up in it. -/
theorem object_history (l : List Step) (h : Heap) (j : Nat) (c : CSet) (hj : h[j]? = some c) :
    (h.run l)[j]? = some ((l.filterMap (Step.editOf j)).foldl (fun c f => f c) c) := by
  induction l generalizing h c with
  | nil => simpa [Heap.run] using hj
  | cons s l ih =>
    have h1 := step_object h s j c hj
    have h2 := ih (h.step s) _ h1
    rw [show Heap.run h (s :: l) = Heap.run (h.step s) l from rfl, h2]
    cases he : s.editOf j with
    | none => simp [he]
    | some f => simp [he]

example : Heap.run [[], []] [.inPlace 0 (fun c => add c (mkEntry "/a".toList 0 1)), .inPlace 1 (fun c => add c (mkEntry "/b".toList 1 2))]
    = [[mkEntry "/a".toList 0 1], [mkEntry "/b".toList 1 2]] := by decide

/-- relocation in particular: `r = c.change_offset(old, new)` — any offsets, also the same prefix on both sides — is
object 1 next to the source (object 0); calls that do not edit the source leave it `c`, calls that do not edit the
relocated set leave it `r` -/
theorem relocated_set_independent (c r : CSet) (old new : Path) (l : List Step) (hr : changeOffset c old new = some r) :
    ((∀ s ∈ l, s.editOf 0 = none) → (Heap.run [c] (Step.relocate 0 old new :: l))[0]? = some c) ∧
    ((∀ s ∈ l, s.editOf 1 = none) → (Heap.run [c] (Step.relocate 0 old new :: l))[1]? = some r) := by
  have hstep : Heap.step [c] (Step.relocate 0 old new) = [c, r] := by
    simp [Heap.step, Step.relocate, hr]
  have hnil : ∀ (j : Nat), (∀ s ∈ l, s.editOf j = none) → l.filterMap (Step.editOf j) = [] := by
    intro j hall
    exact List.filterMap_eq_nil_iff.2 hall
  constructor
  · intro hall
    rw [show Heap.run [c] (Step.relocate 0 old new :: l) = Heap.run (Heap.step [c] (Step.relocate 0 old new)) l from rfl, hstep,
      object_history l [c, r] 0 c rfl, hnil 0 hall]
    rfl
  · intro hall
    rw [show Heap.run [c] (Step.relocate 0 old new :: l) = Heap.run (Heap.step [c] (Step.relocate 0 old new)) l from rfl, hstep,
      object_history l [c, r] 1 r rfl, hnil 1 hall]
    rfl

/-- a relocation onto the same prefix (respelled), then `add` on the relocated set and `discard` on the source: each set
sees only its own edit -/
example : Heap.run [ofList [mkEntry "/i/a".toList 0 1, mkEntry "/i/b".toList 1 2]]
      [Step.relocate 0 "/i/".toList "/i/.".toList, .inPlace 1 (fun c => add c (mkEntry "/i/c".toList 0 3)),
       .inPlace 0 (fun c => discard c (.path "/i//a/".toList))]
    = [[mkEntry "/i/b".toList 1 2],
       [mkEntry "/i/a".toList 0 1, mkEntry "/i/b".toList 1 2, mkEntry "/i/c".toList 0 3]] := by decide

end Pkgcore.C22
