import Pkgcore.Proofs.C22
/-!
# C22 — contents sets behave like maps keyed by normalised path

Property theorems only.  `abs c` is the map a contents set denotes; `WF c` its representation invariant (one
entry per key, every location normalised — what `fsBase.__init__` and the `obj.location`-keyed dict give).
Model = `Pkgcore/Model/C22.lean` (mirror of `contents.py` after the C22 `fix:` commits), specification =
`Pkgcore/Spec/C22.lean` (pointwise operations on `Path → Option Entry`).
-/
namespace Pkgcore.C22
open Pkgcore.C22.Spec

/-! ## normalised paths -/

/-- `os.path.normpath` is idempotent: a normalised path is its own key -/
theorem normpath_idempotent (s : Path) : normpath (normpath s) = normpath s := normpath_idem s

example : normpath "/a//b/./c/../".toList = "/a/b".toList ∧ normpath "//x/..".toList = "//".toList ∧
    normpath "///x".toList = "/x".toList ∧ normpath "a/../..".toList = "..".toList := by decide

/-- normalising any absolute spelling yields the structural normal form: 1 or 2 leading slashes and clean
components (non-empty, no `/`, not `.`, not `..`) joined by single slashes … -/
theorem normpath_abs_normal (s : Path) (h : s.head? = some '/') : AbsNormal (normpath s) := normpath_abs s h

example : ("/a/../b//".toList).head? = some '/' := by decide

/-- … that form is a fixed point, and it is unique: two normalised absolute paths are equal iff they have the same root
and the same component list.  So "keyed by normalised path" is "keyed by (root, components)". -/
theorem normal_form_unique (k k' : Nat) (cs cs' : List (List Char)) (hk : k = 1 ∨ k = 2) (hk' : k' = 1 ∨ k' = 2)
    (hcl : Clean cs) (hcl' : Clean cs') :
    normpath (render k cs) = render k cs ∧ (render k cs = render k' cs' ↔ k = k' ∧ cs = cs') :=
  ⟨normpath_render k hk cs hcl, fun h => render_inj hk hk' hcl hcl' h, fun ⟨h1, h2⟩ => by rw [h1, h2]⟩

example : Clean ["usr".toList, "x y".toList, "..b".toList] := by
  intro c hc
  simp only [List.mem_cons, List.not_mem_nil, or_false] at hc
  rcases hc with rfl | rfl | rfl <;> refine ⟨by decide, by decide, by decide, by decide⟩

/-! ## lookup, insertion, removal -/

/-- `cset[x]`, `x in cset`: an entry names its location, a string names its normalisation, whatever its spelling;
an entry and the raw string it was built from name the same key. -/
theorem lookup_refines (c : CSet) (a : Arg) :
    getitem c a = abs c (key a) ∧ contains c a = (abs c).has (key a) ∧
    (∀ raw kind tag, key (.ent (mkEntry raw kind tag)) = key (.path raw)) ∧
    (∀ s s', normpath s = normpath s' → getitem c (.path s) = getitem c (.path s')) := by
  refine ⟨?_, ?_, fun _ _ _ => rfl, ?_⟩
  · cases a <;> rfl
  · cases a <;> rfl
  · intro s s' h
    simp [getitem, keyOf, h]

/-- `contentsSet(iterable)` is the map obtained by inserting the entries in order, and is well formed -/
theorem ofList_refines (l : List Entry) (hl : ∀ e ∈ l, Normal e.loc) :
    abs (ofList l) = Map.ofList l ∧ WF (ofList l) :=
  ⟨abs_ofList l, WF_update WF_nil hl⟩

example : ∀ e ∈ [mkEntry "/a/".toList 0 1, mkEntry "//a".toList 1 2], Normal e.loc := by
  intro e he
  simp only [List.mem_cons, List.not_mem_nil, or_false] at he
  rcases he with rfl | rfl <;> exact mkEntry_normal _ _ _

/-- `add` -/
theorem add_refines (c : CSet) (e : Entry) : abs (add c e) = (abs c).insert e := by
  funext p; simp [abs, add, lookup_dictSet, Map.insert]

/-- `remove` / `del cset[x]`: `KeyError` exactly when the key is absent, otherwise the key is erased -/
theorem remove_refines (c : CSet) (a : Arg) :
    ((abs c).has (key a) = false → delitem c a = none) ∧
    ((abs c).has (key a) = true → ∃ c', delitem c a = some c' ∧ abs c' = (abs c).erase (key a)) := by
  have hk : key a = keyOf a := key_eq_keyOf a
  constructor
  · intro h
    have : hasKey c (keyOf a) = false := by rw [← hk]; exact h
    simp [delitem, this]
  · intro h
    have : hasKey c (keyOf a) = true := by rw [← hk]; exact h
    refine ⟨dictDel c (keyOf a), by simp [delitem, this], ?_⟩
    funext p
    simp [abs, lookup_dictDel, Map.erase, hk]

/-- `discard`: the key is erased, whatever its spelling -/
theorem discard_refines (c : CSet) (a : Arg) : abs (discard c a) = (abs c).erase (key a) := by
  funext p
  simp [abs, discard, lookup_dictDel, Map.erase, key_eq_keyOf]

example : discard [mkEntry "/a".toList 0 1] (.path "/a/".toList) = [] := by decide

/-! ## set algebra, every argument kind -/

/-- `difference` (argument: a contentsSet or any iterable of entries and path strings) -/
theorem difference_refines (c : CSet) (o : Other) (h : WF c) :
    abs (difference c o) = Spec.difference (abs c) o := by
  funext p
  have := lookup_filter (fun q => !otherHas o q) c p
  simp only [abs, difference, Spec.difference] at this ⊢
  rw [this]
  cases hl : lookup c p with
  | none => simp
  | some e =>
    obtain ⟨he, hp⟩ := lookup_some hl
    have hn : Normal p := hp ▸ h.2 e he
    rw [otherHas_eq_named o p hn]
    cases named o p <;> simp

/-- `difference_update` -/
theorem difference_update_refines (c : CSet) (o : Other) :
    abs (differenceUpdate c o) = Spec.difference (abs c) o := by
  funext p
  simp only [abs, differenceUpdate, Spec.difference]
  have key : ∀ (l : List Arg) (c : CSet),
      lookup (l.foldl (fun c a => if contains c a then dictDel c (keyOf a) else c) c) p =
        if (∃ a ∈ l, keyOf a = p) then none else lookup c p := by
    intro l
    induction l with
    | nil => intro c; simp
    | cons a as ih =>
      intro c
      simp only [List.foldl_cons, ih, List.mem_cons, exists_eq_or_imp]
      by_cases h1 : ∃ b ∈ as, keyOf b = p
      · simp [h1]
      · simp only [h1, if_false, or_false]
        by_cases hc : contains c a = true
        · simp only [hc, if_true, lookup_dictDel]
          by_cases hp : keyOf a = p
          · simp [hp]
          · have : ¬ p = keyOf a := fun h => hp h.symm
            simp [hp, this]
        · simp only [hc]
          by_cases hp : keyOf a = p
          · have : lookup c p = none := by
              have hh : hasKey c (keyOf a) = false := by simpa [contains] using hc
              rw [hp] at hh
              unfold hasKey at hh
              cases hl : lookup c p with
              | none => rfl
              | some x => simp [hl] at hh
            simp [hp, this]
          · simp [hp]
  rw [key]
  by_cases hn : named o p = true
  · have := (named_iff o p).1 hn
    simp [hn, this]
  · have : ¬ ∃ a ∈ o.args, keyOf a = p := fun hh => hn ((named_iff o p).2 hh)
    simp [hn, this]

/-- `intersection_update`: this map restricted to the keys the argument names -/
theorem intersection_update_refines (c : CSet) (o : Other) (h : WF c) :
    abs (intersectionUpdate c o) = Spec.restrict (abs c) o := by
  funext p
  simp only [abs, intersectionUpdate, Spec.restrict, lookup_foldl_dictDel]
  cases hl : lookup c p with
  | none => simp
  | some e =>
    obtain ⟨he, hp⟩ := lookup_some hl
    have hn : Normal p := hp ▸ h.2 e he
    by_cases hnm : named o p = true
    · have : p ∉ (c.filter (fun x => !otherHas o x.loc)).map (·.loc) := by
        simp only [List.mem_map, List.mem_filter, not_exists, not_and, and_imp]
        intro x _ hx hxp
        rw [hxp, otherHas_eq_named o p hn, hnm] at hx
        simp at hx
      simp [this, hnm]
    · have : p ∈ (c.filter (fun x => !otherHas o x.loc)).map (·.loc) := by
        simp only [List.mem_map, List.mem_filter]
        refine ⟨e, ⟨he, ?_⟩, hp⟩
        rw [hp, otherHas_eq_named o p hn]
        simpa using hnm
      simp [this, hnm]

/-- `intersection`: the common keys; an entry in the argument supplies the value, a bare path string selects this
set's own entry -/
theorem intersection_refines (c : CSet) (o : Other) :
    abs (intersection c o) = Spec.intersection (abs c) o := by
  funext p
  have h0 : abs (intersection c o) p = Map.insertAll Map.empty (o.args.filterMap (interItem c)) p := by
    simp only [intersection, abs_ofList, Map.ofList]
  rw [h0]
  simp only [Spec.intersection, abs]
  cases h : lookup c p with
  | none => rw [insertAll_interItems_absent c p _ _ h, interVal_none]; rfl
  | some x =>
    rw [insertAll_interItems_present c p x h, interVal_some]
    simp [Map.empty]

/-- `union` with an argument made of entries: the union of the two maps, this set's own entries winning -/
theorem union_refines (c : CSet) (o : Other) (h : WF c) (ho : AllEntries o) :
    ∃ r, union c o = some r ∧ abs r = Spec.union (abs c) (argMap o) := by
  cases he : o.entries with
  | none => exact absurd ho ((entries_none_iff o).1 he)
  | some es =>
    refine ⟨update (ofList es) c, by simp [union, he], ?_⟩
    funext p
    rw [abs_update, insertAll_apply, insertAll_nodup c h.1, argMap_of_entries he, abs_ofList]
    rfl

/-- `symmetric_difference_update` with an argument made of entries (a contentsSet argument is itself well formed) -/
theorem symmetric_difference_update_refines (c : CSet) (o : Other) (ho : AllEntries o)
    (hw : ∀ c', o = .cset c' → WF c') :
    ∃ r, symmetricDifferenceUpdate c o = some r ∧ abs r = Spec.symmDiff (abs c) (argMap o) := by
  have core : ∀ o' : CSet, abs (symDiffCore c o') = Spec.symmDiff (abs c) (abs o') := by
    intro o'
    funext p
    simp only [abs, symDiffCore, lookup_foldl_dictDel, Spec.symmDiff]
    have hadd : ∀ (l : List Entry) (c0 : CSet),
        lookup (l.foldl (fun (c : CSet) (x : Entry) => if contains c (.ent x) then c else add c x) c0) p =
          (lookup c0 p).or (lookup l p) := by
      intro l
      induction l with
      | nil => intro c0; simp [lookup_nil]
      | cons x xs ih =>
        intro c0
        simp only [List.foldl_cons, ih, lookup_cons]
        by_cases hc : contains c0 (.ent x) = true
        · simp only [hc, if_true]
          cases hl : lookup c0 p with
          | some e => rfl
          | none =>
            have : ¬ x.loc = p := by
              intro hxp
              have : hasKey c0 p = true := hxp ▸ hc
              obtain ⟨y, hy⟩ := hasKey_lookup this
              rw [hl] at hy; cases hy
            simp [this]
        · have hc' : hasKey c0 x.loc = false := by simpa [contains, keyOf] using hc
          have hstep : lookup (if contains c0 (.ent x) then c0 else add c0 x) p =
              if p = x.loc then some x else lookup c0 p := by
            rw [if_neg hc]; exact lookup_dictSet c0 x p
          rw [hstep]
          by_cases hxp : p = x.loc
          · subst hxp
            have hl := lookup_none_of_hasKey_false hc'
            simp [hl]
          · have : ¬ x.loc = p := fun h => hxp h.symm
            simp [hxp, this]
    rw [hadd]
    by_cases hin : p ∈ (c.filter (fun x => contains o' (.ent x))).map (·.loc)
    · simp only [hin, if_true]
      obtain ⟨x, hx, hxp⟩ := List.mem_map.1 hin
      obtain ⟨hxc, hxo⟩ := List.mem_filter.1 hx
      obtain ⟨y1, hy1⟩ := hasKey_lookup (hasKey_iff.2 ⟨x, hxc, hxp⟩)
      have hxo' : hasKey o' x.loc = true := hxo
      rw [hxp] at hxo'
      obtain ⟨y2, hy2⟩ := hasKey_lookup hxo'
      simp [hy1, hy2, symmVal]
    · simp only [hin, if_false]
      cases hl : lookup c p with
      | none => cases lookup o' p <;> rfl
      | some e =>
        obtain ⟨hec, hep⟩ := lookup_some hl
        have : lookup o' p = none := by
          cases hlo : lookup o' p with
          | none => rfl
          | some y =>
            exfalso
            apply hin
            refine List.mem_map.2 ⟨e, List.mem_filter.2 ⟨hec, ?_⟩, hep⟩
            show hasKey o' e.loc = true
            rw [hep]
            unfold hasKey
            simp [hlo]
        simp [this, symmVal]
  cases o with
  | cset c' =>
    refine ⟨symDiffCore c c', rfl, ?_⟩
    rw [core]
    congr 1
    funext p
    have hwf := hw c' rfl
    have : argMap (.cset c') = Map.ofList c' := argMap_of_entries (o := .cset c') rfl
    rw [this]
    exact (insertAll_nodup c' hwf.1 p).symm
  | items l =>
    cases he : (Other.items l).entries with
    | none => exact absurd ho ((entries_none_iff _).1 he)
    | some es =>
      have he' : entriesOf l = some es := he
      refine ⟨symDiffCore c (ofList es), by simp [symmetricDifferenceUpdate, Other.entries, he'], ?_⟩
      rw [core, abs_ofList, argMap_of_entries he]

/-- `symmetric_difference` (the copying form) -/
theorem symmetric_difference_refines (c : CSet) (o : Other) (h : WF c) (ho : AllEntries o)
    (hw : ∀ c', o = .cset c' → WF c') :
    ∃ r, symmetricDifference c o = some r ∧ abs r = Spec.symmDiff (abs c) (argMap o) := by
  obtain ⟨r, hr, habs⟩ := symmetric_difference_update_refines (update [] c) o ho hw
  exact ⟨r, hr, by rw [habs, abs_update_nil c h.1]⟩

/-- `update` with entries: the argument's entries win, in order -/
theorem update_refines (c : CSet) (o : Other) (ho : AllEntries o) :
    ∃ r, updateOther c o = some r ∧ abs r = Spec.updated (abs c) (argMap o) := by
  cases he : o.entries with
  | none => exact absurd ho ((entries_none_iff o).1 he)
  | some es =>
    refine ⟨update c es, by simp [updateOther, he], ?_⟩
    funext p
    rw [abs_update, insertAll_apply, argMap_of_entries he]
    rfl

/-- the operations that need values refuse an argument containing a bare path string (Python: `TypeError`,
`ValueError`, `AttributeError`), they never guess a value -/
theorem value_ops_reject_bare_paths (c : CSet) (o : Other) (ho : ¬ AllEntries o) :
    union c o = none ∧ symmetricDifference c o = none ∧ symmetricDifferenceUpdate c o = none ∧
      updateOther c o = none := by
  have he := (entries_none_iff o).2 ho
  cases o with
  | cset c' => simp [Other.entries] at he
  | items l => simp [union, symmetricDifference, symmetricDifferenceUpdate, updateOther, he]

example : ¬ AllEntries (.items [.ent (mkEntry "/a".toList 0 1), .path "/b".toList]) := by
  intro h
  obtain ⟨e, he⟩ := h (.path "/b".toList) (by simp [Other.args])
  cases he

example : AllEntries (.items [.ent (mkEntry "/a".toList 0 1)]) ∧ AllEntries (.cset [mkEntry "/a".toList 0 1]) := by
  constructor
  · intro a ha
    simp only [Other.args, List.mem_singleton] at ha
    exact ⟨_, ha⟩
  · intro a ha
    simp only [Other.args, List.map_cons, List.map_nil, List.mem_singleton] at ha
    exact ⟨_, ha⟩

/-! ## subset / superset / disjoint -/

theorem issubset_iff (c : CSet) (o : Other) (h : WF c) : issubset c o = true ↔ Spec.Subset (abs c) o := by
  simp only [issubset, List.all_eq_true, Spec.Subset, Map.has, abs]
  constructor
  · intro hall p hp
    obtain ⟨e, he⟩ := Option.isSome_iff_exists.1 hp
    obtain ⟨hec, hep⟩ := lookup_some he
    have := hall e hec
    rw [hep, otherHas_eq_named o p (hep ▸ h.2 e hec)] at this
    exact this
  · intro hsub e he
    rw [otherHas_eq_named o e.loc (h.2 e he)]
    exact hsub e.loc (hasKey_iff.2 ⟨e, he, rfl⟩)

theorem issuperset_iff (c : CSet) (o : Other) (ho : ArgsWF o.args) :
    issuperset c o = true ↔ Spec.Superset (abs c) o := by
  have hnorm : ∀ a ∈ o.args, normpath (keyOf a) = keyOf a := by
    intro a ha
    cases a with
    | ent e => exact ho e ha
    | path s => exact normpath_idem s
  simp only [Spec.Superset, Map.has, abs]
  cases o with
  | cset c' =>
    simp only [issuperset, List.all_eq_true, contains, keyOf]
    constructor
    · intro hall p hp
      obtain ⟨a, ha, hk⟩ := (named_iff _ p).1 hp
      obtain ⟨e, he, rfl⟩ := List.mem_map.1 ha
      have := hall e he
      rw [← hk]; exact this
    · intro hsup e he
      exact hsup e.loc ((named_iff _ _).2 ⟨.ent e, List.mem_map.2 ⟨e, he, rfl⟩, rfl⟩)
  | items l =>
    have kp : ∀ s, keyOf (.path s) = normpath s := fun _ => rfl
    simp only [issuperset, convertLoc, List.all_eq_true, List.mem_map, contains, kp,
      forall_exists_index, and_imp, forall_apply_eq_imp_iff₂]
    constructor
    · intro hall p hp
      obtain ⟨a, ha, hk⟩ := (named_iff _ p).1 hp
      have := hall a ha
      rw [hnorm a ha, hk] at this
      exact this
    · intro hsup a ha
      rw [hnorm a ha]
      exact hsup (keyOf a) ((named_iff _ _).2 ⟨a, ha, rfl⟩)

theorem isdisjoint_iff (c : CSet) (o : Other) (h : WF c) : isdisjoint c o = true ↔ Spec.Disjoint (abs c) o := by
  simp only [isdisjoint, Bool.not_eq_true', List.any_eq_false, Spec.Disjoint, Map.has, abs]
  constructor
  · intro hall p ⟨hp, hn⟩
    obtain ⟨e, he⟩ := Option.isSome_iff_exists.1 hp
    obtain ⟨hec, hep⟩ := lookup_some he
    have := hall e hec
    rw [hep, otherHas_eq_named o p (hep ▸ h.2 e hec), hn] at this
    exact this rfl
  · intro hdis e he hoh
    rw [otherHas_eq_named o e.loc (h.2 e he)] at hoh
    exact hdis e.loc ⟨hasKey_iff.2 ⟨e, he, rfl⟩, hoh⟩

example : WF [mkEntry "/a/".toList 0 1, mkEntry "//a".toList 1 2] := by
  refine ⟨by decide, ?_⟩
  intro e he
  simp only [List.mem_cons, List.not_mem_nil, or_false] at he
  rcases he with rfl | rfl <;> exact mkEntry_normal _ _ _

example : ArgsWF (Other.items [.ent (mkEntry "/a/.".toList 0 1), .path "/a/".toList]).args := by
  intro e he
  simp only [Other.args, List.mem_cons, Arg.ent.injEq, List.not_mem_nil, or_false, reduceCtorEq] at he
  subst he
  exact mkEntry_normal _ _ _

end Pkgcore.C22
