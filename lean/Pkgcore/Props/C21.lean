import Pkgcore.Proofs.C21
/-!
# C21 — protected configuration files are never silently overwritten or removed

Property theorems only.  Model: `Pkgcore/Model/C21.lean` (mirror of `gen_config_protect_filter`,
`gen_collision_ignore_filter`, `ConfigProtectInstall` (+ `_restore`), `ConfigProtectUninstall` after the C21 `fix:`
commits; merge / unmerge abstracted).  Vocabulary: `Pkgcore/Spec/C21.lean`.
-/
namespace Pkgcore.C21
open Pkgcore.C21.Spec
open Pkgcore.C22 (Path normpath pjoin lstripSlash rstripSlash)

/-! ## the filters -/

/-- the matcher compiled from a `COLLISION_IGNORE` glob accepts exactly the strings the glob denotes (`*` any run of
characters, `?` any one character, everything else itself; the whole string must be consumed) -/
theorem glob_match_spec (ts : List Tok) (s : List Char) : globMatch ts s = true ↔ Matches ts s := globMatch_iff ts s

example : Matches (parsePat "/etc/*.c?nf".toList) "/etc/app/x.conf".toList :=
  (globMatch_iff _ _).1 (by decide +kernel)
example : ¬ Matches (parsePat "/foo".toList) "/etc/foo".toList := fun h => absurd ((globMatch_iff _ _).2 h) (by decide +kernel)

/-- **The CONFIG_PROTECT filter**: a location passes iff it lies below the directory of some `CONFIG_PROTECT` entry
(or `/etc`) *taken under the offset* and below no `CONFIG_PROTECT_MASK` entry; and "below" is component-wise: for
normalised paths, `render k b` is below `render k a` iff `a` is a proper prefix of `b` as a list of components
(`/etcetera/x` is not below `/etc`). -/
theorem protect_filter_spec (offset : Path) (protects masks : List Path) (loc : Path) :
    (protectedFilter offset protects masks loc = true ↔
      (∃ x ∈ protects ++ ["/etc".toList], Under (dirOf offset x) loc) ∧ ¬ ∃ x ∈ masks, Under (dirOf offset x) loc) ∧
    (∀ (k : Nat) (a b : List (List Char)), (k = 1 ∨ k = 2) → C22.Spec.Clean a → C22.Spec.Clean b → a ≠ [] →
      (Under (rstripSlash (C22.Spec.render k a)) (C22.Spec.render k b) ↔ ∃ rest, rest ≠ [] ∧ b = a ++ rest)) := by
  refine ⟨?_, fun k a b hk ha hb hne => under_render_iff k hk a b ha hb hne⟩
  unfold protectedFilter
  simp only [Bool.and_eq_true, List.any_eq_true, Bool.not_eq_true', List.any_eq_false, underOffset_prefix_iff]
  constructor
  · rintro ⟨h1, hm⟩
    exact ⟨h1, fun ⟨m, hmm, hmu⟩ => hm m hmm hmu⟩
  · rintro ⟨h1, hm⟩
    exact ⟨h1, fun m hmm hmu => hm ⟨m, hmm, hmu⟩⟩

example : protectedFilter "/tmp//root/.".toList ["/opt/cfg/".toList] ["/etc/app".toList] "/tmp/root/opt/cfg/a".toList = true ∧
    protectedFilter "/tmp/root".toList [] [] "/etc/foo".toList = false ∧
    protectedFilter "/".toList [] ["/etc/app".toList] "/etc/app/x".toList = false ∧
    protectedFilter "/".toList [] ["/etc/app".toList] "/etc/application".toList = true := by decide +kernel

/-- **The COLLISION_IGNORE filter**: a location is ignored iff some entry (or one of the two built-in `.keep`
patterns) matches it as a whole; for a location under the offset root an absolute entry is matched against the
root-relative path, and an absolute entry naming a live directory matches everything below that directory. -/
theorem ignore_filter_spec (offset : Path) (ignores : List (List Char)) (isdir : Path → Bool) (rel : Path) :
    let root := rstripSlash (normpath offset)
    (ignoreFilter offset ignores isdir (root ++ rel) = true ↔
      ∃ x ∈ ignores ++ defaultIgnores,
        (x.head? = some '/' ∧
          Matches (parsePat (if !endsSlashStar x && isdir (root ++ x) then rstripSlash x ++ "/*".toList else x)) rel) ∨
        (x.head? ≠ some '/' ∧ Matches (parsePat x) (root ++ rel))) := by
  intro root
  unfold ignoreFilter
  simp only [List.any_eq_true, globMatch_iff]
  constructor
  · rintro ⟨x, hx, hm⟩
    refine ⟨x, hx, ?_⟩
    unfold ignorePattern at hm
    by_cases hh : x.head? = some '/'
    · left
      rw [if_pos hh] at hm
      obtain ⟨rel', hrel, hm'⟩ := (matches_lit_prefix _ _ _).1 hm
      have : rel' = rel := (List.append_cancel_left hrel).symm
      subst this
      exact ⟨hh, hm'⟩
    · right
      rw [if_neg hh] at hm
      exact ⟨hh, hm⟩
  · rintro ⟨x, hx, h⟩
    refine ⟨x, hx, ?_⟩
    unfold ignorePattern
    rcases h with ⟨hh, hm⟩ | ⟨hh, hm⟩
    · rw [if_pos hh]
      exact (matches_lit_prefix _ _ _).2 ⟨rel, rfl, hm⟩
    · rw [if_neg hh]; exact hm

example : ignoreFilter "/tmp/r/".toList ["/etc/ign".toList] (fun p => p == "/tmp/r/etc/ign".toList) "/tmp/r/etc/ign/a".toList = true ∧
    ignoreFilter "/tmp/r".toList ["/foo".toList] (fun _ => false) "/tmp/r/etc/foo".toList = false ∧
    ignoreFilter "/tmp/r".toList [] (fun _ => false) "/tmp/r/etc/.keep_app-0".toList = true := by decide +kernel

/-! ## pending updates and their numbers -/

/-- the name written for update number `n` of `fname` is read back as exactly that (numbers below 10000), and every name
that is read back as `(n, fname)` is that canonical name: names and (number, file) pairs correspond one to one -/
theorem cfg_name_roundtrip (n : Nat) (fname x : List Char) :
    (n < 10000 → parseCfg (cfgName n fname) = some (n, fname)) ∧
    (parseCfg x = some (n, fname) → x = cfgName n fname ∧ n < 10000) :=
  ⟨fun h => parseCfg_cfgName n h fname, cfgName_of_parseCfg x n fname⟩

example : cfgName 7 "foo".toList = "._cfg0007_foo".toList ∧ parseCfg "._cfg00a1_foo".toList = none ∧
    parseCfg "._cfg00011_foo".toList = none ∧ parseCfg "._cfg0042_a_b".toList = some (42, "a_b".toList) := by decide +kernel

/-- **The number given to an incoming file**: it is the number of a pending update of that file, in that directory, whose
content is identical to the incoming one; or no pending update is identical and the number exceeds the number of every
pending update of that file (and is 0 when there is none). -/
theorem cfg_number_fresh_or_reused (live : Live) (hwf : LiveWF live) (dir : Path) (fname : List Char) (c : Content) :
    let n := chooseCount 0 (pendingFor live dir fname) c
    (∃ f ∈ live, f.dir = dir ∧ parseCfg f.base = some (n, fname) ∧ f.content = c) ∨
    ((∀ f ∈ live, f.dir = dir → ∀ k, parseCfg f.base = some (k, fname) → f.content ≠ c ∧ k < n) ∧
      ((∀ f ∈ live, f.dir = dir → ∀ k, parseCfg f.base ≠ some (k, fname)) → n = 0)) := by
  intro n
  rcases chooseCount_spec 0 (pendingFor live dir fname) c with ⟨p, hp, hpc, hpn⟩ | ⟨hall, _, hlt⟩
  · left
    obtain ⟨k, pc⟩ := p
    obtain ⟨f, hf, hd, hparse, hc⟩ := of_mem_pendingFor hp
    refine ⟨f, hf, hd, ?_, ?_⟩
    · rw [hparse]; simp only at hpn; rw [hpn]
    · rw [hc]; exact hpc
  · right
    constructor
    · intro f hf hd k hk
      have hm : (k, f.content) ∈ pendingFor live dir fname := hd ▸ mem_pendingFor hwf hf hk
      exact ⟨hall _ hm, hlt _ hm⟩
    · intro hnone
      have : pendingFor live dir fname = [] := by
        cases hp : pendingFor live dir fname with
        | nil => rfl
        | cons q qs =>
          exfalso
          obtain ⟨k, pc⟩ := q
          have hq : (k, pc) ∈ pendingFor live dir fname := by rw [hp]; simp
          obtain ⟨f, hf, hd, hparse, _⟩ := of_mem_pendingFor hq
          exact hnone f hf hd k hparse
      show chooseCount 0 (pendingFor live dir fname) c = 0
      rw [this]; rfl

example : LiveWF [⟨"/r/etc".toList, "foo".toList, 1⟩, ⟨"/r/etc".toList, "._cfg0003_foo".toList, 2⟩] := by
  unfold LiveWF; decide +kernel

/-! ## merging -/

/-- every entry the merge sees after the trigger is an entry that needed no protection, untouched, or the
`._cfgNNNN_`-renamed form (same directory, same content) of an entry that did -/
theorem install_trigger_sound (s : Settings) (live : Live) (install : ICSet) :
    ∀ g ∈ (protectInstall s live install).1,
      (g ∈ install ∧ needsProtection s live g = false) ∨
      ∃ e ∈ install, needsProtection s live e = true ∧ g.dir = e.dir ∧ g.content = e.content ∧ g.isReg = true ∧
        g.base = cfgName (chooseCount 0 (pendingFor live e.dir e.base) e.content) e.base := by
  intro g hg
  rcases protectInstall_sound s live install g hg with h | ⟨e, he, hn, rfl⟩
  · exact Or.inl h
  · refine Or.inr ⟨e, he, hn, rfl, rfl, ?_, rfl⟩
    unfold needsProtection at hn
    split at hn
    · simp only [Bool.and_eq_true] at hn
      exact hn.1.2
    · cases hn

/-- **Merging never changes a protected live file.**  For every live regular file whose location passes the filters
(under CONFIG_PROTECT, not under CONFIG_PROTECT_MASK, not matched by COLLISION_IGNORE): after the pre-merge trigger
and the merge, the file still holds the content it had — whatever the package ships, whatever pending updates exist,
for every offset.  (Hypotheses: an entry arriving at that very location, if any, is a regular file; pending update
numbers stay below 9999, so that new names keep four digits.) -/
theorem protected_never_overwritten (s : Settings) (live : Live) (install : ICSet) (hwf : LiveWF live)
    (f : LiveFile) (hf : f ∈ live) (hprot : s.protectedLoc f.path = true)
    (hreg : ∀ e ∈ install, e.dir = f.dir → e.base = f.base → e.isReg = true)
    (hsmall : ∀ g ∈ live, ∀ k fn, parseCfg g.base = some (k, fn) → k < 9999) :
    Live.lookup (mergeFs live (protectInstall s live install).1) f.dir f.base = some f.content := by
  apply mergeFs_lookup_const _ _ _ _ _ _ (Or.inl (lookup_of_mem hwf hf))
  intro g hg hgd hgb
  rcases protectInstall_sound s live install g hg with ⟨hin, hnp⟩ | ⟨e, he, hn, rfl⟩
  · -- an untouched entry at the location of `f`: it did not need protection, so it carries `f`'s content
    have hr := hreg g hin hgd hgb
    refine ⟨hr, ?_⟩
    unfold needsProtection at hnp
    rw [hgd, hgb, lookup_of_mem hwf hf] at hnp
    have hpath : g.path = f.path := by unfold IEntry.path LiveFile.path; rw [hgd, hgb]
    simp only [hpath, hprot, hr, Bool.true_and, bne_eq_false_iff_eq] at hnp
    exact hnp.symm
  · -- a renamed entry landing on `f`: `f` is then a pending update of that entry
    have hd : e.dir = f.dir := hgd
    have hb : cfgName (chooseCount 0 (pendingFor live e.dir e.base) e.content) e.base = f.base := hgb
    have hereg : e.isReg = true := by
      unfold needsProtection at hn
      split at hn
      · simp only [Bool.and_eq_true] at hn; exact hn.1.2
      · cases hn
    refine ⟨hereg, ?_⟩
    show e.content = f.content
    -- the number chosen is below 10000
    have hbound : chooseCount 0 (pendingFor live e.dir e.base) e.content < 10000 := by
      rcases chooseCount_spec 0 (pendingFor live e.dir e.base) e.content with ⟨p, hp, _, hpn⟩ | ⟨_, _, _⟩
      · obtain ⟨k, pc⟩ := p
        obtain ⟨g', hg', _, hparse, _⟩ := of_mem_pendingFor hp
        have := hsmall g' hg' k _ hparse
        simp only at hpn
        omega
      · -- fresh: one more than the largest pending number, or 0
        have hle : ∀ (ps : List (Nat × Content)) (cnt : Nat), cnt ≤ 9999 → (∀ p ∈ ps, p.1 < 9999) →
            chooseCount cnt ps e.content ≤ 9999 := by
          intro ps
          induction ps with
          | nil => intro cnt h _; simpa [chooseCount] using h
          | cons q qs ih =>
            intro cnt h hq
            obtain ⟨k, pc⟩ := q
            unfold chooseCount
            split
            · have := hq (k, pc) (by simp); simp only at this; omega
            · apply ih
              · have := hq (k, pc) (by simp); simp only at this; omega
              · intro p hp; exact hq p (by simp [hp])
        have := hle (pendingFor live e.dir e.base) 0 (by omega) (by
          intro p hp
          obtain ⟨k, pc⟩ := p
          obtain ⟨g', hg', _, hparse, _⟩ := of_mem_pendingFor hp
          exact hsmall g' hg' k _ hparse)
        omega
    have hparse : parseCfg f.base = some (chooseCount 0 (pendingFor live e.dir e.base) e.content, e.base) := by
      rw [← hb]; exact parseCfg_cfgName _ hbound _
    have hmem : (chooseCount 0 (pendingFor live e.dir e.base) e.content, f.content) ∈ pendingFor live e.dir e.base := by
      have := mem_pendingFor hwf hf hparse
      rw [← hd] at this
      exact this
    rcases chooseCount_spec 0 (pendingFor live e.dir e.base) e.content with ⟨p, hp, hpc, hpn⟩ | ⟨_, _, hlt⟩
    · -- reused: the pending update with that number is `f` itself (names are canonical), and it is identical
      obtain ⟨k, pc⟩ := p
      obtain ⟨g', hg', hg'd, hg'parse, hg'c⟩ := of_mem_pendingFor hp
      simp only at hpn hpc
      have hname : g'.base = f.base := by
        rw [(cfgName_of_parseCfg _ _ _ hg'parse).1, hpn, hb]
      have hsame : g' = f := liveWF_inj hwf hg' hf (by rw [hg'd, hd]) hname
      rw [← hpc, ← hg'c, hsame]
    · exact absurd (hlt _ hmem) (by simp)

example : (⟨"/r/etc".toList, "foo".toList, 1⟩ : LiveFile).path = "/r/etc/foo".toList := by decide +kernel

/-- **The incoming file is written beside the protected one**, under the `._cfgNNNN_` name with the number of
`cfg_number_fresh_or_reused`: for a package whose entries have distinct locations and which ships no `._cfgNNNN_` files
itself, every entry that needed protection is found, with its own content, at `<dir>/._cfgNNNN_<name>` after the merge. -/
theorem update_written_beside (s : Settings) (live : Live) (install : ICSet)
    (hnd : (install.map fun e => (e.dir, e.base)).Nodup) (hno : ∀ e ∈ install, parseCfg e.base = none)
    (hsmall : ∀ g ∈ live, ∀ k fn, parseCfg g.base = some (k, fn) → k < 9999)
    (e : IEntry) (he : e ∈ install) (hn : needsProtection s live e = true) :
    Live.lookup (mergeFs live (protectInstall s live install).1) e.dir
      (cfgName (chooseCount 0 (pendingFor live e.dir e.base) e.content) e.base) = some e.content := by
  have hfilter_nd : (((install.filter (needsProtection s live))).map fun e => (e.dir, e.base)).Nodup :=
    List.Nodup.sublist (List.Sublist.map _ List.filter_sublist) hnd
  have hmem : renamed live e ∈ (protectInstall s live install).1 := by
    rw [protectInstall_eq]
    exact protectFold_renamed_mem live hsmall _ hfilter_nd (fun x hx => hno x (List.mem_filter.1 hx).1) _ e
      (List.mem_filter.2 ⟨he, hn⟩)
  apply mergeFs_lookup_const
  · intro g hg hgd hgb
    rcases protectInstall_sound s live install g hg with ⟨hin, _⟩ | ⟨e', he', hn', rfl⟩
    · -- an untouched package entry cannot carry a ._cfg name
      have h1 := parseCfg_cfgName _ (chooseCount_lt live hsmall e.dir e.base e.content) e.base
      rw [← hgb, hno g hin] at h1
      cases h1
    · -- another renamed entry with this name is the same entry
      have hkey := renamed_key_inj live hsmall e' e hgd hgb
      have hsame : e' = e := by
        exact inj_of_nodup_map (fun e => (e.dir, e.base)) install hnd he' he (by simp only [hkey.1, hkey.2])
      subst hsame
      refine ⟨?_, rfl⟩
      unfold needsProtection at hn
      split at hn
      · simp only [Bool.and_eq_true] at hn; exact hn.1.2
      · cases hn
  · exact Or.inr ⟨renamed live e, hmem, rfl, rfl⟩

/-! ## unmerging -/

/-- **Unmerging keeps a protected file the user changed**: a live file the package recorded, whose location passes the
filters and whose content differs from the recorded one (or whose recorded entry was not a regular file), survives. -/
theorem uninstall_keeps_modified (s : Settings) (live : Live) (recorded : Recorded) (f : LiveFile) (hf : f ∈ live)
    (r : IEntry) (hr : recorded.find? (fun r => r.dir = f.dir ∧ r.base = f.base) = some r)
    (hprot : s.protectedLoc f.path = true) (hdiff : r.isReg = false ∨ r.content ≠ f.content) :
    f ∈ unmergeFs s live recorded := by
  unfold unmergeFs
  apply List.mem_filter.2 ⟨hf, ?_⟩
  have hk : f ∈ keptAtUnmerge s live recorded := by
    unfold keptAtUnmerge
    apply List.mem_filter.2 ⟨hf, ?_⟩
    simp only [hr, hprot, Bool.true_and, Bool.or_eq_true, Bool.not_eq_true', bne_iff_ne, ne_eq]
    rcases hdiff with h | h
    · exact Or.inl h
    · exact Or.inr h
  simp [hk]

/-- … and removes everything else the package recorded: a live file survives the unmerge iff the package did not record
it, or it is such a protected, modified file. -/
theorem uninstall_removes_the_rest (s : Settings) (live : Live) (recorded : Recorded) (f : LiveFile) :
    f ∈ unmergeFs s live recorded ↔
      f ∈ live ∧ ((∀ r ∈ recorded, ¬ (r.dir = f.dir ∧ r.base = f.base)) ∨
        ∃ r, recorded.find? (fun r => r.dir = f.dir ∧ r.base = f.base) = some r ∧ s.protectedLoc f.path = true ∧
          (r.isReg = false ∨ r.content ≠ f.content)) := by
  unfold unmergeFs
  rw [List.mem_filter]
  constructor
  · rintro ⟨hf, h⟩
    refine ⟨hf, ?_⟩
    rcases Bool.or_eq_true_iff.1 h with h | h
    · left
      have hany : (recorded.any fun r => decide (r.dir = f.dir ∧ r.base = f.base)) = false := by
        simpa using h
      intro r hr hk
      have := List.any_eq_false.1 hany r hr
      exact this (decide_eq_true hk)
    · right
      have hk : f ∈ keptAtUnmerge s live recorded := List.contains_iff_mem.1 h
      unfold keptAtUnmerge at hk
      have h2 := (List.mem_filter.1 hk).2
      cases hr : recorded.find? (fun r => decide (r.dir = f.dir ∧ r.base = f.base)) with
      | none => rw [hr] at h2; cases h2
      | some r =>
        rw [hr] at h2
        simp only [Bool.and_eq_true, Bool.or_eq_true, Bool.not_eq_true', bne_iff_ne, ne_eq] at h2
        exact ⟨r, rfl, h2.1, h2.2⟩
  · rintro ⟨hf, h⟩
    refine ⟨hf, ?_⟩
    rcases h with h | ⟨r, hr, hp, hd⟩
    · simp only [Bool.or_eq_true, Bool.not_eq_true', List.any_eq_false, decide_eq_true_eq]
      exact Or.inl h
    · have := uninstall_keeps_modified s live recorded f hf r hr hp hd
      exact (List.mem_filter.1 this).2

/-! ## one process, several operations

`pmerge` handles a package list in one process and env.d may change between two operations (an env.d file of an earlier
package, `env-update`, the admin's editor — also by rewriting a file in place).  Each operation of the model takes the
settings env.d holds when it runs (`Op.install s …`, `Op.uninstall s …`); the operations before it — run under whatever
other settings — pass on nothing but the file system. -/

/-- a history of edits, merges and unmerges, under any settings, keeps the live file system well formed (one file per
location), so the single-operation theorems apply to the state every operation finds -/
theorem history_keeps_wf (live : Live) (hwf : LiveWF live) (ops : List Op) :
    LiveWF (runOps live ops) ∧ ∀ t ∈ traceOps live ops, LiveWF t := by
  refine ⟨liveWF_runOps ops hwf, ?_⟩
  induction ops generalizing live with
  | nil => intro t ht; cases ht
  | cons op ops ih =>
    intro t ht
    rcases List.mem_cons.1 ht with rfl | ht'
    · exact liveWF_applyOp hwf op
    · exact ih _ (liveWF_applyOp hwf op) t ht'

/-- **Every merge of a history honours the settings in effect at that merge**: after any history `before` (operations
under arbitrary, possibly different settings — in particular settings under which `f` was *not* protected), a merge under
settings `s` leaves every live regular file that `s` protects with the content it had when the merge started. -/
theorem history_protected_never_overwritten (live : Live) (hwf : LiveWF live) (before : List Op)
    (s : Settings) (pkg : ICSet) (f : LiveFile) (hf : f ∈ runOps live before) (hprot : s.protectedLoc f.path = true)
    (hreg : ∀ e ∈ pkg, e.dir = f.dir → e.base = f.base → e.isReg = true)
    (hsmall : ∀ g ∈ runOps live before, ∀ k fn, parseCfg g.base = some (k, fn) → k < 9999) :
    Live.lookup (runOps live (before ++ [.install s pkg])) f.dir f.base = some f.content := by
  rw [runOps_snoc]
  exact protected_never_overwritten s (runOps live before) pkg (liveWF_runOps before hwf) f hf hprot hreg hsmall

/-- **Every unmerge of a history honours the settings in effect at that unmerge**: a live file the package recorded
survives iff it is protected under the settings `s` of this operation and differs from the recorded entry — whatever
settings the earlier operations ran under. -/
theorem history_uninstall_keeps_modified (live : Live) (before : List Op) (s : Settings) (recorded : Recorded)
    (f : LiveFile) (hf : f ∈ runOps live before) (r : IEntry)
    (hr : recorded.find? (fun r => r.dir = f.dir ∧ r.base = f.base) = some r) :
    (f ∈ runOps live (before ++ [.uninstall s recorded]) ↔
      (s.protectedLoc f.path = true ∧ (r.isReg = false ∨ r.content ≠ f.content))) := by
  rw [runOps_snoc]
  show f ∈ unmergeFs s (runOps live before) recorded ↔ _
  rw [uninstall_removes_the_rest]
  constructor
  · rintro ⟨_, h | ⟨r', hr', hp, hd⟩⟩
    · have hm := List.mem_of_find?_eq_some hr
      have hk := List.find?_some hr
      exact absurd (of_decide_eq_true hk) (h r hm)
    · rw [hr] at hr'
      cases hr'
      exact ⟨hp, hd⟩
  · rintro ⟨hp, hd⟩
    exact ⟨hf, Or.inr ⟨r, hr, hp, hd⟩⟩

/-- the stale-settings scenario: `/srv/conf/site.conf` is merged while env.d does not protect `/srv/conf`, the admin
edits it and adds `/srv/conf` to CONFIG_PROTECT, the next merge of the same process keeps the edit and parks the update -/
example :
    let s0 : Settings := ⟨"/r".toList, [], [], [], fun _ => false⟩
    let s1 : Settings := ⟨"/r".toList, ["/srv/conf".toList], [], [], fun _ => false⟩
    let pkg (c : Content) : ICSet := [⟨"/r/srv/conf".toList, "site.conf".toList, true, c⟩]
    runOps [] [.install s0 (pkg 1), .edit [⟨"/r/srv/conf".toList, "site.conf".toList, 7⟩], .install s1 (pkg 2)] =
      [⟨"/r/srv/conf".toList, "site.conf".toList, 7⟩, ⟨"/r/srv/conf".toList, "._cfg0000_site.conf".toList, 2⟩] := by
  decide +kernel

/-- **A protected file reached through a directory symlink is not overwritten either.**  The trigger decides on the
names (`live`, `install`: what `install_existing` and `install` hold), the merge writes through the links
(`through ρ`): the real file behind the protected name still holds its content. -/
theorem protected_never_overwritten_through_links (ρ : Path → Path) (hinj : ∀ a b, ρ a = ρ b → a = b)
    (s : Settings) (live : Live) (install : ICSet) (hwf : LiveWF live)
    (f : LiveFile) (hf : f ∈ live) (hprot : s.protectedLoc f.path = true)
    (hreg : ∀ e ∈ install, e.dir = f.dir → e.base = f.base → e.isReg = true)
    (hsmall : ∀ g ∈ live, ∀ k fn, parseCfg g.base = some (k, fn) → k < 9999) :
    Live.lookup (mergeFs (live.map (LiveFile.through ρ)) ((protectInstall s live install).1.map (IEntry.through ρ)))
      (ρ f.dir) f.base = some f.content := by
  rw [mergeFs_through ρ hinj, lookup_through ρ hinj]
  exact protected_never_overwritten s live install hwf f hf hprot hreg hsmall

example : (∀ a b : Path, (fun d : Path => "/srv".toList ++ d) a = (fun d : Path => "/srv".toList ++ d) b → a = b) ∧
    (LiveFile.through (fun d => "/srv".toList ++ d) ⟨"/r/etc".toList, "foo".toList, 1⟩).dir = "/srv/r/etc".toList :=
  ⟨fun _ _ h => List.append_cancel_left h, by decide⟩

end Pkgcore.C21
