import Pkgcore.Proofs.C30
/-!
# C30 — world-file updates record exactly the requested entries

Property theorems only (helper lemmas: `Pkgcore/Proofs/C30.lean`).  The model mirrors `WorldFile._modify`,
`FileList._parse`/`flush` (through `AtomicWriteFile`) and `pmerge.update_worldset`; sets are duplicate-free
lists compared by membership.
-/
namespace Pkgcore.C30
open Pkgcore.C30.Spec

/-- a well-formed request: a package key and no slot or a valid slot string -/
def ReqOk : Req → Prop
  | .add k s => KeyOk k ∧ SlotOptOk s
  | .remove k s => KeyOk k ∧ SlotOptOk s

/-- **adding records exactly the name, or name:slot for a non-zero slot** — for every valid slot string
(multi-character, dotted, …), on every existing set -/
theorem world_add_exact (w : World) (key : Line) (slot : Option Line) (hn : w.Nodup) (hs : SlotOptOk slot) :
    ∃ w', modify w (.add key slot) = some w' ∧ w'.Nodup ∧ ∀ e, e ∈ w' ↔ e = specEntry key slot ∨ e ∈ w := by
  refine ⟨_, rfl, ?_, fun e => ?_⟩
  · exact nodup_setAdd _ _ hn
  · rw [mem_setAdd, worldText_eq_spec key slot hs]; exact Or.comm

example : SlotOptOk (some "3.11".toList) := by
  refine ⟨by decide, ?_, ?_⟩
  · intro c hc; revert c; decide
  · intro c hc; simp at hc; subst hc; decide

example : modify ["dev-util/bsdiff".toList] (.add "a/b".toList (some "3.11".toList))
    = some ["dev-util/bsdiff".toList, "a/b:3.11".toList] := by decide

/-- **removing removes exactly that entry**; when it is not recorded the operation reports `KeyError`
and the set is untouched -/
theorem world_remove_exact (w : World) (key : Line) (slot : Option Line) (hn : w.Nodup) (hs : SlotOptOk slot) :
    (specEntry key slot ∈ w → ∃ w', modify w (.remove key slot) = some w' ∧ w'.Nodup ∧
        ∀ e, e ∈ w' ↔ e ∈ w ∧ e ≠ specEntry key slot) ∧
    (specEntry key slot ∉ w → modify w (.remove key slot) = none) := by
  simp only [modify, worldText_eq_spec key slot hs]
  refine ⟨fun h => ?_, fun h => (setRemove_eq_none _ _).2 h⟩
  have : setRemove w (specEntry key slot) = some (w.erase (specEntry key slot)) := by simp [setRemove, h]
  obtain ⟨_, h2, h3⟩ := setRemove_some w _ _ hn this
  exact ⟨_, this, h2, h3⟩

example : modify ["a/b:10".toList, "a/b".toList] (.remove "a/b".toList (some "10".toList)) = some ["a/b".toList] := by decide

/-- **all other entries stay intact**, for additions and removals alike -/
theorem others_intact (w w' : World) (r : Req) (hn : w.Nodup) (he : ∀ e ∈ w, isEntryLine e = true) (hr : ReqOk r)
    (h : modify w r = some w') (e : Line)
    (hne : e ≠ (match r with | .add k s => specEntry k s | .remove k s => specEntry k s)) :
    e ∈ w' ↔ e ∈ w := by
  have := ((reqOk_modify w r hn he (by cases r <;> exact hr)).1 w' h).2.2 e
  rw [this]
  cases r <;> simp only [specApply] <;> simp only at hne <;> simp [hne]

/-- … and "other" is meaningful: the entry determines the package name and the slot (slot `0` = no slot),
so an entry for another name or another slot is never touched -/
theorem entry_identifies_name_and_slot (k k' : Line) (s s' : Option Line) (hk : KeyOk k) (hk' : KeyOk k')
    (h : specEntry k s = specEntry k' s') : k = k' ∧ normSlot s = normSlot s' :=
  specEntry_inj_aux k k' s s' hk hk' h

example : KeyOk "dev-lang/python".toList := ⟨by decide, by decide⟩

/-- **`flush` replaces the file atomically**: at every crash point (every prefix of its file operations,
however the data is chunked) the world file is the old one or — only after the final rename — the
complete new one; no other file but the temp file is touched; a complete flush leaves the new content and
no temp file, from *any* starting state (so a stale temp file of an interrupted flush does not matter). -/
theorem flush_atomic (path : Name) (chunks : List (List Line)) (fs : Fs) (k : Nat) :
    let fs' := run ((flushOps path chunks).take k) fs
    (fs' path = fs path ∨ (fs' path = some chunks.flatten ∧ (flushOps path chunks).length ≤ k)) ∧
    (∀ q, q ≠ path → q ≠ tmpName path → fs' q = fs q) ∧
    ((flushOps path chunks).length ≤ k → fs' path = some chunks.flatten ∧ fs' (tmpName path) = none) := by
  intro fs'
  have hfull := run_flushOps path chunks fs
  have hlen : (flushOps path chunks).length ≤ k → fs' = run (flushOps path chunks) fs := by
    intro h; simp only [fs', List.take_of_length_le h]
  refine ⟨?_, ?_, fun h => by rw [hlen h]; exact ⟨hfull.1, hfull.2.1⟩⟩
  · simp only [fs']
    rw [flushOps_eq]
    rcases take_snoc_cases (preOps path chunks) (.rename (tmpName path) path) k with ⟨j, hj⟩ | hj
    · left; rw [hj]
      exact run_other (tmpName path) path _ fs (fun op h => preOps_onlyOn path chunks op (List.mem_of_mem_take h)) (tmpName_ne path).symm
    · by_cases hk : (flushOps path chunks).length ≤ k
      · right; rw [hj, ← flushOps_eq]; exact ⟨hfull.1, hk⟩
      · exfalso
        have := congrArg List.length hj
        rw [← flushOps_eq] at this
        simp only [List.length_take] at this
        omega
  · intro q h1 h2
    simp only [fs']
    rw [flushOps_eq]
    rcases take_snoc_cases (preOps path chunks) (.rename (tmpName path) path) k with ⟨j, hj⟩ | hj
    · rw [hj]
      exact run_other (tmpName path) q _ fs (fun op h => preOps_onlyOn path chunks op (List.mem_of_mem_take h)) h2
    · rw [hj, ← flushOps_eq]; exact hfull.2.2 q h1 h2

example : (flushOps "world".toList [["a/b".toList], ["c/d".toList]]).length = 6 := by decide

/-- a failing flush (`f.discard()`) leaves the old file at every point and removes the temp file -/
theorem flush_discard_keeps_old (path : Name) (chunks : List (List Line)) (fs : Fs) (k : Nat) :
    run ((discardOps path chunks).take k) fs path = fs path ∧
    run (discardOps path chunks) fs (tmpName path) = none := by
  have hne := tmpName_ne path
  constructor
  · apply run_other (tmpName path) path _ fs _ hne.symm
    intro op h
    have := List.mem_of_mem_take h
    rw [discardOps_eq] at this
    rcases List.mem_append.1 this with h | h
    · exact preOps_onlyOn path chunks op h
    · simp at h; subst h; simp [OnlyOn]
  · rw [discardOps_eq, run_append]
    simp [run, step, upd]

/-- **`update_worldset` persists exactly the requested change**: starting from an instance in sync with its
file, the new in-memory set is the old one with the entry added/removed (a removal of an unrecorded entry:
nothing changes, no file operation at all), and a fresh parse of the file after the operations yields the
same set — at every crash point the fresh parse yields the old or the new set. -/
theorem update_worldset_persists (layout : World → List (List Line)) (hl : LayoutOk layout) (path : Name)
    (w : World) (fs : Fs) (r : Req) (hsync : Synced w fs path) (hr : ReqOk r) :
    let res := updateWorldset layout path w r
    (∀ e, e ∈ res.1 ↔ specApply (· ∈ w) r e) ∧ Synced res.1 (run res.2 fs) path ∧
    (modify w r = none → res.2 = []) ∧
    ∀ k, ∃ w'', readWorld (run (res.2.take k) fs) path = some w'' ∧
      ((∀ e, e ∈ w'' ↔ e ∈ w) ∨ (∀ e, e ∈ w'' ↔ e ∈ res.1)) := by
  intro res
  obtain ⟨hn, he, ls, hls, hp⟩ := hsync
  have hm := reqOk_modify w r hn he (by cases r <;> exact hr)
  cases hmod : modify w r with
  | none =>
    have hres : res = (w, []) := by simp only [res, updateWorldset, hmod]
    rw [hres]
    refine ⟨hm.2 hmod, ⟨hn, he, ls, by simpa [run] using hls, hp⟩, fun _ => rfl, fun k => ?_⟩
    exact ⟨parse ls, by simp [readWorld, run, hls], Or.inl hp⟩
  | some w' =>
    have hres : res = (w', flushOps path (layout w')) := by simp only [res, updateWorldset, hmod]
    rw [hres]
    obtain ⟨hn', he', hspec⟩ := hm.1 w' hmod
    have hfull := run_flushOps path (layout w') fs
    have hparse : ∀ e, e ∈ parse (layout w').flatten ↔ e ∈ w' := by
      intro e; rw [mem_parse, hl w' e]; exact ⟨fun h => h.1, fun h => ⟨h, he' e h⟩⟩
    refine ⟨hspec, ⟨hn', he', _, hfull.1, hparse⟩, (fun h => by cases h), fun k => ?_⟩
    rcases (flush_atomic path (layout w') fs k).1 with h | ⟨h, _⟩
    · exact ⟨parse ls, by simp [readWorld, h, hls], Or.inl hp⟩
    · exact ⟨parse (layout w').flatten, by simp [readWorld, h], Or.inr hparse⟩

/-- **any add/remove sequence with flushes** ends with exactly the entries the requests describe, in
memory and on disk -/
theorem update_sequence_exact (layout : World → List (List Line)) (hl : LayoutOk layout) (path : Name)
    (reqs : List Req) (w : World) (fs : Fs) (hsync : Synced w fs path) (hr : ∀ r ∈ reqs, ReqOk r) :
    let res := updateAll layout path w fs reqs
    Synced res.1 res.2 path ∧ ∀ e, e ∈ res.1 ↔ specApplyAll (· ∈ w) reqs e := by
  induction reqs generalizing w fs with
  | nil => exact ⟨hsync, fun _ => Iff.rfl⟩
  | cons r rs ih =>
    have h1 := update_worldset_persists layout hl path w fs r hsync (hr r List.mem_cons_self)
    have h2 := ih (updateWorldset layout path w r).1 (run (updateWorldset layout path w r).2 fs) h1.2.1
      (fun r' h => hr r' (List.mem_cons_of_mem _ h))
    simp only [updateAll, specApplyAll]
    refine ⟨h2.1, fun e => ?_⟩
    rw [h2.2 e]
    have : (fun e => e ∈ (updateWorldset layout path w r).1) = specApply (· ∈ w) r := by
      funext e; exact propext (h1.1 e)
    rw [this]

example : (updateAll (fun w => [w]) "world".toList ["x/y".toList] (fun p => if p = "world".toList then some ["x/y".toList] else none)
    [.add "a/b".toList (some "10".toList), .remove "x/y".toList none, .remove "q/r".toList none]).1 = ["a/b:10".toList] := by decide

/-- the loop before the `fix:` commit handled the slot string character by character: adding `a/b:10`
recorded `a/b:1` and `a/b` instead of `a/b:10` -/
theorem unfixed_modify_counterexample :
    modifyUnfixedAdd [] "a/b".toList (some "10".toList) = ["a/b:1".toList, "a/b".toList] ∧
    modify [] (.add "a/b".toList (some "10".toList)) = some ["a/b:10".toList] := by decide

/-- **transient flush failures never cost an entry** (one long-lived `WorldFile`, any sequence of `update_worldset`
calls, any subset of their flushes failing): the in-memory set is always exactly what *all* requests so far
describe — a failed flush changes neither the file nor what the set remembers —, and as soon as one more
update succeeds, a fresh parse of the file is exactly that set: every entry nobody removed is still there,
including the ones whose re-add met the failure. -/
theorem failed_flush_never_loses_entries (layout : World → List (List Line)) (hl : LayoutOk layout) (path : Name)
    (reqs : List (Req × Bool)) (w : World) (fs : Fs) (hw : MemOk w) (hr : ∀ p ∈ reqs, ReqOk p.1) :
    let res := updateAllF layout path w fs reqs
    MemOk res.1 ∧ (∀ e, e ∈ res.1 ↔ specApplyAll (· ∈ w) (reqs.map (·.1)) e) ∧
    ∀ (r : Req), ReqOk r → modify res.1 r ≠ none →
      let fin := updateWorldsetF layout path res.1 r false
      Synced fin.1 (run fin.2 res.2) path ∧
      ∀ e, e ∈ fin.1 ↔ specApplyAll (· ∈ w) (reqs.map (·.1) ++ [r]) e := by
  induction reqs generalizing w fs with
  | nil =>
    simp only [updateAllF, List.map_nil, List.nil_append]
    refine ⟨hw, fun _ => Iff.rfl, fun r hrk hne => ?_⟩
    have hs := updateF_step layout path w r false hw (by cases r <;> exact hrk)
    refine ⟨?_, fun e => by simpa [specApplyAll] using hs.2 e⟩
    simp only [updateAllF, updateWorldsetF]
    cases hmod : modify w r with
    | none => exact absurd hmod hne
    | some w' =>
      have : (updateWorldsetF layout path w r false).1 = w' := by simp [updateWorldsetF, hmod]
      exact flush_resyncs layout hl path w' fs (this ▸ hs.1)
  | cons p rs ih =>
    obtain ⟨r0, f0⟩ := p
    have hs := updateF_step layout path w r0 f0 hw (by have := hr (r0, f0) List.mem_cons_self; cases r0 <;> exact this)
    have h := ih (updateWorldsetF layout path w r0 f0).1 (run (updateWorldsetF layout path w r0 f0).2 fs) hs.1
      (fun q hq => hr q (List.mem_cons_of_mem _ hq))
    have heq : (fun e => e ∈ (updateWorldsetF layout path w r0 f0).1) = specApply (· ∈ w) r0 := by
      funext e; exact propext (hs.2 e)
    simp only [updateAllF, List.map_cons, List.cons_append, specApplyAll]
    rw [← heq]
    exact h

/-- … and the failing flush itself leaves the file exactly as it was -/
theorem failed_flush_keeps_file (layout : World → List (List Line)) (path : Name) (w : World) (r : Req) (fs : Fs) :
    run (updateWorldsetF layout path w r true).2 fs path = fs path := by
  unfold updateWorldsetF
  cases modify w r with
  | none => rfl
  | some w' => exact run_discardOps_path path _ fs

example : (updateAllF (fun w => [w]) "world".toList ["x/y".toList, "a/b".toList]
      (fun p => if p = "world".toList then some ["x/y".toList, "a/b".toList] else none)
      [(.add "x/y".toList none, true), (.add "c/d".toList (some "1.2".toList), false)]).2 "world".toList
    = some ["x/y".toList, "a/b".toList, "c/d:1.2".toList] := by decide

end Pkgcore.C30
