import Pkgcore.Proofs.C14
/-!
# C14 — USE-configured package views always reflect the current USE set

Property theorems only (helper lemmas: `Pkgcore/Proofs/C14.lean`).  `step`/`run` mirror
`PackageWrapper` (pkgcore/package/conditionals.py) over snakeoil's `LimitedChangeSet`; `Spec.step` is the
cache-less, atomic-request reference object.  All main theorems are about `Variant.fixed` (the tree after the
three `fix:` commits); the `pinned_*_counterexample` theorems show the same statements fail for the pinned code.
-/
namespace Pkgcore.C14
open Pkgcore.C14.Spec

variable {α : Type} [DecidableEq α] {β : Type} [DecidableEq β]

/-- **Every read returns the value computed from the current USE set**: in any history of enable/disable
requests (of changeable and locked flags), rollbacks (valid or not), commits and reads, over any initial USE set
and any set of locked flags, the read at any position yields exactly what the cache-less reference object yields
there — the value of the raw attribute under the USE set produced by the operations before it. -/
theorem read_is_current (locked : α → Bool) (initial : List α) (pre post : List (Op α β)) (attr : β) :
    (run Variant.fixed locked (PW.init initial) (pre ++ Op.read attr :: post)).2[pre.length]?
      = some (Out.value (readValue (run Variant.fixed locked (PW.init initial : PW α β) pre).1.use)) := by
  rw [run_append]
  have hl := run_outs_length Variant.fixed locked (PW.init initial : PW α β) pre
  rw [List.getElem?_append_right (by omega)]
  simp only [hl, Nat.sub_self, run, List.getElem?_cons_zero, readValue]
  rw [read_of_inv _ _ _ (inv_run locked pre _ (inv_init initial))]

/-- non-vacuity: a history in which the cache is hit, then invalidated by a disable, a commit and a rollback -/
example :
    (run Variant.fixed (fun f => f == 9) (PW.init [1, 9] : PW Nat Nat)
      [.read 0, .read 0, .disable [1], .read 0, .commit, .enable [2], .read 0, .rollback 0, .read 0]).2
    = [.value [1, 9], .value [1, 9], .bool true, .value [9], .unit, .bool true, .value [9, 2], .unit, .value [9]] := by
  decide

/-- the same statement is **false for the pinned tree**: a disable does not invalidate the cache … -/
theorem pinned_stale_after_disable_counterexample :
    (run Variant.pinned (fun _ => false) (PW.init [1] : PW Nat Nat) [.read 0, .disable [1], .read 0]).2
      = [.value [1], .bool true, .value [1]]
    ∧ (run Variant.pinned (fun _ => false) (PW.init [1] : PW Nat Nat) [.read 0, .disable [1]]).1.use.new = [] := by
  decide

/-- … and `commit()` resets the generation counter, reviving an entry cached at generation 0 -/
theorem pinned_stale_after_commit_counterexample :
    (run Variant.pinned (fun _ => false) (PW.init [] : PW Nat Nat) [.read 0, .enable [1], .commit, .read 0]).2
      = [.value [], .bool true, .unit, .value []]
    ∧ (run Variant.pinned (fun _ => false) (PW.init [] : PW Nat Nat) [.read 0, .enable [1], .commit]).1.use.new = [1] := by
  decide

/-- … and disabling an absent locked flag escapes with `KeyError` after the flags before it were removed -/
theorem pinned_disable_keyerror_counterexample :
    (step Variant.pinned (fun f => f == 9) (PW.init [1] : PW Nat Nat) (.disable [1, 9])).2 = .keyError
    ∧ (step Variant.pinned (fun f => f == 9) (PW.init [1] : PW Nat Nat) (.disable [1, 9])).1.use.new = [] := by
  decide

/-- **A refused request leaves the USE set as it was** (and every accepted operation, rollback, commit and
read does what the reference object does) — *partial*: proved under `OpGuard`.

Full statement (false, see `refused_request_restores_counterexample`): the same without `hg`. -/
theorem step_matches_spec_partial (locked : α → Bool) (s : PW α β) (hs : Inv s) (op : Op α β)
    (hg : OpGuard locked s.use op) :
    (step Variant.fixed locked s op).2 = (Spec.step locked s.use op).2 ∧
    Same (step Variant.fixed locked s op).1.use (Spec.step locked s.use op).1 := by
  cases op with
  | enable vals =>
    have hr := addAll_rollback locked vals s.use hg
    simp only [step, Spec.step, enableAll_eq]
    generalize addAll locked s.use vals = r at hr
    obtain ⟨u, b⟩ := r
    cases b
    · exact ⟨rfl, hr.2⟩
    · exact ⟨rfl, same_refl _⟩
  | disable vals =>
    have hr := removeAll_rollback locked vals s.use hg
    have hk := removeAll_caught_ne_keyError locked vals s.use
    simp only [step, Spec.step, disableAll_eq, Variant.fixed]
    generalize removeAll locked true s.use vals = r at hr hk
    obtain ⟨u, b⟩ := r
    cases b
    · exact ⟨rfl, same_refl _⟩
    · exact ⟨rfl, hr.2⟩
    · exact absurd rfl hk
  | rollback point =>
    simp only [step, Spec.step]
    cases s.use.rollback point <;> exact ⟨rfl, same_refl _⟩
  | commit => exact ⟨rfl, same_refl _⟩
  | read attr =>
    refine ⟨read_of_inv _ locked s hs attr, ?_⟩
    simp only [step, Spec.step]
    split
    · split <;> exact same_refl _
    · exact same_refl _
  | refusedWrapped =>
    refine ⟨rfl, ?_⟩
    simp [step, Spec.step, PW.rollbackTo, LCS.popN, same_refl]
  | readFail attr => exact ⟨rfl, same_refl _⟩

/-- the sentence of the property, spelled out: under the guard a refused request leaves set, pending changes
and change log exactly as they were -/
theorem refused_request_restores_partial (locked : α → Bool) (s : PW α β) (op : Op α β)
    (hop : (∃ vals, op = .enable vals) ∨ (∃ vals, op = .disable vals))
    (hg : OpGuard locked s.use op)
    (href : (step Variant.fixed locked s op).2 = .bool false) :
    Same (step Variant.fixed locked s op).1.use s.use := by
  rcases hop with ⟨vals, rfl⟩ | ⟨vals, rfl⟩
  · have hr := addAll_rollback locked vals s.use hg
    simp only [step] at href ⊢
    generalize addAll locked s.use vals = r at hr href
    obtain ⟨u, b⟩ := r
    cases b
    · exact hr.2
    · simp at href
  · have hr := removeAll_rollback locked vals s.use hg
    simp only [step, Variant.fixed] at href ⊢
    generalize removeAll locked true s.use vals = r at hr href
    obtain ⟨u, b⟩ := r
    cases b
    · simp at href
    · exact hr.2
    · simp at href

/-- non-vacuity: a refused request satisfying the guard that had already applied a real change -/
example :
    OpGuard (β := Nat) (fun f => f == 9) (LCS.init [1]) (.enable [2, 9]) ∧
    (step Variant.fixed (fun f => f == 9) (PW.init [1] : PW Nat Nat) (.enable [2, 9])).2 = .bool false ∧
    (step Variant.fixed (fun f => f == 9) (PW.init [1] : PW Nat Nat) (.enable [2, 9])).1.use.new = [1] := by
  refine ⟨?_, by decide, by decide⟩
  intro v hv hn
  simp [LCS.init] at hn hv
  omega

/-- without the guard the statement is false (of the model, and of the real code — open finding
`C14-noop-change-rollback`): re-enabling an enabled flag is logged by `LimitedChangeSet.add` and undone by
`rollback` as a removal; symmetrically for disabling a disabled flag -/
theorem refused_request_restores_counterexample :
    (step Variant.fixed (fun f => f == 9) (PW.init [1] : PW Nat Nat) (.enable [1, 9])).2 = .bool false
    ∧ (step Variant.fixed (fun f => f == 9) (PW.init [1] : PW Nat Nat) (.enable [1, 9])).1.use.new = []
    ∧ (step Variant.fixed (fun f => f == 9) (PW.init [9] : PW Nat Nat) (.disable [1, 9])).2 = .bool false
    ∧ (step Variant.fixed (fun f => f == 9) (PW.init [9] : PW Nat Nat) (.disable [1, 9])).1.use.new = [9, 1] := by
  decide

/-- **`rollback` never trips over its own log**: on every state reachable by any history, the keys of the
change log are distinct, are exactly the `_changed` keys, and every `added` entry's key is in the set — so the
`set.remove` calls inside `LimitedChangeSet.rollback` cannot raise, and modelling them as total is exact. -/
theorem rollback_never_misses (v : Variant) (locked : α → Bool) (initial : List α) (ops : List (Op α β)) :
    LogOk (run v locked (PW.init initial) ops).1.use :=
  logOk_run v locked ops _ (logOk_init initial)

example : (run Variant.fixed (fun f => f == 9) (PW.init [1, 9] : PW Nat Nat)
    [.enable [2], .disable [1], .read 0]).1.use.log = [(.removed, 1), (.added, 2)] := by decide

end Pkgcore.C14
